(* CorrClone.v — correspondence checker for C09 (pointer graphs).
   The harness (tools/harness/c09.go) exports the object graph of a library's knowledge base (blueprint) and of an
   instance created from it, both numbered by the same canonical traversal; the instance ids are shifted by cc_off.
   c09_case_diff runs the model's clone_kb on the blueprint graph and checks
     - the exported graph is well formed (children before parents, no dangling child, roots present),
     - the model's clone succeeds exactly when NewKnowledgeBaseInstance did, and exactly when the graph is closed,
     - the observed instance is the model's clone along the model's clone table: node by node (kind, label, children),
       rule entries, the three snapshot maps and the two index maps of the working memory,
     - the observed instance is disjoint from the blueprint.
   Definitions only. *)
From Grule Require Import Base Clone.
Open Scope nat_scope.

Record c09_case := { cc_id : Z; cc_kb : kbg; cc_ok : bool; cc_off : nat; cc_inst : kbg }.

Definition nat_list_eqb (a b : list nat) : bool := list_eqb Nat.eqb a b.

(* inverse of the clone table *)
Definition tinv (t : table) (c : nat) : option nat :=
  match find (fun p => Nat.eqb (snd p) c) t with Some (o, _) => Some o | None => None end.

(* the id of the observed copy of the original of model-copy c *)
Definition to_obs (t : table) (off : nat) (c : nat) : nat :=
  match tinv t c with Some o => o + off | None => 0 end.

Definition node_matches (t : table) (off : nat) (m : node) (o : node) : bool :=
  String.eqb (n_kind m) (n_kind o) && String.eqb (n_label m) (n_label o) &&
  nat_list_eqb (map (to_obs t off) (n_kids m)) (n_kids o).

Definition nodes_match (t : table) (off : nat) (model obs : graph) : bool :=
  Nat.eqb (List.length model) (List.length obs) && Nat.eqb (List.length t) (List.length obs) &&
  forallb (fun p => match glookup (snd p) model, glookup (fst p + off) obs with
                    | Some m, Some o => node_matches t off m o
                    | _, _ => false
                    end) t.

Definition smap_match (t : table) (off : nat) (model obs : list (string * nat)) : bool :=
  list_eqb (fun a b => String.eqb (fst a) (fst b) && Nat.eqb (to_obs t off (snd a)) (snd b)) model obs.

Definition idx_match (t : table) (off : nat) (model obs : list (nat * list nat)) : bool :=
  list_eqb (fun a b => Nat.eqb (to_obs t off (fst a)) (fst b) && nat_list_eqb (map (to_obs t off) (snd a)) (snd b)) model obs.

Definition kb_matches (t : table) (off : nat) (model obs : kbg) : bool :=
  nodes_match t off (g_nodes model) (g_nodes obs) &&
  smap_match t off (g_roots model) (g_roots obs) &&
  smap_match t off (wm_expr (g_wm model)) (wm_expr (g_wm obs)) &&
  smap_match t off (wm_atom (g_wm model)) (wm_atom (g_wm obs)) &&
  smap_match t off (wm_var (g_wm model)) (wm_var (g_wm obs)) &&
  idx_match t off (wm_xidx (g_wm model)) (wm_xidx (g_wm obs)) &&
  idx_match t off (wm_aidx (g_wm model)) (wm_aidx (g_wm obs)).

Definition disjointb (a b : list nat) : bool := forallb (fun x => negb (existsb (Nat.eqb x) b)) a.

Definition c09_case_ok (c : c09_case) : bool :=
  let kb := cc_kb c in
  wf_graphb (g_nodes kb) && roots_okb kb &&
  match clone_kb (S (max_id (g_nodes kb))) (cc_off c) kb with
  | Ok (kb', t, next) =>
      cc_ok c && closedb kb && Nat.ltb (max_id (g_nodes kb)) (cc_off c) &&
      kb_matches t (cc_off c) kb' (cc_inst c) &&
      disjointb (gdom (g_nodes kb)) (gdom (g_nodes (cc_inst c))) &&
      disjointb (gdom (g_nodes kb)) (gdom (g_nodes kb'))
  | Err => negb (cc_ok c) && negb (closedb kb)
  | Panic => false
  end.

Definition c09_case_diff (c : c09_case) : bool := negb (c09_case_ok c).

Definition c09_mismatches (cs : list c09_case) : list Z := map cc_id (filter c09_case_diff cs).
