(* Fresh.v — SPEC: the value of a GRL expression on given facts, computed from
   scratch: no remembered values, no sharing, no state.  This is what the
   property texts call "evaluated from scratch on the fact values of that
   moment".  It reuses the pure leaf functions of Eval.v (operator dispatch,
   field / selector navigation, built-ins) but none of its memo machinery. *)
From Grule Require Import Base Values Syntax CmpGen ArithGen OpsGen EngineAbs Facts Eval.
Open Scope Z_scope.

Section Fresh.
Variable meth : list (string * fval) -> string -> list val -> res (option val * list (string * fval)).

Definition fresh_call (fx : facts) (recv : rval) (f : string) (args : list val) : res rval :=
  match receiver_kind fx recv f args with
  | CallPure r => r
  | CallStruct _ fs =>
      match meth fs f args with
      | Ok (ret, _) => Ok (RV (match ret with Some v => v | None => VNil end))
      | Err => Err
      | Panic => Panic
      end
  end.

(* the control built-ins have no value of interest *)
Definition control_builtin (f : string) : bool :=
  match defunc_kind f with DOther => false | _ => true end.

Fixpoint fresh_expr (fx : facts) (e : expr) {struct e} : res rval :=
  match e with
  | EAtom a => fresh_atom fx a
  | EParen neg e' =>
      match fresh_expr fx e' with
      | Ok v => Ok (if neg then negate v else v)
      | r => r
      end
  | EBin o l r =>
      let lres := fresh_expr fx l in
      match bin_left_fail o lres with
      | Some r0 => r0
      | None =>
          match bin_shortcut o fx lres with
          | Some v => Ok v
          | None => bin_combine o fx lres (fresh_expr fx r)
          end
      end
  end
with fresh_atom (fx : facts) (a : atom) {struct a} : res rval :=
  match a with
  | AConst c => Ok (RV (const_val c))
  | AVar x => fresh_var fx x
  | AFunc f args =>
      match fresh_args fx args with
      | Ok vs => if control_builtin f then Err else defunc_value fx f vs
      | Err => Err
      | Panic => Panic
      end
  | ANeg a' => match fresh_atom fx a' with Ok v => Ok (negate v) | r => r end
  | AMethod a' f args =>
      match fresh_atom fx a' with
      | Ok recv =>
          match fresh_args fx args with
          | Ok vs => fresh_call fx recv f (map (scalar_of fx) vs)
          | Err => Err
          | Panic => Panic
          end
      | r => r
      end
  | AMember a' n => match fresh_atom fx a' with Ok recv => child_field_f fx recv n | r => r end
  | ASel a' sel =>
      match fresh_atom fx a' with
      | Ok recv => match fresh_expr fx sel with Ok k => child_sel_f fx recv (scalar_of fx k) | r => r end
      | r => r
      end
  end
with fresh_var (fx : facts) (x : var) {struct x} : res rval :=
  match x with
  | VName n => match alookup n fx with Some v => Ok (rval_of {| p_root := n; p_steps := [] |} v) | None => Err end
  | VMember x' n => match fresh_var fx x' with Ok r => child_field_f fx r n | r => r end
  | VSel x' sel =>
      match fresh_var fx x' with
      | Ok r => match fresh_expr fx sel with Ok k => child_sel_f fx r (scalar_of fx k) | r' => r' end
      | r => r
      end
  end
with fresh_args (fx : facts) (l : elist) {struct l} : res (list rval) :=
  match l with
  | ENil => Ok []
  | ECons e l' =>
      match fresh_expr fx e with
      | Ok v => match fresh_args fx l' with Ok vs => Ok (v :: vs) | Err => Err | Panic => Panic end
      | Err => Err
      | Panic => Panic
      end
  end.

(* unfolding equations (the mutual fixpoint does not unfold by simpl once the section is closed) *)
Lemma fresh_expr_unfold : forall fx e, fresh_expr fx e =
  match e with
  | EAtom a => fresh_atom fx a
  | EParen neg e' =>
      match fresh_expr fx e' with
      | Ok v => Ok (if neg then negate v else v)
      | r => r
      end
  | EBin o l r =>
      let lres := fresh_expr fx l in
      match bin_left_fail o lres with
      | Some r0 => r0
      | None =>
          match bin_shortcut o fx lres with
          | Some v => Ok v
          | None => bin_combine o fx lres (fresh_expr fx r)
          end
      end
  end.
Proof. intros fx [a|n e'|o l r]; reflexivity. Qed.
Lemma fresh_atom_unfold : forall fx a, fresh_atom fx a =
  match a with
  | AConst c => Ok (RV (const_val c))
  | AVar x => fresh_var fx x
  | AFunc f args =>
      match fresh_args fx args with
      | Ok vs => if control_builtin f then Err else defunc_value fx f vs
      | Err => Err
      | Panic => Panic
      end
  | ANeg a' => match fresh_atom fx a' with Ok v => Ok (negate v) | r => r end
  | AMethod a' f args =>
      match fresh_atom fx a' with
      | Ok recv =>
          match fresh_args fx args with
          | Ok vs => fresh_call fx recv f (map (scalar_of fx) vs)
          | Err => Err
          | Panic => Panic
          end
      | r => r
      end
  | AMember a' n => match fresh_atom fx a' with Ok recv => child_field_f fx recv n | r => r end
  | ASel a' sel =>
      match fresh_atom fx a' with
      | Ok recv => match fresh_expr fx sel with Ok k => child_sel_f fx recv (scalar_of fx k) | r => r end
      | r => r
      end
  end.
Proof. intros fx [c|x|f l|a' f l|a' n|a' e|a']; reflexivity. Qed.
Lemma fresh_var_unfold : forall fx x, fresh_var fx x =
  match x with
  | VName n => match alookup n fx with Some v => Ok (rval_of {| p_root := n; p_steps := [] |} v) | None => Err end
  | VMember x' n => match fresh_var fx x' with Ok r => child_field_f fx r n | r => r end
  | VSel x' sel =>
      match fresh_var fx x' with
      | Ok r => match fresh_expr fx sel with Ok k => child_sel_f fx r (scalar_of fx k) | r' => r' end
      | r => r
      end
  end.
Proof. intros fx [n|x' n|x' sel]; reflexivity. Qed.
Lemma fresh_args_unfold : forall fx l, fresh_args fx l =
  match l with
  | ENil => Ok []
  | ECons e l' =>
      match fresh_expr fx e with
      | Ok v => match fresh_args fx l' with Ok vs => Ok (v :: vs) | Err => Err | Panic => Panic end
      | Err => Err
      | Panic => Panic
      end
  end.
Proof. intros fx [|e l']; reflexivity. Qed.

(* ---- SPEC of the actions: every right-hand side is computed from scratch on the facts
        as left by the preceding action, then stored at the addressed location ---- *)
Definition fresh_target (fx : facts) (x : var) : res target :=
  match x with
  | VName n => Ok (TTop n)
  | VMember x' n =>
      match fresh_var fx x' with
      | Ok (RRef p) => Ok (TField p n)
      | Ok (RV _) => Err
      | Err => Err
      | Panic => Panic
      end
  | VSel x' sel =>
      match fresh_var fx x' with
      | Ok r =>
          match fresh_expr fx sel with
          | Ok k => match r with RRef p => Ok (TIndex p (scalar_of fx k)) | RV _ => Err end
          | Err => Err
          | Panic => Panic
          end
      | Err => Err
      | Panic => Panic
      end
  end.

Inductive sres := SOk (fx : facts) (fxs : list effect) | SFail.

Definition spec_stmt (fx : facts) (st : stmt) : sres :=
  match st with
  | SAssign x o e =>
      match fresh_expr fx e with
      | Ok rv =>
          let v := scalar_of fx rv in
          let nvr := match asg_op o with
                     | None => Ok v
                     | Some f => match fresh_var fx x with
                                 | Ok cur => f (scalar_of fx cur) v
                                 | Err => Err
                                 | Panic => Panic
                                 end
                     end in
          match nvr with
          | Ok nv =>
              match fresh_target fx x with
              | Ok t => match write_target fx t nv with Ok fx' => SOk fx' [] | _ => SFail end
              | _ => SFail
              end
          | _ => SFail
          end
      | _ => SFail
      end
  | SAtom (AFunc f args) =>
      match fresh_args fx args with
      | Ok vs =>
          match defunc_kind f, map (scalar_of fx) vs with
          | DRetract, [VStr n] => SOk fx [FxRetract n]
          | DComplete, [] => SOk fx [FxComplete]
          | DForget, [VStr _] => SOk fx []
          | DOther, _ => match defunc_value fx f vs with Ok _ => SOk fx [] | _ => SFail end
          | _, _ => SFail
          end
      | _ => SFail
      end
  | SAtom a => match fresh_atom fx a with Ok _ => SOk fx [] | _ => SFail end
  end.

(* run the list in order; stop at the first failure, keeping what was done *)
Fixpoint spec_stmts (fx : facts) (l : list stmt) (acc : list effect) : facts * list effect * bool :=
  match l with
  | [] => (fx, acc, false)
  | st :: l' =>
      match spec_stmt fx st with
      | SOk fx' fxs => spec_stmts fx' l' (acc ++ fxs)
      | SFail => (fx, acc, true)
      end
  end.

(* does the condition hold?  (RuleEntry.Evaluate: a boolean true; anything else, including failures, is "no") *)
Definition holds (fx : facts) (cond : expr) : cres :=
  match fresh_expr fx cond with
  | Ok (RV (VBool true)) => CTrue
  | Ok (RV (VBool false)) => CFalse
  | _ => CErr
  end.

(* the SPEC instantiation of the abstract engine: the user state is just the facts *)
Variable rules : list rule.
Definition spec_cond (fx : facts) (e : entry) : facts * cres :=
  match find (fun r => String.eqb (rname r) (e_key e)) rules with
  | Some r => (fx, holds fx (rwhen r))
  | None => (fx, CErr)
  end.
Definition spec_act (fx : facts) (e : entry) : facts * list effect * bool :=
  match find (fun r => String.eqb (rname r) (e_key e)) rules with
  | Some r => spec_stmts fx (rthen r) []
  | None => (fx, [], true)
  end.

End Fresh.
