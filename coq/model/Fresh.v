(* Fresh.v — SPEC: the value of a GRL expression on given facts, computed from
   scratch: no remembered values, no sharing, no state.  This is what the
   property texts call "evaluated from scratch on the fact values of that
   moment".  It reuses the pure leaf functions of Eval.v (operator dispatch,
   field / selector navigation, built-ins) but none of its memo machinery. *)
From Grule Require Import Base Values Syntax CmpGen ArithGen OpsGen EngineAbs Facts Eval.
Open Scope Z_scope.

Section Fresh.
Variable meth : list (string * fval) -> string -> list val -> res (option val * list (string * fval)).

Definition fresh_call (fx : facts) (recv : rval) (f : string) (args : list val) : res rval :=
  match receiver_kind fx recv f args with
  | CallPure r => r
  | CallStruct _ fs =>
      match meth fs f args with
      | Ok (ret, _) => Ok (RV (match ret with Some v => v | None => VNil end))
      | Err => Err
      | Panic => Panic
      end
  end.

(* the control built-ins have no value of interest *)
Definition control_builtin (f : string) : bool :=
  String.eqb f "Retract" || String.eqb f "Complete" || String.eqb f "Forget" || String.eqb f "Changed".

Fixpoint fresh_expr (fx : facts) (e : expr) {struct e} : res rval :=
  match e with
  | EAtom a => fresh_atom fx a
  | EParen neg e' =>
      match fresh_expr fx e' with
      | Ok v => Ok (if neg then negate v else v)
      | r => r
      end
  | EBin o l r =>
      let lres := fresh_expr fx l in
      match bin_left_fail o lres with
      | Some r0 => r0
      | None =>
          match bin_shortcut o fx lres with
          | Some v => Ok v
          | None => bin_combine o fx lres (fresh_expr fx r)
          end
      end
  end
with fresh_atom (fx : facts) (a : atom) {struct a} : res rval :=
  match a with
  | AConst c => Ok (RV (const_val c))
  | AVar x => fresh_var fx x
  | AFunc f args =>
      match fresh_args fx args with
      | Ok vs => if control_builtin f then Err else defunc_value fx f vs
      | Err => Err
      | Panic => Panic
      end
  | ANeg a' => match fresh_atom fx a' with Ok v => Ok (negate v) | r => r end
  | AMethod a' f args =>
      match fresh_atom fx a' with
      | Ok recv =>
          match fresh_args fx args with
          | Ok vs => fresh_call fx recv f (map (scalar_of fx) vs)
          | Err => Err
          | Panic => Panic
          end
      | r => r
      end
  | AMember a' n => match fresh_atom fx a' with Ok recv => child_field_f fx recv n | r => r end
  | ASel a' sel =>
      match fresh_atom fx a' with
      | Ok recv => match fresh_expr fx sel with Ok k => child_sel_f fx recv (scalar_of fx k) | r => r end
      | r => r
      end
  end
with fresh_var (fx : facts) (x : var) {struct x} : res rval :=
  match x with
  | VName n => match alookup n fx with Some v => Ok (rval_of {| p_root := n; p_steps := [] |} v) | None => Err end
  | VMember x' n => match fresh_var fx x' with Ok r => child_field_f fx r n | r => r end
  | VSel x' sel =>
      match fresh_var fx x' with
      | Ok r => match fresh_expr fx sel with Ok k => child_sel_f fx r (scalar_of fx k) | r' => r' end
      | r => r
      end
  end
with fresh_args (fx : facts) (l : elist) {struct l} : res (list rval) :=
  match l with
  | ENil => Ok []
  | ECons e l' =>
      match fresh_expr fx e with
      | Ok v => match fresh_args fx l' with Ok vs => Ok (v :: vs) | Err => Err | Panic => Panic end
      | Err => Err
      | Panic => Panic
      end
  end.

(* unfolding equations (the mutual fixpoint does not unfold by simpl once the section is closed) *)
Lemma fresh_expr_unfold : forall fx e, fresh_expr fx e =
  match e with
  | EAtom a => fresh_atom fx a
  | EParen neg e' =>
      match fresh_expr fx e' with
      | Ok v => Ok (if neg then negate v else v)
      | r => r
      end
  | EBin o l r =>
      let lres := fresh_expr fx l in
      match bin_left_fail o lres with
      | Some r0 => r0
      | None =>
          match bin_shortcut o fx lres with
          | Some v => Ok v
          | None => bin_combine o fx lres (fresh_expr fx r)
          end
      end
  end.
Proof. intros fx [a|n e'|o l r]; reflexivity. Qed.
Lemma fresh_atom_unfold : forall fx a, fresh_atom fx a =
  match a with
  | AConst c => Ok (RV (const_val c))
  | AVar x => fresh_var fx x
  | AFunc f args =>
      match fresh_args fx args with
      | Ok vs => if control_builtin f then Err else defunc_value fx f vs
      | Err => Err
      | Panic => Panic
      end
  | ANeg a' => match fresh_atom fx a' with Ok v => Ok (negate v) | r => r end
  | AMethod a' f args =>
      match fresh_atom fx a' with
      | Ok recv =>
          match fresh_args fx args with
          | Ok vs => fresh_call fx recv f (map (scalar_of fx) vs)
          | Err => Err
          | Panic => Panic
          end
      | r => r
      end
  | AMember a' n => match fresh_atom fx a' with Ok recv => child_field_f fx recv n | r => r end
  | ASel a' sel =>
      match fresh_atom fx a' with
      | Ok recv => match fresh_expr fx sel with Ok k => child_sel_f fx recv (scalar_of fx k) | r => r end
      | r => r
      end
  end.
Proof. intros fx [c|x|f l|a' f l|a' n|a' e|a']; reflexivity. Qed.
Lemma fresh_var_unfold : forall fx x, fresh_var fx x =
  match x with
  | VName n => match alookup n fx with Some v => Ok (rval_of {| p_root := n; p_steps := [] |} v) | None => Err end
  | VMember x' n => match fresh_var fx x' with Ok r => child_field_f fx r n | r => r end
  | VSel x' sel =>
      match fresh_var fx x' with
      | Ok r => match fresh_expr fx sel with Ok k => child_sel_f fx r (scalar_of fx k) | r' => r' end
      | r => r
      end
  end.
Proof. intros fx [n|x' n|x' sel]; reflexivity. Qed.
Lemma fresh_args_unfold : forall fx l, fresh_args fx l =
  match l with
  | ENil => Ok []
  | ECons e l' =>
      match fresh_expr fx e with
      | Ok v => match fresh_args fx l' with Ok vs => Ok (v :: vs) | Err => Err | Panic => Panic end
      | Err => Err
      | Panic => Panic
      end
  end.
Proof. intros fx [|e l']; reflexivity. Qed.

(* does the condition hold?  (RuleEntry.Evaluate: a boolean true; anything else, including failures, is "no") *)
Definition holds (fx : facts) (cond : expr) : cres :=
  match fresh_expr fx cond with
  | Ok (RV (VBool true)) => CTrue
  | Ok (RV (VBool false)) => CFalse
  | _ => CErr
  end.

End Fresh.
