(* BuildGraph.v — how the listener builds the pointer graph of a knowledge base.

   antlr/GruleParserV3Listener.go  every Exit* callback creates the node of a finished sub-tree (its children are finished
                                   before it: bottom-up) and hands Expression / ExpressionAtom / Variable nodes to
   ast/WorkingMemory.go            AddExpression / AddExpressionAtom / AddVariable: if a node with that snapshot is already
                                   registered, the registered node is used and the new one dropped; else it is registered.
   builder/RuleBuilder.go          the finished rule entry is added to the knowledge base — or refused (duplicate name),
                                   in which case the nodes it registered stay in the working memory (D10a).

   The snapshot of a node is modelled by the tree itself (snapshots are injective on trees: C07).  Node ids are drawn
   from a counter; children get their ids before their parent, so the exported numbering (children before parents) is the
   one Clone.v assumes.  Definitions only; proofs in coq/proofs/BuildGraphProofs.v. *)
From Grule Require Import Base Clone.
Open Scope nat_scope.

Fixpoint tree_eqb (a b : tree) : bool :=
  match a, b with
  | Tr k1 l1 ks1, Tr k2 l2 ks2 =>
      String.eqb k1 k2 && String.eqb l1 l2 &&
      (fix go (xs ys : list tree) : bool :=
         match xs, ys with
         | [], [] => true
         | x :: xs', y :: ys' => tree_eqb x y && go xs' ys'
         | _, _ => false
         end) ks1 ks2
  end.

(* the node kinds the working memory interns *)
Definition interned (kind : string) : bool :=
  String.eqb kind "Expression" || String.eqb kind "ExpressionAtom" || String.eqb kind "Variable".

Definition t_kind (t : tree) : string := match t with Tr k _ _ => k end.

Fixpoint wm_find (t : tree) (wm : list (tree * nat)) : option nat :=
  match wm with
  | [] => None
  | (s, i) :: wm' => if tree_eqb t s then Some i else wm_find t wm'
  end.

Record bst := { b_g : graph; b_wm : list (tree * nat); b_next : nat }.

Definition build_kids (bt : tree -> bst -> bst * nat) : list tree -> bst -> bst * list nat :=
  fix go (ks : list tree) (st : bst) : bst * list nat :=
    match ks with
    | [] => (st, [])
    | k :: ks' => let '(sa, i) := bt k st in let '(sb, r) := go ks' sa in (sb, i :: r)
    end.

Fixpoint build_tree (t : tree) (st : bst) : bst * nat :=
  match t with
  | Tr kind label kids =>
      let '(st1, ids) := build_kids build_tree kids st in
      let id := b_next st1 in
      let nd := {| n_kind := kind; n_label := label; n_kids := ids |} in
      if interned kind then
        match wm_find t (b_wm st1) with
        | Some old => (st1, old)                           (* already registered: the new node is dropped *)
        | None => ({| b_g := (id, nd) :: b_g st1; b_wm := (t, id) :: b_wm st1; b_next := S id |}, id)
        end
      else ({| b_g := (id, nd) :: b_g st1; b_wm := b_wm st1; b_next := S id |}, id)
  end.

Record bkb := { k_st : bst; k_roots : list (string * nat) }.
Definition empty_bkb : bkb := {| k_st := {| b_g := []; b_wm := []; b_next := 0 |}; k_roots := [] |}.

(* an accepted rule: its entry is stored under its name *)
Definition add_rule (kb : bkb) (r : string * tree) : bkb :=
  let '(st, id) := build_tree (snd r) (k_st kb) in {| k_st := st; k_roots := (fst r, id) :: k_roots kb |}.

(* a refused rule (duplicate name): the listener has run, the entry is not stored *)
Definition reject_rule (kb : bkb) (r : string * tree) : bkb :=
  let '(st, _) := build_tree (snd r) (k_st kb) in {| k_st := st; k_roots := k_roots kb |}.

Definition build_rules (rs : list (string * tree)) : bkb := fold_left add_rule rs empty_bkb.

(* the knowledge base as Clone.v sees it.  The snapshot maps are merged into one list (their keys play no role for the
   clone); the two index maps hold only nodes of the snapshot maps (IndexVariables) and are left empty. *)
Definition to_kbg (kb : bkb) : kbg :=
  {| g_nodes := b_g (k_st kb); g_roots := k_roots kb;
     g_wm := {| wm_expr := map (fun p => (t_kind (fst p), snd p)) (b_wm (k_st kb)); wm_atom := []; wm_var := []; wm_xidx := []; wm_aidx := [] |} |}.
