(* BuildGraph.v — how the listener builds the pointer graph of a knowledge base.

   antlr/GruleParserV3Listener.go  every Exit* callback creates the node of a finished sub-tree (its children are finished
                                   before it: bottom-up) and hands Expression / ExpressionAtom / Variable nodes to
   ast/WorkingMemory.go            AddExpression / AddExpressionAtom / AddVariable: if a node with that snapshot is already
                                   registered, the registered node is used and the new one dropped; else it is registered.
   builder/RuleBuilder.go          BuildRuleFromResource: KnowledgeBase.Checkpoint() before the walk; the finished rule
   ast/KnowledgeBase.go            entries are added to the knowledge base; when the resource is rejected (duplicate
                                   name, syntax error ...) restore() puts back the rule entries and the three snapshot
                                   maps of the working memory as they were before the walk.  The nodes the walk
                                   created stay on the heap as garbage: nothing points to them any more.

   The snapshot of a node is modelled by the tree itself (snapshots are injective on trees: C07).  Node ids are drawn
   from a counter; children get their ids before their parent, so the exported numbering (children before parents) is the
   one Clone.v assumes.  Definitions only; proofs in coq/proofs/BuildGraphProofs.v. *)
From Grule Require Import Base Clone.
Open Scope nat_scope.

Fixpoint tree_eqb (a b : tree) : bool :=
  match a, b with
  | Tr k1 l1 ks1, Tr k2 l2 ks2 =>
      String.eqb k1 k2 && String.eqb l1 l2 &&
      (fix go (xs ys : list tree) : bool :=
         match xs, ys with
         | [], [] => true
         | x :: xs', y :: ys' => tree_eqb x y && go xs' ys'
         | _, _ => false
         end) ks1 ks2
  end.

(* the node kinds the working memory interns *)
Definition interned (kind : string) : bool :=
  String.eqb kind "Expression" || String.eqb kind "ExpressionAtom" || String.eqb kind "Variable".

Definition t_kind (t : tree) : string := match t with Tr k _ _ => k end.

Fixpoint wm_find (t : tree) (wm : list (tree * nat)) : option nat :=
  match wm with
  | [] => None
  | (s, i) :: wm' => if tree_eqb t s then Some i else wm_find t wm'
  end.

Record bst := { b_g : graph; b_wm : list (tree * nat); b_next : nat }.

Definition build_kids (bt : tree -> bst -> bst * nat) : list tree -> bst -> bst * list nat :=
  fix go (ks : list tree) (st : bst) : bst * list nat :=
    match ks with
    | [] => (st, [])
    | k :: ks' => let '(sa, i) := bt k st in let '(sb, r) := go ks' sa in (sb, i :: r)
    end.

Fixpoint build_tree (t : tree) (st : bst) : bst * nat :=
  match t with
  | Tr kind label kids =>
      let '(st1, ids) := build_kids build_tree kids st in
      let id := b_next st1 in
      let nd := {| n_kind := kind; n_label := label; n_kids := ids |} in
      if interned kind then
        match wm_find t (b_wm st1) with
        | Some old => (st1, old)                           (* already registered: the new node is dropped *)
        | None => ({| b_g := (id, nd) :: b_g st1; b_wm := (t, id) :: b_wm st1; b_next := S id |}, id)
        end
      else ({| b_g := (id, nd) :: b_g st1; b_wm := b_wm st1; b_next := S id |}, id)
  end.

Record bkb := { k_st : bst; k_roots : list (string * nat) }.
Definition empty_bkb : bkb := {| k_st := {| b_g := []; b_wm := []; b_next := 0 |}; k_roots := [] |}.

(* the walk of the listener over one rule: its nodes are built and registered, its entry is stored under its name *)
Definition add_rule (kb : bkb) (r : string * tree) : bkb :=
  let '(st, id) := build_tree (snd r) (k_st kb) in {| k_st := st; k_roots := (fst r, id) :: k_roots kb |}.

Definition walk (kb : bkb) (rs : list (string * tree)) : bkb := fold_left add_rule rs kb.

(* restore(): rule entries and working-memory maps of `old`; the heap (and the id supply) of `new` *)
Definition restore (old new : bkb) : bkb :=
  {| k_st := {| b_g := b_g (k_st new); b_wm := b_wm (k_st old); b_next := b_next (k_st new) |}; k_roots := k_roots old |}.

(* BuildRuleFromResource on a resource (its rules, and whether it is accepted) *)
Definition build_resource (kb : bkb) (res : list (string * tree) * bool) : bkb :=
  let kb' := walk kb (fst res) in if snd res then kb' else restore kb kb'.

Definition build_rules (rs : list (string * tree)) : bkb := walk empty_bkb rs.
Definition build_history (h : list (list (string * tree) * bool)) : bkb := fold_left build_resource h empty_bkb.

(* what the code did before the checkpoint existed (D10a): the walk of a refused rule without restore, entry not stored *)
Definition walk_unrestored (kb : bkb) (r : string * tree) : bkb :=
  let '(st, _) := build_tree (snd r) (k_st kb) in {| k_st := st; k_roots := k_roots kb |}.

(* the knowledge base as Clone.v sees it.  The snapshot maps are merged into one list (their keys play no role for the
   clone); the two index maps hold only nodes of the snapshot maps (IndexVariables) and are left empty. *)
Definition to_kbg (kb : bkb) : kbg :=
  {| g_nodes := b_g (k_st kb); g_roots := k_roots kb;
     g_wm := {| wm_expr := map (fun p => (t_kind (fst p), snd p)) (b_wm (k_st kb)); wm_atom := []; wm_var := []; wm_xidx := []; wm_aidx := [] |} |}.
