(* JsonRule.v — the JSON rule translator of pkg/JsonResource.go.

   Part 1: JSON values and [translate], function by function what parseRule /
   parseWhen / parseThen / buildExpressionEx / buildCompoundOperator /
   joinOperator / joinSet / joinCall / parseOperand / parseCallOperand compute,
   as text.  Numbers are integers (a JSON number that is integral and below
   2^53 in magnitude: fmt.Sprint and FormatFloat 'f' both print its decimal
   digits); other numbers are outside the model.

   Part 2: typed operator trees [jx] (what a JSON rule means), their JSON
   form, the GRL tree the translation is expected to denote ([rule_of]) and the
   operator tree with operands grouped exactly as they are nested ([jtree]).
   Definitions only. *)
From Grule Require Import Base Syntax Lexer Parser GrlPrint.
Open Scope Z_scope.

(* ------------------------------------------------------------------------ *)
(* Part 1                                                                     *)

Inductive jval :=
| JStr (s : string)
| JNum (z : Z)
| JBool (b : bool)
| JNull
| JArr (l : list jval)
| JObj (kvs : list (string * jval)).

Definition show_z (z : Z) : string :=
  if z <? 0 then String (chr 45) (show_dec (- z)) else show_dec z.

Definition bool_text (b : bool) : string := if b then "true"%string else "false"%string.

Definition map_res {A : Type} (f : jval -> res A) : list jval -> res (list A) :=
  fix go (l : list jval) : res (list A) :=
    match l with
    | [] => Ok []
    | x :: l' => match f x with
                 | Ok a => match go l' with Ok r => Ok (a :: r) | Err => Err | Panic => Panic end
                 | Err => Err
                 | Panic => Panic
                 end
    end.

(* the 13 operators translated by joinOperator *)
Definition join_ops : list (string * string) :=
  [("eq", " == "); ("not", " != "); ("gt", " > "); ("gte", " >= "); ("lt", " < "); ("lte", " <= ");
   ("bor", " | "); ("band", " & "); ("plus", " + "); ("minus", " - "); ("div", " / "); ("mul", " * ");
   ("mod", " % ")]%string.

Definition has_suffix_semi (s : string) : bool :=
  match String.length s with
  | O => false
  | S n => match String.get n s with Some c => code c =? 59 | None => false end
  end.

(* parseOperand *)
Definition operand_text (bexf : jval -> Z -> res (string * bool)) (noWrap negation : bool) (x : jval) : res string :=
  match x with
  | JStr s => Ok (if negation then ("!(" ++ s ++ ")")%string else s)
  | JNum z => Ok (show_z z)
  | JBool b => Ok (if negation then ("!(" ++ bool_text b ++ ")")%string else bool_text b)
  | JObj _ =>
      match bexf x 0 with
      | Ok (e, nw) =>
          if negation then Ok ("!(" ++ e ++ ")")%string     (* the lone operand of "not", whatever its form *)
          else if nw || noWrap then Ok e
          else Ok ("(" ++ e ++ ")")%string
      | Err => Err
      | Panic => Panic
      end
  | _ => Err
  end.

(* parseCallOperand *)
Definition call_operand_text (bexf : jval -> Z -> res (string * bool)) (x : jval) : res string :=
  match x with
  | JStr s => if String.eqb s "" then Err else Ok s
  | JNum z => Ok (show_z z)
  | JBool b => Ok (bool_text b)
  | JObj _ => match bexf x 0 with Ok (e, _) => Ok e | Err => Err | Panic => Panic end
  | _ => Err
  end.

(* buildExpressionEx on an object value *)
Fixpoint bex (j : jval) (depth : Z) {struct j} : res (string * bool) :=
  if 1024 <? depth then Err else
  match j with
  | JObj [(key, value)] =>
      if (String.eqb key "and" || String.eqb key "or")%bool then
        (* buildCompoundOperator *)
        match value with
        | JArr l =>
            if (List.length l <? 2)%nat then Err else
            match map_res (fun x => match x with
                                    | JObj _ => match bex x (depth + 1) with Ok (e, _) => Ok e | Err => Err | Panic => Panic end
                                    | _ => Err
                                    end) l with
            | Ok es =>
                let body := str_join (if String.eqb key "and" then " && " else " || ")%string es in
                if 0 <? depth then Ok (("(" ++ body ++ ")")%string, false) else Ok (body, false)
            | Err => Err
            | Panic => Panic
            end
        | _ => Err
        end
      else
      match alookup key join_ops with
      | Some optext =>
          (* joinOperator *)
          match value with
          | JArr [] => Err
          | JArr l =>
              (* a single operand is only meaningful for "not", whose lone operand is negated;
                 with two or more operands "not" is the != operator *)
              let lone := Nat.eqb (List.length l) 1 in
              if lone && negb (String.eqb optext " != ") then Err else
              match map_res (operand_text bex false (String.eqb optext " != " && lone)) l with
              | Ok es => Ok (str_join optext es, false)
              | Err => Err
              | Panic => Panic
              end
          | _ => Err
          end
      | None =>
          if String.eqb key "set" then
            match value with
            | JArr [l; r] =>
                match operand_text bex true false l with
                | Ok ls => match operand_text bex true false r with
                           | Ok rs => Ok ((ls ++ " = " ++ rs)%string, true)
                           | Err => Err | Panic => Panic
                           end
                | Err => Err | Panic => Panic
                end
            | _ => Err
            end
          else if String.eqb key "call" then
            match value with
            | JArr (JStr f :: args) =>
                match map_res (call_operand_text bex) args with
                | Ok es => Ok ((f ++ "(" ++ str_join ", " es ++ ")")%string, true)
                | Err => Err | Panic => Panic
                end
            | _ => Err
            end
          else if String.eqb key "obj" then
            match value with JStr s => Ok (s, true) | _ => Err end
          else if String.eqb key "const" then
            match value with
            | JStr s => Ok (quote s, true)
            | JNum z => Ok (show_z z, true)
            | JBool b => Ok (bool_text b, true)
            | _ => Err
            end
          else Err
      end
  | _ => Err          (* no key: "boolean expression cannot be empty"; several keys: "single operation type" *)
  end.

Record jrule := { jname : string; jdesc : string; jsal : Z; jwhen : jval; jthen : jval }.

Definition when_text (w : jval) : res string :=
  match w with
  | JStr s => Ok s
  | JObj _ => match bex w 0 with Ok (e, _) => Ok e | Err => Err | Panic => Panic end
  | _ => Err
  end.

Definition then_item_text (t : jval) : res string :=
  match t with
  | JStr s => Ok (if has_suffix_semi s then s else (s ++ ";")%string)
  | JObj _ => match bex t 0 with Ok (e, _) => Ok (e ++ ";")%string | Err => Err | Panic => Panic end
  | _ => Err
  end.

Definition nl : string := String (chr 10) EmptyString.

(* parseRule *)
Definition translate (r : jrule) : res string :=
  if String.eqb (jname r) "" then Err else
  match jwhen r with JNull => Err | _ =>
  match jthen r with
  | JArr items =>
      match when_text (jwhen r) with
      | Ok w =>
          match map_res then_item_text items with
          | Ok ts =>
              Ok ("rule " ++ jname r ++ " " ++ quote (jdesc r) ++ " salience " ++ show_z (jsal r) ++ " {" ++ nl ++
                  "    when" ++ nl ++ "        " ++ w ++ nl ++ "    then" ++ nl ++
                  str_concat (map (fun t => "        " ++ t ++ nl) ts) ++ "}" ++ nl)%string
          | Err => Err | Panic => Panic
          end
      | Err => Err | Panic => Panic
      end
  | _ => Err
  end end.

(* ------------------------------------------------------------------------ *)
(* Part 2: typed operator trees                                               *)

Inductive jop := JEq | JNe | JGt | JGte | JLt | JLte | JBor | JBand | JPlus | JMinus | JDiv | JMul | JMod | JAnd | JOr.

Definition jop_key (o : jop) : string :=
  match o with
  | JEq => "eq" | JNe => "not" | JGt => "gt" | JGte => "gte" | JLt => "lt" | JLte => "lte"
  | JBor => "bor" | JBand => "band" | JPlus => "plus" | JMinus => "minus" | JDiv => "div" | JMul => "mul"
  | JMod => "mod" | JAnd => "and" | JOr => "or"
  end%string.

Definition jop_op (o : jop) : op :=
  match o with
  | JEq => OEq | JNe => ONEq | JGt => OGT | JGte => OGTE | JLt => OLT | JLte => OLTE
  | JBor => OBitOr | JBand => OBitAnd | JPlus => OAdd | JMinus => OSub | JDiv => ODiv | JMul => OMul
  | JMod => OMod | JAnd => OAnd | JOr => OOr
  end.

Definition is_compound (o : jop) : bool := match o with JAnd | JOr => true | _ => false end.

(* the head of a call: a built-in / function name, or a method of a receiver *)
Inductive chead := HFun (f : string) | HMeth (recv : atom) (m : string).

Inductive jx :=
| XPlain (a : atom)                         (* "F.X" — a plain string operand: the text of an atom *)
| XNum (z : Z)                              (* 12 *)
| XBool (b : bool)                          (* true *)
| XObj (a : atom)                           (* {"obj": "F.X"} *)
| XConstS (s : string)                      (* {"const": "text"} *)
| XConstN (z : Z)                           (* {"const": 12} *)
| XConstB (b : bool)                        (* {"const": true} *)
| XOp (o : jop) (args : jxs)                (* {"plus": [ ... ]} *)
| XCall (h : chead) (args : jxs)            (* {"call": ["F.M", ... ]} *)
with jxs := XNil | XCons (x : jx) (l : jxs).

Scheme jx_mut := Induction for jx Sort Prop
  with jxs_mut := Induction for jxs Sort Prop.
Combined Scheme jx_mutind from jx_mut, jxs_mut.

Inductive jst :=
| TPlain (s : stmt) (semi : bool)           (* "F.X = 1;" or without the semicolon *)
| TSet (x : var) (as_obj : bool) (rhs : jx) (* {"set": ["F.X" | {"obj":"F.X"}, rhs]} *)
| TCall (h : chead) (args : jxs).           (* {"call": [...]} *)

Inductive jcond := WPlain (e : expr) | WTree (x : jx).

Record trule := { tname : string; tdesc : string; tsal : Z; twhen : jcond; tthen : list jst }.

(* the text of plain GRL snippets: tokens followed by one space *)
Definition atom_text_sp (a : atom) : string := render (atoks a []).
Definition head_text (h : chead) : string :=
  match h with
  | HFun f => render [TName f]
  | HMeth recv m => render (atoks recv [TDot; TName m])
  end.

Fixpoint jxs_map {A : Type} (f : jx -> A) (l : jxs) : list A :=
  match l with XNil => [] | XCons x l' => f x :: jxs_map f l' end.

(* ---- to JSON ---- *)
Fixpoint x_json (x : jx) : jval :=
  match x with
  | XPlain a => JStr (atom_text_sp a)
  | XNum z => JNum z
  | XBool b => JBool b
  | XObj a => JObj [("obj"%string, JStr (atom_text_sp a))]
  | XConstS s => JObj [("const"%string, JStr s)]
  | XConstN z => JObj [("const"%string, JNum z)]
  | XConstB b => JObj [("const"%string, JBool b)]
  | XOp o args => JObj [(jop_key o, JArr (xs_json args))]
  | XCall h args => JObj [("call"%string, JArr (JStr (head_text h) :: xs_json args))]
  end
with xs_json (l : jxs) : list jval :=
  match l with XNil => [] | XCons x l' => x_json x :: xs_json l' end.

Fixpoint drop_last (s : string) : string :=
  match s with
  | EmptyString => EmptyString
  | String c EmptyString => EmptyString
  | String c s' => String c (drop_last s')
  end.

Definition st_json (t : jst) : jval :=
  match t with
  | TPlain s semi => JStr (drop_last (render (if semi then stoks s [] else removelast (stoks s []))))
  | TSet x as_obj rhs =>
      JObj [("set"%string, JArr [ (if as_obj then JObj [("obj"%string, JStr (render (vtoks x [])))] else JStr (render (vtoks x [])));
                                    x_json rhs ])]
  | TCall h args => JObj [("call"%string, JArr (JStr (head_text h) :: xs_json args))]
  end.

Definition cond_json (w : jcond) : jval :=
  match w with WPlain e => JStr (render (etoks e [])) | WTree x => x_json x end.

Definition rule_json (r : trule) : jrule :=
  {| jname := tname r; jdesc := tdesc r; jsal := tsal r; jwhen := cond_json (twhen r);
     jthen := JArr (map st_json (tthen r)) |}.

(* ---- the GRL tree the translation is expected to denote ---- *)
Definition const_atom_n (z : Z) : atom := AConst (CInt z).

Definition call_atom (h : chead) (args : elist) : atom :=
  match h with HFun f => AFunc f args | HMeth recv m => AMethod recv m args end.

Fixpoint fold_bin (o : op) (acc : expr) (l : list expr) : expr :=
  match l with [] => acc | e :: l' => fold_bin o (EBin o acc e) l' end.

Definition join_exprs (o : op) (l : list expr) : expr :=
  match l with [] => EAtom (AConst CNil) | e :: l' => fold_bin o e l' end.

(* x_top d x: buildExpressionEx(x, d) for an object-valued x (d = true: depth > 0);
   x_opnd neg x: parseOperand(x, false, neg);  x_arg x: parseCallOperand / set operand (no wrapping) *)
(* a lone operand of "not" is negated, whatever its form (a plain number is left as it is) *)
Definition neg_flag (o : jop) (args : jxs) : bool :=
  match o, args with JNe, XCons _ XNil => true | _, _ => false end.

Fixpoint x_top (deep : bool) (x : jx) : expr :=
  match x with
  | XPlain a => EAtom a
  | XNum z => EAtom (const_atom_n z)
  | XBool b => EAtom (AConst (CBool b))
  | XObj a => EAtom a
  | XConstS s => EAtom (AConst (CStr s))
  | XConstN z => EAtom (const_atom_n z)
  | XConstB b => EAtom (AConst (CBool b))
  | XOp o args =>
      if is_compound o then
        let body := join_exprs (jop_op o) (xs_elems args) in
        if deep then EParen false body else body
      else join_exprs (jop_op o) (xs_opnds (neg_flag o args) args)
  | XCall h args => EAtom (call_atom h (xs_args args))
  end
with xs_elems (l : jxs) : list expr :=            (* elements of and / or: built one level deeper *)
  match l with XNil => [] | XCons x l' => x_top true x :: xs_elems l' end
with xs_opnds (neg : bool) (l : jxs) : list expr :=
  match l with
  | XNil => []
  | XCons x l' =>
      (match x with
       | XOp _ _ => EParen neg (x_top false x)
       | XNum _ => x_top false x                  (* a number is left as it is *)
       | _ => if neg then EParen true (x_top false x) else x_top false x
       end) :: xs_opnds neg l'
  end
with xs_args (l : jxs) : elist :=
  match l with XNil => ENil | XCons x l' => ECons (x_top false x) (xs_args l') end.

Definition st_of (t : jst) : stmt :=
  match t with
  | TPlain s _ => s
  | TSet x _ rhs => SAssign x AsSet (x_top false rhs)
  | TCall h args => SAtom (call_atom h (xs_args args))
  end.

Definition cond_of (w : jcond) : expr := match w with WPlain e => e | WTree x => x_top false x end.

Definition rule_of (r : trule) : rule :=
  {| rname := tname r; rdesc := tdesc r; rsal := tsal r; rwhen := cond_of (twhen r);
     rthen := map st_of (tthen r) |}.

(* ---- the operator tree with operands grouped exactly as they are nested:
        no brackets at all; a lone operand of "not" is logically negated, with two or
        more operands "not" is != ---- *)
Fixpoint jtree (x : jx) : expr :=
  match x with
  | XPlain a => EAtom a
  | XNum z => EAtom (const_atom_n z)
  | XBool b => EAtom (AConst (CBool b))
  | XObj a => EAtom a
  | XConstS s => EAtom (AConst (CStr s))
  | XConstN z => EAtom (const_atom_n z)
  | XConstB b => EAtom (AConst (CBool b))
  | XOp o args =>
      match o, args with
      | JNe, XCons y XNil => EParen true (jtree y)
      | _, _ => join_exprs (jop_op o) (jtrees args)
      end
  | XCall h args => EAtom (call_atom h (jargs args))
  end
with jtrees (l : jxs) : list expr :=
  match l with XNil => [] | XCons x l' => jtree x :: jtrees l' end
with jargs (l : jxs) : elist :=
  match l with XNil => ENil | XCons x l' => ECons (jtree x) (jargs l') end.

Definition cond_tree (w : jcond) : expr := match w with WPlain e => e | WTree x => jtree x end.
