(* Syntax.v — the GRL abstract syntax, one constructor per shape the ANTLR
   listener (antlr/GruleParserV3Listener.go) can build.  ast/*.go node types. *)
From Grule Require Import Base.
Open Scope Z_scope.

Inductive op := OMul | ODiv | OMod | OAdd | OSub | OBitAnd | OBitOr
              | OGT | OLT | OGTE | OLTE | OEq | ONEq | OAnd | OOr.

Definition op_eqb (a b : op) : bool :=
  match a, b with
  | OMul, OMul | ODiv, ODiv | OMod, OMod | OAdd, OAdd | OSub, OSub | OBitAnd, OBitAnd | OBitOr, OBitOr
  | OGT, OGT | OLT, OLT | OGTE, OGTE | OLTE, OLTE | OEq, OEq | ONEq, ONEq | OAnd, OAnd | OOr, OOr => true
  | _, _ => false
  end.

(* constants: a float is kept by its IEEE-754 binary64 bit pattern *)
Inductive const := CStr (s : string) | CInt (z : Z) | CFloat (bits : Z) | CBool (b : bool) | CNil.

Inductive expr :=
| EAtom (a : atom)
| EParen (neg : bool) (e : expr)             (* [!] ( e ) *)
| EBin (o : op) (l r : expr)
with atom :=
| AConst (c : const)
| AVar (v : var)
| AFunc (f : string) (args : elist)          (* f(args)  — a built-in of DEFUNC *)
| AMethod (a : atom) (f : string) (args : elist)   (* a.f(args) *)
| AMember (a : atom) (n : string)            (* a.n *)
| ASel (a : atom) (sel : expr)               (* a[sel] *)
| ANeg (a : atom)                            (* !a *)
with var :=
| VName (n : string)
| VMember (v : var) (n : string)
| VSel (v : var) (sel : expr)
with elist :=
| ENil
| ECons (e : expr) (l : elist).

Scheme expr_mut := Induction for expr Sort Prop
  with atom_mut := Induction for atom Sort Prop
  with var_mut := Induction for var Sort Prop
  with elist_mut := Induction for elist Sort Prop.
Combined Scheme syntax_mutind from expr_mut, atom_mut, var_mut, elist_mut.

Inductive asg := AsSet | AsAdd | AsSub | AsMul | AsDiv.
Inductive stmt := SAssign (x : var) (o : asg) (e : expr) | SAtom (a : atom).

Record rule := { rname : string; rdesc : string; rsal : Z; rwhen : expr; rthen : list stmt }.

Fixpoint elist_to_list (l : elist) : list expr :=
  match l with ENil => [] | ECons e l' => e :: elist_to_list l' end.
Fixpoint elist_of_list (l : list expr) : elist :=
  match l with [] => ENil | e :: l' => ECons e (elist_of_list l') end.
