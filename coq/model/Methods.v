(* Methods.v — the Gallina twin of the harness' fact library
   (tools/harness/factlib.go): the methods of type Fact, receiver by pointer.
   Each returns (optional result, receiver fields afterwards). *)
From Coq Require Import Floats.
From Grule Require Import Base Values Facts.
Open Scope Z_scope.
Open Scope string_scope.

Definition get_i64 (fs : list (string * fval)) (n : string) : Z :=
  match field_get fs n with Some (FV (VInt _ z)) => z | _ => 0 end.

Definition fact_meth (fs : list (string * fval)) (m : string) (args : list val) : res (option val * list (string * fval)) :=
  match m, args with
  | "GetI64", [] => Ok (Some (VInt I64 (get_i64 fs "I64")), fs)
  | "Sum", [VInt I64 a; VInt I64 b] => Ok (Some (VInt I64 (i64_add a b)), fs)
  | "Concat", l =>
      if forallb (fun v => match v with VStr _ => true | _ => false end) l
      then Ok (Some (VStr (str_concat (map as_string l))), fs)
      else Panic
  | "Inc", [] => Ok (None, field_set fs "I64" (FV (VInt I64 (i64_add (get_i64 fs "I64") 1))))
  | "AddTo", [VInt I64 n] =>
      let v := i64_add (get_i64 fs "I64") n in
      Ok (Some (VInt I64 v), field_set fs "I64" (FV (VInt I64 v)))
  | "IsPos", [VFloat F64 x] => Ok (Some (VBool (f_gt x PrimFloat.zero)), fs)
  | "Boom", [] => Panic
  | "Two", [] => Err                                   (* returns two values: not supported by the engine *)
  (* methods of the nested type Inner *)
  | "Double", [] => Ok (Some (VInt I64 (i64_mul (get_i64 fs "X") 2)), fs)
  (* known method, wrong argument types or count: reflect.Call panics *)
  | "GetI64", _ | "Sum", _ | "Inc", _ | "AddTo", _ | "IsPos", _ | "Boom", _ | "Two", _ | "Double", _ => Panic
  | _, _ => Err                                        (* no such method *)
  end.

Definition fact_panics_inside (m : string) (args : list val) : bool :=
  match m, args with "Boom", [] => true | _, _ => false end.
