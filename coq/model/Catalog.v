(* Catalog.v — catalog <-> knowledge base.
   ast/Serializer.go Catalog.BuildKnowledgeBase (metas keyed by AstID with child
   references -> node graph), read here as trees (coq/model/Syntax.v) in the way the
   evaluator reads the graph (the order of the tests in Expression.Evaluate,
   ExpressionAtom.Evaluate, Variable.Evaluate, Assignment.Execute, ThenExpression.Execute);
   the working-memory part of the catalog (snapshot maps, invalidation index of
   WorkingMemory.IndexVariables); and the reverse direction, the metas of a rule list
   (MakeCatalog of every node kind).  Definitions only. *)
From Grule Require Import Base Syntax OpsGen Snapshot Printer CodecPrim Codec.
Local Open Scope N_scope.
Local Open Scope list_scope.

Definition nonempty (s : string) : bool := match s with EmptyString => false | _ => true end.

(* ast/Expression.go: OpMul … OpOr = iota (anchored by proofs/AnchorsCodec.v) *)
Definition op_code (o : op) : Z :=
  match o with
  | OMul => 0 | ODiv => 1 | OMod => 2 | OAdd => 3 | OSub => 4 | OBitAnd => 5 | OBitOr => 6
  | OGT => 7 | OLT => 8 | OGTE => 9 | OLTE => 10 | OEq => 11 | ONEq => 12 | OAnd => 13 | OOr => 14
  end%Z.

Definition op_of_code (z : Z) : option op :=
  match z with
  | 0 => Some OMul | 1 => Some ODiv | 2 => Some OMod | 3 => Some OAdd | 4 => Some OSub
  | 5 => Some OBitAnd | 6 => Some OBitOr | 7 => Some OGT | 8 => Some OLT | 9 => Some OGTE
  | 10 => Some OLTE | 11 => Some OEq | 12 => Some ONEq | 13 => Some OAnd | 14 => Some OOr
  | _ => None
  end%Z.

(* ---- constants: Constant.MakeCatalog / the TypeConstant case of BuildKnowledgeBase ---- *)
Definition const_vtype (c : const) : Z :=
  match c with CStr _ => vt_String | CInt _ => vt_Integer | CFloat _ => vt_Float | CBool _ => vt_Boolean | CNil => 0%Z end.

Definition const_vbytes (c : const) : list byte :=
  match c with
  | CStr s => enc_bytes (list_ascii_of_string s)
  | CInt z => enc_u64 (u64_of_int z)
  | CFloat b => enc_u64 (Z.to_N b)
  | CBool b => enc_bool b
  | CNil => []
  end.

Definition const_of_meta (vtype : Z) (vbytes : list byte) (is_nil : bool) : res const :=
  if is_nil then Ok CNil                                    (* Constant.Evaluate tests IsNil first *)
  else if (vtype =? vt_String)%Z then
    match read_bytes vbytes with Ok (l, _) => Ok (CStr (string_of_list_ascii l)) | _ => Err end
  else if (vtype =? vt_Integer)%Z then
    match read_u64 vbytes with Ok (n, _) => Ok (CInt (int_of_u64 n)) | _ => Err end
  else if (vtype =? vt_Float)%Z then
    match read_u64 vbytes with Ok (n, _) => Ok (CFloat (Z.of_N n)) | _ => Err end
  else if (vtype =? vt_Boolean)%Z then
    match read_bool vbytes with Ok (b, _) => Ok (CBool b) | _ => Err end
  else Err.

(* ---- graph -> trees ---- *)
Fixpoint unfold_ids (ue : string -> res expr) (ids : list string) : res elist :=
  match ids with
  | [] => Ok ENil
  | i :: t => do e <- ue i; do l <- unfold_ids ue t; Ok (ECons e l)
  end.

Section Unfold.
  Variable data : list (string * meta).

  Definition find (id : string) : option meta := alookup id data.

  Definition asg_of_flags (a p mi d mu : bool) : option asg :=
    if a then Some AsSet else if p then Some AsAdd else if mi then Some AsSub
    else if mu then Some AsMul else if d then Some AsDiv else None.

  Fixpoint unfold_expr (fuel : nat) (id : string) {struct fuel} : res expr :=
    match fuel with
    | O => Err
    | S f =>
        match find id with
        | Some (MExpression _ l r s a o n) =>
            if nonempty a then do x <- unfold_atom f a; Ok (EAtom x)
            else if nonempty s then do e <- unfold_expr f s; Ok (EParen n e)
            else if nonempty l && nonempty r then
              match op_of_code o with
              | Some o' => do x <- unfold_expr f l; do y <- unfold_expr f r; Ok (EBin o' x y)
              | None => Err
              end
            else Err
        | _ => Err
        end
    end
  with unfold_atom (fuel : nat) (id : string) {struct fuel} : res atom :=
    match fuel with
    | O => Err
    | S f =>
        match find id with
        | Some (MExpressionAtom _ vn c fc v n a s) =>
            if nonempty c then
              match find c with
              | Some (MConstant _ t b isnil) => do k <- const_of_meta t b isnil; Ok (AConst k)
              | _ => Err
              end
            else if nonempty v then do x <- unfold_var f v; Ok (AVar x)
            else if negb (nonempty a) then
              if nonempty fc then
                match find fc with
                | Some (MFunctionCall _ fname al) =>
                    match find al with
                    | Some (MArgumentList _ ids) =>
                        do args <- unfold_ids (unfold_expr f) ids;
                        Ok (AFunc fname args)
                    | _ => Err
                    end
                | _ => Err
                end
              else Err
            else (* a nested atom *)
              if negb (nonempty fc) && negb (nonempty vn) && negb (nonempty s) then
                if n then do x <- unfold_atom f a; Ok (ANeg x) else Err
              else if nonempty fc then
                match find fc with
                | Some (MFunctionCall _ fname al) =>
                    match find al with
                    | Some (MArgumentList _ ids) =>
                        do x <- unfold_atom f a;
                        do args <- unfold_ids (unfold_expr f) ids;
                        Ok (AMethod x fname args)
                    | _ => Err
                    end
                | _ => Err
                end
              else if nonempty vn then do x <- unfold_atom f a; Ok (AMember x vn)
              else
                match find s with
                | Some (MArrayMapSelector _ e) =>
                    do x <- unfold_atom f a; do sel <- unfold_expr f e; Ok (ASel x sel)
                | _ => Err
                end
        | _ => Err
        end
    end
  with unfold_var (fuel : nat) (id : string) {struct fuel} : res var :=
    match fuel with
    | O => Err
    | S f =>
        match find id with
        | Some (MVariable _ name v s) =>
            if nonempty name && negb (nonempty v) then Ok (VName name)
            else if nonempty v && nonempty name then do x <- unfold_var f v; Ok (VMember x name)
            else if nonempty v && nonempty s then
              match find s with
              | Some (MArrayMapSelector _ e) =>
                  do x <- unfold_var f v; do sel <- unfold_expr f e; Ok (VSel x sel)
              | _ => Err
              end
            else Err
        | _ => Err
        end
    end.

  Definition unfold_stmt (fuel : nat) (id : string) : res stmt :=
    match find id with
    | Some (MThenExpression _ asg_id atom_id) =>
        if nonempty asg_id then
          match find asg_id with
          | Some (MAssignment _ v e a p mi d mu) =>
              match asg_of_flags a p mi d mu with
              | Some o => do x <- unfold_var fuel v; do rhs <- unfold_expr fuel e; Ok (SAssign x o rhs)
              | None => Err
              end
          | _ => Err
          end
        else if nonempty atom_id then do a <- unfold_atom fuel atom_id; Ok (SAtom a)
        else Err
    | _ => Err
    end.

  Fixpoint unfold_stmts (fuel : nat) (ids : list string) : res (list stmt) :=
    match ids with
    | [] => Ok []
    | i :: t => do s <- unfold_stmt fuel i; do l <- unfold_stmts fuel t; Ok (s :: l)
    end.

  Definition unfold_rule (fuel : nat) (m : meta) : res rule :=
    match m with
    | MRuleEntry _ name desc sal when_id then_id =>
        match find when_id, find then_id with
        | Some (MWhenScope _ e), Some (MThenScope _ l) =>
            match find l with
            | Some (MThenExpressionList _ ids) =>
                do w <- unfold_expr fuel e;
                do t <- unfold_stmts fuel ids;
                Ok {| rname := name; rdesc := desc; rsal := sal; rwhen := w; rthen := t |}
            | _ => Err
            end
        | _, _ => Err
        end
    | _ => Err
    end.

  Fixpoint unfold_rules (fuel : nat) (l : list (string * meta)) : res (list rule) :=
    match l with
    | [] => Ok []
    | (_, (MRuleEntry _ _ _ _ _ _) as m) :: t =>
        do r <- unfold_rule fuel m; do rs <- unfold_rules fuel t; Ok (r :: rs)
    | _ :: t => unfold_rules fuel t
    end.
End Unfold.

(* the rules of a catalog, in the order in which their RuleEntry metas stand in Data;
   the depth of a tree is bounded by the number of metas *)
Definition kb_of_catalog (c : catalog) : res (list rule) :=
  unfold_rules (c_data c) (S (List.length (c_data c))) (c_data c).

(* ---- the working-memory part: what WorkingMemory.IndexVariables computes ----
   for every variable of the variable snapshot map, the expressions (atoms) whose
   snapshot contains the variable's snapshot, as a set *)
Fixpoint subsetb (a b : list string) : bool :=
  match a with
  | [] => true
  | x :: a' => existsb (String.eqb x) b && subsetb a' b
  end.
Definition same_set (a b : list string) : bool := subsetb a b && subsetb b a.

Definition index_expected (vsnap : string) (snaps : list (string * string)) : list string :=
  map snd (filter (fun p => containsb (fst p) vsnap) snaps).

Definition index_entry_ok (snaps : list (string * string)) (index : list (string * list string)) (v : string * string) : bool :=
  match alookup (snd v) index with
  | Some ids => same_set ids (index_expected (fst v) snaps)
  | None => false
  end.

Definition wm_index_ok (c : catalog) : bool :=
  forallb (index_entry_ok (c_exprsnap c) (c_exprvar c)) (c_varsnap c) &&
  forallb (index_entry_ok (c_atomsnap c) (c_atomvar c)) (c_varsnap c) &&
  (List.length (c_exprvar c) =? List.length (c_varsnap c))%nat &&
  (List.length (c_atomvar c) =? List.length (c_varsnap c))%nat.

(* every snapshot-map entry points at a meta of the right kind carrying that snapshot *)
Definition snap_entry_ok (data : list (string * meta)) (tag : N) (p : string * string) : bool :=
  match alookup (snd p) data with
  | Some m => (meta_tag m =? tag) && String.eqb (nm_snap (meta_nm m)) (fst p)
  | None => false
  end.

Definition count_tag (data : list (string * meta)) (tag : N) : nat :=
  List.length (filter (fun e => meta_tag (snd e) =? tag) data).

(* … and every Expression / ExpressionAtom / Variable meta is registered *)
Definition wm_maps_ok (c : catalog) : bool :=
  forallb (snap_entry_ok (c_data c) tag_Variable) (c_varsnap c) &&
  forallb (snap_entry_ok (c_data c) tag_Expression) (c_exprsnap c) &&
  forallb (snap_entry_ok (c_data c) tag_ExpressionAtom) (c_atomsnap c) &&
  (List.length (c_varsnap c) =? count_tag (c_data c) tag_Variable)%nat &&
  (List.length (c_exprsnap c) =? count_tag (c_data c) tag_Expression)%nat &&
  (List.length (c_atomsnap c) =? count_tag (c_data c) tag_ExpressionAtom)%nat.

(* ---- trees -> metas: MakeCatalog of every node kind, WITHOUT the sharing of equal
   sub-expressions that the working memory introduces and without the working-memory
   maps.  AstIDs are paths: the node at path p has its children at p ++ one letter per
   child slot; list elements sit at p++"h", p++"th", p++"tth", … ---- *)
Local Open Scope string_scope.

Definition mk_nm (id grl snap : string) : node_meta := {| nm_id := id; nm_grl := grl; nm_snap := snap |}.
Definition is_cnil (c : const) : bool := match c with CNil => true | _ => false end.

Fixpoint ids_args (p : string) (l : elist) : list string :=
  match l with ENil => [] | ECons _ l' => (p ++ "h") :: ids_args (p ++ "t") l' end.

Fixpoint cat_expr (p : string) (e : expr) : list (string * meta) :=
  let nm := mk_nm p (expr_text e) (expr_snapshot e) in
  match e with
  | EAtom a => (p, MExpression nm "" "" "" (p ++ "a") 0 false) :: cat_atom (p ++ "a") a
  | EParen n e' => (p, MExpression nm "" "" (p ++ "s") "" 0 n) :: cat_expr (p ++ "s") e'
  | EBin o l r => (p, MExpression nm (p ++ "l") (p ++ "r") "" "" (op_code o) false)
                  :: (cat_expr (p ++ "l") l ++ cat_expr (p ++ "r") r)%list
  end
with cat_atom (p : string) (a : atom) : list (string * meta) :=
  let nm := mk_nm p (atom_text a) (atom_snapshot a) in
  match a with
  | AConst c => [(p, MExpressionAtom nm "" (p ++ "c") "" "" false "" "");
                 (p ++ "c", MConstant (mk_nm (p ++ "c") (const_text c) (snap_const c "")) (const_vtype c) (const_vbytes c) (is_cnil c))]
  | AVar v => (p, MExpressionAtom nm "" "" "" (p ++ "v") false "" "") :: cat_var (p ++ "v") v
  | AFunc f args =>
      (p, MExpressionAtom nm "" "" (p ++ "f") "" false "" "")
      :: (p ++ "f", MFunctionCall (mk_nm (p ++ "f") (f ++ "(" ++ args_text args ++ ")") ("F(n:" ++ f ++ ",AL(" ++ snap_args args "))")) f (p ++ "g"))
      :: (p ++ "g", MArgumentList (mk_nm (p ++ "g") (args_text args) ("AL(" ++ snap_args args ")")) (ids_args (p ++ "k") args))
      :: cat_args (p ++ "k") args
  | AMethod a' f args =>
      (p, MExpressionAtom nm "" "" (p ++ "f") "" false (p ++ "x") "")
      :: (p ++ "f", MFunctionCall (mk_nm (p ++ "f") (f ++ "(" ++ args_text args ++ ")") ("F(n:" ++ f ++ ",AL(" ++ snap_args args "))")) f (p ++ "g"))
      :: (p ++ "g", MArgumentList (mk_nm (p ++ "g") (args_text args) ("AL(" ++ snap_args args ")")) (ids_args (p ++ "k") args))
      :: (cat_atom (p ++ "x") a' ++ cat_args (p ++ "k") args)%list
  | AMember a' n => (p, MExpressionAtom nm n "" "" "" false (p ++ "x") "") :: cat_atom (p ++ "x") a'
  | ASel a' sel =>
      (p, MExpressionAtom nm "" "" "" "" false (p ++ "x") (p ++ "s"))
      :: (p ++ "s", MArrayMapSelector (mk_nm (p ++ "s") ("[" ++ expr_text sel ++ "]") ("MAS(" ++ snap_expr sel ")")) (p ++ "i"))
      :: (cat_atom (p ++ "x") a' ++ cat_expr (p ++ "i") sel)%list
  | ANeg a' => (p, MExpressionAtom nm "" "" "" "" true (p ++ "x") "") :: cat_atom (p ++ "x") a'
  end
with cat_var (p : string) (v : var) : list (string * meta) :=
  let nm := mk_nm p (var_text v) (var_snapshot v) in
  match v with
  | VName n => [(p, MVariable nm n "" "")]
  | VMember v' n => (p, MVariable nm n (p ++ "v") "") :: cat_var (p ++ "v") v'
  | VSel v' sel =>
      (p, MVariable nm "" (p ++ "v") (p ++ "s"))
      :: (p ++ "s", MArrayMapSelector (mk_nm (p ++ "s") ("[" ++ expr_text sel ++ "]") ("MAS(" ++ snap_expr sel ")")) (p ++ "i"))
      :: (cat_var (p ++ "v") v' ++ cat_expr (p ++ "i") sel)%list
  end
with cat_args (p : string) (l : elist) : list (string * meta) :=
  match l with
  | ENil => []
  | ECons e l' => (cat_expr (p ++ "h") e ++ cat_args (p ++ "t") l')%list
  end.

Definition asg_flags (o : asg) : bool * bool * bool * bool * bool :=   (* IsAssign, IsPlusAssign, IsMinusAssign, IsDivAssign, IsMulAssign *)
  match o with
  | AsSet => (true, false, false, false, false)
  | AsAdd => (false, true, false, false, false)
  | AsSub => (false, false, true, false, false)
  | AsDiv => (false, false, false, true, false)
  | AsMul => (false, false, false, false, true)
  end.

Definition cat_stmt (p : string) (s : stmt) : list (string * meta) :=
  let nm := mk_nm p "" (snap_stmt s "") in
  match s with
  | SAssign x o e =>
      match asg_flags o with
      | (a, pl, mi, d, mu) =>
          (p, MThenExpression nm (p ++ "q") "")
          :: (p ++ "q", MAssignment (mk_nm (p ++ "q") (var_text x ++ asg_text o ++ expr_text e) "") (p ++ "v") (p ++ "e") a pl mi d mu)
          :: (cat_var (p ++ "v") x ++ cat_expr (p ++ "e") e)%list
      end
  | SAtom a => (p, MThenExpression nm "" (p ++ "x")) :: cat_atom (p ++ "x") a
  end.

Fixpoint ids_list {A} (p : string) (l : list A) : list string :=
  match l with [] => [] | _ :: l' => (p ++ "h") :: ids_list (p ++ "t") l' end.

Fixpoint cat_stmts (p : string) (l : list stmt) : list (string * meta) :=
  match l with
  | [] => []
  | s :: l' => (cat_stmt (p ++ "h") s ++ cat_stmts (p ++ "t") l')%list
  end.

Definition cat_rule (p : string) (r : rule) : list (string * meta) :=
  (p, MRuleEntry (mk_nm p "" (rule_snapshot r)) (rname r) (rdesc r) (rsal r) (p ++ "w") (p ++ "n"))
  :: (p ++ "w", MWhenScope (mk_nm (p ++ "w") (expr_text (rwhen r)) ("WS(" ++ snap_expr (rwhen r) ")")) (p ++ "e"))
  :: (p ++ "n", MThenScope (mk_nm (p ++ "n") "" ("TS(TEL(" ++ snap_stmts (rthen r) "))")) (p ++ "o"))
  :: (p ++ "o", MThenExpressionList (mk_nm (p ++ "o") "" ("TEL(" ++ snap_stmts (rthen r) ")")) (ids_list (p ++ "m") (rthen r)))
  :: (cat_expr (p ++ "e") (rwhen r) ++ cat_stmts (p ++ "m") (rthen r))%list.

Fixpoint cat_rules (p : string) (l : list rule) : list (string * meta) :=
  match l with
  | [] => []
  | r :: l' => (cat_rule (p ++ "h") r ++ cat_rules (p ++ "t") l')%list
  end.

Definition catalog_of_kb (name version : string) (rs : list rule) : catalog :=
  {| c_name := name; c_version := version; c_data := cat_rules "" rs;
     c_memname := name; c_memversion := version;
     c_varsnap := []; c_exprsnap := []; c_atomsnap := []; c_exprvar := []; c_atomvar := [] |}.

(* what the inverse theorem needs of the trees: names the evaluator tests for emptiness are
   not empty, constants are representable (int64, 64 float bits, string length < 2^64) *)
Definition const_ok (c : const) : bool :=
  match c with
  | CStr s => str_ok s
  | CInt z => int_ok z
  | CFloat b => ((0 <=? b) && (b <? Z.of_N two64))%Z
  | _ => true
  end.

Fixpoint expr_ok (e : expr) : bool :=
  match e with
  | EAtom a => atom_ok a
  | EParen _ e' => expr_ok e'
  | EBin _ l r => expr_ok l && expr_ok r
  end
with atom_ok (a : atom) : bool :=
  match a with
  | AConst c => const_ok c
  | AVar v => var_ok v
  | AFunc _ args => args_ok args
  | AMethod a' _ args => atom_ok a' && args_ok args
  | AMember a' n => atom_ok a' && nonempty n
  | ASel a' sel => atom_ok a' && expr_ok sel
  | ANeg a' => atom_ok a'
  end
with var_ok (v : var) : bool :=
  match v with
  | VName n => nonempty n
  | VMember v' n => var_ok v' && nonempty n
  | VSel v' sel => var_ok v' && expr_ok sel
  end
with args_ok (l : elist) : bool :=
  match l with ENil => true | ECons e l' => expr_ok e && args_ok l' end.

Definition stmt_ok (s : stmt) : bool :=
  match s with SAssign x _ e => var_ok x && expr_ok e | SAtom a => atom_ok a end.
Definition rule_ok (r : rule) : bool := expr_ok (rwhen r) && forallb stmt_ok (rthen r).
Definition rules_ok (rs : list rule) : bool := forallb rule_ok rs.

(* ---- removed rules (engine commit 01c7ce8) ----
   RuleEntry.Deleted is not a field of the stream.  RemoveRuleEntry renames a removed rule to
   "Deleted_" ++ <uuid> and sets the flag; BuildKnowledgeBase sets Deleted exactly for rule
   names of that form (isTombstoneName: the prefix, then 36 characters that uuid.Parse accepts:
   hex digits with '-' at positions 8, 13, 18, 23). *)
Definition tombstone_prefix : string := "Deleted_".
Definition uuid_length : nat := 36.

Definition is_hex (c : ascii) : bool :=
  let n := N_of_ascii c in
  ((48 <=? n)%N && (n <=? 57)%N) || ((97 <=? n)%N && (n <=? 102)%N) || ((65 <=? n)%N && (n <=? 70)%N).
Definition is_dash (c : ascii) : bool := (N_of_ascii c =? 45)%N.

Fixpoint uuid_chars (i : nat) (s : string) : bool :=
  match s with
  | EmptyString => true
  | String c s' =>
      (if orb (Nat.eqb i 8) (orb (Nat.eqb i 13) (orb (Nat.eqb i 18) (Nat.eqb i 23))) then is_dash c else is_hex c)
      && uuid_chars (S i) s'
  end.

Definition is_uuid (s : string) : bool := Nat.eqb (String.length s) uuid_length && uuid_chars 0 s.

Fixpoint strip_prefix (p s : string) : option string :=
  match p with
  | EmptyString => Some s
  | String c p' => match s with
                   | String d s' => if Ascii.eqb c d then strip_prefix p' s' else None
                   | EmptyString => None
                   end
  end.

Definition is_tombstone_name (name : string) : bool :=
  match strip_prefix tombstone_prefix name with
  | Some rest => is_uuid rest
  | None => false
  end.

(* a rule entry of a knowledge base: the rule and its Deleted flag *)
Record kb_entry := { ke_rule : rule; ke_deleted : bool }.

(* BuildKnowledgeBase: the rules of the catalog, each flagged by its name *)
Definition entries_of_catalog (c : catalog) : res (list kb_entry) :=
  do rs <- kb_of_catalog c;
  Ok (map (fun r => {| ke_rule := r; ke_deleted := is_tombstone_name (rname r) |}) rs).

(* MakeCatalog does not look at the flag *)
Definition catalog_of_entries (name version : string) (es : list kb_entry) : catalog :=
  catalog_of_kb name version (map ke_rule es).

(* what every knowledge base satisfies: the flag is set exactly on tombstones *)
Definition entry_consistent (e : kb_entry) : bool := Bool.eqb (ke_deleted e) (is_tombstone_name (rname (ke_rule e))).
Definition entries_consistent (es : list kb_entry) : bool := forallb entry_consistent es.

(* KnowledgeLibrary.RemoveRuleEntry / KnowledgeBase.RemoveRuleEntry with the fresh uuid u *)
Definition rename_rule (n : string) (r : rule) : rule :=
  {| rname := n; rdesc := rdesc r; rsal := rsal r; rwhen := rwhen r; rthen := rthen r |}.
Fixpoint remove_rule (u name : string) (es : list kb_entry) : list kb_entry :=
  match es with
  | [] => []
  | e :: es' =>
      if String.eqb (rname (ke_rule e)) name
      then {| ke_rule := rename_rule (tombstone_prefix ++ u) (ke_rule e); ke_deleted := true |} :: es'
      else e :: remove_rule u name es'
  end.

(* a rule name of the grammar (SIMPLENAME) has no '-' *)
Fixpoint no_dash (s : string) : bool :=
  match s with EmptyString => true | String c s' => negb (is_dash c) && no_dash s' end.
