(* Facts.v — tree-shaped fact store (Go backend), paths, reads and writes with
   the numeric conversion table of model.SetNumberValue.
   model/GoDataAccessLayer.go, ast/DataContext.go, pkg/reflectools.go *)
From Coq Require Import Floats.
From Grule Require Import Base Values.
Open Scope Z_scope.

Inductive fval :=
| FV (v : val)                                (* scalar: numbers of every kind, string, bool, time.Time *)
| FStruct (fs : list (string * fval))         (* struct value *)
| FPtr (tgt : option fval)                    (* pointer to struct (owned target) or nil *)
| FSlice (xs : list fval)                     (* slice *)
| FMap (kvs : list (string * fval)).          (* map[string]T *)

Definition facts := list (string * fval).     (* the data context: name -> object *)

Inductive step := SField (n : string) | SIndex (i : Z) | SKey (k : string).
Record path := { p_root : string; p_steps : list step }.
Definition path_snoc (p : path) (s : step) : path := {| p_root := p_root p; p_steps := p_steps p ++ [s] |}.

(* What an evaluated node holds: a copy of a scalar, or a reference to an
   aggregate location (pointers, slices, maps and addressable structs are
   shared with the caller's memory: later reads through them see later writes). *)
Inductive rval := RV (v : val) | RRef (p : path).

(* ---- navigation ---- *)
Fixpoint field_get (fs : list (string * fval)) (n : string) : option fval :=
  match fs with
  | [] => None
  | (k, v) :: fs' => if String.eqb k n then Some v else field_get fs' n
  end.
Fixpoint field_set (fs : list (string * fval)) (n : string) (x : fval) : list (string * fval) :=
  match fs with
  | [] => []
  | (k, v) :: fs' => if String.eqb k n then (k, x) :: fs' else (k, v) :: field_set fs' n x
  end.

Fixpoint nth_z {A} (l : list A) (i : Z) : option A :=
  match l with
  | [] => None
  | x :: l' => if i =? 0 then Some x else if i <? 0 then None else nth_z l' (i - 1)
  end.
Fixpoint set_nth_z {A} (l : list A) (i : Z) (x : A) : list A :=
  match l with
  | [] => []
  | y :: l' => if i =? 0 then x :: l' else y :: set_nth_z l' (i - 1) x
  end.

(* one navigation step from a stored value; pointers are dereferenced on the way, as the access layer does *)
Definition step_get (v : fval) (s : step) : res fval :=
  match s, v with
  | SField n, FStruct fs => match field_get fs n with Some x => Ok x | None => Err end
  | SField n, FPtr (Some (FStruct fs)) => match field_get fs n with Some x => Ok x | None => Err end
  | SField n, FPtr None => Panic                     (* Elem() of a nil pointer, then FieldByName on the zero Value *)
  | SField _, _ => Err                               (* not an object *)
  | SIndex i, FSlice xs => match nth_z xs i with Some x => Ok x | None => Err end   (* recovered index panic *)
  | SIndex _, _ => Err
  | SKey k, FMap kvs => match field_get kvs k with Some x => Ok x | None => Err end
  | SKey _, _ => Err
  end.

Fixpoint steps_get (v : fval) (ss : list step) : res fval :=
  match ss with
  | [] => Ok v
  | s :: ss' => match step_get v s with Ok x => steps_get x ss' | Err => Err | Panic => Panic end
  end.

Definition path_get (fx : facts) (p : path) : res fval :=
  match alookup (p_root p) fx with
  | Some v => steps_get v (p_steps p)
  | None => Err
  end.

(* replace the value at the end of a chain of steps; None if the chain does not exist *)
Fixpoint steps_set (v : fval) (ss : list step) (x : fval) : option fval :=
  match ss with
  | [] => Some x
  | s :: ss' =>
      match s, v with
      | SField n, FStruct fs =>
          match field_get fs n with
          | Some c => match steps_set c ss' x with Some c' => Some (FStruct (field_set fs n c')) | None => None end
          | None => None
          end
      | SField n, FPtr (Some (FStruct fs)) =>
          match field_get fs n with
          | Some c => match steps_set c ss' x with Some c' => Some (FPtr (Some (FStruct (field_set fs n c')))) | None => None end
          | None => None
          end
      | SIndex i, FSlice xs =>
          match nth_z xs i with
          | Some c => match steps_set c ss' x with Some c' => Some (FSlice (set_nth_z xs i c')) | None => None end
          | None => None
          end
      | SKey k, FMap kvs =>
          match field_get kvs k with
          | Some c => match steps_set c ss' x with Some c' => Some (FMap (field_set kvs k c')) | None => None end
          | None => match ss' with
                    | [] => Some (FMap (kvs ++ [(k, x)]))       (* SetMapIndex adds a missing key *)
                    | _ => None
                    end
          end
      | _, _ => None
      end
  end.

Definition path_set (fx : facts) (p : path) (x : fval) : option facts :=
  match alookup (p_root p) fx with
  | Some v => match steps_set v (p_steps p) x with Some v' => Some (aupdate (p_root p) v' fx) | None => None end
  | None => None
  end.

(* the value a node holds for a stored value found at path p *)
Definition rval_of (p : path) (v : fval) : rval :=
  match v with FV x => RV x | _ => RRef p end.

(* the scalar handed to the operator tables: aggregates appear as opaque kinds *)
Definition scalar_of (fx : facts) (r : rval) : val :=
  match r with
  | RV v => v
  | RRef p => match path_get fx p with
              | Ok (FStruct _) => VOpaque KStruct "struct"
              | Ok (FPtr None) => VPtr None
              | Ok (FPtr (Some _)) => VPtr (Some (VOpaque KStruct "struct"))
              | Ok (FSlice _) => VOpaque KSlice "slice"
              | Ok (FMap _) => VOpaque KMap "map"
              | Ok (FV v) => v
              | _ => VNil
              end
  end.

(* ---- model.SetNumberValue: numeric assignment converts to the destination kind ---- *)
Definition int_range (k : ikind) : Z * Z :=
  match k with
  | I8 => (-128, 127) | I16 => (-32768, 32767) | I32 => (-2147483648, 2147483647)
  | Iw | I64 => (- two63, two63 - 1)
  end.
Definition uint_max (k : ukind) : Z :=
  match k with U8 => 255 | U16 => 65535 | U32 => 4294967295 | Uw | U64 | Uptr => two64 - 1 end.

(* Go truncates to the width on SetInt / SetUint *)
Definition wrap_int (k : ikind) (z : Z) : Z :=
  let '(lo, hi) := int_range k in
  let w := hi - lo + 1 in ((z - lo) mod w) + lo.
Definition wrap_uint (k : ukind) (z : Z) : Z := z mod (uint_max k + 1).

(* int64(f) for a finite float inside the int64 range: truncation toward zero *)
Definition trunc_float (f : float) : option Z :=
  match Prim2SF f with
  | SpecFloat.S754_zero _ => Some 0
  | SpecFloat.S754_finite s m e =>
      let mag := if 0 <=? e then Zpos m * 2 ^ e else Zpos m / 2 ^ (- e) in
      Some (if s then - mag else mag)
  | _ => None
  end.

(* float32(x): round a float64 to the nearest binary32 (ties to even), as a float64 *)
Definition round_to_f32 (f : float) : float :=
  match Prim2SF f with
  | SpecFloat.S754_finite s m e =>
      (* keep 24 significant bits: value = m * 2^e with m < 2^53 *)
      let bits := Z.log2 (Zpos m) + 1 in
      let drop := Z.max (bits - 24) (-149 - e) in          (* subnormal floor of binary32: 2^-149 *)
      if drop <=? 0 then f
      else
        let q := Zpos m / 2 ^ drop in
        let r := Zpos m mod 2 ^ drop in
        let half := 2 ^ (drop - 1) in
        let q' := if r <? half then q else if half <? r then q + 1 else if Z.even q then q else q + 1 in
        let mag := Z.ldexp (PrimFloat.of_uint63 (Uint63.of_Z q')) (e + drop) in
        (* overflow beyond max float32 becomes infinity *)
        let mag := if PrimFloat.ltb (Z.ldexp (PrimFloat.of_uint63 (Uint63.of_Z 16777215)) 104) mag then PrimFloat.infinity else mag in
        if s then PrimFloat.opp mag else mag
  | _ => f
  end.

Definition is_number (v : val) : bool :=
  match v with VInt _ _ | VUint _ _ | VFloat _ _ => true | _ => false end.

(* destination scalar dst (its kind is kept) receives number src *)
Definition set_number (dst src : val) : res val :=
  match dst with
  | VInt k _ =>
      match src with
      | VUint _ z => Ok (VInt k (wrap_int k (wrap64 z)))
      | VFloat _ f => match trunc_float f with Some z => Ok (VInt k (wrap_int k (wrap64 z))) | None => Ok (VInt k (wrap_int k (- two63))) end
      | VInt _ z => Ok (VInt k (wrap_int k z))
      | _ => Err
      end
  | VUint k _ =>
      match src with
      | VUint _ z => Ok (VUint k (wrap_uint k z))
      | VFloat _ f => match trunc_float f with Some z => Ok (VUint k (wrap_uint k (wrapu64 z))) | None => Ok (VUint k (wrap_uint k two63)) end
      | VInt _ z => Ok (VUint k (wrap_uint k (wrapu64 z)))
      | _ => Err
      end
  | VFloat k _ =>
      let conv := fun f => match k with F32 => round_to_f32 f | F64 => f end in
      match src with
      | VUint _ z => Ok (VFloat k (conv (f64_of_u64 z)))
      | VFloat _ f => Ok (VFloat k (conv f))
      | VInt _ z => Ok (VFloat k (conv (f64_of_i64 z)))
      | _ => Err
      end
  | _ => Err
  end.

(* reflect's assignability for fieldVal.Set(newValue): identical Go types only *)
Definition same_go_type (a b : val) : bool :=
  match a, b with
  | VInt k1 _, VInt k2 _ => ikind_eqb k1 k2
  | VUint k1 _, VUint k2 _ => ukind_eqb k1 k2
  | VFloat k1 _, VFloat k2 _ => fkind_eqb k1 k2
  | VStr _, VStr _ | VBool _, VBool _ | VTime _, VTime _ => true
  | _, _ => false
  end.

(* store src into a location currently holding dst (field or slice element) *)
Definition store_scalar (dst : fval) (src : val) : res fval :=
  match dst with
  | FV d =>
      if is_number d && is_number src then
        match set_number d src with Ok v => Ok (FV v) | _ => Err end
      else if same_go_type d src then Ok (FV src)
      else Err                                   (* reflect.Set panics, recovered into an error *)
  | _ => Err                                     (* assigning over aggregates is outside the modelled fragment *)
  end.

(* map entries: SetMapIndex needs exactly the element type *)
Definition store_map_elem (existing : option fval) (elem_example : option fval) (src : val) : res fval :=
  match elem_example with
  | Some (FV d) => if same_go_type d src then Ok (FV src) else Err
  | _ => Err
  end.

(* ---- structural equality of stored values (for the correspondence) ---- *)
Fixpoint fval_eqb (a b : fval) : bool :=
  match a, b with
  | FV x, FV y => val_eqb x y
  | FStruct f1, FStruct f2 =>
      (fix go (l1 l2 : list (string * fval)) : bool :=
         match l1, l2 with
         | [], [] => true
         | (k1, v1) :: t1, (k2, v2) :: t2 => String.eqb k1 k2 && fval_eqb v1 v2 && go t1 t2
         | _, _ => false
         end) f1 f2
  | FPtr None, FPtr None => true
  | FPtr (Some x), FPtr (Some y) => fval_eqb x y
  | FSlice l1, FSlice l2 =>
      (fix go (l1 l2 : list fval) : bool :=
         match l1, l2 with
         | [], [] => true
         | v1 :: t1, v2 :: t2 => fval_eqb v1 v2 && go t1 t2
         | _, _ => false
         end) l1 l2
  | FMap f1, FMap f2 =>
      (fix go (l1 l2 : list (string * fval)) : bool :=
         match l1, l2 with
         | [], [] => true
         | (k1, v1) :: t1, (k2, v2) :: t2 => String.eqb k1 k2 && fval_eqb v1 v2 && go t1 t2
         | _, _ => false
         end) f1 f2
  | _, _ => false
  end.

Definition facts_eqb (a b : facts) : bool :=
  list_eqb (fun x y => String.eqb (fst x) (fst y) && fval_eqb (snd x) (snd y)) a b.
