(* CorrCodec.v — executable comparison functions for the C12 / C20 correspondence shards
   (cases_k.v written by tools/harness/c12.go).  Nothing here is used by a theorem. *)
From Grule Require Import Base Syntax Printer CodecPrim Codec Catalog.
Local Open Scope N_scope.
Local Open Scope list_scope.

Definition hexval (c : ascii) : N :=
  let n := N_of_ascii c in
  if n <? 58 then n - 48 else n - 87.          (* 0-9, a-f *)

Fixpoint bytes_of_hex (s : string) : list byte :=
  match s with
  | String a (String b r) => ascii_of_N (16 * hexval a + hexval b) :: bytes_of_hex r
  | _ => []
  end.

Definition asg_eqb (a b : asg) : bool :=
  match a, b with
  | AsSet, AsSet | AsAdd, AsAdd | AsSub, AsSub | AsMul, AsMul | AsDiv, AsDiv => true
  | _, _ => false
  end.

Definition stmt_eqb (a b : stmt) : bool :=
  match a, b with
  | SAssign x o e, SAssign x' o' e' => var_eqb x x' && asg_eqb o o' && expr_eqb e e'
  | SAtom x, SAtom y => atom_eqb x y
  | _, _ => false
  end.

Definition rule_eqb (a b : rule) : bool :=
  String.eqb (rname a) (rname b) && String.eqb (rdesc a) (rdesc b) && Z.eqb (rsal a) (rsal b) &&
  expr_eqb (rwhen a) (rwhen b) && list_eqb stmt_eqb (rthen a) (rthen b).

(* same rules up to order (rule names are unique in a knowledge base) *)
Definition rules_match (got want : list rule) : bool :=
  (List.length got =? List.length want)%nat &&
  forallb (fun w => existsb (rule_eqb w) got) want.

Fixpoint bytes_eqb (a b : list byte) : bool :=
  match a, b with
  | [], [] => true
  | x :: a', y :: b' => Ascii.eqb x y && bytes_eqb a' b'
  | _, _ => false
  end.

Record c12_case := {
  cc_id : Z;
  cc_hex : list string;          (* the stream written by the real StoreKnowledgeBaseToWriter, hex, in pieces *)
  cc_name : string;
  cc_version : string;
  cc_rules : list rule;          (* the rules that were built (tombstone names for removed ones) *)
  cc_deleted : list string;      (* the names of the entries whose Deleted flag is set in the stored knowledge base *)
  cc_loaded_deleted : list string; (* … and in the knowledge base the real loader built from the stream *)
  cc_writes : N;                 (* number of Write calls the real store made *)
  cc_cuts : list N               (* sampled truncation offsets, all < length *)
}.

(* 0 = agreement; otherwise the number of the first clause that fails *)
Definition c12_diff (k : c12_case) : Z :=
  let bs := flat_map bytes_of_hex (cc_hex k) in
  match decode bs with
  | Ok c =>
      if negb (String.eqb (c_name c) (cc_name k) && String.eqb (c_version c) (cc_version k)) then 2
      else if negb (wf_catalog c) then 3
      else if negb (bytes_eqb (encode c) bs) then 4
      else match kb_of_catalog c with
           | Ok rs =>
               if negb (rules_match rs (cc_rules k)) then 6
               else if negb (match entries_of_catalog c with
                             | Ok es => forallb (fun e => Bool.eqb (ke_deleted e) (existsb (String.eqb (rname (ke_rule e))) (cc_deleted k))) es
                             | _ => false
                             end) then 11
               else if negb (match entries_of_catalog c with
                             | Ok es => forallb (fun e => Bool.eqb (ke_deleted e) (existsb (String.eqb (rname (ke_rule e))) (cc_loaded_deleted k))) es
                             | _ => false
                             end) then 12
               else if negb (wm_maps_ok c) then 7
               else if negb (wm_index_ok c) then 8
               else if negb (N.of_nat (List.length (catalog_chunks c)) =? cc_writes k)%N then 9
               else if negb (forallb (fun n => negb (is_ok (decode (firstn (N.to_nat n) bs)))) (cc_cuts k)) then 10
               else 0
           | _ => 5
           end
  | _ => 1
  end%Z.

Definition c12_mismatches (cs : list c12_case) : list Z :=
  fold_right (fun k acc => if (c12_diff k =? 0)%Z then acc else cc_id k :: acc) [] cs.

(* for debugging a shard by hand *)
Definition c12_diffs (cs : list c12_case) : list (Z * Z) := map (fun k => (cc_id k, c12_diff k)) cs.

(* the reverse direction: the model encodes the catalog of a rule list (hex), the real loader reads it *)
Definition hex_digit_of (n : N) : ascii := if n <? 10 then ascii_of_N (48 + n) else ascii_of_N (87 + n).
Fixpoint hex_of_bytes (l : list byte) : string :=
  match l with
  | [] => EmptyString
  | b :: t => let n := N_of_ascii b in String (hex_digit_of (n / 16)) (String (hex_digit_of (n mod 16)) (hex_of_bytes t))
  end.

(* ---- C20, binary stream: (id, bytes, accepted by Catalog.ReadCatalogFromReader, bytes requested
   according to the harness' mirror decoder, saturating at 2^62) ---- *)
Definition c20_case : Type := (Z * list string * bool * N)%type.

Definition c20_diff (k : c20_case) : bool :=
  match k with
  | (_, hx, accepted, requested) =>
      let bs := flat_map bytes_of_hex hx in
      Bool.eqb (is_ok (decode bs)) accepted &&
      (if requested =? 4611686018427387904 then 4611686018427387904 <=? alloc_decode bs
       else alloc_decode bs =? requested)
  end.

Definition c20_mismatches (cs : list c20_case) : list Z :=
  fold_right (fun k acc => if c20_diff k then acc else fst (fst (fst k)) :: acc) [] cs.
