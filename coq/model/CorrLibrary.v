(* CorrLibrary.v — correspondence checker for C16 (and the history part of C09).
   The harness (tools/harness/c16.go) runs an operation history on the real
   KnowledgeLibrary / RuleBuilder / GruleEngine, probes after every step every
   (name,version) key (fresh instance: Execute with a listener, and
   FetchMatchingRules) and every live instance (FetchMatchingRules), and writes
   the history with everything it saw as a c16_case.  c16_case_diff replays the
   history on Library.step and returns the steps where model and implementation
   disagree.  Definitions only. *)
From Grule Require Import Base EngineGen EngineAbs Library.
Open Scope Z_scope.

(* what the generated rule texts say:
     rule <name> "p<id>" salience <s> { when F.I64 >= <thr> then F.S = F.S + "#<id>;"; Retract("<self>"); [F.Zap("<zap>");] } *)
Record body := { b_id : Z; b_thr : Z; b_zap : option string; b_self : string }.

Definition c_holds (b : body) (f : Z) : bool := b_thr b <=? f.
Definition c_order (_ : nat) (es : kb body) : kb body := es.

Definition c_step := step body Z c_holds b_self b_zap c_order.
Definition c_probe := probe_lib body Z c_holds b_self b_zap c_order.
Definition c_fetch := fetch_kb body Z c_holds.

(* ---- observations ---- *)
Record ocyc := { oc_evals : list (string * bool); oc_fired : option (string * Z) }.
Record oprobe := { pb_trace : list ocyc; pb_finished : bool; pb_fetched : list string }.
Inductive ores := OBuildRes (err : bool) | OInstRes (ok : bool) | OExecRes (tr : list ocyc) (fin : bool) | ONone.

Record c16_stepobs := { so_op : op body Z;
                        so_res : ores;
                        so_fact : Z;                                  (* fact value of the probes after this step *)
                        so_lib : list (string * option oprobe);        (* per key: None = "knowledge base does not exist" *)
                        so_insts : list (list string) }.               (* per live instance: names returned by FetchMatchingRules *)
Record c16_case := { c16_id : Z; c16_fuel : nat; c16_steps : list c16_stepobs }.

(* ---- comparison (sets of names; the firing sequence is compared in order: saliences are distinct) ---- *)
Definition mem_str (x : string) (l : list string) : bool := existsb (String.eqb x) l.
Definition set_eq_str (a b : list string) : bool := forallb (fun x => mem_str x b) a && forallb (fun x => mem_str x a) b.

Definition ev_eqb (a b : string * bool) : bool := String.eqb (fst a) (fst b) && Bool.eqb (snd a) (snd b).
Definition mem_ev (x : string * bool) (l : list (string * bool)) : bool := existsb (ev_eqb x) l.
Definition set_eq_ev (a b : list (string * bool)) : bool :=
  forallb (fun x => mem_ev x b) a && forallb (fun x => mem_ev x a) b && Nat.eqb (List.length a) (List.length b).

Definition fired_eqb (m : option (string * body)) (o : option (string * Z)) : bool :=
  match m, o with
  | None, None => true
  | Some (k, b), Some (k', i) => String.eqb k k' && (b_id b =? i)
  | _, _ => false
  end.

Definition cyc_eqb (m : cyc body) (o : ocyc) : bool :=
  set_eq_ev (cy_evals m) (oc_evals o) && fired_eqb (cy_fired m) (oc_fired o).

Definition trace_eqb (m : list (cyc body)) (o : list ocyc) : bool :=
  Nat.eqb (List.length m) (List.length o) && forallb (fun p => cyc_eqb (fst p) (snd p)) (combine m o).

Definition res_eqb (m : result body) (o : ores) : bool :=
  match m, o with
  | RBuild e, OBuildRes e' => Bool.eqb e e'
  | RInst k, OInstRes k' => Bool.eqb k k'
  | RExec tr fin, OExecRes tr' fin' => trace_eqb tr tr' && Bool.eqb fin fin'
  | RUnit, ONone => true
  | _, _ => false
  end.

Definition probe_eqb (fuel : nat) (f : Z) (s : state body) (p : string * option oprobe) : bool :=
  match c_probe fuel f s (fst p), snd p with
  | None, None => true
  | Some (tr, fin, fetched), Some o =>
      trace_eqb tr (pb_trace o) && Bool.eqb fin (pb_finished o) && set_eq_str fetched (pb_fetched o)
  | _, _ => false
  end.

Definition insts_eqb (f : Z) (s : state body) (obs : list (list string)) : bool :=
  Nat.eqb (List.length (st_insts s)) (List.length obs) &&
  forallb (fun p => set_eq_str (c_fetch f (i_kb (fst p))) (snd p)) (combine (st_insts s) obs).

Definition step_ok (fuel : nat) (s : state body) (o : c16_stepobs) : state body * bool :=
  let '(s', r) := c_step s (so_op o) in
  (s', res_eqb r (so_res o) &&
       forallb (probe_eqb fuel (so_fact o) s') (so_lib o) && insts_eqb (so_fact o) s' (so_insts o)).

Fixpoint steps_diff (fuel : nat) (i : nat) (s : state body) (l : list c16_stepobs) : list nat :=
  match l with
  | [] => []
  | o :: t => let '(s', ok) := step_ok fuel s o in
              if ok then steps_diff fuel (S i) s' t else i :: steps_diff fuel (S i) s' t
  end.

(* the indices of the steps at which model and implementation differ *)
Definition c16_case_diff (c : c16_case) : list nat := steps_diff (c16_fuel c) 0 (init body) (c16_steps c).

Definition c16_mismatches (cs : list c16_case) : list Z :=
  map c16_id (filter (fun c => match c16_case_diff c with [] => false | _ => true end) cs).
