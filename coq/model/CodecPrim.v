(* CodecPrim.v — byte-level primitives of the binary knowledge-base stream (GRB).
   ast/Serializer.go: WriteStringToWriter / ReadStringFromReader, WriteIntToWriter /
   ReadIntFromReader, WriteBoolToWriter / ReadBoolFromReader, the raw byte block of
   ConstantMeta, and the count-prefixed string slices.

   A byte is an [ascii] (8 bits), a stream is a [list byte].  Every reader is a total
   function [list byte -> res (A * list byte)]: a short read is [Err] (io.EOF /
   io.ErrUnexpectedEOF / io.ErrShortBuffer in the Go code).  Definitions only; the
   proofs are in coq/proofs/CodecProofs.v. *)
From Grule Require Import Base.
Local Open Scope N_scope.
Local Open Scope list_scope.

Notation byte := ascii (only parsing).

(* ---- fixed-width little-endian integers (binary.LittleEndian.PutUint64 / Uint64) ---- *)
Fixpoint le_bytes (k : nat) (n : N) : list byte :=
  match k with
  | O => []
  | S k' => ascii_of_N (n mod 256) :: le_bytes k' (n / 256)
  end.

Fixpoint le_val (l : list byte) : N :=
  match l with
  | [] => 0
  | a :: l' => N_of_ascii a + 256 * le_val l'
  end.

Definition two64 : N := 18446744073709551616.
Definition two63 : N := 9223372036854775808.

(* uint64(x) of a Go int, and int(u) of a uint64: two's complement reinterpretation *)
Definition u64_of_int (z : Z) : N := Z.to_N (z mod (Z.of_N two64)).
Definition int_of_u64 (n : N) : Z := if n <? two63 then Z.of_N n else (Z.of_N n - Z.of_N two64)%Z.

(* ---- taking n bytes off the stream (io.ReadFull into a buffer of n bytes) ----
   structural on the stream, so that a huge length prefix costs nothing *)
Fixpoint take_N (n : N) (bs : list byte) {struct bs} : option (list byte * list byte) :=
  match n with
  | N0 => Some ([], bs)
  | _ => match bs with
         | [] => None
         | b :: t => match take_N (N.pred n) t with
                     | Some (h, r) => Some (b :: h, r)
                     | None => None
                     end
         end
  end.

Definition reader (A : Type) := list byte -> res (A * list byte).
Definition writer (A : Type) := A -> list byte.

Definition read_raw (n : N) : reader (list byte) :=
  fun bs => match take_N n bs with Some hr => Ok hr | None => Err end.

(* WriteIntToWriter / ReadIntFromReader *)
Definition enc_u64 : writer N := fun n => le_bytes 8 n.
Definition read_u64 : reader N :=
  fun bs => do (h, r) <- read_raw 8 bs; Ok (le_val h, r).

(* WriteStringToWriter / ReadStringFromReader: 8-byte length, then the bytes *)
Definition enc_str : writer string :=
  fun s => let l := list_ascii_of_string s in enc_u64 (N.of_nat (List.length l)) ++ l.
Definition read_str : reader string :=
  fun bs => do (n, r) <- read_u64 bs; do (h, r') <- read_raw n r; Ok (string_of_list_ascii h, r').

(* WriteBoolToWriter / ReadBoolFromReader: one byte, 1 = true; any other byte reads as false *)
Definition one_byte : byte := ascii_of_N 1.
Definition zero_byte : byte := ascii_of_N 0.
Definition enc_bool : writer bool := fun b => [if b then one_byte else zero_byte].
Definition read_bool : reader bool :=
  fun bs => match bs with [] => Err | a :: r => Ok (Ascii.eqb a one_byte, r) end.

(* uint64(int) / int(uint64) fields: Salience, Operator, ValueType *)
Definition enc_int : writer Z := fun z => enc_u64 (u64_of_int z).
Definition read_int : reader Z :=
  fun bs => do (n, r) <- read_u64 bs; Ok (int_of_u64 n, r).

(* ConstantMeta.ValueBytes: 8-byte length, then the raw bytes (writer.Write / reader.Read) *)
Definition enc_bytes : writer (list byte) := fun l => enc_u64 (N.of_nat (List.length l)) ++ l.
Definition read_bytes : reader (list byte) :=
  fun bs => do (n, r) <- read_u64 bs; read_raw n r.

(* ---- count-prefixed sequences ----
   The Go loops are `for i := uint64(0); i < count; i++ { read one }`.  The model
   recurses on a fuel equal to the number of remaining bytes: every element reader
   consumes at least one byte, so running out of fuel with count > 0 means the stream
   is exhausted and the next read fails in the Go code as well. *)
Fixpoint read_seq_fuel {A} (rd : reader A) (fuel : nat) (count : N) (bs : list byte) : res (list A * list byte) :=
  match count with
  | N0 => Ok ([], bs)
  | _ => match fuel with
         | O => Err
         | S f => do (x, r) <- rd bs;
                  do (xs, r') <- read_seq_fuel rd f (N.pred count) r;
                  Ok (x :: xs, r')
         end
  end.

Definition read_seq {A} (rd : reader A) (count : N) : reader (list A) :=
  fun bs => read_seq_fuel rd (List.length bs) count bs.

Definition enc_seq {A} (wr : writer A) : writer (list A) :=
  fun xs => enc_u64 (N.of_nat (List.length xs)) ++ List.concat (map wr xs).
Definition read_counted {A} (rd : reader A) : reader (list A) :=
  fun bs => do (n, r) <- read_u64 bs; read_seq rd n r.

(* ---- field descriptors: the five kinds of field a meta record is made of ---- *)
Inductive fkind := KStr | KInt | KBool | KStrs | KBytes.
Inductive fieldv :=
| FS (s : string)          (* string *)
| FI (z : Z)               (* Go int written as uint64 *)
| FB (b : bool)
| FL (l : list string)     (* []string with a count prefix *)
| FY (l : list byte).      (* []byte with a length prefix *)

Definition fkind_eqb (a b : fkind) : bool :=
  match a, b with
  | KStr, KStr | KInt, KInt | KBool, KBool | KStrs, KStrs | KBytes, KBytes => true
  | _, _ => false
  end.

Definition kind_of (v : fieldv) : fkind :=
  match v with FS _ => KStr | FI _ => KInt | FB _ => KBool | FL _ => KStrs | FY _ => KBytes end.

Definition enc_field : writer fieldv :=
  fun v => match v with
           | FS s => enc_str s
           | FI z => enc_int z
           | FB b => enc_bool b
           | FL l => enc_seq enc_str l
           | FY l => enc_bytes l
           end.

Definition read_field (k : fkind) : reader fieldv :=
  fun bs => match k with
            | KStr => do (s, r) <- read_str bs; Ok (FS s, r)
            | KInt => do (z, r) <- read_int bs; Ok (FI z, r)
            | KBool => do (b, r) <- read_bool bs; Ok (FB b, r)
            | KStrs => do (l, r) <- read_counted read_str bs; Ok (FL l, r)
            | KBytes => do (l, r) <- read_bytes bs; Ok (FY l, r)
            end.

Definition enc_fields : writer (list fieldv) := fun vs => List.concat (map enc_field vs).

Fixpoint read_fields (ks : list fkind) : reader (list fieldv) :=
  fun bs => match ks with
            | [] => Ok ([], bs)
            | k :: ks' => do (v, r) <- read_field k bs;
                          do (vs, r') <- read_fields ks' r;
                          Ok (v :: vs, r')
            end.

(* ---- the sequence of Write calls (for the failing-writer model) ----
   WriteFull loops `for written < len(bytes)`: an empty block makes no Write call;
   ConstantMeta writes its value block with a plain writer.Write (one call, also when empty). *)
Definition chunk_nonempty (l : list byte) : list (list byte) := match l with [] => [] | _ => [l] end.
Definition chunks_u64 (n : N) : list (list byte) := [enc_u64 n].
Definition chunks_str (s : string) : list (list byte) :=
  let l := list_ascii_of_string s in enc_u64 (N.of_nat (List.length l)) :: chunk_nonempty l.
Definition chunks_field (v : fieldv) : list (list byte) :=
  match v with
  | FS s => chunks_str s
  | FI z => chunks_u64 (u64_of_int z)
  | FB b => [enc_bool b]
  | FL l => chunks_u64 (N.of_nat (List.length l)) ++ List.concat (map chunks_str l)
  | FY l => [enc_u64 (N.of_nat (List.length l)); l]
  end.

(* ---- allocation accounting: one string header per element appended to a []string ---- *)
Definition string_header_size : N := 16.
