(* Library.v — the knowledge library as an executable state machine.

   ast/KnowledgeBase.go   KnowledgeLibrary.{GetKnowledgeBase, RemoveRuleEntry,
                          NewKnowledgeBaseInstance, StoreKnowledgeBaseToWriter,
                          LoadKnowledgeBaseFromReader(overwrite)},
                          KnowledgeBase.{AddRuleEntry, RemoveRuleEntry, Clone}
   ast/Grl.go             Grl.ReceiveRuleEntry (duplicate inside one resource)
   builder/RuleBuilder.go BuildRuleFromResource (KnowledgeBase.Checkpoint before the walk, restore() on error:
                          a resource is loaded completely or not at all)
   ast/RuleEntry.go       Clone (Retracted := false, Deleted copied)
   engine/GruleEngine.go  the part of ExecuteWithContext / FetchMatchingRules that
                          reads Retracted / Deleted (guards come from the generated
                          EngineGen.v)

   The state is: (name:version) -> knowledge base, the live instances (each its
   own copy of the entries) and the supply of tombstone names.  A rule body is
   abstract (type B: "what the text says"); the run loop below is parametric in
   what a body does (condition on a fact F, the name it retracts, the name it
   removes from the running instance through a fact method).

   The code is modelled as it is:
     * GetKnowledgeBase creates the (empty) knowledge base of a key before the resource is judged, so a rejected
       resource on a new key leaves an empty knowledge base behind;
     * the Deleted flag is not part of the stored stream; BuildKnowledgeBase sets it from the stored rule name:
       isTombstoneName(RuleName), "Deleted_" followed by a UUID - the name RemoveRuleEntry gives a removed rule
       (engine commit 01c7ce8).  In the model a tombstone name is one that starts with "Deleted_";
     * uuid.New() is modelled by a counter: tombstone n is "Deleted_" followed by n marks.
   ASSUMPTION (op_user, the engine's own naming convention): rule names given to the builder do not start with
   "Deleted_".  It stands for two facts about the code: a UUID never collides with a chosen name, and a user rule
   whose name literally is a tombstone name ("Deleted_" + a well-formed UUID) would be read as REMOVED when its
   knowledge base is loaded.
   Definitions only; proofs are in coq/proofs/LibraryProofs.v. *)
From Grule Require Import Base EngineGen EngineAbs.
Open Scope Z_scope.

(* ---- tombstone names (fmt.Sprintf("Deleted_%s", uuid.New())) ---- *)
Fixpoint pad (n : nat) : string :=
  match n with O => EmptyString | S n' => String "#"%char (pad n') end.
Definition tomb_prefix : string := "Deleted_"%string.
Definition tomb (n : nat) : string := (tomb_prefix ++ pad n)%string.
Definition is_user (s : string) : bool := negb (prefixb tomb_prefix s).

Section Lib.
Variable B : Type.                       (* rule body *)

Record rule := { r_name : string; r_sal : Z; r_body : B }.
Record lentry := { le_e : entry; le_body : B }.     (* *RuleEntry: flags and names + the tree it points to *)
Definition kb := list lentry.                        (* KnowledgeBase.RuleEntries, in insertion order *)

Definition le_key (x : lentry) : string := e_key (le_e x).
Definition le_deleted (x : lentry) : bool := e_deleted (le_e x).
Definition keys (es : kb) : list string := map le_key es.

Definition mk_entry (r : rule) : lentry :=
  {| le_e := {| e_key := r_name r; e_name := r_name r; e_sal := r_sal r; e_retracted := false; e_deleted := false |};
     le_body := r_body r |}.

Definition has_key (k : string) (es : kb) : bool := existsb (fun x => String.eqb (le_key x) k) es.

Definition find_key (k : string) (es : kb) : option lentry := find (fun x => String.eqb (le_key x) k) es.

(* ---- BuildRuleFromResource ---- *)
(* the listener hands every rule to Grl.ReceiveRuleEntry: the first of two equal names is kept, the second is an error *)
Fixpoint grl_collect (rs : list rule) (acc : list rule) (err : bool) : list rule * bool :=
  match rs with
  | [] => (acc, err)
  | r :: rs' => if existsb (fun x => String.eqb (r_name x) (r_name r)) acc
                then grl_collect rs' acc true
                else grl_collect rs' (acc ++ [r])%list err
  end.

(* ExitGrl: KnowledgeBase.AddRuleEntry for every collected rule; a refused rule is an error, the others are added
   (to the map that restore() throws away when there was an error) *)
Fixpoint add_all (rs : list rule) (es : kb) (err : bool) : kb * bool :=
  match rs with
  | [] => (es, err)
  | r :: rs' => if has_key (r_name r) es then add_all rs' es true
                else add_all rs' (es ++ [mk_entry r])%list err
  end.

(* Checkpoint() ... restore(): with an error the rule entries are the ones remembered before the walk *)
Definition walk_kb (rs : list rule) (es : kb) : kb * bool :=
  let '(g, e1) := grl_collect rs [] false in add_all g es e1.
Definition build_kb (rs : list rule) (es : kb) : kb * bool :=
  let '(es', err) := walk_kb rs es in
  if err then (es, true) else (es', false).

(* ---- RemoveRuleEntry (library level and instance level do the same to the map) ---- *)
Definition tombstone (t : string) (x : lentry) : lentry :=
  {| le_e := {| e_key := t; e_name := t; e_sal := e_sal (le_e x); e_retracted := e_retracted (le_e x); e_deleted := true |};
     le_body := le_body x |}.

Definition remove_kb (n t : string) (es : kb) : kb :=
  map (fun x => if String.eqb (le_key x) n then tombstone t x else x) es.

(* ---- flags ---- *)
Definition set_flags (r d : bool) (x : lentry) : lentry :=
  {| le_e := {| e_key := e_key (le_e x); e_name := e_name (le_e x); e_sal := e_sal (le_e x); e_retracted := r; e_deleted := d |};
     le_body := le_body x |}.

(* KnowledgeBase.Clone / RuleEntry.Clone: Retracted := false, Deleted copied; KnowledgeBase.Reset does the same in place *)
Definition clone_kb (es : kb) : kb := map (fun x => set_flags false (le_deleted x) x) es.

(* MakeCatalog + BuildKnowledgeBase: names and trees come back; Retracted is not in the stream; Deleted is read off the
   stored rule name (isTombstoneName) *)
Definition reload_kb (es : kb) : kb := map (fun x => set_flags false (negb (is_user (e_name (le_e x)))) x) es.

(* KnowledgeBase.RetractRule: by RuleName *)
Definition retract_kb (n : string) (es : kb) : kb :=
  map (fun x => if String.eqb (e_name (le_e x)) n then set_flags true (le_deleted x) x else x) es.

(* ---- state ---- *)
Record inst := { i_src : string; i_kb : kb }.
Record state := { st_lib : amap kb; st_insts : list inst; st_next : nat }.
Definition init : state := {| st_lib := []; st_insts := []; st_next := O |}.

Definition lib_kb (s : state) (k : string) : kb :=
  match alookup k (st_lib s) with Some es => es | None => [] end.

Fixpoint set_nth {A} (i : nat) (x : A) (l : list A) : list A :=
  match l, i with
  | [], _ => []
  | _ :: t, O => x :: t
  | h :: t, S i' => h :: set_nth i' x t
  end.

(* ---- ExecuteWithContext as far as names and flags are concerned ---- *)
Variable F : Type.                       (* the facts of one call *)
Variable holds : B -> F -> bool.         (* the rule's condition *)
Variable self : B -> string.             (* the name its action retracts (its own name in the text) *)
Variable zap : B -> option string.       (* the name its action removes from the running instance (fact method calling RemoveRuleEntry) *)
Variable order : nat -> kb -> kb.        (* Go map iteration order of pass i over the entries that pass the guard *)

Definition guard (x : lentry) : bool := eval_guard (e_retracted (le_e x)) (le_deleted x).

Definition pick_l (hd : lentry) (tl : list lentry) : lentry :=
  fold_left (fun runner pr => if salience_replace (e_sal (le_e runner)) (e_sal (le_e pr)) then pr else runner) tl hd.

Record cyc := { cy_evals : list (string * bool);        (* EvaluateRuleEntry(rule, candidate) of this pass *)
                cy_fired : option (string * B);          (* ExecuteRuleEntry *)
                cy_zapped : option string }.

Fixpoint exec_loop (fuel : nat) (i : nat) (f : F) (es : kb) (next : nat) (acc : list cyc) : kb * nat * list cyc * bool :=
  match fuel with
  | O => (es, next, acc, false)
  | S fuel' =>
      let scan := order i (filter guard es) in
      let evals := map (fun x => (le_key x, holds (le_body x) f)) scan in
      match filter (fun x => holds (le_body x) f) scan with
      | [] => (es, next, (acc ++ [{| cy_evals := evals; cy_fired := None; cy_zapped := None |}])%list, true)
      | hd :: tl =>
          let r := pick_l hd tl in
          let es1 := retract_kb (self (le_body r)) es in
          let es2 := match zap (le_body r) with Some n => remove_kb n (tomb next) es1 | None => es1 end in
          let next2 := match zap (le_body r) with Some _ => S next | None => next end in
          exec_loop fuel' (S i) f es2 next2
                    (acc ++ [{| cy_evals := evals; cy_fired := Some (le_key r, le_body r); cy_zapped := zap (le_body r) |}])%list
      end
  end.

(* Execute: KnowledgeBase.Reset, then the loop *)
Definition exec_kb (fuel : nat) (f : F) (es : kb) (next : nat) : kb * nat * list cyc * bool :=
  exec_loop fuel 0 f (clone_kb es) next [].

(* FetchMatchingRules (after Reset): the names of the entries that pass the fetch guard and whose condition holds *)
Definition fetch_kb (f : F) (es : kb) : list string :=
  map le_key (filter (fun x => fetch_guard false (le_deleted x) && holds (le_body x) f) es).

(* ---- operations ---- *)
Inductive op :=
| OBuild (k : string) (rs : list rule)
| ORemoveLib (k n : string)
| ORemoveInst (i : nat) (n : string)
| ONewInst (k : string)
| OStoreLoad (k : string)
| OExec (i : nat) (fuel : nat) (f : F).

Inductive result :=
| RBuild (err : bool)
| RInst (ok : bool)
| RExec (tr : list cyc) (finished : bool)
| RUnit.

Definition step (s : state) (o : op) : state * result :=
  match o with
  | OBuild k rs =>
      (* GetKnowledgeBase creates the knowledge base when it is not there, whatever happens next *)
      let '(es', err) := build_kb rs (lib_kb s k) in
      ({| st_lib := aupdate k es' (st_lib s); st_insts := st_insts s; st_next := st_next s |}, RBuild err)
  | ORemoveLib k n =>
      match alookup k (st_lib s) with
      | Some es => ({| st_lib := aupdate k (remove_kb n (tomb (st_next s)) es) (st_lib s); st_insts := st_insts s;
                       st_next := S (st_next s) |}, RUnit)
      | None => (s, RUnit)
      end
  | ORemoveInst i n =>
      match nth_error (st_insts s) i with
      | Some ins => ({| st_lib := st_lib s;
                        st_insts := set_nth i {| i_src := i_src ins; i_kb := remove_kb n (tomb (st_next s)) (i_kb ins) |} (st_insts s);
                        st_next := S (st_next s) |}, RUnit)
      | None => (s, RUnit)
      end
  | ONewInst k =>
      match alookup k (st_lib s) with
      | Some es => ({| st_lib := st_lib s; st_insts := (st_insts s ++ [{| i_src := k; i_kb := clone_kb es |}])%list; st_next := st_next s |},
                    RInst true)
      | None => (s, RInst false)
      end
  | OStoreLoad k =>
      (* StoreKnowledgeBaseToWriter goes through GetKnowledgeBase too; LoadKnowledgeBaseFromReader(overwrite = true) *)
      ({| st_lib := aupdate k (reload_kb (lib_kb s k)) (st_lib s); st_insts := st_insts s; st_next := st_next s |}, RUnit)
  | OExec i fuel f =>
      match nth_error (st_insts s) i with
      | Some ins =>
          let '(es', next', tr, fin) := exec_kb fuel f (i_kb ins) (st_next s) in
          ({| st_lib := st_lib s; st_insts := set_nth i {| i_src := i_src ins; i_kb := es' |} (st_insts s); st_next := next' |},
           RExec tr fin)
      | None => (s, RUnit)
      end
  end.

Definition run (ops : list op) (s : state) : state := fold_left (fun s o => fst (step s o)) ops s.

(* probe of a library knowledge base: a fresh instance is executed and thrown away *)
Definition probe_lib (fuel : nat) (f : F) (s : state) (k : string) : option (list cyc * bool * list string) :=
  match alookup k (st_lib s) with
  | Some es => let '(_, _, tr, fin) := exec_kb fuel f (clone_kb es) (st_next s) in Some (tr, fin, fetch_kb f (clone_kb es))
  | None => None
  end.

(* ---- side condition ---- *)
(* rule names given to the builder are not tombstone names (see ASSUMPTION above) *)
Definition op_user (o : op) : bool :=
  match o with OBuild _ rs => forallb (fun r => is_user (r_name r)) rs | _ => true end.

End Lib.

Arguments r_name {B} _.
Arguments r_sal {B} _.
Arguments r_body {B} _.
Arguments le_e {B} _.
Arguments le_body {B} _.
Arguments le_key {B} _.
Arguments le_deleted {B} _.
Arguments keys {B} _.
Arguments i_src {B} _.
Arguments i_kb {B} _.
Arguments st_lib {B} _.
Arguments st_insts {B} _.
Arguments st_next {B} _.
Arguments cy_evals {B} _.
Arguments cy_fired {B} _.
Arguments cy_zapped {B} _.
Arguments OBuild {B F} _ _.
Arguments ORemoveLib {B F} _ _.
Arguments ORemoveInst {B F} _ _.
Arguments ONewInst {B F} _.
Arguments OStoreLoad {B F} _.
Arguments OExec {B F} _ _ _.
Arguments RBuild {B} _.
Arguments RInst {B} _.
Arguments RExec {B} _ _.
Arguments RUnit {B}.
