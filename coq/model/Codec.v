(* Codec.v — the catalog stream of a knowledge base (GRB file).
   ast/Serializer.go: Catalog, the 13 *Meta records with WriteMetaTo / ReadMetaFrom,
   WriteCatalogToWriter / ReadCatalogFromReader; ast/KnowledgeBase.go:
   StoreKnowledgeBaseToWriter / LoadKnowledgeBaseFromReader (overwrite flag).

   Go maps are written in iteration order; the model keeps every map as an association
   list in the order in which its entries stand in the stream (the iteration order is an
   explicit input).  Definitions only; proofs in coq/proofs/CodecProofs.v. *)
From Grule Require Import Base CodecPrim.
Local Open Scope N_scope.
Local Open Scope list_scope.

(* ---- constants (anchored to the source by proofs/AnchorsCodec.v) ---- *)
Definition codec_version : string := "1.8".

Definition tag_ArgumentList : N := 0.
Definition tag_ArrayMapSelector : N := 1.
Definition tag_Assignment : N := 2.
Definition tag_Expression : N := 3.
Definition tag_Constant : N := 4.
Definition tag_ExpressionAtom : N := 5.
Definition tag_FunctionCall : N := 6.
Definition tag_RuleEntry : N := 7.
Definition tag_ThenExpression : N := 8.
Definition tag_ThenExpressionList : N := 9.
Definition tag_ThenScope : N := 10.
Definition tag_Variable : N := 11.
Definition tag_WhenScope : N := 12.

(* ValueType labels of ConstantMeta: the iota of the const block runs on *)
Definition vt_String : Z := 13.
Definition vt_Integer : Z := 14.
Definition vt_Float : Z := 15.
Definition vt_Boolean : Z := 16.

(* ---- metas ---- *)
Record node_meta := { nm_id : string; nm_grl : string; nm_snap : string }.

Inductive meta :=
| MArgumentList (nm : node_meta) (args : list string)
| MArrayMapSelector (nm : node_meta) (expr_id : string)
| MAssignment (nm : node_meta) (var_id expr_id : string) (is_assign is_plus is_minus is_div is_mul : bool)
| MExpression (nm : node_meta) (left_id right_id single_id atom_id : string) (operator : Z) (negated : bool)
| MConstant (nm : node_meta) (vtype : Z) (vbytes : list byte) (is_nil : bool)
| MExpressionAtom (nm : node_meta) (var_name const_id func_id var_id : string) (negated : bool) (atom_id sel_id : string)
| MFunctionCall (nm : node_meta) (fname arglist_id : string)
| MRuleEntry (nm : node_meta) (rule_name rule_desc : string) (salience : Z) (when_id then_id : string)
| MThenExpression (nm : node_meta) (assign_id atom_id : string)
| MThenExpressionList (nm : node_meta) (ids : list string)
| MThenScope (nm : node_meta) (list_id : string)
| MVariable (nm : node_meta) (name var_id sel_id : string)
| MWhenScope (nm : node_meta) (expr_id : string).

Definition meta_nm (m : meta) : node_meta :=
  match m with
  | MArgumentList nm _ | MArrayMapSelector nm _ | MAssignment nm _ _ _ _ _ _ _
  | MExpression nm _ _ _ _ _ _ | MConstant nm _ _ _ | MExpressionAtom nm _ _ _ _ _ _ _
  | MFunctionCall nm _ _ | MRuleEntry nm _ _ _ _ _ | MThenExpression nm _ _
  | MThenExpressionList nm _ | MThenScope nm _ | MVariable nm _ _ _ | MWhenScope nm _ => nm
  end.

Definition meta_tag (m : meta) : N :=
  match m with
  | MArgumentList _ _ => tag_ArgumentList
  | MArrayMapSelector _ _ => tag_ArrayMapSelector
  | MAssignment _ _ _ _ _ _ _ _ => tag_Assignment
  | MExpression _ _ _ _ _ _ _ => tag_Expression
  | MConstant _ _ _ _ => tag_Constant
  | MExpressionAtom _ _ _ _ _ _ _ _ => tag_ExpressionAtom
  | MFunctionCall _ _ _ => tag_FunctionCall
  | MRuleEntry _ _ _ _ _ _ => tag_RuleEntry
  | MThenExpression _ _ _ => tag_ThenExpression
  | MThenExpressionList _ _ => tag_ThenExpressionList
  | MThenScope _ _ => tag_ThenScope
  | MVariable _ _ _ _ => tag_Variable
  | MWhenScope _ _ => tag_WhenScope
  end.

(* the fields in the order WriteMetaTo writes them: NodeMeta first, then the record's own *)
Definition nm_fields (nm : node_meta) : list fieldv := [FS (nm_id nm); FS (nm_grl nm); FS (nm_snap nm)].

Definition meta_fields (m : meta) : list fieldv :=
  nm_fields (meta_nm m) ++
  match m with
  | MArgumentList _ args => [FL args]
  | MArrayMapSelector _ e => [FS e]
  | MAssignment _ v e a p mi d mu => [FS v; FS e; FB a; FB p; FB mi; FB d; FB mu]
  | MExpression _ l r s a o n => [FS l; FS r; FS s; FS a; FI o; FB n]
  | MConstant _ t b n => [FI t; FY b; FB n]
  | MExpressionAtom _ vn c f v n a s => [FS vn; FS c; FS f; FS v; FB n; FS a; FS s]
  | MFunctionCall _ f a => [FS f; FS a]
  | MRuleEntry _ n d s w t => [FS n; FS d; FI s; FS w; FS t]
  | MThenExpression _ a e => [FS a; FS e]
  | MThenExpressionList _ ids => [FL ids]
  | MThenScope _ l => [FS l]
  | MVariable _ n v s => [FS n; FS v; FS s]
  | MWhenScope _ e => [FS e]
  end.

(* field names and kinds per meta type, in stream order (what ReadMetaFrom expects) *)
Definition nm_desc : list (string * fkind) :=
  [("AstID"%string, KStr); ("GrlText"%string, KStr); ("Snapshot"%string, KStr)].

Definition meta_desc (tag : N) : option (list (string * fkind)) :=
  match tag with
  | 0 => Some (nm_desc ++ [("ArgumentASTIDs"%string, KStrs)])
  | 1 => Some (nm_desc ++ [("ExpressionID"%string, KStr)])
  | 2 => Some (nm_desc ++ [("VariableID"%string, KStr); ("ExpressionID"%string, KStr); ("IsAssign"%string, KBool);
                           ("IsPlusAssign"%string, KBool); ("IsMinusAssign"%string, KBool); ("IsDivAssign"%string, KBool);
                           ("IsMulAssign"%string, KBool)])
  | 3 => Some (nm_desc ++ [("LeftExpressionID"%string, KStr); ("RightExpressionID"%string, KStr);
                           ("SingleExpressionID"%string, KStr); ("ExpressionAtomID"%string, KStr);
                           ("Operator"%string, KInt); ("Negated"%string, KBool)])
  | 4 => Some (nm_desc ++ [("ValueType"%string, KInt); ("ValueBytes"%string, KBytes); ("IsNil"%string, KBool)])
  | 5 => Some (nm_desc ++ [("VariableName"%string, KStr); ("ConstantID"%string, KStr); ("FunctionCallID"%string, KStr);
                           ("VariableID"%string, KStr); ("Negated"%string, KBool); ("ExpressionAtomID"%string, KStr);
                           ("ArrayMapSelectorID"%string, KStr)])
  | 6 => Some (nm_desc ++ [("FunctionName"%string, KStr); ("ArgumentListID"%string, KStr)])
  | 7 => Some (nm_desc ++ [("RuleName"%string, KStr); ("RuleDescription"%string, KStr); ("Salience"%string, KInt);
                           ("WhenScopeID"%string, KStr); ("ThenScopeID"%string, KStr)])
  | 8 => Some (nm_desc ++ [("AssignmentID"%string, KStr); ("ExpressionAtomID"%string, KStr)])
  | 9 => Some (nm_desc ++ [("ThenExpressionIDs"%string, KStrs)])
  | 10 => Some (nm_desc ++ [("ThenExpressionListID"%string, KStr)])
  | 11 => Some (nm_desc ++ [("Name"%string, KStr); ("VariableID"%string, KStr); ("ArrayMapSelectorID"%string, KStr)])
  | 12 => Some (nm_desc ++ [("ExpressionID"%string, KStr)])
  | _ => None
  end.

Definition meta_of_fields (tag : N) (vs : list fieldv) : option meta :=
  match vs with
  | FS i :: FS g :: FS sn :: rest =>
      let nm := {| nm_id := i; nm_grl := g; nm_snap := sn |} in
      match tag, rest with
      | 0, [FL args] => Some (MArgumentList nm args)
      | 1, [FS e] => Some (MArrayMapSelector nm e)
      | 2, [FS v; FS e; FB a; FB p; FB mi; FB d; FB mu] => Some (MAssignment nm v e a p mi d mu)
      | 3, [FS l; FS r; FS s; FS a; FI o; FB n] => Some (MExpression nm l r s a o n)
      | 4, [FI t; FY b; FB n] => Some (MConstant nm t b n)
      | 5, [FS vn; FS c; FS f; FS v; FB n; FS a; FS s] => Some (MExpressionAtom nm vn c f v n a s)
      | 6, [FS f; FS a] => Some (MFunctionCall nm f a)
      | 7, [FS n; FS d; FI s; FS w; FS t] => Some (MRuleEntry nm n d s w t)
      | 8, [FS a; FS e] => Some (MThenExpression nm a e)
      | 9, [FL ids] => Some (MThenExpressionList nm ids)
      | 10, [FS l] => Some (MThenScope nm l)
      | 11, [FS n; FS v; FS s] => Some (MVariable nm n v s)
      | 12, [FS e] => Some (MWhenScope nm e)
      | _, _ => None
      end
  | _ => None
  end.

(* ---- catalog ---- *)
Record catalog := {
  c_name : string;                               (* KnowledgeBaseName *)
  c_version : string;                            (* KnowledgeBaseVersion *)
  c_data : list (string * meta);                 (* Data: AstID -> Meta *)
  c_memname : string;                            (* MemoryName *)
  c_memversion : string;                         (* MemoryVersion *)
  c_varsnap : list (string * string);            (* MemoryVariableSnapshotMap: snapshot -> AstID *)
  c_exprsnap : list (string * string);           (* MemoryExpressionSnapshotMap *)
  c_atomsnap : list (string * string);           (* MemoryExpressionAtomSnapshotMap *)
  c_exprvar : list (string * list string);       (* MemoryExpressionVariableMap: variable AstID -> expression AstIDs *)
  c_atomvar : list (string * list string)        (* MemoryExpressionAtomVariableMap *)
}.

(* ---- writers ---- *)
Definition enc_entry : writer (string * meta) :=
  fun e => enc_str (fst e) ++ enc_u64 (meta_tag (snd e)) ++ enc_fields (meta_fields (snd e)).
Definition enc_pair : writer (string * string) := fun p => enc_str (fst p) ++ enc_str (snd p).
Definition enc_keyed : writer (string * list string) := fun p => enc_str (fst p) ++ enc_seq enc_str (snd p).

(* WriteCatalogToWriter *)
Definition encode : writer catalog :=
  fun c =>
    enc_str codec_version ++ enc_str (c_name c) ++ enc_str (c_version c) ++
    enc_seq enc_entry (c_data c) ++
    enc_str (c_memname c) ++ enc_str (c_memversion c) ++
    enc_seq enc_pair (c_varsnap c) ++
    enc_seq enc_pair (c_exprsnap c) ++
    enc_seq enc_pair (c_atomsnap c) ++
    enc_seq enc_keyed (c_exprvar c) ++
    enc_seq enc_keyed (c_atomvar c).

(* ---- readers ---- *)
Definition read_entry : reader (string * meta) :=
  fun bs =>
    do (k, r1) <- read_str bs;
    do (t, r2) <- read_u64 r1;
    match meta_desc t with
    | None => Err                                  (* "unknown meta number" *)
    | Some d =>
        do (vs, r3) <- read_fields (map snd d) r2;
        match meta_of_fields t vs with
        | Some m => Ok ((k, m), r3)
        | None => Err
        end
    end.

Definition read_pair : reader (string * string) :=
  fun bs => do (k, r1) <- read_str bs; do (v, r2) <- read_str r1; Ok ((k, v), r2).
Definition read_keyed : reader (string * list string) :=
  fun bs => do (k, r1) <- read_str bs; do (l, r2) <- read_counted read_str r1; Ok ((k, l), r2).

(* ReadCatalogFromReader; bytes after the last section are left unread *)
Definition decode_rest : reader catalog :=
  fun bs =>
    do (v, r0) <- read_str bs;
    if negb (String.eqb v codec_version) then Err else      (* "invalid version" *)
    do (name, r1) <- read_str r0;
    do (ver, r2) <- read_str r1;
    do (data, r3) <- read_counted read_entry r2;
    do (mn, r4) <- read_str r3;
    do (mv, r5) <- read_str r4;
    do (vs, r6) <- read_counted read_pair r5;
    do (es, r7) <- read_counted read_pair r6;
    do (ats, r8) <- read_counted read_pair r7;
    do (ev, r9) <- read_counted read_keyed r8;
    do (av, r10) <- read_counted read_keyed r9;
    Ok ({| c_name := name; c_version := ver; c_data := data; c_memname := mn; c_memversion := mv;
           c_varsnap := vs; c_exprsnap := es; c_atomsnap := ats; c_exprvar := ev; c_atomvar := av |}, r10).

Definition decode (bs : list byte) : res catalog :=
  do (c, _) <- decode_rest bs; Ok c.

(* ---- well-formedness (what a catalog made by MakeCatalog satisfies): every length and
   count fits 64 bits, every int is a Go int ---- *)
Definition len_ok (n : nat) : bool := N.of_nat n <? two64.
Definition str_ok (s : string) : bool := len_ok (String.length s).
Definition int_ok (z : Z) : bool := ((- Z.of_N two63 <=? z) && (z <? Z.of_N two63))%Z.
Definition strs_ok (l : list string) : bool := len_ok (List.length l) && forallb str_ok l.

Definition fieldv_ok (v : fieldv) : bool :=
  match v with
  | FS s => str_ok s
  | FI z => int_ok z
  | FB _ => true
  | FL l => strs_ok l
  | FY l => len_ok (List.length l)
  end.

Definition entry_ok (e : string * meta) : bool := str_ok (fst e) && forallb fieldv_ok (meta_fields (snd e)).
Definition pair_ok (p : string * string) : bool := str_ok (fst p) && str_ok (snd p).
Definition keyed_ok (p : string * list string) : bool := str_ok (fst p) && strs_ok (snd p).

Definition wf_catalog (c : catalog) : bool :=
  str_ok (c_name c) && str_ok (c_version c) &&
  len_ok (List.length (c_data c)) && forallb entry_ok (c_data c) &&
  str_ok (c_memname c) && str_ok (c_memversion c) &&
  len_ok (List.length (c_varsnap c)) && forallb pair_ok (c_varsnap c) &&
  len_ok (List.length (c_exprsnap c)) && forallb pair_ok (c_exprsnap c) &&
  len_ok (List.length (c_atomsnap c)) && forallb pair_ok (c_atomsnap c) &&
  len_ok (List.length (c_exprvar c)) && forallb keyed_ok (c_exprvar c) &&
  len_ok (List.length (c_atomvar c)) && forallb keyed_ok (c_atomvar c).

(* ---- the Write calls of a store, in order ---- *)
Definition chunks_seq {A} (ch : A -> list (list byte)) (xs : list A) : list (list byte) :=
  chunks_u64 (N.of_nat (List.length xs)) ++ List.concat (map ch xs).
Definition chunks_entry (e : string * meta) : list (list byte) :=
  chunks_str (fst e) ++ chunks_u64 (meta_tag (snd e)) ++ List.concat (map chunks_field (meta_fields (snd e))).
Definition chunks_pair (p : string * string) : list (list byte) := chunks_str (fst p) ++ chunks_str (snd p).
Definition chunks_keyed (p : string * list string) : list (list byte) :=
  chunks_str (fst p) ++ chunks_seq chunks_str (snd p).

Definition catalog_chunks (c : catalog) : list (list byte) :=
  chunks_str codec_version ++ chunks_str (c_name c) ++ chunks_str (c_version c) ++
  chunks_seq chunks_entry (c_data c) ++
  chunks_str (c_memname c) ++ chunks_str (c_memversion c) ++
  chunks_seq chunks_pair (c_varsnap c) ++
  chunks_seq chunks_pair (c_exprsnap c) ++
  chunks_seq chunks_pair (c_atomsnap c) ++
  chunks_seq chunks_keyed (c_exprvar c) ++
  chunks_seq chunks_keyed (c_atomvar c).

(* a writer whose k-th Write call (0-based) fails; every write's error is returned at
   once (the shape `err = W(..); if err != nil { return err }` is checked on the source
   by the translator).  Result: Ok / Err, and what reached the writer. *)
Fixpoint run_writes (fail_at : option nat) (chunks : list (list byte)) (written : list byte) : res unit * list byte :=
  match chunks with
  | [] => (Ok tt, written)
  | ch :: rest =>
      match fail_at with
      | Some O => (Err, written)
      | Some (S k) => run_writes (Some k) rest (written ++ ch)
      | None => run_writes None rest (written ++ ch)
      end
  end.

Definition store (fail_at : option nat) (c : catalog) : res unit * list byte :=
  run_writes fail_at (catalog_chunks c) [].

(* ---- the library map and the overwrite flag (LoadKnowledgeBaseFromReader) ----
   [build] stands for Catalog.BuildKnowledgeBase (an arbitrary function here; its
   model is Catalog.kb_of_catalog). *)
Section Library.
  Variable KB : Type.
  Variable build : catalog -> res KB.

  Definition kb_key (name version : string) : string := (name ++ ":" ++ version)%string.

  Definition load (lib : amap KB) (bs : list byte) (overwrite : bool) : res KB * amap KB :=
    match decode bs with
    | Ok c =>
        match build c with
        | Ok kb =>
            let key := kb_key (c_name c) (c_version c) in
            if overwrite then (Ok kb, aupdate key kb lib)
            else if amem key lib then (Err, lib)
                 else (Ok kb, aupdate key kb lib)
        | _ => (Err, lib)                            (* error, or a panic turned into an error by recover *)
        end
    | _ => (Err, lib)
    end.
End Library.

(* ---- allocation driven by the stream (C20) ----
   [alloc_x bs] = bytes the reader x asks from the allocator on stream bs because of what the
   stream says, for the repaired loader (engine commit 2f18ef4):
     - every fixed buffer: 8 bytes for a length / count / int, 1 for a bool;
     - a byte block announced with length n (ReadStringFromReader, ConstantMeta.ValueBytes) is
       read by readBytesFromReader = io.CopyN into a growing bytes.Buffer: the account is the
       number of bytes the buffer comes to hold, min n (bytes remaining); n > MaxInt64 is
       rejected before anything is read.  (bytes.Buffer's growth policy - 512 bytes at least,
       doubling - is a constant factor the account does not model; the harness bounds the
       real TotalAlloc.)
     - a []string grows by append: 16 bytes (one string header) per element actually read. *)
Definition after {A} (r : res (A * list byte)) (k : list byte -> N) : N :=
  match r with Ok (_, rest) => k rest | _ => 0 end.
Definition afterv {A} (r : res (A * list byte)) (k : A -> list byte -> N) : N :=
  match r with Ok (v, rest) => k v rest | _ => 0 end.

Definition alloc_u64 (bs : list byte) : N := 8.
Definition alloc_str (bs : list byte) : N :=
  8 + match read_u64 bs with
      | Ok (n, r) => if two63 <=? n then 0 else N.min n (N.of_nat (List.length r))
      | _ => 0
      end.
(* one element of a []string: the string, then the append *)
Definition alloc_str_elem (bs : list byte) : N := alloc_str bs + after (read_str bs) (fun _ => string_header_size).
Definition alloc_bool (bs : list byte) : N := 1.

Fixpoint alloc_seq_fuel {A} (rd : reader A) (al : list byte -> N) (fuel : nat) (count : N) (bs : list byte) : N :=
  match count with
  | N0 => 0
  | _ => match fuel with
         | O => al bs                     (* the stream is exhausted: the next element read still asks for its buffer *)
         | S f => al bs + after (rd bs) (alloc_seq_fuel rd al f (N.pred count))
         end
  end.
Definition alloc_seq {A} (rd : reader A) (al : list byte -> N) (count : N) (bs : list byte) : N :=
  alloc_seq_fuel rd al (List.length bs) count bs.

(* count prefix, then the elements (nothing is allocated by the count itself) *)
Definition alloc_counted {A} (rd : reader A) (al : list byte -> N) (bs : list byte) : N :=
  8 + match read_u64 bs with
      | Ok (n, r) => alloc_seq rd al n r
      | _ => 0
      end.

Definition alloc_field (k : fkind) (bs : list byte) : N :=
  match k with
  | KStr => alloc_str bs
  | KInt => 8
  | KBool => 1
  | KStrs => alloc_counted read_str alloc_str_elem bs
  | KBytes => alloc_str bs
  end.

Fixpoint alloc_fields (ks : list fkind) (bs : list byte) : N :=
  match ks with
  | [] => 0
  | k :: ks' => alloc_field k bs + after (read_field k bs) (alloc_fields ks')
  end.

Definition alloc_entry (bs : list byte) : N :=
  alloc_str bs + after (read_str bs) (fun r1 =>
  8 + match read_u64 r1 with
      | Ok (t, r2) => match meta_desc t with Some d => alloc_fields (map snd d) r2 | None => 0 end
      | _ => 0
      end).

Definition alloc_pair (bs : list byte) : N := alloc_str bs + after (read_str bs) alloc_str.
Definition alloc_keyed (bs : list byte) : N :=
  alloc_str bs + after (read_str bs) (alloc_counted read_str alloc_str_elem).

(* maps grow as they are filled: no request is driven by their count *)
Definition alloc_decode (bs : list byte) : N :=
  alloc_str bs + afterv (read_str bs) (fun v r0 =>
  if negb (String.eqb v codec_version) then 0 else
  alloc_str r0 + after (read_str r0) (fun r1 =>
  alloc_str r1 + after (read_str r1) (fun r2 =>
  alloc_counted read_entry alloc_entry r2 + after (read_counted read_entry r2) (fun r3 =>
  alloc_str r3 + after (read_str r3) (fun r4 =>
  alloc_str r4 + after (read_str r4) (fun r5 =>
  alloc_counted read_pair alloc_pair r5 + after (read_counted read_pair r5) (fun r6 =>
  alloc_counted read_pair alloc_pair r6 + after (read_counted read_pair r6) (fun r7 =>
  alloc_counted read_pair alloc_pair r7 + after (read_counted read_pair r7) (fun r8 =>
  alloc_counted read_keyed alloc_keyed r8 + after (read_counted read_keyed r8) (fun r9 =>
  alloc_counted read_keyed alloc_keyed r9)))))))))).
