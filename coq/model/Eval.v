(* Eval.v — the memoising evaluator and the action interpreter, with the memo
   discipline of ast/Expression.go, ExpressionAtom.go, Variable.go,
   Assignment.go, ThenExpression*.go, BuiltInFunctions.go, WorkingMemory.go
   (ResetVariable / Reset / ResetAll by snapshot containment). *)
From Coq Require Import Floats.
From Grule Require Import Base Values Syntax CmpGen ArithGen OpsGen Snapshot Printer EngineAbs Facts.
Open Scope Z_scope.

Record estate := {
  es_facts : facts;
  es_mexpr : list (expr * rval);        (* Expression nodes with Evaluated = true and their Value *)
  es_matom : list (atom * rval);        (* ExpressionAtom nodes with Evaluated = true *)
  es_calls : list (string * Z);         (* how often each fact method ran *)
  es_fx : list effect                   (* Retract / Complete calls of the action list being executed *)
}.

Definition with_facts (s : estate) (f : facts) : estate :=
  {| es_facts := f; es_mexpr := es_mexpr s; es_matom := es_matom s; es_calls := es_calls s; es_fx := es_fx s |}.
Definition memo_expr (s : estate) (e : expr) (v : rval) : estate :=
  {| es_facts := es_facts s; es_mexpr := (e, v) :: es_mexpr s; es_matom := es_matom s; es_calls := es_calls s; es_fx := es_fx s |}.
Definition memo_atom (s : estate) (a : atom) (v : rval) : estate :=
  {| es_facts := es_facts s; es_mexpr := es_mexpr s; es_matom := (a, v) :: es_matom s; es_calls := es_calls s; es_fx := es_fx s |}.
Definition add_fx (s : estate) (fx : effect) : estate :=
  {| es_facts := es_facts s; es_mexpr := es_mexpr s; es_matom := es_matom s; es_calls := es_calls s; es_fx := es_fx s ++ [fx] |}.
Definition count_call (s : estate) (m : string) : estate :=
  let n := match alookup m (es_calls s) with Some n => n | None => 0 end in
  {| es_facts := es_facts s; es_mexpr := es_mexpr s; es_matom := es_matom s; es_calls := aupdate m (n + 1) (es_calls s); es_fx := es_fx s |}.

Fixpoint lookup_expr (m : list (expr * rval)) (e : expr) : option rval :=
  match m with [] => None | (k, v) :: m' => if expr_eqb k e then Some v else lookup_expr m' e end.
Fixpoint lookup_atom (m : list (atom * rval)) (a : atom) : option rval :=
  match m with [] => None | (k, v) :: m' => if atom_eqb k a then Some v else lookup_atom m' a end.

(* WorkingMemory.ResetVariable: forget every node whose snapshot contains the variable's snapshot *)
Definition reset_variable (s : estate) (x : var) : estate :=
  let vs := var_snapshot x in
  {| es_facts := es_facts s;
     es_mexpr := filter (fun p => negb (containsb (expr_snapshot (fst p)) vs)) (es_mexpr s);
     es_matom := filter (fun p => negb (containsb (atom_snapshot (fst p)) vs)) (es_matom s);
     es_calls := es_calls s; es_fx := es_fx s |}.

(* WorkingMemory.ResetAll *)
Definition reset_all (s : estate) : estate :=
  {| es_facts := es_facts s; es_mexpr := []; es_matom := []; es_calls := es_calls s; es_fx := es_fx s |}.

Section Eval.
(* the variables registered in the working memory (variableSnapshotMap) *)
Variable allvars : list var.
(* fact methods: receiver struct, method name, arguments -> (optional result, receiver afterwards) *)
Variable meth : list (string * fval) -> string -> list val -> res (option val * list (string * fval)).
(* does a panicking call panic inside the method body (after it was entered) rather than in reflect.Call? *)
Variable panics_inside : string -> list val -> bool.

(* WorkingMemory.Reset(name): Forget / Changed *)
Definition reset_name (s : estate) (name : string) : estate :=
  match find (fun v => String.eqb (var_text v) name) allvars with
  | Some v => reset_variable s v
  | None =>
      {| es_facts := es_facts s;
         es_mexpr := filter (fun p => negb (containsb (expr_snapshot (fst p)) name || containsb (expr_text (fst p)) name)) (es_mexpr s);
         es_matom := filter (fun p => negb (containsb (atom_snapshot (fst p)) name || containsb (atom_text (fst p)) name)) (es_matom s);
         es_calls := es_calls s; es_fx := es_fx s |}
  end.

Definition const_val (c : const) : val :=
  match c with
  | CStr s => VStr s
  | CInt z => VInt I64 z
  | CFloat b => VFloat F64 (float_of_bits b)
  | CBool b => VBool b
  | CNil => VNil
  end.

(* ---- ASCII case mapping for the string built-ins ---- *)
Definition upper_char (c : ascii) : ascii :=
  let n := nat_of_ascii c in if (Nat.leb 97 n && Nat.leb n 122)%bool then ascii_of_nat (n - 32) else c.
Definition lower_char (c : ascii) : ascii :=
  let n := nat_of_ascii c in if (Nat.leb 65 n && Nat.leb n 90)%bool then ascii_of_nat (n + 32) else c.
Fixpoint map_string (f : ascii -> ascii) (s : string) : string :=
  match s with EmptyString => EmptyString | String c s' => String (f c) (map_string f s') end.
Fixpoint suffixb (suf s : string) : bool :=
  if String.eqb suf s then true else match s with EmptyString => false | String _ s' => suffixb suf s' end.

(* strings.Index / LastIndex / Count / ReplaceAll / TrimSpace / Repeat on byte strings (the domain is ASCII) *)
Fixpoint drop_str (n : nat) (s : string) : string :=
  match n, s with O, _ => s | S n', String _ s' => drop_str n' s' | S _, EmptyString => EmptyString end.
Fixpoint index_from (x s : string) (i : Z) : Z :=
  if prefixb x s then i else match s with EmptyString => -1 | String _ s' => index_from x s' (i + 1) end.
Fixpoint last_index_from (x s : string) (i best : Z) : Z :=
  let best' := if prefixb x s then i else best in
  match s with EmptyString => best' | String _ s' => last_index_from x s' (i + 1) best' end.
(* non-overlapping occurrences of a non-empty x, left to right; fuel = S (length s) is enough *)
Fixpoint count_fuel (fuel : nat) (x s : string) : Z :=
  match fuel with
  | O => 0
  | S f => if prefixb x s then 1 + count_fuel f x (drop_str (String.length x) s)
           else match s with EmptyString => 0 | String _ s' => count_fuel f x s' end
  end.
Definition str_count (s x : string) : Z :=
  match x with EmptyString => strlenZ s + 1 | _ => count_fuel (S (String.length s)) x s end.
Fixpoint replace_fuel (fuel : nat) (old new s : string) : string :=
  match fuel with
  | O => s
  | S f => if prefixb old s then (new ++ replace_fuel f old new (drop_str (String.length old) s))%string
           else match s with EmptyString => EmptyString | String c s' => String c (replace_fuel f old new s') end
  end.
Fixpoint intersperse (new s : string) : string :=
  match s with EmptyString => new | String c s' => (new ++ String c (intersperse new s'))%string end.
Definition str_replace (s old new : string) : string :=
  match old with EmptyString => intersperse new s | _ => replace_fuel (S (String.length s)) old new s end.
Definition is_space (c : ascii) : bool :=
  let n := nat_of_ascii c in (Nat.leb 9 n && Nat.leb n 13 || Nat.eqb n 32)%bool.
Fixpoint trim_left (s : string) : string :=
  match s with String c s' => if is_space c then trim_left s' else s | EmptyString => s end.
Fixpoint rev_str (s acc : string) : string :=
  match s with EmptyString => acc | String c s' => rev_str s' (String c acc) end.
Definition trim_space (s : string) : string := rev_str (trim_left (rev_str (trim_left s) EmptyString)) EmptyString.
Fixpoint repeat_str (n : nat) (s : string) : string :=
  match n with O => EmptyString | S n' => (s ++ repeat_str n' s)%string end.

(* StrIn scans its arguments in order: the first equal string answers true even when a later argument is no string *)
Fixpoint str_in (s : string) (l : list val) : res val :=
  match l with
  | [] => Ok (VBool false)
  | VStr x :: t => if String.eqb x s then Ok (VBool true) else str_in s t
  | _ :: _ => Err
  end.

(* constant functions on strings (model/DataAccessLayer.go) *)
Definition string_func (s : string) (f : string) (args : list val) : res val :=
  match f, args with
  | "Index"%string, [VStr x] => Ok (VInt Iw (index_from x s 0))
  | "LastIndex"%string, [VStr x] => Ok (VInt Iw (last_index_from x s 0 (-1)))
  | "Count"%string, [VStr x] => Ok (VInt Iw (str_count s x))
  | "Replace"%string, [VStr o; VStr n] => Ok (VStr (str_replace s o n))
  | "Trim"%string, [] => Ok (VStr (trim_space s))
  | "Repeat"%string, [VInt _ n] | "Repeat"%string, [VUint _ n] =>
      if n <? 0 then Panic                                  (* strings.Repeat: negative Repeat count *)
      else if 4096 <? n * (strlenZ s + 1) then Err          (* outside the modelled range *)
      else Ok (VStr (repeat_str (Z.to_nat n) s))
  | "Len"%string, [] => Ok (VInt Iw (strlenZ s))
  | "ToUpper"%string, [] => Ok (VStr (map_string upper_char s))
  | "ToLower"%string, [] => Ok (VStr (map_string lower_char s))
  | "Contains"%string, [VStr x] => Ok (VBool (containsb s x))
  | "HasPrefix"%string, [VStr x] => Ok (VBool (prefixb x s))
  | "HasSuffix"%string, [VStr x] => Ok (VBool (suffixb x s))
  | "Compare"%string, [VStr x] => Ok (VInt Iw (match String.compare s x with Eq => 0 | Lt => -1 | Gt => 1 end))
  | "In"%string, l => str_in s l
  | _, _ => Err
  end.

(* DEFUNC built-ins that are plain functions of their arguments *)
Definition pure_builtin (f : string) (args : list val) : option (res val) :=
  match f, args with
  | "Max"%string, l =>
      if forallb (fun v => match v with VFloat F64 _ => true | _ => false end) l then
        Some (Ok (VFloat F64 (match l with
                              | [] => PrimFloat.zero
                              | VFloat _ x :: t => fold_left (fun acc v => match v with VFloat _ y => if f_gt y acc then y else acc | _ => acc end) t x
                              | _ => PrimFloat.zero
                              end)))
      else Some Panic
  | "Min"%string, l =>
      if forallb (fun v => match v with VFloat F64 _ => true | _ => false end) l then
        Some (Ok (VFloat F64 (match l with
                              | [] => PrimFloat.zero
                              | VFloat _ x :: t => fold_left (fun acc v => match v with VFloat _ y => if f_lt y acc then y else acc | _ => acc end) t x
                              | _ => PrimFloat.zero
                              end)))
      else Some Panic
  | "Abs"%string, [VFloat F64 x] => Some (Ok (VFloat F64 (PrimFloat.abs x)))
  | "Abs"%string, _ => Some Panic
  | "IsZero"%string, [v] =>
      Some (Ok (VBool (match v with
                       | VInt _ z | VUint _ z => z =? 0
                       | VFloat _ x => f_eq x PrimFloat.zero
                       | VStr s => String.eqb s EmptyString
                       | _ => false
                       end)))
  | _, _ => None
  end.

Definition arg_val (s : estate) (r : rval) : val := scalar_of (es_facts s) r.

(* what a method call on receiver r yields on facts fx: result and (for struct receivers) the facts afterwards *)
Inductive call_kind := CallPure (r : res rval) | CallStruct (p : path) (fs : list (string * fval)).

Definition receiver_kind (fx : facts) (r : rval) (f : string) (args : list val) : call_kind :=
  match r with
  | RV (VStr str) => CallPure (match string_func str f args with Ok v => Ok (RV v) | Err => Err | Panic => Panic end)
  | RV _ => CallPure Err
  | RRef p =>
      match path_get fx p with
      | Ok (FSlice xs) => CallPure (match f, args with "Len"%string, [] => Ok (RV (VInt Iw (Z.of_nat (List.length xs)))) | _, _ => Err end)
      | Ok (FMap kvs) => CallPure (match f, args with "Len"%string, [] => Ok (RV (VInt Iw (Z.of_nat (List.length kvs)))) | _, _ => Err end)
      | Ok (FPtr (Some (FStruct fs))) => CallStruct p fs
      | Ok (FPtr None) => CallPure Panic          (* MethodByName on a nil receiver: the method itself dereferences *)
      | Ok _ => CallPure Err
      | Err => CallPure Err
      | Panic => CallPure Panic
      end
  end.

(* the receiver of a method call: a struct behind a reference *)
Definition call_receiver (s : estate) (r : rval) (f : string) (args : list val) : res rval * estate :=
  match receiver_kind (es_facts s) r f args with
  | CallPure res => (res, s)
  | CallStruct p fs =>
      match meth fs f args with
      | Ok (ret, fs') =>
          let s := count_call s f in
          match path_set (es_facts s) p (FPtr (Some (FStruct fs'))) with
          | Some fx => (Ok (RV (match ret with Some v => v | None => VNil end)), with_facts s fx)
          | None => (Err, s)
          end
      | Err => (Err, s)
      | Panic => (Panic, if panics_inside f args then count_call s f else s)
      end
  end.

(* navigation from an evaluated node *)
Definition child_field_f (fx : facts) (r : rval) (n : string) : res rval :=
  match r with
  | RRef p => match path_get fx p with
              | Ok v => match step_get v (SField n) with
                        | Ok c => Ok (rval_of (path_snoc p (SField n)) c)
                        | Err => Err | Panic => Panic
                        end
              | Err => Err | Panic => Panic
              end
  | RV _ => Err
  end.
Definition child_field (s : estate) (r : rval) (n : string) : res rval := child_field_f (es_facts s) r n.

Definition child_sel_f (fx : facts) (r : rval) (k : val) : res rval :=
  match r with
  | RRef p =>
      match path_get fx p with
      | Ok (FSlice xs) =>
          match k with
          | VInt _ i => match nth_z xs i with Some c => Ok (rval_of (path_snoc p (SIndex i)) c) | None => Err end
          | _ => Panic                                (* selValue.Int() on a non-int kind *)
          end
      | Ok (FMap kvs) =>
          match k with
          | VStr key => match field_get kvs key with Some c => Ok (rval_of (path_snoc p (SKey key)) c) | None => Err end
          | _ => Panic                                (* MapIndex with a key of another type *)
          end
      | Ok _ => Err
      | Err => Err | Panic => Panic
      end
  | RV _ => Err
  end.
Definition child_sel (s : estate) (r : rval) (k : val) : res rval := child_sel_f (es_facts s) r k.

Definition negate (r : rval) : rval := match r with RV (VBool b) => RV (VBool (negb b)) | _ => r end.

(* the DEFUNC built-ins with a control effect *)
Inductive dkind := DRetract | DComplete | DForget | DOther.
Definition defunc_kind (f : string) : dkind :=
  if String.eqb f "Retract" then DRetract
  else if String.eqb f "Complete" then DComplete
  else if String.eqb f "Forget" || String.eqb f "Changed" then DForget
  else DOther.

(* Expression.Evaluate on a binary node, apart from the recursive calls *)
Definition bin_left_fail (o : op) (lres : res rval) : option (res rval) :=
  match o, lres with
  | OAnd, Err | OOr, Err => Some Err          (* the logical operators return the left operand's error at once *)
  | _, Panic => Some Panic                    (* a panic unwinds immediately: the right operand is never evaluated *)
  | _, _ => None
  end.
Definition bin_shortcut (o : op) (fx : facts) (lres : res rval) : option rval :=
  match o, lres with
  | OAnd, Ok lv => match EvaluateLogicSingle (scalar_of fx lv) with Ok (VBool false) => Some (RV (VBool false)) | _ => None end
  | OOr, Ok lv => match EvaluateLogicSingle (scalar_of fx lv) with Ok (VBool true) => Some (RV (VBool true)) | _ => None end
  | _, _ => None
  end.
Definition bin_combine (o : op) (fx : facts) (lres rres : res rval) : res rval :=
  match lres, rres with
  | Panic, _ => Panic
  | Err, Panic => Panic
  | Err, _ => Err
  | Ok _, Err => Err
  | Ok _, Panic => Panic
  | Ok lv, Ok rv =>
      match op_apply o (scalar_of fx lv) (scalar_of fx rv) with
      | Ok v => Ok (RV v)
      | Err => Err
      | Panic => Panic
      end
  end.

(* DEFUNC calls that only compute a value from their (evaluated) arguments *)
Definition defunc_value (fx : facts) (f : string) (vs : list rval) : res rval :=
  let vals := map (scalar_of fx) vs in
  match f, vals with
  | "IsNil"%string, [_] =>
      match vs with
      | [RV VNil] => Ok (RV (VBool true))
      | [RV _] => Ok (RV (VBool false))
      | [RRef p] => match path_get fx p with
                    | Ok (FPtr None) => Ok (RV (VBool true))
                    | Ok (FStruct _) | Ok (FPtr (Some _)) => Ok (RV (VBool false))
                    | Ok (FSlice _) | Ok (FMap _) => Ok (RV (VBool false))
                    | _ => Err
                    end
      | _ => Err
      end
  | _, _ => match pure_builtin f vals with
            | Some (Ok v) => Ok (RV v)
            | Some Err => Err
            | Some Panic => Panic
            | None => Err          (* no such function *)
            end
  end.

Fixpoint eval_expr (e : expr) (s : estate) {struct e} : res rval * estate :=
  match lookup_expr (es_mexpr s) e with
  | Some v => (Ok v, s)
  | None =>
    match e with
    | EAtom a =>
        match eval_atom a s with
        | (Ok v, s1) => (Ok v, memo_expr s1 e v)
        | (r, s1) => (r, s1)
        end
    | EParen neg e' =>
        match eval_expr e' s with
        | (Ok v, s1) => let v' := if neg then negate v else v in (Ok v', memo_expr s1 e v')
        | (r, s1) => (r, s1)
        end
    | EBin o l r =>
        let '(lres, s1) := eval_expr l s in
        match bin_left_fail o lres with
        | Some r0 => (r0, s1)
        | None =>
          match bin_shortcut o (es_facts s1) lres with
          | Some v => (Ok v, memo_expr s1 e v)
          | None =>
              let '(rres, s2) := eval_expr r s1 in
              match bin_combine o (es_facts s2) lres rres with
              | Ok v => (Ok v, memo_expr s2 e v)
              | r0 => (r0, s2)
              end
          end
        end
    end
  end
with eval_atom (a : atom) (s : estate) {struct a} : res rval * estate :=
  match lookup_atom (es_matom s) a with
  | Some v => (Ok v, s)
  | None =>
    match a with
    | AConst c => let v := RV (const_val c) in (Ok v, memo_atom s a v)
    | AVar x =>
        match eval_var x s with
        | (Ok v, s1) => (Ok v, memo_atom s1 a v)
        | (r, s1) => (r, s1)
        end
    | AFunc f args =>
        (* DEFUNC call: never remembered *)
        match eval_args args s with
        | (Ok vs, s1) =>
            let vals := map (arg_val s1) vs in
            match defunc_kind f, vals with
            | DRetract, [VStr n] => (Ok (RV VNil), add_fx s1 (FxRetract n))
            | DComplete, [] => (Ok (RV VNil), add_fx s1 FxComplete)
            | DForget, [VStr n] => (Ok (RV VNil), reset_name s1 n)
            | DOther, _ => (defunc_value (es_facts s1) f vs, s1)
            | _, _ => (Panic, s1)          (* reflect.Call with arguments of the wrong type or number *)
            end
        | (Err, s1) => (Err, s1)
        | (Panic, s1) => (Panic, s1)
        end
    | ANeg a' =>
        match eval_atom a' s with
        | (Ok v, s1) => let v' := negate v in (Ok v', memo_atom s1 a v')
        | (r, s1) => (r, s1)
        end
    | AMethod a' f args =>
        match eval_atom a' s with
        | (Ok recv, s1) =>
            match eval_args args s1 with
            | (Ok vs, s2) =>
                match call_receiver s2 recv f (map (arg_val s2) vs) with
                | (Ok v, s3) => (Ok v, memo_atom s3 a v)
                | (r, s3) => (r, s3)
                end
            | (Err, s2) => (Err, s2)
            | (Panic, s2) => (Panic, s2)
            end
        | (r, s1) => (r, s1)
        end
    | AMember a' n =>
        match eval_atom a' s with
        | (Ok recv, s1) =>
            match child_field s1 recv n with
            | Ok v => (Ok v, memo_atom s1 a v)
            | Err => (Err, s1) | Panic => (Panic, s1)
            end
        | (r, s1) => (r, s1)
        end
    | ASel a' sel =>
        (* atom[sel]: never remembered *)
        match eval_atom a' s with
        | (Ok recv, s1) =>
            match eval_expr sel s1 with
            | (Ok k, s2) => (child_sel s2 recv (arg_val s2 k), s2)
            | (r, s2) => (r, s2)
            end
        | (r, s1) => (r, s1)
        end
    end
  end
with eval_var (x : var) (s : estate) {struct x} : res rval * estate :=
  (* Variable.Evaluate: nothing is remembered at this level *)
  match x with
  | VName n =>
      match alookup n (es_facts s) with
      | Some v => (Ok (rval_of {| p_root := n; p_steps := [] |} v), s)
      | None => (Err, s)
      end
  | VMember x' n =>
      match eval_var x' s with
      | (Ok r, s1) => (child_field s1 r n, s1)
      | (r, s1) => (r, s1)
      end
  | VSel x' sel =>
      match eval_var x' s with
      | (Ok r, s1) =>
          match eval_expr sel s1 with
          | (Ok k, s2) => (child_sel s2 r (arg_val s2 k), s2)
          | (r', s2) => (r', s2)
          end
      | (r, s1) => (r, s1)
      end
  end
with eval_args (l : elist) (s : estate) {struct l} : res (list rval) * estate :=
  match l with
  | ENil => (Ok [], s)
  | ECons e l' =>
      match eval_expr e s with
      | (Ok v, s1) =>
          match eval_args l' s1 with
          | (Ok vs, s2) => (Ok (v :: vs), s2)
          | (Err, s2) => (Err, s2)
          | (Panic, s2) => (Panic, s2)
          end
      | (Err, s1) => (Err, s1)
      | (Panic, s1) => (Panic, s1)
      end
  end.

(* the bodies of eval_expr / eval_atom after a memo miss, as plain definitions, with the unfolding equations
   (the mutual fixpoint does not unfold by simpl once the section is closed) *)
Definition eval_expr_miss (e : expr) (s : estate) : res rval * estate :=
    match e with
    | EAtom a =>
        match eval_atom a s with
        | (Ok v, s1) => (Ok v, memo_expr s1 e v)
        | (r, s1) => (r, s1)
        end
    | EParen neg e' =>
        match eval_expr e' s with
        | (Ok v, s1) => let v' := if neg then negate v else v in (Ok v', memo_expr s1 e v')
        | (r, s1) => (r, s1)
        end
    | EBin o l r =>
        let '(lres, s1) := eval_expr l s in
        match bin_left_fail o lres with
        | Some r0 => (r0, s1)
        | None =>
          match bin_shortcut o (es_facts s1) lres with
          | Some v => (Ok v, memo_expr s1 e v)
          | None =>
              let '(rres, s2) := eval_expr r s1 in
              match bin_combine o (es_facts s2) lres rres with
              | Ok v => (Ok v, memo_expr s2 e v)
              | r0 => (r0, s2)
              end
          end
        end
    end.
Definition eval_atom_miss (a : atom) (s : estate) : res rval * estate :=
    match a with
    | AConst c => let v := RV (const_val c) in (Ok v, memo_atom s a v)
    | AVar x =>
        match eval_var x s with
        | (Ok v, s1) => (Ok v, memo_atom s1 a v)
        | (r, s1) => (r, s1)
        end
    | AFunc f args =>
        (* DEFUNC call: never remembered *)
        match eval_args args s with
        | (Ok vs, s1) =>
            let vals := map (arg_val s1) vs in
            match defunc_kind f, vals with
            | DRetract, [VStr n] => (Ok (RV VNil), add_fx s1 (FxRetract n))
            | DComplete, [] => (Ok (RV VNil), add_fx s1 FxComplete)
            | DForget, [VStr n] => (Ok (RV VNil), reset_name s1 n)
            | DOther, _ => (defunc_value (es_facts s1) f vs, s1)
            | _, _ => (Panic, s1)          (* reflect.Call with arguments of the wrong type or number *)
            end
        | (Err, s1) => (Err, s1)
        | (Panic, s1) => (Panic, s1)
        end
    | ANeg a' =>
        match eval_atom a' s with
        | (Ok v, s1) => let v' := negate v in (Ok v', memo_atom s1 a v')
        | (r, s1) => (r, s1)
        end
    | AMethod a' f args =>
        match eval_atom a' s with
        | (Ok recv, s1) =>
            match eval_args args s1 with
            | (Ok vs, s2) =>
                match call_receiver s2 recv f (map (arg_val s2) vs) with
                | (Ok v, s3) => (Ok v, memo_atom s3 a v)
                | (r, s3) => (r, s3)
                end
            | (Err, s2) => (Err, s2)
            | (Panic, s2) => (Panic, s2)
            end
        | (r, s1) => (r, s1)
        end
    | AMember a' n =>
        match eval_atom a' s with
        | (Ok recv, s1) =>
            match child_field s1 recv n with
            | Ok v => (Ok v, memo_atom s1 a v)
            | Err => (Err, s1) | Panic => (Panic, s1)
            end
        | (r, s1) => (r, s1)
        end
    | ASel a' sel =>
        (* atom[sel]: never remembered *)
        match eval_atom a' s with
        | (Ok recv, s1) =>
            match eval_expr sel s1 with
            | (Ok k, s2) => (child_sel s2 recv (arg_val s2 k), s2)
            | (r, s2) => (r, s2)
            end
        | (r, s1) => (r, s1)
        end
    end.

Lemma eval_expr_unfold : forall e s,
  eval_expr e s = match lookup_expr (es_mexpr s) e with Some v => (Ok v, s) | None => eval_expr_miss e s end.
Proof. intros [a|n e'|o l r] s; reflexivity. Qed.
Lemma eval_atom_unfold : forall a s,
  eval_atom a s = match lookup_atom (es_matom s) a with Some v => (Ok v, s) | None => eval_atom_miss a s end.
Proof. intros [c|x|f l|a' f l|a' n|a' e|a'] s; reflexivity. Qed.
Lemma eval_var_unfold : forall x s,
  eval_var x s =
  match x with
  | VName n =>
      match alookup n (es_facts s) with
      | Some v => (Ok (rval_of {| p_root := n; p_steps := [] |} v), s)
      | None => (Err, s)
      end
  | VMember x' n =>
      match eval_var x' s with
      | (Ok r, s1) => (child_field s1 r n, s1)
      | (r, s1) => (r, s1)
      end
  | VSel x' sel =>
      match eval_var x' s with
      | (Ok r, s1) =>
          match eval_expr sel s1 with
          | (Ok k, s2) => (child_sel s2 r (arg_val s2 k), s2)
          | (r', s2) => (r', s2)
          end
      | (r, s1) => (r, s1)
      end
  end.
Proof. intros [n|x' n|x' sel] s; reflexivity. Qed.
Lemma eval_args_unfold : forall l s,
  eval_args l s =
  match l with
  | ENil => (Ok [], s)
  | ECons e l' =>
      match eval_expr e s with
      | (Ok v, s1) =>
          match eval_args l' s1 with
          | (Ok vs, s2) => (Ok (v :: vs), s2)
          | (Err, s2) => (Err, s2)
          | (Panic, s2) => (Panic, s2)
          end
      | (Err, s1) => (Err, s1)
      | (Panic, s1) => (Panic, s1)
      end
  end.
Proof. intros [|e l'] s; reflexivity. Qed.

(* ---- Variable.Assign ---- *)
(* where an assignment goes: resolved by evaluating the parent variable (and the selector) *)
Inductive target := TTop (n : string) | TField (p : path) (n : string) | TIndex (p : path) (k : val).

Definition assign_target (x : var) (s : estate) : res target * estate :=
  match x with
  | VName n => (Ok (TTop n), s)
  | VMember x' n =>
      match eval_var x' s with
      | (Ok (RRef p), s1) => (Ok (TField p n), s1)
      | (Ok (RV _), s1) => (Err, s1)
      | (Err, s1) => (Err, s1)
      | (Panic, s1) => (Panic, s1)
      end
  | VSel x' sel =>
      match eval_var x' s with
      | (Ok r, s1) =>
          match eval_expr sel s1 with
          | (Ok k, s2) => match r with RRef p => (Ok (TIndex p (arg_val s2 k)), s2) | RV _ => (Err, s2) end
          | (Err, s2) => (Err, s2)
          | (Panic, s2) => (Panic, s2)
          end
      | (Err, s1) => (Err, s1)
      | (Panic, s1) => (Panic, s1)
      end
  end.

(* the store itself: a function of the facts only.
   SetObjectValueByField / SetArrayValueAt / SetMapValueAt / DataContext.Add *)
Definition write_target (fx : facts) (t : target) (newv : val) : res facts :=
  match t with
  | TTop n => Ok (aupdate n (FV newv) fx)       (* the entry is replaced by the plain value *)
  | TField p n =>
      match path_get fx p with
      | Ok (FPtr None) => Panic
      | Ok obj =>
          match step_get obj (SField n) with
          | Ok dst =>
              match store_scalar dst newv with
              | Ok nv => match path_set fx (path_snoc p (SField n)) nv with Some fx' => Ok fx' | None => Err end
              | _ => Err
              end
          | _ => Err
          end
      | Err => Err
      | Panic => Panic
      end
  | TIndex p k =>
      match path_get fx p, k with
      | Ok (FSlice xs), VInt _ i =>
          match nth_z xs i with
          | Some dst =>
              match store_scalar dst newv with
              | Ok nv => match path_set fx (path_snoc p (SIndex i)) nv with Some fx' => Ok fx' | None => Err end
              | _ => Err
              end
          | None => Err                     (* recovered index panic *)
          end
      | Ok (FSlice _), _ => Panic
      | Ok (FMap kvs), VStr key =>
          match store_map_elem (field_get kvs key) (match kvs with (_, e) :: _ => Some e | [] => None end) newv with
          | Ok nv => match path_set fx (path_snoc p (SKey key)) nv with Some fx' => Ok fx' | None => Err end
          | _ => Err
          end
      | Ok (FMap _), _ => Err               (* recovered SetMapIndex panic *)
      | Ok _, _ => Err
      | Err, _ => Err
      | Panic, _ => Panic
      end
  end.

(* WorkingMemory.ResetAssigned: besides the readers of the assigned variable, the readers of every variable whose access
   path may denote the same location.  Paths are compared component by component: a member and a literal string key are
   the same component (o.k and o["k"]), two different literal selectors never meet, any other selector may denote any
   element - at every level of the path (Items[Idx].Price and Items[0].Price). *)
Inductive pcomp := PName (n : string) | PField (n : string) | PIndex (i : Z) | PAny.
Fixpoint apath (v : var) : list pcomp :=
  match v with
  | VName n => [PName n]
  | VMember v' n => apath v' ++ [PField n]
  | VSel v' (EAtom (AConst (CStr k))) => apath v' ++ [PField k]
  | VSel v' (EAtom (AConst (CInt i))) => apath v' ++ [PIndex i]
  | VSel v' _ => apath v' ++ [PAny]
  end.
Definition comp_meet (a b : pcomp) : bool :=
  match a, b with
  | PAny, _ | _, PAny => true
  | PName x, PName y | PField x, PField y => String.eqb x y
  | PIndex i, PIndex j => Z.eqb i j
  | _, _ => false
  end.
Fixpoint paths_meet (p q : list pcomp) : bool :=
  match p, q with
  | [], [] => true
  | a :: p', b :: q' => comp_meet a b && paths_meet p' q'
  | _, _ => false
  end.
Definition lit_sel (sel : expr) : bool := match sel with EAtom (AConst (CStr _)) | EAtom (AConst (CInt _)) => true | _ => false end.
Definition may_alias (x v : var) : bool := negb (var_eqb v x) && paths_meet (apath x) (apath v).
Definition reset_set (x : var) : list var := x :: filter (may_alias x) allvars.
Definition reset_variables (s : estate) (xs : list var) : estate := fold_left reset_variable xs s.
Definition reset_assigned (s : estate) (x : var) : estate := reset_variables s (reset_set x).

(* Variable.Assign: resolve, store, then forget what depends on the variable *)
Definition assign_var (x : var) (newv : val) (s : estate) : res unit * estate :=
  match assign_target x s with
  | (Ok t, s1) =>
      match write_target (es_facts s1) t newv with
      | Ok fx' => (Ok tt, reset_assigned (with_facts s1 fx') x)
      | Err => (Err, s1)
      | Panic => (Panic, s1)
      end
  | (Err, s1) => (Err, s1)
  | (Panic, s1) => (Panic, s1)
  end.

Definition asg_op (o : asg) : option (val -> val -> res val) :=
  match o with
  | AsSet => None
  | AsAdd => Some EvaluateAddition
  | AsSub => Some EvaluateSubtraction
  | AsMul => Some EvaluateMultiplication
  | AsDiv => Some EvaluateDivision
  end.

(* ThenExpression.Execute *)
Definition exec_stmt (st : stmt) (s : estate) : res unit * estate :=
  match st with
  | SAtom a =>
      match eval_atom a s with
      | (Ok _, s1) => (Ok tt, s1)
      | (Err, s1) => (Err, s1)
      | (Panic, s1) => (Panic, s1)
      end
  | SAssign x o e =>
      match eval_expr e s with
      | (Ok rv, s1) =>
          let v := arg_val s1 rv in
          match asg_op o with
          | None => assign_var x v s1
          | Some f =>
              match eval_var x s1 with
              | (Ok cur, s2) =>
                  match f (arg_val s2 cur) v with
                  | Ok nv => assign_var x nv s2
                  | Err => (Err, s2)
                  | Panic => (Panic, s2)
                  end
              | (Err, s2) => (Err, s2)
              | (Panic, s2) => (Panic, s2)
              end
          end
      | (Err, s1) => (Err, s1)
      | (Panic, s1) => (Panic, s1)
      end
  end.

(* ThenExpressionList.Execute: in order, stop at the first failure *)
Fixpoint exec_stmts (l : list stmt) (s : estate) : bool * estate :=
  match l with
  | [] => (false, s)
  | st :: l' =>
      match exec_stmt st s with
      | (Ok _, s1) => exec_stmts l' s1
      | (_, s1) => (true, s1)
      end
  end.

(* ---- the rule-level interface used by the abstract engine ---- *)
Variable rules : list rule.
Definition find_rule (k : string) : option rule := find (fun r => String.eqb (rname r) k) rules.

(* RuleEntry.Evaluate after its entry checks: error / panic / non-boolean are errors *)
Definition rule_cond (s : estate) (e : entry) : estate * cres :=
  match find_rule (e_key e) with
  | Some r =>
      match eval_expr (rwhen r) s with
      | (Ok (RV (VBool true)), s1) => (s1, CTrue)
      | (Ok (RV (VBool false)), s1) => (s1, CFalse)
      | (_, s1) => (s1, CErr)
      end
  | None => (s, CErr)
  end.

Definition clear_fx (s : estate) : estate :=
  {| es_facts := es_facts s; es_mexpr := es_mexpr s; es_matom := es_matom s; es_calls := es_calls s; es_fx := [] |}.

Definition rule_act (s : estate) (e : entry) : estate * list effect * bool :=
  match find_rule (e_key e) with
  | Some r => let '(failed, s1) := exec_stmts (rthen r) (clear_fx s) in (clear_fx s1, es_fx s1, failed)
  | None => (s, [], true)
  end.

End Eval.
