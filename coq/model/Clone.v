(* Clone.v — the pointer graph of a knowledge base and KnowledgeBase.Clone.

   pkg/CloneTool.go        CloneTable (Records keyed by the AstID of the original)
   ast/*.go  Clone         every node type: allocate the copy, then for every child pointer, in field order,
                           `if cloneTable.IsCloned(child) { use the recorded copy } else { c := child.Clone(t); MarkCloned(child, c) }`
   ast/KnowledgeBase.go    Clone: every rule entry through the table, then WorkingMemory.Clone
   ast/WorkingMemory.go    Clone: the three snapshot maps and the two index maps are re-targeted through the
                           table; a target that is not on the table is an error ("... is not on the clone table")

   A node is (kind, label, children): kind = the Go struct type, label = its scalar fields (operator, names,
   constant text, GrlText ...), children = its pointer fields and slice elements in field order.  Node identity
   is an id (nat); the ids of a clone are taken from a supply (unique.NewID()), modelled by a counter.
   Sharing: the listener interns Expression / ExpressionAtom / Variable nodes by snapshot, so the graph is a DAG;
   the clone table keeps shared nodes shared inside the clone.
   Definitions only; proofs are in coq/proofs/CloneProofs.v. *)
From Grule Require Import Base.
Open Scope nat_scope.

Record node := { n_kind : string; n_label : string; n_kids : list nat }.
Definition graph := list (nat * node).

Fixpoint glookup (id : nat) (g : graph) : option node :=
  match g with
  | [] => None
  | (i, nd) :: g' => if Nat.eqb id i then Some nd else glookup id g'
  end.

Definition gdom (g : graph) : list nat := map fst g.

(* the five maps of the working memory: snapshot -> node, variable node -> dependent nodes *)
Record wmaps := { wm_expr : list (string * nat); wm_atom : list (string * nat); wm_var : list (string * nat);
                  wm_xidx : list (nat * list nat); wm_aidx : list (nat * list nat) }.

Record kbg := { g_nodes : graph;
                g_roots : list (string * nat);      (* RuleEntries: key -> rule entry node *)
                g_wm : wmaps }.

Definition wm_ids (w : wmaps) : list nat :=
  (map snd (wm_expr w) ++ map snd (wm_atom w) ++ map snd (wm_var w) ++
   flat_map (fun p => fst p :: snd p) (wm_xidx w) ++ flat_map (fun p => fst p :: snd p) (wm_aidx w))%list.

(* ---- the clone table ---- *)
Definition table := list (nat * nat).               (* original id -> id of its copy *)
Fixpoint tlookup (id : nat) (t : table) : option nat :=
  match t with
  | [] => None
  | (o, c) :: t' => if Nat.eqb id o then Some c else tlookup id t'
  end.

Record cst := { c_tbl : table; c_out : graph; c_next : nat }.

Definition clone_kids (cl : cst -> nat -> res (cst * nat)) : cst -> list nat -> res (cst * list nat) :=
  fix go (st : cst) (ids : list nat) : res (cst * list nat) :=
    match ids with
    | [] => Ok (st, [])
    | i :: t =>
        match cl st i with
        | Ok (st1, i') => match go st1 t with
                          | Ok (st2, t') => Ok (st2, i' :: t')
                          | Err => Err
                          | Panic => Panic
                          end
        | Err => Err
        | Panic => Panic
        end
    end.

(* clone of the node `id` unless the table has it.  fuel: structural (a DAG of depth < fuel); a missing node is a nil
   pointer dereference.  The id of the copy is drawn from the supply after the children were copied (the Go code draws
   it before; ids are opaque, only their distinctness matters). *)
Fixpoint clone_id (fuel : nat) (g : graph) (st : cst) (id : nat) : res (cst * nat) :=
  match fuel with
  | O => Err
  | S f =>
      match tlookup id (c_tbl st) with
      | Some id' => Ok (st, id')
      | None =>
          match glookup id g with
          | None => Panic
          | Some nd =>
              match clone_kids (clone_id f g) st (n_kids nd) with
              | Ok (st2, kids') =>
                  let id' := c_next st2 in
                  Ok ({| c_tbl := (id, id') :: c_tbl st2;
                         c_out := (id', {| n_kind := n_kind nd; n_label := n_label nd; n_kids := kids' |}) :: c_out st2;
                         c_next := S id' |}, id')
              | Err => Err
              | Panic => Panic
              end
          end
      end
  end.

Fixpoint clone_roots (fuel : nat) (g : graph) (st : cst) (roots : list (string * nat)) : res (cst * list (string * nat)) :=
  match roots with
  | [] => Ok (st, [])
  | (k, id) :: t =>
      match clone_id fuel g st id with
      | Ok (st1, id') => match clone_roots fuel g st1 t with
                         | Ok (st2, t') => Ok (st2, (k, id') :: t')
                         | Err => Err
                         | Panic => Panic
                         end
      | Err => Err
      | Panic => Panic
      end
  end.

(* WorkingMemory.Clone *)
Fixpoint retarget_ids (t : table) (ids : list nat) : res (list nat) :=
  match ids with
  | [] => Ok []
  | i :: r => match tlookup i t with
              | Some c => match retarget_ids t r with Ok r' => Ok (c :: r') | Err => Err | Panic => Panic end
              | None => Err                           (* "... is not on the clone table" *)
              end
  end.

Fixpoint retarget_map (t : table) (m : list (string * nat)) : res (list (string * nat)) :=
  match m with
  | [] => Ok []
  | (s, i) :: r => match tlookup i t with
                   | Some c => match retarget_map t r with Ok r' => Ok ((s, c) :: r') | Err => Err | Panic => Panic end
                   | None => Err
                   end
  end.

Fixpoint retarget_idx (t : table) (m : list (nat * list nat)) : res (list (nat * list nat)) :=
  match m with
  | [] => Ok []
  | (v, ids) :: r =>
      match tlookup v t, retarget_ids t ids with
      | Some c, Ok ids' => match retarget_idx t r with Ok r' => Ok ((c, ids') :: r') | Err => Err | Panic => Panic end
      | _, _ => Err
      end
  end.

Definition clone_wm (t : table) (w : wmaps) : res wmaps :=
  match retarget_map t (wm_expr w), retarget_map t (wm_atom w), retarget_map t (wm_var w), retarget_idx t (wm_xidx w), retarget_idx t (wm_aidx w) with
  | Ok e, Ok a, Ok v, Ok x, Ok y => Ok {| wm_expr := e; wm_atom := a; wm_var := v; wm_xidx := x; wm_aidx := y |}
  | _, _, _, _, _ => Err
  end.

(* KnowledgeBase.Clone with an empty table; `start` is the state of the id supply *)
Definition clone_kb (fuel : nat) (start : nat) (kb : kbg) : res (kbg * table * nat) :=
  match clone_roots fuel (g_nodes kb) {| c_tbl := []; c_out := []; c_next := start |} (g_roots kb) with
  | Ok (st, roots') =>
      match clone_wm (c_tbl st) (g_wm kb) with
      | Ok w' => Ok ({| g_nodes := c_out st; g_roots := roots'; g_wm := w' |}, c_tbl st, c_next st)
      | Err => Err
      | Panic => Panic
      end
  | Err => Err
  | Panic => Panic
  end.

(* ---- reading a graph as trees (what the evaluator sees) ---- *)
Inductive tree := Tr (kind label : string) (kids : list tree).

Definition unfold_list (u : nat -> option tree) : list nat -> option (list tree) :=
  fix go (ids : list nat) : option (list tree) :=
    match ids with
    | [] => Some []
    | i :: t => match u i, go t with Some x, Some r => Some (x :: r) | _, _ => None end
    end.

Fixpoint unfold (fuel : nat) (g : graph) (id : nat) : option tree :=
  match fuel with
  | O => None
  | S f => match glookup id g with
           | None => None
           | Some nd => match unfold_list (unfold f g) (n_kids nd) with
                        | Some ts => Some (Tr (n_kind nd) (n_label nd) ts)
                        | None => None
                        end
           end
  end.

(* ---- well-formedness, decidable ---- *)
(* ids are numbered so that children come before parents (post-order of the traversal that exports the graph): a DAG *)
Definition node_okb (g : graph) (p : nat * node) : bool :=
  forallb (fun k => Nat.ltb k (fst p) && match glookup k g with Some _ => true | None => false end) (n_kids (snd p)).

Fixpoint nodupb (l : list nat) : bool :=
  match l with [] => true | x :: t => negb (existsb (Nat.eqb x) t) && nodupb t end.

Definition wf_graphb (g : graph) : bool := nodupb (gdom g) && forallb (node_okb g) g.

Definition roots_okb (kb : kbg) : bool :=
  forallb (fun p => match glookup (snd p) (g_nodes kb) with Some _ => true | None => false end) (g_roots kb).

(* nodes reachable from the rule entries.  The exported node list is in increasing id order and children have smaller
   ids than their parents, so one pass from the highest id down marks everything reachable. *)
Definition add_marks (ks : list nat) (marked : list nat) : list nat :=
  fold_left (fun a k => if existsb (Nat.eqb k) a then a else k :: a) ks marked.
Fixpoint mark_down (nodes_desc : graph) (marked : list nat) : list nat :=
  match nodes_desc with
  | [] => marked
  | (id, nd) :: rest => if existsb (Nat.eqb id) marked then mark_down rest (add_marks (n_kids nd) marked) else mark_down rest marked
  end.
Definition reachable (kb : kbg) : list nat := mark_down (rev (g_nodes kb)) (map snd (g_roots kb)).

(* closed: every node the working memory points to is reachable from a rule entry (no orphan) *)
Definition closedb (kb : kbg) : bool :=
  forallb (fun i => existsb (Nat.eqb i) (reachable kb)) (wm_ids (g_wm kb)).

Definition max_id (g : graph) : nat := fold_left Nat.max (gdom g) 0.

(* ---- a heap of mutable cells owned by instances (memo flags, Retracted, Deleted ...) ---- *)
Section Heap.
Variable V : Type.
Definition heap := nat -> V.
Definition hstep := heap -> heap.
(* a step is local to a set of cells: it changes nothing outside, and what it writes inside depends only on the inside *)
Definition local (ids : list nat) (f : hstep) : Prop :=
  (forall h x, ~ In x ids -> f h x = h x) /\
  (forall h1 h2, (forall x, In x ids -> h1 x = h2 x) -> forall x, In x ids -> f h1 x = f h2 x).
Definition hrun (l : list hstep) (h : heap) : heap := fold_left (fun h f => f h) l h.
End Heap.
