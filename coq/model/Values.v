(* Values.v — Go values as seen through reflect by pkg/reflectmath.go and the
   data access layer: kinds, 64-bit wrap-around, float conversions, times.
   The leaves of the *generated* ArithGen.v are written with these helpers. *)
From Coq Require Import Floats.
From Grule Require Import Base.
Open Scope Z_scope.

Inductive ikind := Iw | I8 | I16 | I32 | I64.
Inductive ukind := Uw | U8 | U16 | U32 | U64 | Uptr.
Inductive fkind := F32 | F64.

(* reflect.Kind (the ones that matter) *)
Inductive kind :=
| KInvalid | KBool
| KInt | KInt8 | KInt16 | KInt32 | KInt64
| KUint | KUint8 | KUint16 | KUint32 | KUint64 | KUintptr
| KFloat32 | KFloat64
| KString | KStruct | KPointer | KInterface | KSlice | KMap | KOther.

Definition kind_of_ikind (k : ikind) : kind :=
  match k with Iw => KInt | I8 => KInt8 | I16 => KInt16 | I32 => KInt32 | I64 => KInt64 end.
Definition kind_of_ukind (k : ukind) : kind :=
  match k with Uw => KUint | U8 => KUint8 | U16 => KUint16 | U32 => KUint32 | U64 => KUint64 | Uptr => KUintptr end.
Definition kind_of_fkind (k : fkind) : kind :=
  match k with F32 => KFloat32 | F64 => KFloat64 end.

(* time.Time: the instant (ns since the epoch), the location (an opaque id:
   0 = UTC) and whether a monotonic reading is attached.  After/Before/Equal
   look at the instant only; struct equality (Go ==) looks at everything. *)
Record gotime := { t_inst : Z; t_loc : Z; t_mono : bool }.

Inductive val :=
| VInt (k : ikind) (z : Z)
| VUint (k : ukind) (z : Z)
| VFloat (k : fkind) (f : float)
| VStr (s : string)
| VBool (b : bool)
| VTime (t : gotime)
| VNil                               (* the zero reflect.Value *)
| VPtr (tgt : option val)            (* pointer, nil or owned target *)
| VIface (tgt : option val)          (* interface value *)
| VOpaque (k : kind) (ty : string).  (* struct / slice / map … as operand *)

Definition kind_of (v : val) : kind :=
  match v with
  | VInt k _ => kind_of_ikind k
  | VUint k _ => kind_of_ukind k
  | VFloat k _ => kind_of_fkind k
  | VStr _ => KString
  | VBool _ => KBool
  | VTime _ => KStruct
  | VNil => KInvalid
  | VPtr _ => KPointer
  | VIface _ => KInterface
  | VOpaque k _ => k
  end.

(* left.Type().String() == "time.Time" ; Type() of the zero Value panics *)
Definition type_is_time (v : val) : res bool :=
  match v with
  | VTime _ => Ok true
  | VNil => Panic
  | _ => Ok false
  end.

(* accessors used after a Kind() test; the default is unreachable when the
   generated match is well-formed (reflect would panic) *)
Definition as_int (v : val) : Z := match v with VInt _ z => z | _ => 0 end.
Definition as_uint (v : val) : Z := match v with VUint _ z => z | _ => 0 end.
Definition as_float (v : val) : float := match v with VFloat _ f => f | _ => PrimFloat.zero end.
Definition as_string (v : val) : string := match v with VStr s => s | _ => EmptyString end.
Definition as_bool (v : val) : bool := match v with VBool b => b | _ => false end.
Definition as_time (v : val) : gotime :=
  match v with VTime t => t | _ => {| t_inst := 0; t_loc := 0; t_mono := false |} end.

(* reflect.ValueOf(x) for the static Go type of x *)
Definition of_i64 (z : Z) : val := VInt I64 z.
Definition of_u64 (z : Z) : val := VUint U64 z.
Definition of_f64 (f : float) : val := VFloat F64 f.
Definition of_str (s : string) : val := VStr s.
Definition of_bool (b : bool) : val := VBool b.

(* ---- 64-bit integers ---- *)
Definition two64 : Z := 18446744073709551616.
Definition two63 : Z := 9223372036854775808.
Definition wrapu64 (z : Z) : Z := z mod two64.
Definition wrap64 (z : Z) : Z := (z + two63) mod two64 - two63.

Definition in_i64 (z : Z) : Prop := - two63 <= z < two63.
Definition in_u64 (z : Z) : Prop := 0 <= z < two64.
Definition in_i64b (z : Z) : bool := (- two63 <=? z) && (z <? two63).
Definition in_u64b (z : Z) : bool := (0 <=? z) && (z <? two64).

Definition i64_add a b := wrap64 (a + b).
Definition i64_sub a b := wrap64 (a - b).
Definition i64_mul a b := wrap64 (a * b).
Definition u64_add a b := wrapu64 (a + b).
Definition u64_sub a b := wrapu64 (a - b).
Definition u64_mul a b := wrapu64 (a * b).
(* Go % truncates toward zero; b = 0 is a run-time panic, handled by the caller *)
Definition i64_rem a b := wrap64 (Z.rem a b).
Definition u64_rem a b := Z.rem a b.
(* two's complement bit operations on int64: Z.land/Z.lor on signed Z agree *)
Definition i64_and a b := Z.land a b.
Definition i64_or a b := Z.lor a b.
Definition u64_and a b := Z.land a b.
Definition u64_or a b := Z.lor a b.
Definition i64_of_u64 (z : Z) : Z := wrap64 z.
Definition u64_of_i64 (z : Z) : Z := wrapu64 z.

(* ---- floats ---- *)
Definition f_of_nonneg63 (z : Z) : float := PrimFloat.of_uint63 (Uint63.of_Z z).

(* float64(x) for x : uint64 — round to nearest even.  Above 2^63 the value is
   halved keeping a sticky bit, converted, and doubled (exact). *)
Definition f64_of_u64 (z : Z) : float :=
  if z <? two63 then f_of_nonneg63 z
  else PrimFloat.mul (f_of_nonneg63 (Z.lor (Z.shiftr z 1) (Z.land z 1))) (f_of_nonneg63 2).

Definition f64_of_i64 (z : Z) : float :=
  if 0 <=? z then f64_of_u64 z else PrimFloat.opp (f64_of_u64 (- z)).

Definition f_gt (a b : float) : bool := PrimFloat.ltb b a.
Definition f_lt (a b : float) : bool := PrimFloat.ltb a b.
Definition f_ge (a b : float) : bool := PrimFloat.leb b a.
Definition f_le (a b : float) : bool := PrimFloat.leb a b.
Definition f_eq (a b : float) : bool := PrimFloat.eqb a b.
Definition f_ne (a b : float) : bool := negb (PrimFloat.eqb a b).
Definition f_is_nan (a : float) : bool := negb (PrimFloat.eqb a a).

(* ---- strings (byte-wise order, as Go) ---- *)
Definition s_lt (a b : string) : bool := String.ltb a b.
Definition s_gt (a b : string) : bool := String.ltb b a.
Definition s_le (a b : string) : bool := String.leb a b.
Definition s_ge (a b : string) : bool := String.leb b a.
Definition s_eq (a b : string) : bool := String.eqb a b.
Definition s_ne (a b : string) : bool := negb (String.eqb a b).

(* ---- times ---- *)
Definition time_after (a b : gotime) : bool := t_inst a >? t_inst b.
Definition time_before (a b : gotime) : bool := t_inst a <? t_inst b.
Definition time_equal (a b : gotime) : bool := t_inst a =? t_inst b.
(* Go == on time.Time values: field-wise *)
Definition time_struct_eqb (a b : gotime) : bool :=
  (t_inst a =? t_inst b) && (t_loc a =? t_loc b) && Bool.eqb (t_mono a) (t_mono b).

(* time.Format(RFC3339) is NOT modelled (calendar arithmetic, zone names): the
   placeholder keeps string+time concatenation total; such expressions are
   excluded from generated correspondence cases (DESIGN 3.3). *)
Definition time_rfc3339 (t : gotime) : string := ("<time " ++ show_Z (t_inst t) ++ ">")%string.

(* pkg.GetValueElem: strip pointers and interfaces *)
Fixpoint get_value_elem (v : val) : val :=
  match v with
  | VPtr (Some t) => get_value_elem t
  | VPtr None => VNil
  | VIface (Some t) => get_value_elem t
  | VIface None => VNil
  | _ => v
  end.

(* ---- fmt verbs used by string concatenation ---- *)
Definition fmt_d (z : Z) : string := show_Z z.
Definition fmt_v_bool (b : bool) : string := if b then "true"%string else "false"%string.

(* %f : exact value rounded (half to even) to 6 decimals *)
Definition pad6 (s : string) : string :=
  let n := String.length s in
  (fix pad (k : nat) (acc : string) := match k with O => acc | S k' => pad k' (String "0" acc) end)
    (6 - n)%nat s.

Definition round_half_even_div (n d : Z) : Z :=
  let q := n / d in let r := n mod d in
  if 2 * r <? d then q
  else if d <? 2 * r then q + 1
  else if Z.even q then q else q + 1.

Definition fmt_f (f : float) : string :=
  match Prim2SF f with
  | SpecFloat.S754_nan => "NaN"%string
  | SpecFloat.S754_infinity false => "+Inf"%string
  | SpecFloat.S754_infinity true => "-Inf"%string
  | SpecFloat.S754_zero s => ((if s then "-" else "") ++ "0.000000")%string
  | SpecFloat.S754_finite s m e =>
      let num := Zpos m * 1000000 in
      let scaled := if 0 <=? e then num * 2 ^ e else round_half_even_div num (2 ^ (- e)) in
      ((if s then "-" else "") ++ show_nonneg (scaled / 1000000) ++ "." ++ pad6 (show_nonneg (scaled mod 1000000)))%string
  end.

(* literals handed over by the harness *)
Definition bytes_to_string (l : list Z) : string :=
  fold_right (fun b acc => String (ascii_of_nat (Z.to_nat b)) acc) EmptyString l.

(* IEEE-754 binary64 bit pattern -> primitive float (exact) *)
Definition float_of_bits (bits : Z) : float :=
  let sign := Z.testbit bits 63 in
  let e := Z.land (Z.shiftr bits 52) 2047 in
  let m := Z.land bits (2 ^ 52 - 1) in
  let mag :=
    if e =? 2047 then (if m =? 0 then PrimFloat.infinity else PrimFloat.nan)
    else if e =? 0 then
      (if m =? 0 then PrimFloat.zero
       else Z.ldexp (PrimFloat.of_uint63 (Uint63.of_Z m)) (-1074))
    else Z.ldexp (PrimFloat.of_uint63 (Uint63.of_Z (m + 2 ^ 52))) (e - 1075) in
  if sign then PrimFloat.opp mag else mag.


(* value equality used by the correspondence (floats by IEEE bits via Prim2SF) *)
Definition float_bits_eqb (a b : float) : bool :=
  match Prim2SF a, Prim2SF b with
  | SpecFloat.S754_nan, SpecFloat.S754_nan => true
  | SpecFloat.S754_infinity s1, SpecFloat.S754_infinity s2 => Bool.eqb s1 s2
  | SpecFloat.S754_zero s1, SpecFloat.S754_zero s2 => Bool.eqb s1 s2
  | SpecFloat.S754_finite s1 m1 e1, SpecFloat.S754_finite s2 m2 e2 =>
      Bool.eqb s1 s2 && Pos.eqb m1 m2 && Z.eqb e1 e2
  | _, _ => false
  end.

Definition ikind_eqb (a b : ikind) : bool :=
  match a, b with Iw, Iw | I8, I8 | I16, I16 | I32, I32 | I64, I64 => true | _, _ => false end.
Definition ukind_eqb (a b : ukind) : bool :=
  match a, b with Uw, Uw | U8, U8 | U16, U16 | U32, U32 | U64, U64 | Uptr, Uptr => true | _, _ => false end.
Definition fkind_eqb (a b : fkind) : bool :=
  match a, b with F32, F32 | F64, F64 => true | _, _ => false end.

Fixpoint val_eqb (a b : val) : bool :=
  match a, b with
  | VInt k1 z1, VInt k2 z2 => ikind_eqb k1 k2 && (z1 =? z2)
  | VUint k1 z1, VUint k2 z2 => ukind_eqb k1 k2 && (z1 =? z2)
  | VFloat k1 f1, VFloat k2 f2 => fkind_eqb k1 k2 && float_bits_eqb f1 f2
  | VStr s1, VStr s2 => String.eqb s1 s2
  | VBool b1, VBool b2 => Bool.eqb b1 b2
  | VTime t1, VTime t2 => time_struct_eqb t1 t2
  | VNil, VNil => true
  | VPtr o1, VPtr o2 | VIface o1, VIface o2 =>
      match o1, o2 with
      | None, None => true
      | Some x, Some y => val_eqb x y
      | _, _ => false
      end
  | VOpaque _ t1, VOpaque _ t2 => String.eqb t1 t2
  | _, _ => false
  end.

Definition res_val_eqb (a b : res val) : bool :=
  match a, b with
  | Ok x, Ok y => val_eqb x y
  | Err, Err => true
  | Panic, Panic => true
  | _, _ => false
  end.
