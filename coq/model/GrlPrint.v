(* GrlPrint.v — printer from rule trees to GRL tokens and text, and the boolean
   well-formedness predicate of the trees the printer is injective on (the
   "grammatical" trees: operands respect the precedence table, postfix chains
   have the shape the grammar gives them, names are identifiers, literals are in
   range).  Written in continuation style ([etoks e k] = tokens of e followed
   by k).  Definitions only. *)
From Grule Require Import Base Syntax Lexer Parser.
Open Scope Z_scope.

Definition op_token (o : op) : token :=
  match o with
  | OMul => TMul | ODiv => TDiv | OMod => TMod
  | OAdd => TPlus | OSub => TMinus | OBitAnd => TBitAnd | OBitOr => TBitOr
  | OGT => TGT | OLT => TLT | OGTE => TGTE | OLTE => TLTE | OEq => TEq | ONEq => TNEq
  | OAnd => TAnd | OOr => TOr
  end.

Definition op_level (o : op) : nat :=
  match o with
  | OMul | ODiv | OMod => 1
  | OAdd | OSub | OBitAnd | OBitOr => 2
  | OGT | OLT | OGTE | OLTE | OEq | ONEq => 3
  | OAnd => 4
  | OOr => 5
  end%nat.

Definition asg_token (o : asg) : token :=
  match o with AsSet => TAssign | AsAdd => TPlusAsg | AsSub => TMinusAsg | AsMul => TMulAsg | AsDiv => TDivAsg end.

Definition const_toks (c : const) (k : list token) : list token :=
  match c with
  | CStr s => TStr true (quote_body s) :: k
  | CInt z => if z <? 0 then TMinus :: TInt (- z) :: k else TInt z :: k
  | CFloat b => if b <? sign_bit then TFloat (Some b) :: k else TMinus :: TFloat (Some (b - sign_bit)) :: k
  | CBool true => TTrue :: k
  | CBool false => TFalse :: k
  | CNil => TNil :: k
  end.

Fixpoint etoks (e : expr) (k : list token) : list token :=
  match e with
  | EAtom a => atoks a k
  | EParen false e' => TLParen :: etoks e' (TRParen :: k)
  | EParen true e' => TNot :: TLParen :: etoks e' (TRParen :: k)
  | EBin o l r => etoks l (op_token o :: etoks r k)
  end
with atoks (a : atom) (k : list token) : list token :=
  match a with
  | AConst c => const_toks c k
  | AVar v => vtoks v k
  | AFunc f args => TName f :: TLParen :: ltoks args (TRParen :: k)
  | AMethod a' f args => atoks a' (TDot :: TName f :: TLParen :: ltoks args (TRParen :: k))
  | AMember a' n => atoks a' (TDot :: TName n :: k)
  | ASel a' sel => atoks a' (TLBrack :: etoks sel (TRBrack :: k))
  | ANeg a' => TNot :: atoks a' k
  end
with vtoks (v : var) (k : list token) : list token :=
  match v with
  | VName n => TName n :: k
  | VMember v' n => vtoks v' (TDot :: TName n :: k)
  | VSel v' sel => vtoks v' (TLBrack :: etoks sel (TRBrack :: k))
  end
with ltoks (l : elist) (k : list token) : list token :=       (* e1 , e2 , ... *)
  match l with
  | ENil => k
  | ECons e ENil => etoks e k
  | ECons e l' => etoks e (TComma :: ltoks l' k)
  end.

Definition stoks (s : stmt) (k : list token) : list token :=
  match s with
  | SAssign x o e => vtoks x (asg_token o :: etoks e (TSemi :: k))
  | SAtom a => atoks a (TSemi :: k)
  end.

Fixpoint sstoks (l : list stmt) (k : list token) : list token :=
  match l with [] => k | s :: l' => stoks s (sstoks l' k) end.

Definition sal_toks (z : Z) (k : list token) : list token :=
  if z <? 0 then TMinus :: TInt (- z) :: k else TInt z :: k.

(* rule NAME "desc" salience N { when e then s; ... }   — the description escaped like a string constant *)
Definition rtoks (r : rule) (k : list token) : list token :=
  TRule :: TName (rname r) :: TStr true (quote_body (rdesc r)) :: TSalience ::
  sal_toks (rsal r) (TLBrace :: TWhen :: etoks (rwhen r) (TThen :: sstoks (rthen r) (TRBrace :: k))).

Fixpoint rstoks (rs : list rule) : list token :=
  match rs with [] => [] | r :: rs' => rtoks r (rstoks rs') end.

(* ---- tokens to text: every token followed by one space ---- *)
Definition str1 (n : Z) : string := String (chr n) EmptyString.

(* decimal digits of a non-negative integer, most significant first *)
Fixpoint show_digits (fuel : nat) (z : Z) : string :=
  match fuel with
  | O => EmptyString
  | S f => if z <? 10 then str1 (48 + z) else (show_digits f (z / 10) ++ str1 (48 + z mod 10))%string
  end.
Definition show_dec (z : Z) : string := show_digits (S (Z.to_nat (Z.log2 z))) z.
Definition show_signed (z : Z) : string := if z <? 0 then String (chr 45) (show_dec (- z)) else show_dec z.

(* hexadecimal digits of a non-negative integer *)
Fixpoint show_hex_digits (fuel : nat) (z : Z) : string :=
  match fuel with
  | O => EmptyString
  | S f => if z <? 16 then String (hexd z) EmptyString
           else (show_hex_digits f (z / 16) ++ String (hexd (z mod 16)) EmptyString)%string
  end.
Definition show_hex (z : Z) : string := show_hex_digits (S (Z.to_nat (Z.log2 z))) z.

(* a finite binary64 magnitude, by its bits, as an exact hexadecimal float literal 0x<mantissa>p<exponent> *)
Definition float_text (b : Z) : string :=
  let e := b / p52 in
  let f := b mod p52 in
  let m := if e =? 0 then f else p52 + f in
  let ex := if e =? 0 then -1074 else e - 1075 in
  String (chr 48) (String (chr 120) (show_hex m ++ String (chr 112) (show_signed ex)))%string.

Definition token_text (t : token) : string :=
  match t with
  | TRule => "rule" | TWhen => "when" | TThen => "then" | TTrue => "true" | TFalse => "false"
  | TNil => "nil" | TSalience => "salience"
  | TName s => s
  | TStr true raw => String (chr 34) (raw ++ str1 34)
  | TStr false raw => String (chr 39) (raw ++ str1 39)
  | TInt z => show_dec z
  | TFloat (Some b) => float_text b
  | TFloat None => "0.0"
  | TExpo => "e+0"
  | TPlus => "+" | TMinus => "-" | TDiv => "/" | TMul => "*" | TMod => "%" | TDot => "." | TSemi => ";"
  | TComma => "," | TLBrace => "{" | TRBrace => "}" | TLParen => "(" | TRParen => ")"
  | TLBrack => "[" | TRBrack => "]" | TAnd => "&&" | TOr => "||" | TNot => "!" | TEq => "=="
  | TAssign => "=" | TPlusAsg => "+=" | TMinusAsg => "-=" | TDivAsg => "/=" | TMulAsg => "*="
  | TGT => ">" | TLT => "<" | TGTE => ">=" | TLTE => "<=" | TNEq => "!=" | TBitAnd => "&" | TBitOr => "|"
  end%string.

Fixpoint render (ts : list token) : string :=
  match ts with
  | [] => EmptyString
  | t :: ts' => (token_text t ++ String (chr 32) (render ts'))%string
  end.

Definition print_rules (rs : list rule) : string := render (rstoks rs).

(* ---- well-formedness ---- *)
Definition wf_ident (s : string) : bool :=
  match s with
  | String c r => is_letter c && str_forall is_ic r && match keyword_of s with None => true | Some _ => false end
  | EmptyString => false
  end.

(* a description is printed raw between double quotes: it must scan as a string body *)
Fixpoint desc_ok (s : string) : bool :=
  match s with
  | EmptyString => true
  | String c s1 =>
      if code c =? 92 then match s1 with String _ s2 => desc_ok s2 | EmptyString => false end
      else if code c =? 34 then
        match s1 with String d s2 => if code d =? 34 then desc_ok s2 else false | EmptyString => false end
      else desc_ok s1
  end.

Definition wf_const (c : const) : bool :=
  match c with
  | CInt z => in_i64 z
  | CFloat b => (0 <=? b) && (b <? 2 * sign_bit) &&
                ((if b <? sign_bit then b else b - sign_bit) <? 2047 * p52)      (* finite: no infinity, no NaN *)
  | _ => true
  end.

Definition elevel (e : expr) : nat := match e with EBin o _ _ => op_level o | _ => O end.
Definition is_aneg (a : atom) : bool := match a with ANeg _ => true | _ => false end.
Definition is_avar (a : atom) : bool := match a with AVar _ => true | _ => false end.

Fixpoint wf_expr (e : expr) : bool :=
  match e with
  | EAtom a => wf_atom a
  | EParen _ e' => wf_expr e'
  | EBin o l r => wf_expr l && wf_expr r && Nat.leb (elevel l) (op_level o) && Nat.ltb (elevel r) (op_level o)
  end
with wf_atom (a : atom) : bool :=
  match a with
  | AConst c => wf_const c
  | AVar v => wf_var v
  | AFunc f args => wf_ident f && wf_args args
  | AMethod a' f args => negb (is_aneg a') && wf_atom a' && wf_ident f && wf_args args
  | AMember a' n => negb (is_aneg a') && negb (is_avar a') && wf_atom a' && wf_ident n
  | ASel a' sel => negb (is_aneg a') && negb (is_avar a') && wf_atom a' && wf_expr sel
  | ANeg a' => wf_atom a'
  end
with wf_var (v : var) : bool :=
  match v with
  | VName n => wf_ident n
  | VMember v' n => wf_var v' && wf_ident n
  | VSel v' sel => wf_var v' && wf_expr sel
  end
with wf_args (l : elist) : bool :=
  match l with
  | ENil => true
  | ECons e l' => wf_expr e && wf_args l'
  end.

Definition wf_stmt (s : stmt) : bool :=
  match s with
  | SAssign x _ e => wf_var x && wf_expr e
  | SAtom a => wf_atom a
  end.

Definition wf_rule (r : rule) : bool :=
  wf_ident (rname r) && in_i32 (rsal r) &&
  wf_expr (rwhen r) && forallb wf_stmt (rthen r) && negb (match rthen r with [] => true | _ => false end).

Definition wf_rules (rs : list rule) : bool := forallb wf_rule rs && nodup_str (rule_names rs).

(* ---- nesting depth: what the parser's fuel counts ---- *)
Fixpoint depth_e (e : expr) : nat :=
  match e with
  | EAtom a => depth_a a
  | EParen _ e' => S (depth_e e')
  | EBin _ l r => Nat.max (depth_e l) (depth_e r)
  end
with depth_a (a : atom) : nat :=
  match a with
  | AConst _ => O
  | AVar v => depth_v v
  | AFunc _ args => S (depth_l args)
  | AMethod a' _ args => Nat.max (depth_a a') (S (depth_l args))
  | AMember a' _ => depth_a a'
  | ASel a' sel => Nat.max (depth_a a') (S (depth_e sel))
  | ANeg a' => depth_a a'
  end
with depth_v (v : var) : nat :=
  match v with
  | VName _ => O
  | VMember v' _ => depth_v v'
  | VSel v' sel => Nat.max (depth_v v') (S (depth_e sel))
  end
with depth_l (l : elist) : nat :=
  match l with
  | ENil => O
  | ECons e l' => Nat.max (depth_e e) (depth_l l')
  end.
