(* CorrParse.v — executable comparison functions for the generated cases of the
   C17 (GRL acceptance) correspondence.  Glue only: nothing here is used by a
   theorem. *)
From Grule Require Import Base Syntax Lexer Parser OpsGen Snapshot Printer.
Open Scope Z_scope.

(* text fragments the harness cannot write inside a Coq string literal *)
Definition chs (n : Z) : string := String (chr n) EmptyString.
Definition cat (l : list string) : string := str_concat l.

Definition asg_eqb (a b : asg) : bool :=
  match a, b with
  | AsSet, AsSet | AsAdd, AsAdd | AsSub, AsSub | AsMul, AsMul | AsDiv, AsDiv => true
  | _, _ => false
  end.

Definition stmt_eqb (a b : stmt) : bool :=
  match a, b with
  | SAssign x o e, SAssign y p f => var_eqb x y && asg_eqb o p && expr_eqb e f
  | SAtom x, SAtom y => atom_eqb x y
  | _, _ => false
  end.

Definition rule_eqb (a b : rule) : bool :=
  String.eqb (rname a) (rname b) && String.eqb (rdesc a) (rdesc b) && Z.eqb (rsal a) (rsal b) &&
  expr_eqb (rwhen a) (rwhen b) && list_eqb stmt_eqb (rthen a) (rthen b).

(* every rule of the model's knowledge base is in the implementation's under its
   name with the same snapshot (name, description, salience, condition tree,
   action trees), and there are no others *)
Definition rules_match (kb : kbase) (obs : list (string * string)) : bool :=
  Nat.eqb (List.length kb) (List.length obs) &&
  forallb (fun r => match alookup (rname r) obs with
                    | Some s => String.eqb s (rule_snapshot r)
                    | None => false
                    end) kb.

Fixpoint build_all (kb : kbase) (texts : list string) : res kbase :=
  match texts with
  | [] => Ok kb
  | t :: ts => match build kb t with Ok kb' => build_all kb' ts | Err => Err | Panic => Panic end
  end.

(* (id, resources loaded before (all accepted), text, accepted by the implementation,
    (name, snapshot) of every rule in the knowledge base afterwards when accepted,
    the tree the text was printed from when the generator knows it) *)
Definition c17case : Type :=
  (Z * list string * string * bool * list (string * string) * option (list rule))%type.

Definition c17_case_diff (c : c17case) : bool :=
  match c with
  | (_, prior, text, accepted, obs, expected) =>
      match build_all [] prior with
      | Ok kb0 =>
          (match build kb0 text with
           | Ok kb1 => negb (accepted && rules_match kb1 obs)
           | _ => accepted
           end)
          || (match expected with
              | Some rs => match parse_grl text with
                           | Ok rs' => negb (list_eqb rule_eqb rs rs')
                           | _ => true
                           end
              | None => false
              end)
      | _ => true
      end
  end.

Definition c17_mismatches (cs : list c17case) : list Z :=
  fold_right (fun (c : c17case) acc =>
    if c17_case_diff c then (match c with (id, _, _, _, _, _) => id end) :: acc else acc) [] cs.
