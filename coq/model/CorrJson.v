(* CorrJson.v — executable comparison function for the generated cases of the
   C18 (JSON rule translator) correspondence.  Glue only. *)
From Grule Require Import Base Values Syntax Lexer Parser GrlPrint OpsGen Snapshot Printer EngineAbs Facts Eval Fresh Methods CorrParse JsonRule.
Open Scope Z_scope.

Fixpoint jval_eqb (a b : jval) {struct a} : bool :=
  match a, b with
  | JStr x, JStr y => String.eqb x y
  | JNum x, JNum y => Z.eqb x y
  | JBool x, JBool y => Bool.eqb x y
  | JNull, JNull => true
  | JArr l1, JArr l2 =>
      (fix go (l1 l2 : list jval) {struct l1} : bool :=
         match l1, l2 with
         | [], [] => true
         | x :: l1', y :: l2' => jval_eqb x y && go l1' l2'
         | _, _ => false
         end) l1 l2
  | JObj k1, JObj k2 =>
      (fix go (k1 k2 : list (string * jval)) {struct k1} : bool :=
         match k1, k2 with
         | [], [] => true
         | (n1, x) :: k1', (n2, y) :: k2' => String.eqb n1 n2 && jval_eqb x y && go k1' k2'
         | _, _ => false
         end) k1 k2
  | _, _ => false
  end.

Definition jrule_eqb (a b : jrule) : bool :=
  String.eqb (jname a) (jname b) && String.eqb (jdesc a) (jdesc b) && Z.eqb (jsal a) (jsal b) &&
  jval_eqb (jwhen a) (jwhen b) && jval_eqb (jthen a) (jthen b).

Definition cres_eqb (a b : cres) : bool :=
  match a, b with CTrue, CTrue | CFalse, CFalse | CErr, CErr => true | _, _ => false end.

(* (id, JSON rule, typed tree when the generator has one, inside the well-formed region,
    text returned by ParseJSONRule (None: error), accepted by the builder, snapshot of the
    stored rule, (facts, FetchMatchingRules verdict) *)
Definition c18case : Type :=
  (Z * jrule * option trule * bool * option string * bool * string * list (facts * cres))%type.

Definition c18_case_diff (c : c18case) : bool :=
  match c with
  | (_, raw, typed, wfreg, otext, accepted, snap, evals) =>
      negb (match translate raw, otext with
            | Ok t, Some t' => String.eqb t t'
            | Err, None => true
            | _, _ => false
            end)
      || (match typed with Some t => negb (jrule_eqb (rule_json t) raw) | None => false end)
      || (match otext with
          | Some text =>
              match parse_grl text with
              | Ok [r] =>
                  negb accepted || negb (String.eqb (rule_snapshot r) snap)
                  || existsb (fun fo => negb (cres_eqb (holds fact_meth (fst fo) (rwhen r)) (snd fo))) evals
                  || (match typed with
                      | Some t =>
                          wfreg && (negb (rule_eqb r (rule_of t))
                                    || existsb (fun fo => negb (cres_eqb (holds fact_meth (fst fo) (cond_tree (twhen t))) (snd fo))) evals)
                      | None => false
                      end)
              | Ok _ => true
              | _ => accepted
              end
          | None => false
          end)
  end.

Definition c18_mismatches (cs : list c18case) : list Z :=
  fold_right (fun (c : c18case) acc =>
    if c18_case_diff c then (match c with (id, _, _, _, _, _, _, _) => id end) :: acc else acc) [] cs.
