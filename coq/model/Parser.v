(* Parser.v — executable parser for GRL documents (parser section of
   antlr/grulev3.g4 as the listener antlr/GruleParserV3Listener.go turns it
   into trees) and the builder model at knowledge-base level
   (builder/RuleBuilder.go BuildRuleFromResource).

   Shape of the functions: every loop of the grammar (binary operator chains of
   one precedence level, postfix chains of variables and atoms, argument lists,
   action lists, rule lists) is a structural recursion on the token list with a
   "skip" counter that steps over the tokens a sub-parser has consumed; the
   only fuel is the nesting depth of expressions (brackets, selectors,
   arguments), bounded by the number of tokens.  Definitions only. *)
From Grule Require Import Base Syntax Lexer.
Open Scope Z_scope.

Definition parser (A : Type) : Type := list token -> option (A * list token).

(* binary operators and their level: 1 binds tightest.  The levels are those the
   grammar implements: * / % ; + - & | ; comparisons ; && ; ||  *)
Definition binop_of (t : token) : option (op * nat) :=
  match t with
  | TMul => Some (OMul, 1%nat) | TDiv => Some (ODiv, 1%nat) | TMod => Some (OMod, 1%nat)
  | TPlus => Some (OAdd, 2%nat) | TMinus => Some (OSub, 2%nat)
  | TBitAnd => Some (OBitAnd, 2%nat) | TBitOr => Some (OBitOr, 2%nat)
  | TGT => Some (OGT, 3%nat) | TLT => Some (OLT, 3%nat) | TGTE => Some (OGTE, 3%nat)
  | TLTE => Some (OLTE, 3%nat) | TEq => Some (OEq, 3%nat) | TNEq => Some (ONEq, 3%nat)
  | TAnd => Some (OAnd, 4%nat)
  | TOr => Some (OOr, 5%nat)
  | _ => None
  end.

Definition asg_of (t : token) : option asg :=
  match t with
  | TAssign => Some AsSet | TPlusAsg => Some AsAdd | TMinusAsg => Some AsSub
  | TMulAsg => Some AsMul | TDivAsg => Some AsDiv
  | _ => None
  end.

Definition consumed {A} (ts rest : list A) : nat := (List.length ts - List.length rest)%nat.

(* ---- one precedence level:  operand (op_k operand)*  folded to the left ---- *)
Fixpoint binloop (k : nat) (operand : parser expr) (ts : list token) (skip : nat) (lhs : expr)
  {struct ts} : option (expr * list token) :=
  match skip with
  | S sk => match ts with [] => None | _ :: ts' => binloop k operand ts' sk lhs end
  | O =>
      match ts with
      | [] => Some (lhs, [])
      | t :: ts' =>
          match binop_of t with
          | Some (o, lv) =>
              if Nat.eqb lv k then
                match operand ts' with
                | Some (rhs, rest) => binloop k operand ts' (consumed ts' rest) (EBin o lhs rhs)
                | None => None
                end
              else Some (lhs, ts)
          | None => Some (lhs, ts)
          end
      end
  end.

Definition plevel (k : nat) (operand : parser expr) : parser expr :=
  fun ts => match operand ts with
            | Some (a, rest) => binloop k operand rest 0 a
            | None => None
            end.

Fixpoint plevels (primary : parser expr) (k : nat) : parser expr :=
  match k with
  | O => primary
  | S k' => plevel k (plevels primary k')
  end.

(* ---- constants ---- *)
Definition max_i64 : Z := 9223372036854775807.
Definition min_i64 : Z := -9223372036854775808.
Definition sign_bit : Z := 9223372036854775808.
Definition in_i64 (z : Z) : bool := (min_i64 <=? z) && (z <=? max_i64).

Definition pconst : parser const :=
  fun ts =>
  match ts with
  | TStr dq raw :: r => match unquote dq raw with Some s => Some (CStr s, r) | None => None end
  | TInt z :: r => if in_i64 z then Some (CInt z, r) else None
  | TMinus :: TInt z :: r => if in_i64 (- z) then Some (CInt (- z), r) else None
  | TFloat (Some b) :: r => Some (CFloat b, r)
  | TMinus :: TFloat (Some b) :: r => Some (CFloat (b + sign_bit), r)
  | TTrue :: r => Some (CBool true, r)
  | TFalse :: r => Some (CBool false, r)
  | TNil :: r => Some (CNil, r)
  | _ => None
  end.

(* ---- argument list after "(" up to and including ")" ---- *)
Fixpoint argloop (pe : parser expr) (ts : list token) (skip : nat) {struct ts} : option (elist * list token) :=
  match skip with
  | S sk => match ts with [] => None | _ :: ts' => argloop pe ts' sk end
  | O =>
      match ts with
      | [] => None
      | _ :: ts' =>
          match pe ts with
          | Some (e, TComma :: rest) =>
              match argloop pe ts' (consumed ts' rest) with
              | Some (l, r) => Some (ECons e l, r)
              | None => None
              end
          | Some (e, TRParen :: rest) => Some (ECons e ENil, rest)
          | _ => None
          end
      end
  end.

Definition pargs (pe : parser expr) : parser elist :=
  fun ts => match ts with
            | TRParen :: rest => Some (ENil, rest)
            | _ => argloop pe ts 0
            end.

(* ---- variable: NAME ( .NAME (not followed by "(") | [ e ] )*  — greedy ---- *)
Fixpoint varloop (pe : parser expr) (ts : list token) (skip : nat) (v : var) {struct ts} : option (var * list token) :=
  match skip with
  | S sk => match ts with [] => None | _ :: ts' => varloop pe ts' sk v end
  | O =>
      match ts with
      | TDot :: ts1 =>
          match ts1 with
          | TName n :: ts2 =>
              match ts2 with
              | TLParen :: _ => Some (v, ts)
              | _ => varloop pe ts2 0 (VMember v n)
              end
          | _ => Some (v, ts)
          end
      | TLBrack :: ts1 =>
          match pe ts1 with
          | Some (sel, TRBrack :: rest) => varloop pe ts1 (consumed ts1 rest) (VSel v sel)
          | _ => None
          end
      | _ => Some (v, ts)
      end
  end.

(* ---- atom postfixes: .NAME(args) | .NAME | [ e ] ---- *)
Fixpoint atomloop (pe : parser expr) (ts : list token) (skip : nat) (a : atom) {struct ts} : option (atom * list token) :=
  match skip with
  | S sk => match ts with [] => None | _ :: ts' => atomloop pe ts' sk a end
  | O =>
      match ts with
      | TDot :: ts1 =>
          match ts1 with
          | TName n :: ts2 =>
              match ts2 with
              | TLParen :: ts3 =>
                  match pargs pe ts3 with
                  | Some (args, rest) => atomloop pe ts3 (consumed ts3 rest) (AMethod a n args)
                  | None => None
                  end
              | _ => atomloop pe ts2 0 (AMember a n)
              end
          | _ => Some (a, ts)
          end
      | TLBrack :: ts1 =>
          match pe ts1 with
          | Some (sel, TRBrack :: rest) => atomloop pe ts1 (consumed ts1 rest) (ASel a sel)
          | _ => None
          end
      | _ => Some (a, ts)
      end
  end.

Definition patom_base (pe : parser expr) : parser atom :=
  fun ts =>
  match ts with
  | TName f :: TLParen :: ts2 =>
      match pargs pe ts2 with
      | Some (args, rest) => Some (AFunc f args, rest)
      | None => None
      end
  | TName n :: ts1 =>
      match varloop pe ts1 0 (VName n) with
      | Some (v, rest) => Some (AVar v, rest)
      | None => None
      end
  | _ => match pconst ts with
         | Some (c, rest) => Some (AConst c, rest)
         | None => None
         end
  end.

(* "!" binds looser than every postfix *)
Fixpoint patom (pe : parser expr) (ts : list token) {struct ts} : option (atom * list token) :=
  match ts with
  | TNot :: ts' =>
      match patom pe ts' with
      | Some (a, rest) => Some (ANeg a, rest)
      | None => None
      end
  | _ => match patom_base pe ts with
         | Some (a, rest) => atomloop pe rest 0 a
         | None => None
         end
  end.

Definition pprimary (pe : parser expr) : parser expr :=
  fun ts =>
  match ts with
  | TLParen :: ts1 =>
      match pe ts1 with
      | Some (e, TRParen :: rest) => Some (EParen false e, rest)
      | _ => None
      end
  | TNot :: TLParen :: ts2 =>
      match pe ts2 with
      | Some (e, TRParen :: rest) => Some (EParen true e, rest)
      | _ => None
      end
  | _ => match patom pe ts with
         | Some (a, rest) => Some (EAtom a, rest)
         | None => None
         end
  end.

(* the only fuel: nesting depth *)
Fixpoint pexpr (fuel : nat) : parser expr :=
  match fuel with
  | O => fun _ => None
  | S f => fun ts => plevels (pprimary (fun ts' => pexpr f ts')) 5 ts
  end.

(* ---- actions ---- *)
Definition pstmt_atom (pe : parser expr) : parser stmt :=
  fun ts => match patom pe ts with
            | Some (a, TSemi :: rest) => Some (SAtom a, rest)
            | _ => None
            end.

Definition pstmt (pe : parser expr) : parser stmt :=
  fun ts =>
  match ts with
  | TName n :: ts1 =>
      match varloop pe ts1 0 (VName n) with
      | Some (v, t :: ts2) =>
          match asg_of t with
          | Some o =>
              match pe ts2 with
              | Some (e, TSemi :: rest) => Some (SAssign v o e, rest)
              | _ => None
              end
          | None => pstmt_atom pe ts
          end
      | _ => pstmt_atom pe ts
      end
  | _ => pstmt_atom pe ts
  end.

(* statements up to (not including) "}" *)
Fixpoint stmtloop (pe : parser expr) (ts : list token) (skip : nat) {struct ts} : option (list stmt * list token) :=
  match skip with
  | S sk => match ts with [] => None | _ :: ts' => stmtloop pe ts' sk end
  | O =>
      match ts with
      | [] => None
      | TRBrace :: _ => Some ([], ts)
      | _ :: ts' =>
          match pstmt pe ts with
          | Some (s, rest) =>
              match stmtloop pe ts' (consumed ts' rest) with
              | Some (l, r) => Some (s :: l, r)
              | None => None
              end
          | None => None
          end
      end
  end.

(* ---- rule entry ---- *)
Definition min_i32 : Z := -2147483648.
Definition max_i32 : Z := 2147483647.
Definition in_i32 (z : Z) : bool := (min_i32 <=? z) && (z <=? max_i32).
Definition default_desc : string := "No Description"%string.

(* ruleDescription? : unquoted like every other string literal (unquoteString); a malformed
   escape is an error *)
Definition pdesc (ts : list token) : option (string * list token) :=
  match ts with
  | TStr dq raw :: r => match unquote dq raw with Some d => Some (d, r) | None => None end
  | _ => Some (default_desc, ts)
  end.

(* salience? *)
Definition psalience (ts : list token) : option (Z * list token) :=
  match ts with
  | TSalience :: TInt z :: r => if in_i32 z then Some (z, r) else None
  | TSalience :: TMinus :: TInt z :: r => if in_i32 (- z) then Some (- z, r) else None
  | TSalience :: _ => None
  | _ => Some (0, ts)
  end.

Definition prule (pe : parser expr) : parser rule :=
  fun ts =>
  match ts with
  | TRule :: TName n :: ts1 =>
      match pdesc ts1 with
      | None => None
      | Some (d, ts2) =>
      match psalience ts2 with
      | Some (sal, TLBrace :: TWhen :: ts3) =>
          match pe ts3 with
          | Some (w, TThen :: ts4) =>
              match stmtloop pe ts4 0 with
              | Some (s :: l, TRBrace :: rest) =>
                  Some ({| rname := n; rdesc := d; rsal := sal; rwhen := w; rthen := s :: l |}, rest)
              | _ => None
              end
          | _ => None
          end
      | _ => None
      end
      end
  | _ => None
  end.

Fixpoint ruleloop (pe : parser expr) (ts : list token) (skip : nat) {struct ts} : option (list rule) :=
  match skip with
  | S sk => match ts with [] => None | _ :: ts' => ruleloop pe ts' sk end
  | O =>
      match ts with
      | [] => Some []
      | _ :: ts' =>
          match prule pe ts with
          | Some (r, rest) =>
              match ruleloop pe ts' (consumed ts' rest) with
              | Some l => Some (r :: l)
              | None => None
              end
          | None => None
          end
      end
  end.

Definition parse_tokens (ts : list token) : option (list rule) :=
  ruleloop (pexpr (List.length ts)) ts 0.

(* ---- document level ---- *)
Fixpoint mem_str (s : string) (l : list string) : bool :=
  match l with [] => false | x :: l' => String.eqb s x || mem_str s l' end.

Fixpoint nodup_str (l : list string) : bool :=
  match l with [] => true | x :: l' => negb (mem_str x l') && nodup_str l' end.

Definition rule_names (rs : list rule) : list string := map rname rs.

(* the rules a text declares, when it is grammatical with valid literals and
   distinct rule names *)
Definition parse_grl (text : string) : res (list rule) :=
  match lex text with
  | Some ts =>
      match parse_tokens ts with
      | Some rs => if nodup_str (rule_names rs) then Ok rs else Err
      | None => Err
      end
  | None => Err
  end.

(* ---- knowledge-base level: BuildRuleFromResource on a knowledge base holding kb ---- *)
Definition kbase := list rule.

Definition disjoint_names (kb : kbase) (rs : list rule) : bool :=
  forallb (fun r => negb (mem_str (rname r) (rule_names kb))) rs.

Definition build (kb : kbase) (text : string) : res kbase :=
  match parse_grl text with
  | Ok rs => if disjoint_names kb rs then Ok (kb ++ rs)%list else Err
  | Err => Err
  | Panic => Panic
  end.

(* the knowledge base after the call, whatever its outcome *)
Definition kb_after (kb : kbase) (text : string) : kbase :=
  match build kb text with Ok kb' => kb' | _ => kb end.

Fixpoint kb_find (n : string) (kb : kbase) : option rule :=
  match kb with
  | [] => None
  | r :: kb' => if String.eqb n (rname r) then Some r else kb_find n kb'
  end.
