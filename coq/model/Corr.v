(* Corr.v — executable comparison functions used by the generated cases_k.v
   files of the correspondence harness (DESIGN §4.2).  Nothing here is used by
   a theorem: it is the glue that runs the model on the implementation's cases. *)
From Coq Require Import Floats.
From Grule Require Import Base Values CmpGen.
Open Scope Z_scope.

Definition bytes_to_string (l : list Z) : string :=
  fold_right (fun b acc => String (ascii_of_nat (Z.to_nat b)) acc) EmptyString l.

(* IEEE-754 binary64 bit pattern -> primitive float (exact) *)
Definition float_of_bits (bits : Z) : float :=
  let sign := Z.testbit bits 63 in
  let e := Z.land (Z.shiftr bits 52) 2047 in
  let m := Z.land bits (2 ^ 52 - 1) in
  let mag :=
    if e =? 2047 then (if m =? 0 then PrimFloat.infinity else PrimFloat.nan)
    else if e =? 0 then
      (if m =? 0 then PrimFloat.zero
       else Z.ldexp (PrimFloat.of_uint63 (Uint63.of_Z m)) (-1074))
    else Z.ldexp (PrimFloat.of_uint63 (Uint63.of_Z (m + 2 ^ 52))) (e - 1075) in
  if sign then PrimFloat.opp mag else mag.

(* ---- C19 ---- *)
Definition c19case : Type := (Z * val * val * list (res val))%type.

Definition c19_model (l r : val) : list (res val) :=
  [EvaluateLesserThan l r; EvaluateEqual l r; EvaluateGreaterThan l r;
   EvaluateLesserThanEqual l r; EvaluateGreaterThanEqual l r; EvaluateNotEqual l r].

Definition c19_mismatches (cs : list c19case) : list Z :=
  fold_right (fun (c : c19case) acc =>
    match c with (id, l, r, expected) =>
      if list_eqb res_val_eqb (c19_model l r) expected then acc else id :: acc
    end) [] cs.
