(* Corr.v — executable comparison functions used by the generated cases_k.v
   files of the correspondence harness (DESIGN §4.2).  Nothing here is used by
   a theorem: it is the glue that runs the model on the implementation's cases. *)
From Coq Require Import Floats.
From Grule Require Import Base Values CmpGen.
Open Scope Z_scope.

(* ---- C19 ---- *)
Definition c19case : Type := (Z * val * val * list (res val))%type.

Definition c19_model (l r : val) : list (res val) :=
  [EvaluateLesserThan l r; EvaluateEqual l r; EvaluateGreaterThan l r;
   EvaluateLesserThanEqual l r; EvaluateGreaterThanEqual l r; EvaluateNotEqual l r].

Definition c19_mismatches (cs : list c19case) : list Z :=
  fold_right (fun (c : c19case) acc =>
    match c with (id, l, r, expected) =>
      if list_eqb res_val_eqb (c19_model l r) expected then acc else id :: acc
    end) [] cs.
