(* MiniEngine.v — EngineAbs instantiated with a small concrete rule language
   (integer counters, threshold conditions, increment / Retract / Complete /
   failing actions).  It is the executable model that the engine harness runs
   against the real GruleEngine on generated rule sets: the GRL text of every
   mini rule is printed by the harness, so this file models the *control* of
   the engine exactly while relying on the (separately checked) evaluator only
   for integer comparison and increment. *)
From Grule Require Import Base EngineGen EngineAbs.
Open Scope Z_scope.

Inductive mcond :=
| MLt (i : nat) (k : Z)          (* F.C<i> < k *)
| MGe (i : nat) (k : Z)          (* F.C<i> >= k *)
| MEq (i : nat) (k : Z)          (* F.C<i> == k *)
| MTrue | MFalse
| MErr                           (* a condition that raises an error (missing fact) *)
| MPanic                         (* a condition that panics inside a fact method *)
| MNonBool                       (* a condition that is not boolean: error *)
| MAnd (a b : mcond) | MOr (a b : mcond) | MNot (a : mcond).

Inductive mact :=
| MInc (i : nat)                 (* F.C<i> = F.C<i> + 1 *)
| MSet (i : nat) (k : Z)         (* F.C<i> = k *)
| MRetract (n : string)
| MComplete
| MFail                          (* a failing fact method: error *)
| MBoom.                         (* a panicking fact method *)

Record mrule := { mr_key : string; mr_cond : mcond; mr_acts : list mact }.

Definition counters := list Z.

Fixpoint get_c (u : counters) (i : nat) : Z := nth i u 0.
Fixpoint set_c (u : counters) (i : nat) (v : Z) : counters :=
  match u, i with
  | [], _ => []
  | _ :: t, O => v :: t
  | x :: t, S i' => x :: set_c t i' v
  end.

(* None = error/panic, Some b = value *)
Fixpoint eval_mcond (u : counters) (m : mcond) : option bool :=
  match m with
  | MLt i k => Some (get_c u i <? k)
  | MGe i k => Some (get_c u i >=? k)
  | MEq i k => Some (get_c u i =? k)
  | MTrue => Some true
  | MFalse => Some false
  | MErr | MPanic | MNonBool => None
  | MAnd a b => match eval_mcond u a with
                | Some false => Some false                       (* short circuit *)
                | Some true => eval_mcond u b
                | None => None
                end
  | MOr a b => match eval_mcond u a with
               | Some true => Some true
               | Some false => eval_mcond u b
               | None => None
               end
  | MNot a => match eval_mcond u a with Some b => Some (negb b) | None => None end
  end.

(* run the action list until the first failing statement *)
Fixpoint run_macts (u : counters) (l : list mact) (fx : list effect) : counters * list effect * bool :=
  match l with
  | [] => (u, fx, false)
  | a :: l' =>
      match a with
      | MInc i => run_macts (set_c u i (get_c u i + 1)) l' fx
      | MSet i k => run_macts (set_c u i k) l' fx
      | MRetract n => run_macts u l' (fx ++ [FxRetract n])
      | MComplete => run_macts u l' (fx ++ [FxComplete])
      | MFail | MBoom => (u, fx, true)
      end
  end.

Section Mini.
Variable rules : list mrule.

Definition find_rule (k : string) : option mrule :=
  find (fun r => String.eqb (mr_key r) k) rules.

Definition mini_cond (u : counters) (e : entry) : counters * cres :=
  match find_rule (e_key e) with
  | Some r => match eval_mcond u (mr_cond r) with
              | Some true => (u, CTrue)
              | Some false => (u, CFalse)
              | None => (u, CErr)
              end
  | None => (u, CErr)
  end.

Definition mini_act (u : counters) (e : entry) : counters * list effect * bool :=
  match find_rule (e_key e) with
  | Some r => run_macts u (mr_acts r) []
  | None => (u, [], true)
  end.

Definition mini_execute (fuel : nat) (c : config) (order : nat -> list entry -> list entry) (u : counters) (es : list entry) :=
  execute counters mini_cond mini_act (fun u => u) fuel c order u es.

Definition mini_fetch (reterr : bool) (order : list entry -> list entry) (u : counters) (es : list entry) :=
  fetch counters mini_cond (fun u => u) reterr order u es.
End Mini.

(* ---- comparison with an observed run (used by the generated cases) ---- *)
Inductive obs_outcome := BNil | BCycleLimit | BCtx | BCondErr (k : string) | BActErr (k : string) | BOther.

Definition outcome_matches (o : outcome) (b : obs_outcome) : bool :=
  match o, b with
  | OQuiescent, BNil | OCompleted, BNil | OCycleLimit, BCycleLimit | OCtxErr, BCtx => true
  | OCondErr _ true, BCtx => true                       (* wraps ctx.Err(): errors.Is holds *)
  | OActErr _ true, BCtx => true
  | OCondErr k false, BCondErr k' => String.eqb k k'
  | OActErr k false, BActErr k' => String.eqb k k'
  | _, _ => false
  end.

(* the iteration order of a pass, as observed: [Some k] = the engine met the active rule k,
   [None] = it met an entry it skipped (retracted or removed; which one is immaterial) *)
Definition inactive_entry (e : entry) : bool := negb (eval_guard (e_retracted e) (e_deleted e)).

Fixpoint take_first (f : entry -> bool) (l : list entry) : option entry * list entry :=
  match l with
  | [] => (None, [])
  | x :: l' => if f x then (Some x, l') else let '(r, rest) := take_first f l' in (r, x :: rest)
  end.

Fixpoint order_by_slots (slots : list (option string)) (remaining : list entry) : list entry :=
  match slots with
  | [] => (* entries the pass did not reach: active ones first *)
          filter (fun e => negb (inactive_entry e)) remaining ++ filter inactive_entry remaining
  | Some k :: slots' =>
      match take_first (fun e => String.eqb (e_key e) k) remaining with
      | (Some e, rest) => e :: order_by_slots slots' rest
      | (None, rest) => order_by_slots slots' rest
      end
  | None :: slots' =>
      match take_first inactive_entry remaining with
      | (Some e, rest) => e :: order_by_slots slots' rest
      | (None, rest) => order_by_slots slots' rest
      end
  end.

Definition order_of (orders : list (list (option string))) (i : nat) (es : list entry) : list entry :=
  order_by_slots (nth i orders []) es.

Definition event_eqb (a b : event) : bool :=
  match a, b with
  | EvBegin x, EvBegin y => x =? y
  | EvEval x k b1, EvEval y k' b2 => (x =? y) && String.eqb k k' && Bool.eqb b1 b2
  | EvExec x k, EvExec y k' => (x =? y) && String.eqb k k'
  | EvAct k, EvAct k' => String.eqb k k'
  | _, _ => false
  end.

Definition strip_act (l : list event) : list event :=
  filter (fun e => match e with EvAct _ => false | _ => true end) l.

Record mini_case := {
  mc_id : Z;
  mc_rules : list mrule;
  mc_entries : list entry;
  mc_counters : counters;
  mc_config : config;
  mc_orders : list (list (option string));   (* per pass: what the engine met, in iteration order *)
  mc_obs_events : list event;             (* listener log *)
  mc_obs_outcome : obs_outcome;
  mc_obs_counters : counters              (* fact state after the call *)
}.

Definition mini_case_ok (m : mini_case) : bool :=
  let fuel := S (S (List.length (mc_orders m))) in
  let '(sf, recs, o) := mini_execute (mc_rules m) fuel (mc_config m) (order_of (mc_orders m)) (mc_counters m) (mc_entries m) in
  list_eqb event_eqb (strip_act (flatten recs)) (mc_obs_events m) &&
  outcome_matches o (mc_obs_outcome m) &&
  list_eqb Z.eqb (s_user sf) (mc_obs_counters m).

Definition mini_mismatches (cs : list mini_case) : list Z :=
  fold_right (fun m acc => if mini_case_ok m then acc else mc_id m :: acc) [] cs.

(* FetchMatchingRules: the returned keys, compared as a set, plus sortedness of the saliences *)
Record fetch_case := {
  fc_id : Z;
  fc_rules : list mrule;
  fc_entries : list entry;
  fc_counters : counters;
  fc_reterr : bool;
  fc_obs : option (list string)           (* None: an error was returned *)
}.

Fixpoint insert_str (s : string) (l : list string) : list string :=
  match l with [] => [s] | x :: l' => if String.leb s x then s :: x :: l' else x :: insert_str s l' end.
Definition sort_str (l : list string) : list string := fold_right insert_str [] l.

Definition fetch_case_ok (f : fetch_case) : bool :=
  match snd (mini_fetch (fc_rules f) (fc_reterr f) (fun l => l) (fc_counters f) (fc_entries f)), fc_obs f with
  | Ok l, Some keys =>
      list_eqb String.eqb (sort_str (map e_key l)) (sort_str keys) &&
      (* the observed order carries non-increasing saliences *)
      (fix sorted (ks : list string) : bool :=
         match ks with
         | a :: ((b :: _) as t) =>
             match find (fun e => String.eqb (e_key e) a) (fc_entries f), find (fun e => String.eqb (e_key e) b) (fc_entries f) with
             | Some ea, Some eb => (e_sal ea >=? e_sal eb) && sorted t
             | _, _ => false
             end
         | _ => true
         end) keys
  | Err, None => true
  | _, _ => false
  end.

Definition fetch_mismatches (cs : list fetch_case) : list Z :=
  fold_right (fun m acc => if fetch_case_ok m then acc else fc_id m :: acc) [] cs.
