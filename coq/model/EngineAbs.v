(* EngineAbs.v — the control skeleton of engine/GruleEngine.go
   (ExecuteWithContext, FetchMatchingRules) and ast/RuleEntry.go
   (Evaluate / Execute entry checks) over an ARBITRARY condition / action
   semantics (Section variables).  The comparison anchors come from the
   generated EngineGen.v. *)
From Grule Require Import Base EngineGen.
Open Scope Z_scope.

Inductive effect := FxRetract (name : string) | FxComplete.

Record entry := { e_key : string;        (* key in KnowledgeBase.RuleEntries *)
                  e_name : string;       (* RuleEntry.RuleName *)
                  e_sal : Z;
                  e_retracted : bool;
                  e_deleted : bool }.


Inductive cres := CTrue | CFalse | CErr.            (* RuleEntry.Evaluate: (true,nil) (false,nil) (false,err) *)

Record config := { c_max : Z;                       (* MaxCycle *)
                   c_reterr : bool;                 (* ReturnErrOnFailedRuleEvaluation *)
                   c_cancel : option nat }.         (* index of the first ctx.Err() check that sees a cancelled context *)

Inductive outcome :=
| OQuiescent                      (* nil: no candidate left *)
| OCompleted                      (* nil: Complete() was called *)
| OCycleLimit                     (* error: one more firing would exceed MaxCycle *)
| OCtxErr                         (* ctx.Err() returned from the engine loop *)
| OCondErr (key : string) (ctx : bool)   (* error of a condition, returned because of the flag; ctx: it wraps ctx.Err() *)
| OActErr (key : string) (ctx : bool)    (* "error while executing rule …"; ctx: RuleEntry.Execute refused to start *)
| OFuel.                          (* model artefact, excluded by the termination theorem *)

(* what one pass of the `for` loop did *)
Record cycle_rec := { cr_begin : Z;                       (* number given to BeginCycle *)
                      cr_evals : list (Z * string * bool);   (* EvaluateRuleEntry(cycle, rule, candidate) in order *)
                      cr_exec : option (Z * string);      (* ExecuteRuleEntry(cycle, rule) *)
                      cr_started : bool;                  (* the action list of that rule was entered *)
                      cr_fx : list effect;                (* Retract / Complete calls made by that action list *)
                      cr_act_chk : nat }.                 (* ghost: number of ctx.Err() checks done when the action list started *)

Inductive event := EvBegin (c : Z) | EvEval (c : Z) (key : string) (can : bool) | EvExec (c : Z) (key : string)
                 | EvAct (key : string).

Definition flatten_cycle (r : cycle_rec) : list event :=
  EvBegin (cr_begin r) :: map (fun x => match x with (c, k, b) => EvEval c k b end) (cr_evals r) ++
  match cr_exec r with
  | Some (c, k) => EvExec c k :: (if cr_started r then [EvAct k] else [])
  | None => []
  end.
Definition flatten (t : list cycle_rec) : list event := flat_map flatten_cycle t.

Section Abs.
Variable U : Type.
Variable cond : U -> entry -> U * cres.
Variable act : U -> entry -> U * list effect * bool.      (* new state, control effects, failed *)

Record st := { s_user : U; s_entries : list entry; s_cycle : Z; s_chk : nat; s_complete : bool }.

Definition cancelled (c : config) (s : st) : bool :=
  match c_cancel c with Some k => Nat.leb k (s_chk s) | None => false end.
Definition bump (s : st) : st :=
  {| s_user := s_user s; s_entries := s_entries s; s_cycle := s_cycle s; s_chk := S (s_chk s); s_complete := s_complete s |}.
Definition with_user (s : st) (u : U) : st :=
  {| s_user := u; s_entries := s_entries s; s_cycle := s_cycle s; s_chk := s_chk s; s_complete := s_complete s |}.

(* the inner `for _, ruleEntry := range knowledge.RuleEntries` *)
Fixpoint eval_loop (c : config) (es : list entry) (s : st) (runnable : list entry) (evs : list (Z * string * bool))
  : st * list entry * list (Z * string * bool) * option outcome :=
  match es with
  | [] => (s, runnable, evs, None)
  | e :: es' =>
      (* Retracted/Deleted are read from the entry at iteration time; nothing changes them inside this loop *)
      if cancelled c s then (bump s, runnable, evs, Some OCtxErr)            (* GruleEngine.go: ctx.Err() in the loop *)
      else
        let s := bump s in
        if eval_guard (e_retracted e) (e_deleted e) then
          (* RuleEntry.Evaluate: ctx.Err() on entry *)
          if cancelled c s then
            let s := bump s in
            if c_reterr c then (s, runnable, evs, Some (OCondErr (e_key e) true))
            else eval_loop c es' s runnable (evs ++ [(notify_evaluate_cycle (s_cycle s), e_key e, false)])
          else
            let s := bump s in
            let '(u, r) := cond (s_user s) e in
            let s := with_user s u in
            match r with
            | CErr => if c_reterr c then (s, runnable, evs, Some (OCondErr (e_key e) false))
                      else eval_loop c es' s runnable (evs ++ [(notify_evaluate_cycle (s_cycle s), e_key e, false)])
            | CTrue => eval_loop c es' s (runnable ++ [e]) (evs ++ [(notify_evaluate_cycle (s_cycle s), e_key e, true)])
            | CFalse => eval_loop c es' s runnable (evs ++ [(notify_evaluate_cycle (s_cycle s), e_key e, false)])
            end
        else eval_loop c es' s runnable evs
  end.

(* the linear scan over runnable *)
Definition pick (hd : entry) (tl : list entry) : entry :=
  fold_left (fun runner pr => if salience_replace (e_sal runner) (e_sal pr) then pr else runner) tl hd.

Definition retract_in (name : string) (es : list entry) : list entry :=
  map (fun e => if String.eqb (e_name e) name
                then {| e_key := e_key e; e_name := e_name e; e_sal := e_sal e; e_retracted := true; e_deleted := e_deleted e |}
                else e) es.

Definition apply_fx (s : st) (fx : effect) : st :=
  match fx with
  | FxRetract n => {| s_user := s_user s; s_entries := retract_in n (s_entries s); s_cycle := s_cycle s; s_chk := s_chk s; s_complete := s_complete s |}
  | FxComplete => {| s_user := s_user s; s_entries := s_entries s; s_cycle := s_cycle s; s_chk := s_chk s; s_complete := true |}
  end.

Inductive step_result := Continue (s : st) (r : cycle_rec) | Stop (s : st) (r : option cycle_rec) (o : outcome).

(* one iteration of the outer `for` *)
Definition cycle_step (c : config) (order : list entry -> list entry) (s : st) : step_result :=
  if cancelled c s then Stop (bump s) None OCtxErr
  else
    let s := bump s in
    let b := notify_begin_cycle (s_cycle s) in
    let '(s, runnable, evs, early) := eval_loop c (order (s_entries s)) s [] [] in
    match early with
    | Some o => Stop s (Some {| cr_begin := b; cr_evals := evs; cr_exec := None; cr_started := false; cr_fx := []; cr_act_chk := 0 |}) o
    | None =>
        match runnable with
        | [] =>
            (* no candidate: leave the loop; the common exit path looks at ctx.Err() once more *)
            let r := {| cr_begin := b; cr_evals := evs; cr_exec := None; cr_started := false; cr_fx := []; cr_act_chk := 0 |} in
            if cancelled c s then Stop (bump s) (Some r) OCtxErr else Stop (bump s) (Some r) OQuiescent
        | hd :: tl =>
            let s := {| s_user := s_user s; s_entries := s_entries s; s_cycle := s_cycle s + 1; s_chk := s_chk s; s_complete := s_complete s |} in
            if over_budget (s_cycle s) (c_max c)
            then Stop s (Some {| cr_begin := b; cr_evals := evs; cr_exec := None; cr_started := false; cr_fx := []; cr_act_chk := 0 |}) OCycleLimit
            else
              let runner := pick hd tl in
              let ex := Some (notify_execute_cycle (s_cycle s), e_key runner) in
              (* RuleEntry.Execute: ctx.Err() on entry *)
              if cancelled c s
              then Stop (bump s) (Some {| cr_begin := b; cr_evals := evs; cr_exec := ex; cr_started := false; cr_fx := []; cr_act_chk := 0 |}) (OActErr (e_key runner) true)
              else
                let s := bump s in
                let '(u, fxs, failed) := act (s_user s) runner in
                let r := {| cr_begin := b; cr_evals := evs; cr_exec := ex; cr_started := true; cr_fx := fxs; cr_act_chk := s_chk s |} in
                let s := fold_left apply_fx fxs (with_user s u) in
                if failed then Stop s (Some r) (OActErr (e_key runner) false)
                else if s_complete s
                     then (if cancelled c s then Stop (bump s) (Some r) OCtxErr else Stop (bump s) (Some r) OCompleted)
                else Continue s r
        end
    end.

Fixpoint run_loop (fuel : nat) (c : config) (order : nat -> list entry -> list entry) (i : nat) (s : st) (acc : list cycle_rec)
  : st * list cycle_rec * outcome :=
  match fuel with
  | O => (s, acc, OFuel)
  | S fuel' =>
      match cycle_step c (order i) s with
      | Continue s' r => run_loop fuel' c order (S i) s' (acc ++ [r])
      | Stop s' (Some r) o => (s', (acc ++ [r])%list, o)
      | Stop s' None o => (s', acc, o)
      end
  end.

(* Execute's preamble: ResetAll (user state), KnowledgeBase.Reset, fresh data context flags *)
Variable reset_user : U -> U.
Definition unretract (es : list entry) : list entry :=
  map (fun e => {| e_key := e_key e; e_name := e_name e; e_sal := e_sal e; e_retracted := false; e_deleted := e_deleted e |}) es.

Definition init_st (u : U) (es : list entry) : st :=
  {| s_user := reset_user u; s_entries := unretract es; s_cycle := 0; s_chk := 0; s_complete := false |}.

Definition execute (fuel : nat) (c : config) (order : nat -> list entry -> list entry) (u : U) (es : list entry)
  : st * list cycle_rec * outcome :=
  run_loop fuel c order 0 (init_st u es) [].

(* ---- FetchMatchingRules ---- *)
Fixpoint fetch_loop (reterr : bool) (es : list entry) (u : U) (acc : list entry) : U * list entry * option string :=
  match es with
  | [] => (u, acc, None)
  | e :: es' =>
      if fetch_guard (e_retracted e) (e_deleted e) then
        if e_retracted e then fetch_loop reterr es' u acc            (* RuleEntry.Evaluate returns (false, nil) *)
        else
          let '(u', r) := cond u e in
          match r with
          | CErr => if reterr then (u', acc, Some (e_key e)) else fetch_loop reterr es' u' acc
          | CTrue => fetch_loop reterr es' u' (acc ++ [e])
          | CFalse => fetch_loop reterr es' u' acc
          end
      else fetch_loop reterr es' u acc
  end.

(* sort.SliceStable with less(i,j) = fetch_before : stable insertion sort *)
Fixpoint insert_stable (x : entry) (l : list entry) : list entry :=
  match l with
  | [] => [x]
  | y :: l' => if fetch_before (e_sal y) (e_sal x) then y :: insert_stable x l' else x :: y :: l'
  end.
Definition sort_stable (l : list entry) : list entry := fold_right insert_stable [] l.

Definition fetch (reterr : bool) (order : list entry -> list entry) (u : U) (es : list entry)
  : U * res (list entry) :=
  let es := unretract es in
  let '(u', matched, err) := fetch_loop reterr (order es) (reset_user u) [] in
  match err with
  | Some _ => (u', Err)
  | None => (u', Ok (match matched with _ :: _ :: _ => sort_stable matched | _ => matched end))
  end.

End Abs.

Arguments s_user {U} _.
Arguments s_entries {U} _.
Arguments s_cycle {U} _.
Arguments s_chk {U} _.
Arguments s_complete {U} _.
Arguments bump {U} _.
Arguments with_user {U} _ _.
Arguments cancelled {U} _ _.
Arguments apply_fx {U} _ _.
Arguments Continue {U} _ _.
Arguments Stop {U} _ _ _.
Arguments init_st {U} _ _ _.
