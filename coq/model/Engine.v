(* Engine.v — the abstract engine instantiated with the memoising evaluator,
   and the comparison functions used by the engine correspondence cases. *)
From Grule Require Import Base Values Syntax Snapshot Printer EngineGen EngineAbs MiniEngine Facts Eval Methods.
Open Scope Z_scope.

(* every variable node registered by the rules (WorkingMemory.variableSnapshotMap) *)
Fixpoint vars_expr (e : expr) : list var :=
  match e with
  | EAtom a => vars_atom a
  | EParen _ e' => vars_expr e'
  | EBin _ l r => vars_expr l ++ vars_expr r
  end
with vars_atom (a : atom) : list var :=
  match a with
  | AConst _ => []
  | AVar v => vars_var v
  | AFunc _ args => vars_elist args
  | AMethod a' _ args => vars_atom a' ++ vars_elist args
  | AMember a' _ => vars_atom a'
  | ASel a' sel => vars_atom a' ++ vars_expr sel
  | ANeg a' => vars_atom a'
  end
with vars_var (v : var) : list var :=
  match v with
  | VName _ => [v]
  | VMember v' _ => v :: vars_var v'
  | VSel v' sel => v :: vars_var v' ++ vars_expr sel
  end
with vars_elist (l : elist) : list var :=
  match l with ENil => [] | ECons e l' => vars_expr e ++ vars_elist l' end.

Definition vars_stmt (s : stmt) : list var :=
  match s with SAssign x _ e => vars_var x ++ vars_expr e | SAtom a => vars_atom a end.
Definition vars_rule (r : rule) : list var := vars_expr (rwhen r) ++ flat_map vars_stmt (rthen r).
Definition vars_rules (rs : list rule) : list var := flat_map vars_rule rs.

Definition init_estate (fx : facts) : estate :=
  {| es_facts := fx; es_mexpr := []; es_matom := []; es_calls := []; es_fx := [] |}.

Definition eng_execute (rules : list rule) (fuel : nat) (c : config) (order : nat -> list entry -> list entry) (fx : facts) (es : list entry) :=
  let av := vars_rules rules in
  execute estate (rule_cond av fact_meth fact_panics_inside rules) (rule_act av fact_meth fact_panics_inside rules) reset_all fuel c order (init_estate fx) es.

Definition eng_fetch (rules : list rule) (reterr : bool) (order : list entry -> list entry) (fx : facts) (es : list entry) :=
  let av := vars_rules rules in
  fetch estate (rule_cond av fact_meth fact_panics_inside rules) reset_all reterr order (init_estate fx) es.

(* maps are unordered in Go: compare stored values up to the order of map entries *)
Fixpoint insert_kv (kv : string * fval) (l : list (string * fval)) : list (string * fval) :=
  match l with [] => [kv] | x :: l' => if String.leb (fst kv) (fst x) then kv :: x :: l' else x :: insert_kv kv l' end.
Fixpoint canon_fval (v : fval) : fval :=
  match v with
  | FV x => FV x
  | FStruct fs => FStruct (map (fun p => (fst p, canon_fval (snd p))) fs)
  | FPtr None => FPtr None
  | FPtr (Some x) => FPtr (Some (canon_fval x))
  | FSlice xs => FSlice (map canon_fval xs)
  | FMap kvs => FMap (fold_right insert_kv [] (map (fun p => (fst p, canon_fval (snd p))) kvs))
  end.
Definition canon_facts (f : facts) : facts :=
  fold_right insert_kv [] (map (fun p => (fst p, canon_fval (snd p))) f).

Record eng_case := {
  ec_id : Z;
  ec_rules : list rule;
  ec_entries : list entry;
  ec_facts : facts;
  ec_config : config;
  ec_orders : list (list (option string));
  ec_obs_events : list event;
  ec_obs_outcome : obs_outcome;
  ec_obs_facts : facts;
  ec_obs_calls : list (string * Z);
  ec_obs_snaps : list (string * string)      (* rule name -> RuleEntry.GetSnapshot() *)
}.

Definition calls_eqb (a b : list (string * Z)) : bool :=
  forallb (fun p => match alookup (fst p) b with Some n => n =? snd p | None => snd p =? 0 end) a &&
  forallb (fun p => match alookup (fst p) a with Some n => n =? snd p | None => snd p =? 0 end) b.

(* which part of the comparison failed: 0 ok, 1 snapshot, 2 events, 3 outcome, 4 facts, 5 call counts *)
Definition eng_case_diff (m : eng_case) : Z :=
  if negb (forallb (fun r => match alookup (rname r) (ec_obs_snaps m) with
                             | Some s => String.eqb s (rule_snapshot r)
                             | None => false end) (ec_rules m)) then 1
  else
    let fuel := S (S (List.length (ec_orders m))) in
    let '(sf, recs, o) := eng_execute (ec_rules m) fuel (ec_config m) (order_of (ec_orders m)) (ec_facts m) (ec_entries m) in
    if negb (list_eqb event_eqb (strip_act (flatten recs)) (ec_obs_events m)) then 2
    else if negb (outcome_matches o (ec_obs_outcome m)) then 3
    else if negb (facts_eqb (canon_facts (es_facts (s_user sf))) (canon_facts (ec_obs_facts m))) then 4
    else if negb (calls_eqb (es_calls (s_user sf)) (ec_obs_calls m)) then 5
    else 0.

Definition eng_mismatches (cs : list eng_case) : list Z :=
  fold_right (fun m acc => if eng_case_diff m =? 0 then acc else ec_id m :: acc) [] cs.
