(* Base.v — result type, assoc maps, string utilities shared by every model file.
   Plain stdlib; definitions only (proofs live in coq/proofs). *)
From Coq Require Export List String Ascii ZArith NArith Bool Lia.
Export ListNotations.
Open Scope Z_scope.

(* Outcome of every modelled primitive: a value, a Go error, or a Go panic. *)
Inductive res (A : Type) : Type :=
| Ok (a : A)
| Err
| Panic.
Arguments Ok {A} a.
Arguments Err {A}.
Arguments Panic {A}.

Definition rbind {A B} (r : res A) (f : A -> res B) : res B :=
  match r with Ok a => f a | Err => Err | Panic => Panic end.
Notation "'do' x <- r ; k" := (rbind r (fun x => k))
  (at level 200, x pattern, r at level 100, k at level 200, right associativity).

Definition is_ok {A} (r : res A) : bool := match r with Ok _ => true | _ => false end.

(* ---- strings ---- *)
Open Scope string_scope.
Open Scope Z_scope.

Fixpoint prefixb (p s : string) : bool :=
  match p with
  | EmptyString => true
  | String c p' => match s with
                   | EmptyString => false
                   | String d s' => if Ascii.eqb c d then prefixb p' s' else false
                   end
  end.

(* strings.Contains *)
Fixpoint containsb (s p : string) : bool :=
  if prefixb p s then true
  else match s with
       | EmptyString => false
       | String _ s' => containsb s' p
       end.

Fixpoint str_concat (l : list string) : string :=
  match l with [] => ""%string | s :: l' => (s ++ str_concat l')%string end.

Fixpoint str_join (sep : string) (l : list string) : string :=
  match l with
  | [] => ""%string
  | [s] => s
  | s :: l' => (s ++ sep ++ str_join sep l')%string
  end.

Definition strlenZ (s : string) : Z := Z.of_nat (String.length s).

(* decimal printing of integers (fmt %d) *)
Definition digit_char (d : Z) : ascii := ascii_of_nat (48 + Z.to_nat d).

Fixpoint show_pos_fuel (fuel : nat) (z : Z) (acc : string) : string :=
  match fuel with
  | O => acc
  | S f => let acc' := String (digit_char (z mod 10)) acc in
           if z <? 10 then acc' else show_pos_fuel f (z / 10) acc'
  end.

(* number of decimal digits is at most log2 z + 1 *)
Definition show_nonneg (z : Z) : string :=
  show_pos_fuel (S (Z.to_nat (Z.log2 z))) z "".

Definition show_Z (z : Z) : string :=
  if z <? 0 then String "-" (show_nonneg (- z)) else show_nonneg z.

(* ---- association lists keyed by string ---- *)
Definition amap (A : Type) := list (string * A).

Fixpoint alookup {A} (k : string) (m : amap A) : option A :=
  match m with
  | [] => None
  | (k', v) :: m' => if String.eqb k k' then Some v else alookup k m'
  end.

Fixpoint aupdate {A} (k : string) (v : A) (m : amap A) : amap A :=
  match m with
  | [] => [(k, v)]
  | (k', v') :: m' => if String.eqb k k' then (k, v) :: m' else (k', v') :: aupdate k v m'
  end.

Fixpoint aremove {A} (k : string) (m : amap A) : amap A :=
  match m with
  | [] => []
  | (k', v') :: m' => if String.eqb k k' then aremove k m' else (k', v') :: aremove k m'
  end.

Definition amem {A} (k : string) (m : amap A) : bool :=
  match alookup k m with Some _ => true | None => false end.

Definition akeys {A} (m : amap A) : list string := map fst m.

Fixpoint list_eqb {A} (eqb : A -> A -> bool) (l1 l2 : list A) : bool :=
  match l1, l2 with
  | [], [] => true
  | x :: l1', y :: l2' => eqb x y && list_eqb eqb l1' l2'
  | _, _ => false
  end.

Definition option_eqb {A} (eqb : A -> A -> bool) (o1 o2 : option A) : bool :=
  match o1, o2 with
  | None, None => true
  | Some x, Some y => eqb x y
  | _, _ => false
  end.
