(* Printer.v — the GrlText of a node: the concatenation of its tokens without
   white space (ANTLR's ctx.GetText()), as stored by the listener and used by
   WorkingMemory.Reset(name).  Also structural boolean equality of AST nodes. *)
From Grule Require Import Base Syntax OpsGen Snapshot.
Open Scope string_scope.

(* literals are printed the way the harness spells them: decimal integers,
   double-quoted strings without escapes; float spelling is irrelevant to the
   engine except inside GrlText, where it is rendered as its bit pattern *)
Definition const_text (c : const) : string :=
  match c with
  | CStr s => """" ++ s ++ """"
  | CInt z => show_int z
  | CFloat b => "0f" ++ hexn 16 b ""
  | CBool true => "true"
  | CBool false => "false"
  | CNil => "nil"
  end.

Fixpoint expr_text (e : expr) : string :=
  match e with
  | EAtom a => atom_text a
  | EParen false e' => "(" ++ expr_text e' ++ ")"
  | EParen true e' => "!(" ++ expr_text e' ++ ")"
  | EBin o l r => expr_text l ++ op_snapshot o ++ expr_text r
  end
with atom_text (a : atom) : string :=
  match a with
  | AConst c => const_text c
  | AVar v => var_text v
  | AFunc f args => f ++ "(" ++ args_text args ++ ")"
  | AMethod a' f args => atom_text a' ++ "." ++ f ++ "(" ++ args_text args ++ ")"
  | AMember a' n => atom_text a' ++ "." ++ n
  | ASel a' sel => atom_text a' ++ "[" ++ expr_text sel ++ "]"
  | ANeg a' => "!" ++ atom_text a'
  end
with var_text (v : var) : string :=
  match v with
  | VName n => n
  | VMember v' n => var_text v' ++ "." ++ n
  | VSel v' sel => var_text v' ++ "[" ++ expr_text sel ++ "]"
  end
with args_text (l : elist) : string :=
  match l with
  | ENil => ""
  | ECons e ENil => expr_text e
  | ECons e l' => expr_text e ++ "," ++ args_text l'
  end.

(* ---- boolean structural equality ---- *)
Definition const_eqb (a b : const) : bool :=
  match a, b with
  | CStr x, CStr y => String.eqb x y
  | CInt x, CInt y => Z.eqb x y
  | CFloat x, CFloat y => Z.eqb x y
  | CBool x, CBool y => Bool.eqb x y
  | CNil, CNil => true
  | _, _ => false
  end.

Fixpoint expr_eqb (a b : expr) : bool :=
  match a, b with
  | EAtom x, EAtom y => atom_eqb x y
  | EParen n1 x, EParen n2 y => Bool.eqb n1 n2 && expr_eqb x y
  | EBin o1 l1 r1, EBin o2 l2 r2 => op_eqb o1 o2 && expr_eqb l1 l2 && expr_eqb r1 r2
  | _, _ => false
  end
with atom_eqb (a b : atom) : bool :=
  match a, b with
  | AConst x, AConst y => const_eqb x y
  | AVar x, AVar y => var_eqb x y
  | AFunc f1 l1, AFunc f2 l2 => String.eqb f1 f2 && elist_eqb l1 l2
  | AMethod x f1 l1, AMethod y f2 l2 => atom_eqb x y && String.eqb f1 f2 && elist_eqb l1 l2
  | AMember x n1, AMember y n2 => atom_eqb x y && String.eqb n1 n2
  | ASel x s1, ASel y s2 => atom_eqb x y && expr_eqb s1 s2
  | ANeg x, ANeg y => atom_eqb x y
  | _, _ => false
  end
with var_eqb (a b : var) : bool :=
  match a, b with
  | VName x, VName y => String.eqb x y
  | VMember x n1, VMember y n2 => var_eqb x y && String.eqb n1 n2
  | VSel x s1, VSel y s2 => var_eqb x y && expr_eqb s1 s2
  | _, _ => false
  end
with elist_eqb (a b : elist) : bool :=
  match a, b with
  | ENil, ENil => true
  | ECons x l1, ECons y l2 => expr_eqb x y && elist_eqb l1 l2
  | _, _ => false
  end.
