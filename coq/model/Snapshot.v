(* Snapshot.v — GetSnapshot of every AST node kind, character for character.
   Written in continuation style ([snap_x n k] = snapshot of n followed by k)
   so that unique decodability can be proved without re-associating appends.
   ast/Constant.go, Expression.go, ExpressionAtom.go, Variable.go,
   FunctionCall.go, ArgumentList.go, ArrayMapSelector.go, Assignment.go,
   ThenExpression*.go, ThenScope.go, WhenScope.go, RuleEntry.go, KnowledgeBase.go *)
From Coq Require Import DecimalString Decimal DecimalZ.
From Grule Require Import Base Syntax OpsGen.
Open Scope string_scope.
Open Scope Z_scope.

(* fmt %d *)
Definition show_int (z : Z) : string := NilZero.string_of_int (Z.to_int z).

(* fmt %016x of the float's bits *)
Definition hex_digit (d : Z) : ascii :=
  if d <? 10 then ascii_of_nat (48 + Z.to_nat d) else ascii_of_nat (87 + Z.to_nat d).
Fixpoint hexn (n : nat) (b : Z) (k : string) : string :=
  match n with
  | O => k
  | S n' => hexn n' (b / 16) (String (hex_digit (b mod 16)) k)
  end.

Definition snap_const (c : const) (k : string) : string :=
  match c with
  | CStr s => "C(string->" ++ show_int (Z.of_nat (String.length s)) ++ String """" (s ++ String """" (String ")" k))
  | CInt z => "C(int64->" ++ show_int z ++ String ")" k
  | CFloat b => "C(float64->" ++ hexn 16 b (String ")" k)
  | CBool true => "C(bool->true)" ++ k
  | CBool false => "C(bool->false)" ++ k
  | CNil => "C(invalid->)" ++ k
  end.

Fixpoint snap_expr (e : expr) (k : string) : string :=
  match e with
  | EAtom a => "E(EA(" ++ snap_atom a ("))" ++ k)
  | EParen false e' => "E(SE(" ++ snap_expr e' ("))" ++ k)
  | EParen true e' => "E(SE(!" ++ snap_expr e' ("))" ++ k)
  | EBin o l r => "E(EL(" ++ snap_expr l (String ")" (op_snapshot o ++ "ER(" ++ snap_expr r ("))" ++ k)))
  end
with snap_atom (a : atom) (k : string) : string :=
  match a with
  | AConst c => "A(" ++ snap_const c (String ")" k)
  | AVar v => "A(" ++ snap_var v (String ")" k)
  | AFunc f args =>
      "A(F(n:" ++ f ++ String "," ("AL(" ++
        match args with ENil => ")))" ++ k | ECons e l' => snap_expr e (snap_tail l' (")))" ++ k)) end)
  | AMethod a' f args =>
      "A(" ++ snap_atom a' ("->F(n:" ++ f ++ String "," ("AL(" ++
        match args with ENil => ")))" ++ k | ECons e l' => snap_expr e (snap_tail l' (")))" ++ k)) end))
  | AMember a' n => "A(" ++ snap_atom a' ("->MV:" ++ n ++ String ")" k)
  | ASel a' sel => "A(" ++ snap_atom a' (snap_atom a' ("-[]>MAS(" ++ snap_expr sel ("))" ++ k)))
  | ANeg a' => "A(!" ++ snap_atom a' (String ")" k)
  end
with snap_var (v : var) (k : string) : string :=
  match v with
  | VName n => "V(N:" ++ n ++ String ")" k
  | VMember v' n => "V(O:" ++ snap_var v' ("->" ++ n ++ String ")" k)
  | VSel v' sel => "V(O:" ++ snap_var v' ("->MAS(" ++ snap_expr sel ("))" ++ k))
  end
with snap_tail (l : elist) (k : string) : string :=      (* ",e" for every remaining argument *)
  match l with
  | ENil => k
  | ECons e l' => String "," (snap_expr e (snap_tail l' k))
  end.

(* AL( e1,e2,… ) without the brackets *)
Definition snap_args (l : elist) (k : string) : string :=
  match l with ENil => k | ECons e l' => snap_expr e (snap_tail l' k) end.

Definition expr_snapshot (e : expr) : string := snap_expr e "".
Definition atom_snapshot (a : atom) : string := snap_atom a "".
Definition var_snapshot (v : var) : string := snap_var v "".

Definition asg_text (o : asg) : string :=
  match o with AsSet => "=" | AsAdd => "+=" | AsSub => "-=" | AsMul => "*=" | AsDiv => "/=" end.

Definition snap_stmt (s : stmt) (k : string) : string :=
  match s with
  | SAssign x o e => "TE(AS(" ++ snap_var x (asg_text o ++ snap_expr e ("))" ++ k))
  | SAtom a => "TE(" ++ snap_atom a (String ")" k)
  end.

Fixpoint snap_stmts (l : list stmt) (k : string) : string :=
  match l with
  | [] => k
  | [s] => snap_stmt s k
  | s :: l' => snap_stmt s (String "," (snap_stmts l' k))
  end.

(* R(N:<name> DEC:"<desc>" SAL:<n> W:WS(<when>) T:TS(TEL(<then>))}) *)
Definition rule_snapshot (r : rule) : string :=
  "R(N:" ++ rname r ++ " DEC:""" ++ rdesc r ++ """ SAL:" ++ show_int (rsal r) ++ " W:WS(" ++
  snap_expr (rwhen r) (") T:TS(TEL(" ++ snap_stmts (rthen r) "))})").

(* KnowledgeBase.GetSnapshot: rule snapshots joined by "," in the order given
   (the harness supplies them sorted the way the Go code sorts its keys) *)
Definition kb_snapshot (name version : string) (rules : list rule) : string :=
  name ++ ":" ++ version ++ "[" ++ str_join "," (map rule_snapshot rules) ++ "]".
