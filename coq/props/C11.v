(* C11 — FetchMatchingRules returns exactly the satisfied rules, ordered by salience.

   "FetchMatchingRules returns each non-removed rule whose condition is true on
   the given facts exactly once, and no other rule, in non-increasing salience
   order, and executes no rule action.  A rule whose condition fails to
   evaluate is treated as not matching, or the error is returned when
   ReturnErrOnFailedRuleEvaluation is set." *)
From Grule Require Import Base EngineGen EngineAbs EngineProofs EngineTheorems.

Theorem C11 : forall (U : Type) cond reset_user, C11_statement U cond reset_user.
Proof. exact C11_proved. Qed.
Print Assumptions C11.

(* "executes no rule action": the model of FetchMatchingRules has no action parameter at all *)
Check fetch_signature.

(* the same for the engine WITH its working memory, from any memory contents, tied to the from-scratch value of each
   rule's condition (proofs/MemoTheorems.v); and the facts are left alone (C08, third clause) *)
From Grule Require Import Values Syntax Facts Eval Refinement MemoTheorems.
Theorem C11_semantic : forall rules meth panics_inside mutating
  (meth_pure : forall fs f args ret fs', mutating f = false -> meth fs f args = Ok (ret, fs') -> fs' = fs),
  rules_ok rules mutating -> C11_semantic_statement rules meth panics_inside.
Proof. exact C11_semantic_proved. Qed.
Print Assumptions C11_semantic.
