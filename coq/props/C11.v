(* C11 — FetchMatchingRules returns exactly the satisfied rules, ordered by salience.

   "FetchMatchingRules returns each non-removed rule whose condition is true on
   the given facts exactly once, and no other rule, in non-increasing salience
   order, and executes no rule action.  A rule whose condition fails to
   evaluate is treated as not matching, or the error is returned when
   ReturnErrOnFailedRuleEvaluation is set." *)
From Grule Require Import Base EngineGen EngineAbs EngineProofs EngineTheorems.

Theorem C11 : forall (U : Type) cond reset_user, C11_statement U cond reset_user.
Proof. exact C11_proved. Qed.
Print Assumptions C11.

(* "executes no rule action": the model of FetchMatchingRules has no action parameter at all *)
Check fetch_signature.
