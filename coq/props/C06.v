(* C06 — Every run terminates within the cycle budget and reports itself faithfully.

   "Execute always returns: it fires at most MaxCycle rules, returns the
   cycle-limit error exactly when one more firing would be needed, and
   otherwise returns nil at quiescence or after Complete.  The listener
   callbacks describe the run truthfully: cycles are numbered consecutively
   from 1, every cycle reports each active rule's evaluation exactly once with
   its real candidate status, followed by at most one execution, of a rule
   reported as candidate in that same cycle." *)
From Coq Require Import Permutation.
From Grule Require Import Base EngineGen EngineAbs EngineProofs EngineTheorems.

Theorem C06 : forall (U : Type) cond act reset_user es0,
  NoDup (map e_key es0) -> forall c order, (forall i l, Permutation (order i l) l) ->
  C06_statement U cond act reset_user es0 c order.
Proof. exact C06_proved. Qed.
Print Assumptions C06.
