(* C12 — Binary store/load yields an equivalent knowledge base or an error.

   "Loading a stream written by StoreKnowledgeBaseToWriter yields a knowledge base
   with the same name, version, rule names, descriptions and saliences whose
   instances behave on every fact set exactly like instances of the stored one, also
   after storing and loading again.  A stream cut off at any byte, and a store whose
   writer fails at any write, result in an error from the load or store call - never
   in a knowledge base that loads successfully but behaves differently; with
   overwrite=false an existing entry is left untouched."

   The statements are about the executable model of the catalog stream
   (coq/model/CodecPrim.v, Codec.v: byte-level readers/writers, the 13 meta records,
   the catalog frame, the Write-call sequence of a store, the library map), tied to
   ast/Serializer.go and ast/KnowledgeBase.go by the extracted constants and field
   orders (gen/CodecGen.v, proofs/AnchorsCodec.v) and by decoding the bytes written by
   the real StoreKnowledgeBaseToWriter inside Coq on every run (tools/harness/c12.go).

   [wf_catalog]: every string length, byte-block length and element count fits 64 bits
   and every int field is a Go int — true of every catalog MakeCatalog can build. *)
From Grule Require Import Base Syntax CodecPrim Codec Catalog CodecProofs CatalogProofs.

(* every field of every meta, both snapshot maps and the invalidation index come back
   exactly as stored; a second store/load generation is identical to the first *)
Theorem C12_roundtrip : C12_roundtrip_statement.
Proof. exact C12_roundtrip_proved. Qed.
Print Assumptions C12_roundtrip.

(* cut off at any byte: decode error, load error, library unchanged *)
Theorem C12_truncation : C12_truncation_statement.
Proof. exact C12_truncation_proved. Qed.
Print Assumptions C12_truncation.

(* writer failing at the k-th Write call, for every k below the number of calls: the store is
   an error, what reached the writer is a strict prefix of the full stream and does not load *)
Theorem C12_writer_fault : C12_writer_fault_statement.
Proof. exact C12_writer_fault_proved. Qed.
Print Assumptions C12_writer_fault.

(* overwrite=false: every existing entry is still there, unchanged; an existing key is an error;
   an erroring load (any flag) leaves the library as it was *)
Theorem C12_no_overwrite : C12_no_overwrite_statement.
Proof. exact C12_no_overwrite_proved. Qed.
Print Assumptions C12_no_overwrite.

(* catalog <-> rules: reading the metas of a rule list back (BuildKnowledgeBase, as the
   evaluator reads the node graph) returns exactly the rule list, directly and through
   encode / decode.  [catalog_of_kb] is MakeCatalog of every node kind WITHOUT the sharing
   of equal sub-expressions and without the working-memory maps (see the report);
   [rules_ok]: variable / member names are not empty, constants are representable. *)
Theorem C12_kb_roundtrip : C12_kb_roundtrip_statement.
Proof. exact C12_kb_roundtrip_proved. Qed.
Print Assumptions C12_kb_roundtrip.

(* removed rules: a knowledge base entry is a rule with its Deleted flag; RemoveRuleEntry renames the
   rule to "Deleted_" ++ uuid and sets the flag, BuildKnowledgeBase sets the flag exactly for such
   names (engine commit 01c7ce8).  For every knowledge base whose flags agree with its names - which
   building (names without '-': no_dash_not_tombstone) and removing (remove_rule_consistent) maintain -
   the loaded knowledge base has the same rules with the same removed / active flags, directly, through
   encode / decode, and hence after any number of store / load generations. *)
Theorem C12_removed_preserved : C12_removed_preserved_statement.
Proof. exact C12_removed_preserved_proved. Qed.
Print Assumptions C12_removed_preserved.
