(* C16 — rule names stay unique and removed rules never fire again.

   "A knowledge base never holds two active rules with the same name: building a
   rule whose name already exists, in the same or a later resource, returns an
   error and leaves the existing rule in force.  After RemoveRuleEntry the rule
   never matches or fires again - on the instance it was removed from or, when
   removed from the library, on every instance created afterwards, including
   after the library's knowledge base is stored and loaded - and its name can be
   reused by a newly built rule, which behaves per its own text."

   Statements: coq/proofs/LibraryProofs.v (Section Statements), over the library
   state machine coq/model/Library.v, for every body type, fact type, condition
   semantics, map iteration order, and every operation history (no bound).
   Full, all of them: unique names, build verdict / existing rule stays / stored as written, a rejected build changes
   nothing (KnowledgeBase.Checkpoint, engine commit 4ed034e), removal from an instance, what can be
   evaluated-fired-fetched, removal from the library at the level of the NAME and of the RULE (the tombstone entry stays
   out of force in every reachable state, across any number of store+load round trips: BuildKnowledgeBase reads the
   flag off the tombstone name, engine commit 01c7ce8), re-use of the name, frame.
   Assumption (ops_user): rule names given to the builder do not start with "Deleted_" - the engine's own naming
   convention for removed rules; a user rule literally named like a tombstone would be read as removed on load. *)
From Grule Require Import Base EngineGen EngineAbs Library LibraryProofs.

Theorem C16_unique_names : forall B F holds self zap order, C16_unique_names_statement B F holds self zap order.
Proof. exact C16_unique_names_proved. Qed.
Print Assumptions C16_unique_names.

Theorem C16_build : forall B F holds self zap order, C16_build_statement B F holds self zap order.
Proof. exact C16_build_proved. Qed.
Print Assumptions C16_build.

Theorem C16_failed_build_unchanged : forall B F holds self zap order, C16_failed_build_unchanged_statement B F holds self zap order.
Proof. exact C16_failed_build_unchanged_proved. Qed.
Print Assumptions C16_failed_build_unchanged.

Theorem C16_removed_from_instance : forall B F holds self zap order, C16_removed_from_instance_statement B F holds self zap order.
Proof. exact C16_removed_from_instance_proved. Qed.
Print Assumptions C16_removed_from_instance.

Theorem C16_only_rules_in_force : forall B F holds self zap order, C16_only_rules_in_force_statement B F holds self zap order.
Proof. exact C16_only_rules_in_force_proved. Qed.
Print Assumptions C16_only_rules_in_force.

Theorem C16_removed_from_library : forall B F holds self zap order, C16_removed_from_library_statement B F holds self zap order.
Proof. exact C16_removed_from_library_proved. Qed.
Print Assumptions C16_removed_from_library.

Theorem C16_removed_rules : forall B F holds self zap order, C16_removed_rules_statement B F holds self zap order.
Proof. exact C16_removed_rules_proved. Qed.
Print Assumptions C16_removed_rules.

Theorem C16_rebuild : forall B F holds self zap order, C16_rebuild_statement B F holds self zap order.
Proof. exact C16_rebuild_proved. Qed.
Print Assumptions C16_rebuild.

Theorem C16_frame : forall B F holds self zap order, C16_frame_statement B F holds self zap order.
Proof. exact C16_frame_proved. Qed.
Print Assumptions C16_frame.
