(* C08 — reusing a knowledge-base instance behaves like using a fresh one (C08_statement in proofs/MemoTheorems.v). *)
From Grule Require Import Base Values Syntax EngineAbs Facts Eval Refinement MemoTheorems.
Theorem C08 : forall rules meth panics_inside mutating
  (meth_pure : forall fs f args ret fs', mutating f = false -> meth fs f args = Ok (ret, fs') -> fs' = fs),
  rules_ok rules mutating -> dependency_hypothesis rules meth mutating ->
  C08_statement rules meth panics_inside.
Proof. exact C08_proved. Qed.
Print Assumptions C08.
