(* C08 — reusing a knowledge-base instance behaves like using a fresh one (C08_statement in proofs/MemoTheorems.v). *)
From Grule Require Import Base Values Syntax EngineAbs Facts Eval Frame FrameTheorems Refinement MemoTheorems.
Theorem C08 : forall rules meth panics_inside mutating
  (meth_pure : forall fs f args ret fs', mutating f = false -> meth fs f args = Ok (ret, fs') -> fs' = fs),
  rules_ok rules mutating -> dependency_hypothesis rules meth mutating ->
  C08_statement rules meth panics_inside.
Proof. exact C08_proved. Qed.
Print Assumptions C08.

(* for flat rule sets (proofs/Frame.v: top-level names, field chains and literal selectors F.X, F.In.X, F.Arr[2], F.M["k"] - no computed selectors, methods or functions - constants, negation, parentheses, binary operators;
   assignments and control built-ins) both hypotheses are theorems *)
Theorem C08_flat : forall meth panics_inside mutating
  (meth_pure : forall fs f args ret fs', mutating f = false -> meth fs f args = Ok (ret, fs') -> fs' = fs)
  rules, flat_rules rules = true ->
  C08_statement rules meth panics_inside.
Proof. exact FrameTheorems.C08_flat. Qed.
Print Assumptions C08_flat.
