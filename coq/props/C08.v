(* C08 — reusing a knowledge-base instance behaves like using a fresh one (C08_statement in proofs/MemoTheorems.v). *)
From Grule Require Import Base Values Syntax EngineAbs Facts Eval Frame FrameTheorems Refinement MemoTheorems.
Theorem C08 : forall rules meth panics_inside mutating
  (meth_pure : forall fs f args ret fs', mutating f = false -> meth fs f args = Ok (ret, fs') -> fs' = fs),
  rules_ok rules mutating -> dependency_hypothesis rules meth mutating ->
  C08_statement rules meth panics_inside.
Proof. exact C08_proved. Qed.
Print Assumptions C08.

(* for flat rule sets (proofs/Frame.v: top-level names, field chains and literal selectors F.X, F.In.X, F.Arr[2], F.M["k"];
   constants, negation, parentheses, binary operators, the value built-ins (Max, Min, Abs, IsZero, IsNil); calls (also chained) of admitted methods - side-effect free, independent of the
   receiver's state, not the built-in Len - on such variables; assignments and control built-ins as actions) both hypotheses
   on the rules are theorems *)
Theorem C08_flat : forall meth panics_inside mutating
  (meth_pure : forall fs f args ret fs', mutating f = false -> meth fs f args = Ok (ret, fs') -> fs' = fs)
  (okmeth : string -> bool)
  (ok_pure : forall f, okmeth f = true -> mutating f = false)
  (ok_stateless : forall f, okmeth f = true -> forall fs fs' args,
     match meth fs f args, meth fs' f args with
     | Ok (r, _), Ok (r', _) => r = r' | Err, Err => True | Panic, Panic => True | _, _ => False end)
  (ok_not_len : forall f, okmeth f = true -> f <> "Len"%string)
  rules, flat_rules okmeth rules = true ->
  C08_statement rules meth panics_inside.
Proof. exact FrameTheorems.C08_flat. Qed.
Print Assumptions C08_flat.
