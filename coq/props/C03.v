(* C03 — Exactly one highest-salience satisfied rule fires per cycle.

   "In each cycle at most one rule fires, and it is one whose salience is
   maximal among all active rules whose condition is true on the current facts
   (default 0, negative values allowed, ties broken arbitrarily).  Its actions
   are applied completely before any condition of the next cycle is evaluated."

   Stated over the abstract engine (EngineAbs.v) for EVERY condition/action
   semantics, rule set, salience assignment (any Z), budget, cancellation point
   and iteration order of the rule map; the comparison used by the scan is the
   one extracted from engine/GruleEngine.go (EngineGen.salience_replace). *)
From Coq Require Import Permutation.
From Grule Require Import Base EngineGen EngineAbs EngineProofs EngineTheorems.

Theorem C03 : forall (U : Type) cond act reset_user es0,
  NoDup (map e_key es0) -> forall c order, (forall i l, Permutation (order i l) l) ->
  C03_statement U cond act reset_user es0 c order.
Proof. exact C03_proved. Qed.
Print Assumptions C03.

(* the same for the engine WITH its working memory, tied to the from-scratch value of the conditions: the rule whose actions
   run has maximal salience among all active rules whose condition is true on the facts of that moment (proofs/RefineTheorems.v) *)
From Grule Require Import Values Syntax Facts Eval Refinement RefineTheorems.
Theorem C03_semantic : forall rules meth panics_inside mutating
  (meth_pure : forall fs f args ret fs', mutating f = false -> meth fs f args = Ok (ret, fs') -> fs' = fs),
  rules_ok rules mutating -> dependency_hypothesis rules meth mutating ->
  forall es, NoDup (map e_key es) -> forall c, (0 <= c_max c)%Z ->
  forall order, (forall i l, Permutation.Permutation (order i l) l) ->
  C03_semantic_statement rules meth panics_inside es c order.
Proof. exact C03_semantic_proved. Qed.
Print Assumptions C03_semantic.
