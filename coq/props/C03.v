(* C03 — Exactly one highest-salience satisfied rule fires per cycle.

   "In each cycle at most one rule fires, and it is one whose salience is
   maximal among all active rules whose condition is true on the current facts
   (default 0, negative values allowed, ties broken arbitrarily).  Its actions
   are applied completely before any condition of the next cycle is evaluated."

   Stated over the abstract engine (EngineAbs.v) for EVERY condition/action
   semantics, rule set, salience assignment (any Z), budget, cancellation point
   and iteration order of the rule map; the comparison used by the scan is the
   one extracted from engine/GruleEngine.go (EngineGen.salience_replace). *)
From Coq Require Import Permutation.
From Grule Require Import Base EngineGen EngineAbs EngineProofs EngineTheorems.

Theorem C03 : forall (U : Type) cond act reset_user es0,
  NoDup (map e_key es0) -> forall c order, (forall i l, Permutation (order i l) l) ->
  C03_statement U cond act reset_user es0 c order.
Proof. exact C03_proved. Qed.
Print Assumptions C03.
