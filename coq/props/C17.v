(* C17 — A GRL document is accepted exactly when it is grammatical.

   "BuildRuleFromResource returns nil exactly when the text is a sequence of
   rules conforming to the GRL grammar with valid literals (integers and
   salience in range, well-formed string escapes) and distinct names, and then
   every rule of the text is in the knowledge base under its name with its
   declared description and salience.  Any other text - stray or illegal
   characters, missing keywords or terminators, unbalanced brackets, empty
   condition or action list, reserved words used as identifiers - yields an
   error (for syntax problems a GruleErrorReporter listing at least one), never
   silent acceptance.  A rejected text does not damage what was loaded before:
   the rules already in the knowledge base can still be instantiated, stored
   and executed, and behave as before."

   The statements are about the executable lexer/parser/builder model
   (coq/model/Lexer.v, Parser.v) and the printer (GrlPrint.v); they are defined
   in proofs/C17Proof.v.  That ANTLR's generated parser accepts the same
   language and builds the same trees is the correspondence (tools/harness/c17.go),
   not a theorem.  The last clause holds of the model by construction and is
   checked on the implementation by the rollback oracles of the harness (the
   builder is transactional since the fix 4ed034e). *)
From Grule Require Import Base Syntax Lexer Parser GrlPrint LexProofs ParserProofs ParserWf C17Proof.

Theorem C17_roundtrip_partial : C17_roundtrip_partial_statement.
Proof. exact C17_roundtrip_partial_proved. Qed.
Print Assumptions C17_roundtrip_partial.

Theorem C17_roundtrip_spacing_partial : C17_roundtrip_spacing_partial_statement.
Proof. exact C17_roundtrip_spacing_partial_proved. Qed.
Print Assumptions C17_roundtrip_spacing_partial.

Theorem C17_expr_roundtrip : C17_expr_roundtrip_statement.
Proof. exact C17_expr_roundtrip_proved. Qed.
Print Assumptions C17_expr_roundtrip.

Theorem C17_accept : C17_accept_statement.
Proof. exact C17_accept_proved. Qed.
Print Assumptions C17_accept.

Theorem C17_reject : C17_reject_statement.
Proof. exact C17_reject_proved. Qed.
Print Assumptions C17_reject.

Theorem C17_string_literal : C17_string_literal_statement.
Proof. exact C17_string_literal_proved. Qed.
Print Assumptions C17_string_literal.

Theorem C17_snapshot_link : C17_snapshot_link_statement.
Proof. exact C17_snapshot_link_proved. Qed.
Print Assumptions C17_snapshot_link.
