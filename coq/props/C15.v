(* C15 — Cancellation stops the run before any further rule fires.

   "When the context given to ExecuteWithContext is cancelled or its deadline
   passes, Execute returns the context's error and no rule action is started
   afterwards: at most the actions of the rule that was executing when
   cancellation happened run to their end.  A context that is already
   cancelled fires no rule at all."

   The adversary is the index of the first ctx.Err() check that sees the
   cancelled context (config.c_cancel); theorems hold for every index. *)
From Coq Require Import Permutation.
From Grule Require Import Base EngineGen EngineAbs EngineProofs EngineTheorems.

Theorem C15 : forall (U : Type) cond act reset_user es0,
  NoDup (map e_key es0) -> forall c order, (forall i l, Permutation (order i l) l) ->
  C15_statement U cond act reset_user es0 c order.
Proof. exact C15_proved. Qed.
Print Assumptions C15.
