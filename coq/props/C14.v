(* C14 — failures inside a condition or an action are contained and reported (C14_statement in proofs/MemoTheorems.v). *)
From Grule Require Import Base Values Syntax EngineAbs Facts Eval Frame FrameTheorems Refinement MemoTheorems.
Theorem C14 : forall rules meth panics_inside mutating
  (meth_pure : forall fs f args ret fs', mutating f = false -> meth fs f args = Ok (ret, fs') -> fs' = fs),
  rules_ok rules mutating -> dependency_hypothesis rules meth mutating ->
  forall es, NoDup (map e_key es) -> forall c,
  forall order, (forall i l, Permutation.Permutation (order i l) l) ->
  C14_statement rules meth panics_inside mutating es c order.
Proof. exact C14_proved. Qed.
Print Assumptions C14.

(* for flat rule sets (proofs/Frame.v: top-level names, field chains and literal selectors F.X, F.In.X, F.Arr[2], F.M["k"] - no computed selectors, methods or functions - constants, negation, parentheses, binary operators;
   assignments and control built-ins) both hypotheses are theorems *)
Theorem C14_flat : forall meth panics_inside mutating
  (meth_pure : forall fs f args ret fs', mutating f = false -> meth fs f args = Ok (ret, fs') -> fs' = fs)
  rules, flat_rules rules = true ->
  forall es, NoDup (map e_key es) -> forall c,
  forall order, (forall i l, Permutation.Permutation (order i l) l) ->
  C14_statement rules meth panics_inside mutating es c order.
Proof. exact FrameTheorems.C14_flat. Qed.
Print Assumptions C14_flat.
