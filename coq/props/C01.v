(* C01 — a rule fires only when its condition holds on the current facts.
   Stated over the engine model WITH its working memory, started from any memory contents; see
   proofs/RefineTheorems.v for C01_statement (read it: it is the formal reading of the property) and
   proofs/Refinement.v for the two hypotheses on the rule set: rules_ok (side-effect free conditions, assignments
   and control built-ins as actions) and dependency_hypothesis (an assignment changes the from-scratch value only of
   nodes whose snapshot contains the assigned variable's snapshot).  proofs/Findings.v shows the second cannot be
   dropped (D2, a recorded finding; D3 was repaired in the engine - ResetElement). *)
From Grule Require Import Base Values Syntax EngineAbs Facts Eval Frame FrameTheorems Refinement RefineTheorems Findings.
Theorem C01 : forall rules meth panics_inside mutating
  (meth_pure : forall fs f args ret fs', mutating f = false -> meth fs f args = Ok (ret, fs') -> fs' = fs),
  rules_ok rules mutating -> dependency_hypothesis rules meth mutating ->
  forall es, NoDup (map e_key es) -> forall c, (0 <= c_max c)%Z ->
  forall order, (forall i l, Permutation.Permutation (order i l) l) ->
  C01_statement rules meth panics_inside es c order.
Proof. exact C01_proved. Qed.
Print Assumptions C01.
Theorem C01_hypothesis_needed : 
  rules_ok d2_rules nomut /\ NoDup (map e_key d2_entries) /\ snd (fst d2_run) = d2_recs /\
  exists pre r post n k, d2_recs = (pre ++ r :: post)%list /\ cr_exec r = Some (n, k) /\ cr_started r = true /\
    when_from_scratch d2_rules nometh (facts_after d2_rules nometh d2_facts pre) k = CFalse.
Proof. exact C01_without_dependency_hypothesis_refuted. Qed.
Print Assumptions C01_hypothesis_needed.

(* for flat rule sets (proofs/Frame.v: top-level names, field chains and literal selectors F.X, F.In.X, F.Arr[2], F.M["k"];
   constants, negation, parentheses, binary operators, the value built-ins (Max, Min, Abs, IsZero, IsNil); calls (also chained) of admitted methods - side-effect free, independent of the
   receiver's state, not the built-in Len - on such variables; assignments and control built-ins as actions) both hypotheses
   on the rules are theorems *)
Theorem C01_flat : forall meth panics_inside mutating
  (meth_pure : forall fs f args ret fs', mutating f = false -> meth fs f args = Ok (ret, fs') -> fs' = fs)
  (okmeth : string -> bool)
  (ok_pure : forall f, okmeth f = true -> mutating f = false)
  (ok_stateless : forall f, okmeth f = true -> forall fs fs' args,
     match meth fs f args, meth fs' f args with
     | Ok (r, _), Ok (r', _) => r = r' | Err, Err => True | Panic, Panic => True | _, _ => False end)
  (ok_not_len : forall f, okmeth f = true -> f <> "Len"%string)
  rules, flat_rules okmeth rules = true ->
  forall es, NoDup (map e_key es) -> forall c, (0 <= c_max c)%Z ->
  forall order, (forall i l, Permutation.Permutation (order i l) l) ->
  C01_statement rules meth panics_inside es c order.
Proof. exact FrameTheorems.C01_flat. Qed.
Print Assumptions C01_flat.

(* an instance with nothing left to assume: a GRL text, parsed by the parser model, found flat by computation
   (proofs/EndToEnd.v) *)
From Grule Require Import Methods Lexer Parser EndToEnd.
Theorem C01_sample : forall es, NoDup (map e_key es) -> forall c, (0 <= c_max c)%Z ->
  forall order, (forall i l, Permutation.Permutation (order i l) l) ->
  parse_grl sample_text = Ok sample_rules /\ C01_statement sample_rules ex_meth fact_panics_inside es c order.
Proof. intros. split; [exact sample_parses|apply sample_C01; assumption]. Qed.
Print Assumptions C01_sample.
