(* C05 — GRL expressions evaluate per the documented operator and literal semantics.
   The operators are the functions regenerated from pkg/reflectmath.go; doc_bin (proofs/C05Proof.v) is the documented
   semantics written independently.  The concrete syntax (precedence, literal notations, white space) is C17's parser. *)
From Grule Require Import Base Values Syntax CmpGen ArithGen OpsGen Facts Eval Fresh C05Proof StringBuiltins.
Theorem C05_operators : forall o a b da db r,
  dval_of a = Some da -> dval_of b = Some db -> doc_bin o da db = Some r -> op_apply o a b = inject_res r.
Proof. exact op_apply_documented. Qed.
Print Assumptions C05_operators.
Theorem C05_binary : forall meth fx o l r lv rv da db d,
  fresh_expr meth fx l = Ok lv -> fresh_expr meth fx r = Ok rv -> bin_shortcut o fx (Ok lv) = None ->
  dval_of (scalar_of fx lv) = Some da -> dval_of (scalar_of fx rv) = Some db -> doc_bin o da db = Some (Ok d) ->
  fresh_expr meth fx (EBin o l r) = Ok (RV (inject d)).
Proof. exact binary_documented. Qed.
Print Assumptions C05_binary.
Theorem C05_and_short_circuit : forall meth fx l r,
  fresh_expr meth fx l = Ok (RV (VBool false)) -> fresh_expr meth fx (EBin OAnd l r) = Ok (RV (VBool false)).
Proof. exact and_short_circuit. Qed.
Theorem C05_or_short_circuit : forall meth fx l r,
  fresh_expr meth fx l = Ok (RV (VBool true)) -> fresh_expr meth fx (EBin OOr l r) = Ok (RV (VBool true)).
Proof. exact or_short_circuit. Qed.
Theorem C05_parentheses : forall meth fx e, fresh_expr meth fx (EParen false e) = fresh_expr meth fx e.
Proof. exact paren_transparent. Qed.
Theorem C05_negation : forall meth fx e b,
  fresh_expr meth fx e = Ok (RV (VBool b)) -> fresh_expr meth fx (EParen true e) = Ok (RV (VBool (negb b))).
Proof. exact paren_negation. Qed.
Theorem C05_arguments : forall meth fx a f args recv vs,
  fresh_atom meth fx a = Ok recv -> fresh_args meth fx args = Ok vs ->
  fresh_atom meth fx (AMethod a f args) = fresh_call meth fx recv f (map (scalar_of fx) vs).
Proof. exact method_receives_values. Qed.
Theorem C05_grammar_levels : forall lex o prod, In (lex, o, prod) lexeme_op -> nth_error grammar_levels (level_of o) = Some prod.
Proof. exact grammar_levels_match. Qed.
Theorem C05_published_table_partial : forall o, o <> OBitAnd -> level_of o = doc_level o.
Proof. exact published_table_agrees_except_bitand. Qed.
Theorem C05_published_table_refuted : level_of OBitAnd <> doc_level OBitAnd.
Proof. exact published_table_refuted_at_bitand. Qed.
Print Assumptions C05_and_short_circuit.
Print Assumptions C05_arguments.
(* the string built-ins of the model satisfy the relations Go's strings package documents between them
   (Contains = Index >= 0, HasPrefix = Index == 0, LastIndex vs Index, Count = 0 iff absent, length of Repeat) *)
Theorem C05_string_builtins : C05_string_builtins_statement.
Proof. exact C05_string_builtins_proved. Qed.
Print Assumptions C05_string_builtins.
