(* C19 — Comparison operators are mutually consistent across operand kinds.

   "For any two operands of the same family - numbers of any Go integer,
   unsigned or float width (also behind pointers or interfaces), strings,
   booleans, or time values - the six comparison operators agree with one
   another: exactly one of <, ==, > holds for ordered families, <= is < or ==,
   >= is > or ==, != is the negation of ==, and swapping the operands mirrors
   the outcome.  The outcome depends only on the operands' values (the instant,
   for times), not on their width, signedness, location or the side they stand
   on."

   The statements below are about the functions of ArithGen.v, which is
   regenerated from /repo/pkg/reflectmath.go on every run. *)
From Grule Require Import Base Values CmpGen C19Proof.

Theorem C19_ordered : C19_ordered_statement.
Proof. exact C19_ordered_proved. Qed.
Print Assumptions C19_ordered.

Theorem C19_bool : C19_bool_statement.
Proof. exact C19_bool_proved. Qed.
Print Assumptions C19_bool.

Theorem C19_value_only : C19_value_only_statement.
Proof. exact C19_value_only_proved. Qed.
Print Assumptions C19_value_only.
