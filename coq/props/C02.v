(* C02 — execution ends only at quiescence; no satisfied rule is overlooked (C02_statement in proofs/RefineTheorems.v). *)
From Grule Require Import Base Values Syntax EngineAbs Facts Eval Frame FrameTheorems Refinement RefineTheorems.
Theorem C02 : forall rules meth panics_inside mutating
  (meth_pure : forall fs f args ret fs', mutating f = false -> meth fs f args = Ok (ret, fs') -> fs' = fs),
  rules_ok rules mutating -> dependency_hypothesis rules meth mutating ->
  forall es, NoDup (map e_key es) -> forall c, (0 <= c_max c)%Z ->
  forall order, (forall i l, Permutation.Permutation (order i l) l) ->
  C02_statement rules meth panics_inside es c order.
Proof. exact C02_proved. Qed.
Print Assumptions C02.

(* for flat rule sets (proofs/Frame.v: top-level names, field chains and literal selectors F.X, F.In.X, F.Arr[2], F.M["k"] - no computed selectors, methods or functions - constants, negation, parentheses, binary operators;
   assignments and control built-ins) both hypotheses are theorems *)
Theorem C02_flat : forall meth panics_inside mutating
  (meth_pure : forall fs f args ret fs', mutating f = false -> meth fs f args = Ok (ret, fs') -> fs' = fs)
  rules, flat_rules rules = true ->
  forall es, NoDup (map e_key es) -> forall c, (0 <= c_max c)%Z ->
  forall order, (forall i l, Permutation.Permutation (order i l) l) ->
  C02_statement rules meth panics_inside es c order.
Proof. exact FrameTheorems.C02_flat. Qed.
Print Assumptions C02_flat.
