(* C02 — execution ends only at quiescence; no satisfied rule is overlooked (C02_statement in proofs/RefineTheorems.v). *)
From Grule Require Import Base Values Syntax EngineAbs Facts Eval Frame FrameTheorems Refinement RefineTheorems.
Theorem C02 : forall rules meth panics_inside mutating
  (meth_pure : forall fs f args ret fs', mutating f = false -> meth fs f args = Ok (ret, fs') -> fs' = fs),
  rules_ok rules mutating -> dependency_hypothesis rules meth mutating ->
  forall es, NoDup (map e_key es) -> forall c, (0 <= c_max c)%Z ->
  forall order, (forall i l, Permutation.Permutation (order i l) l) ->
  C02_statement rules meth panics_inside es c order.
Proof. exact C02_proved. Qed.
Print Assumptions C02.

(* for flat rule sets (proofs/Frame.v: top-level names, field chains and literal selectors F.X, F.In.X, F.Arr[2], F.M["k"];
   constants, negation, parentheses, binary operators, the value built-ins (Max, Min, Abs, IsZero, IsNil); calls (also chained) of admitted methods - side-effect free, independent of the
   receiver's state, not the built-in Len - on such variables; assignments and control built-ins as actions) both hypotheses
   on the rules are theorems *)
Theorem C02_flat : forall meth panics_inside mutating
  (meth_pure : forall fs f args ret fs', mutating f = false -> meth fs f args = Ok (ret, fs') -> fs' = fs)
  (okmeth : string -> bool)
  (ok_pure : forall f, okmeth f = true -> mutating f = false)
  (ok_stateless : forall f, okmeth f = true -> forall fs fs' args,
     match meth fs f args, meth fs' f args with
     | Ok (r, _), Ok (r', _) => r = r' | Err, Err => True | Panic, Panic => True | _, _ => False end)
  (ok_not_len : forall f, okmeth f = true -> f <> "Len"%string)
  rules, flat_rules okmeth rules = true ->
  forall es, NoDup (map e_key es) -> forall c, (0 <= c_max c)%Z ->
  forall order, (forall i l, Permutation.Permutation (order i l) l) ->
  C02_statement rules meth panics_inside es c order.
Proof. exact FrameTheorems.C02_flat. Qed.
Print Assumptions C02_flat.
