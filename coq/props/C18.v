(* C18 — JSON rule definitions translate to GRL with the same meaning.

   "For every JSON rule - conditions and actions given as plain strings,
   operator objects or fully wrapped obj/const form, nested to any depth - the
   GRL text produced by the translator is accepted by the GRL builder and
   denotes the same rule: same name, description and salience, a condition
   whose value equals that of the JSON operator tree with operands grouped
   exactly as they are nested, and the same action list.  String constants
   round-trip exactly whatever characters they contain, and malformed rules
   (unknown operator, wrong arity, missing name/when/then, empty input) are
   rejected with an error."

   The statements are about [translate] (coq/model/JsonRule.v, the function-by-
   function model of pkg/JsonResource.go, whose output is compared byte for byte
   with ParseJSONRule on every generated case), the parser model of C17 and the
   from-scratch evaluator Fresh.v; they are defined in proofs/C18Proof.v.
   The findings D12-D15 and the lone-operand "not" are repaired in the engine
   (12086c3, 2cd0fef, e1f41de, e582254, eb4ea8e); no refutation remains.
   The main theorem quantifies over the typed JSON rules satisfying the decidable
   predicate wf_trule, which demands only: the shape every accepted rule has
   (identifier name, non-empty action list, join operators with >= 2 operands,
   "not" with >= 1, and/or over >= 2 objects); plain strings spelled canonically
   (operand = text of a well-formed atom, condition = of a well-formed expression,
   action = of a well-formed statement ending in ";"); salience within 32 bits,
   integer constants within 64; and/or nested at most 1000 deep (the translator
   stops at 1024). *)
From Grule Require Import Base Syntax Lexer Parser GrlPrint JsonRule JsonProofs JsonParse C18Proof.

Theorem C18 : C18_main_statement.
Proof. exact C18_main_proved. Qed.
Print Assumptions C18.

Theorem C18_malformed : C18_malformed_statement.
Proof. exact C18_malformed_proved. Qed.
Print Assumptions C18_malformed.

Theorem C18_string : C18_string_statement.
Proof. exact C18_string_proved. Qed.
Print Assumptions C18_string.
