(* C18 — JSON rule definitions translate to GRL with the same meaning.

   "For every JSON rule - conditions and actions given as plain strings,
   operator objects or fully wrapped obj/const form, nested to any depth - the
   GRL text produced by the translator is accepted by the GRL builder and
   denotes the same rule: same name, description and salience, a condition
   whose value equals that of the JSON operator tree with operands grouped
   exactly as they are nested, and the same action list.  String constants
   round-trip exactly whatever characters they contain, and malformed rules
   (unknown operator, wrong arity, missing name/when/then, empty input) are
   rejected with an error."

   The statements are about [translate] (coq/model/JsonRule.v, the function-by-
   function model of pkg/JsonResource.go, whose output is compared byte for byte
   with ParseJSONRule on every generated case), the parser model of C17 and the
   from-scratch evaluator Fresh.v; they are defined in proofs/C18Proof.v.
   The full statement is refuted (findings D12, D13, D14); the partial theorem
   holds under the decidable side condition wf_trule. *)
From Grule Require Import Base Syntax Lexer Parser GrlPrint JsonRule JsonProofs JsonParse C18Proof.

Theorem C18_partial : C18_partial_statement.
Proof. exact C18_partial_proved. Qed.
Print Assumptions C18_partial.

Theorem C18_refuted_description : ~ C18_statement.
Proof. exact C18_statement_refuted_by_description. Qed.
Print Assumptions C18_refuted_description.

Theorem C18_refuted_not : ~ C18_statement.
Proof. exact C18_statement_refuted_by_not. Qed.
Print Assumptions C18_refuted_not.

Theorem C18_refuted_arity : ~ C18_arity_statement.
Proof. exact C18_arity_refuted. Qed.
Print Assumptions C18_refuted_arity.

Theorem C18_malformed : C18_malformed_statement.
Proof. exact C18_malformed_proved. Qed.
Print Assumptions C18_malformed.

Theorem C18_string : C18_string_statement.
Proof. exact C18_string_proved. Qed.
Print Assumptions C18_string.
