(* C13 — shared sub-expressions are evaluated at most once between invalidations (C13_statement in proofs/MemoTheorems.v). *)
From Grule Require Import Base Values Syntax EngineAbs Facts Eval Refinement MemoTheorems.
Theorem C13 : forall rules meth panics_inside mutating, C13_statement rules meth panics_inside mutating.
Proof. exact C13_proved. Qed.
Print Assumptions C13.
