(* C13 — shared sub-expressions are evaluated at most once between invalidations (C13_statement in proofs/MemoTheorems.v). *)
From Grule Require Import Base Values Syntax EngineAbs Facts Eval Refinement MemoTheorems Potential CallCount CallCountExamples Printer Frame AliasExact.
Theorem C13 : forall rules meth panics_inside mutating, C13_statement rules meth panics_inside mutating.
Proof. exact C13_proved. Qed.
Print Assumptions C13.

(* the same over a whole Execute call (proofs/CallCount.v): a counted method M that occurs in the rule set with one text
   a0 = recv0.M(args0) - in any number of rules, inside any surrounding expressions - runs at most once, plus once per
   invalidation event for a0 among the statements of the rules the cycle records show as executed (an assignment whose
   reset set holds a variable occurring in a0's snapshot, or a Forget / Changed call); from any state of the instance,
   for every entry list, budget, flag, cancellation point and iteration order.  cnt is the call counter the
   correspondence compares with the counters of the harness's fact library on every engine case. *)
Theorem C13_run : C13_run_statement.
Proof. exact C13_run_proved. Qed.
Print Assumptions C13_run.
(* met by a parsed, running rule set, and tight on it: 7 cycles x 3 evaluations, 3 invalidation events, 4 calls *)
Theorem C13_run_example : forall fuel c order u es sf recs o,
  execute estate (rule_cond cc_vars Methods.fact_meth Methods.fact_panics_inside cc_rules) (rule_act cc_vars Methods.fact_meth Methods.fact_panics_inside cc_rules)
          reset_all fuel c order u es = (sf, recs, o) ->
  (cnt "Sum" (s_user sf) <= cnt "Sum" u + 1 + recs_cost (rule_cost cc_vars "Sum" cc_recv cc_args cc_rules) recs)%Z.
Proof. exact cc_bound. Qed.
Print Assumptions C13_run_example.

(* no over-invalidation on flat variables: the alias relation of an assignment (access paths: a member and a literal string
   key are one step, different literal selectors never meet) relates two flat variables exactly when they are different
   spellings of one location *)
Theorem C13_alias_exact : forall x y, flat_var x = true -> flat_var y = true ->
  (may_alias x y = true <-> (Printer.var_eqb y x = false /\ norm_path (spath x) = norm_path (spath y))).
Proof. exact alias_exact_on_flat. Qed.
Print Assumptions C13_alias_exact.
