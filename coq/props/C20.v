(* C20 — No loader crashes, hangs or over-allocates on arbitrary input.
   THIS FILE: the binary knowledge-base stream only (LoadKnowledgeBaseFromReader).

   "For arbitrary bytes presented as GRL text, JSON rule text, JSON fact text or binary
   knowledge-base stream, the corresponding loader returns a result or an error using
   time and memory bounded by a modest function of the input length: it does not panic,
   abort the process, loop forever or allocate memory far beyond the size of the input."

   The decoder of the stream is modelled as a total Coq function (coq/model/Codec.v
   [decode]; termination by construction, every loop bounded by the number of remaining
   bytes) with an allocation account [alloc_decode]: the bytes requested by every
   make([]byte, n) / make([]string, n) whose n is read from the stream.

   The engine trusts length prefixes (ReadStringFromReader: make([]byte, int(strLen))
   before a single byte of the string is read), so the allocation clause is REFUTED for
   the binary loader: no linear bound holds, witnessed by 19-byte streams.  What does
   hold: a stream that decodes requested at most three times its own length. *)
From Grule Require Import Base CodecPrim Codec CodecProofs.

Theorem C20_binary_refuted : C20_binary_refuted_statement.
Proof. exact C20_binary_refuted_proved. Qed.
Print Assumptions C20_binary_refuted.

Theorem C20_binary_partial : C20_binary_partial_statement.
Proof. exact C20_binary_partial_proved. Qed.
Print Assumptions C20_binary_partial.
