(* C20 — No loader crashes, hangs or over-allocates on arbitrary input.
   THIS FILE: the binary knowledge-base stream only (LoadKnowledgeBaseFromReader).

   "For arbitrary bytes presented as GRL text, JSON rule text, JSON fact text or binary
   knowledge-base stream, the corresponding loader returns a result or an error using
   time and memory bounded by a modest function of the input length: it does not panic,
   abort the process, loop forever or allocate memory far beyond the size of the input."

   The decoder of the stream is modelled as a total Coq function (coq/model/Codec.v
   [decode]; termination by construction, every loop bounded by the number of remaining
   bytes) with an allocation account [alloc_decode] for the repaired reader (engine commit
   2f18ef4): 8 bytes per length / count / int buffer, 1 per bool, for a byte block
   announced with length n the number of bytes the growing buffer comes to hold
   (min n (bytes remaining); n > MaxInt64 is rejected before reading), 16 bytes per element
   appended to a []string.  The growth policy of bytes.Buffer / append (a constant factor)
   and the nodes BuildKnowledgeBase allocates per meta are not part of the account; the
   harness bounds the implementation's TotalAlloc on the same inputs.

   The allocation clause holds for EVERY byte string, decodable or not:
   alloc_decode bs <= 3 * length bs + 8.  That no make in ast/Serializer.go takes its size
   from the stream (except the guarded one of the constant rebuild) is anchored to the
   source in proofs/AnchorsCodec.v (anchor_no_length_driven_make, anchor_raw_reads). *)
From Grule Require Import Base CodecPrim Codec CodecProofs.

Theorem C20_binary : C20_binary_statement.
Proof. exact C20_binary_proved. Qed.
Print Assumptions C20_binary.
