(* C20 — No loader crashes, hangs or over-allocates on arbitrary input.
   THIS FILE: all four loaders - the binary knowledge-base stream (LoadKnowledgeBaseFromReader)
   first, GRL text / JSON rule text / JSON fact text in the blocks marked "C20 begin ... end".

   "For arbitrary bytes presented as GRL text, JSON rule text, JSON fact text or binary
   knowledge-base stream, the corresponding loader returns a result or an error using
   time and memory bounded by a modest function of the input length: it does not panic,
   abort the process, loop forever or allocate memory far beyond the size of the input."

   The decoder of the stream is modelled as a total Coq function (coq/model/Codec.v
   [decode]; termination by construction, every loop bounded by the number of remaining
   bytes) with an allocation account [alloc_decode] for the repaired reader (engine commit
   2f18ef4): 8 bytes per length / count / int buffer, 1 per bool, for a byte block
   announced with length n the number of bytes the growing buffer comes to hold
   (min n (bytes remaining); n > MaxInt64 is rejected before reading), 16 bytes per element
   appended to a []string.  The growth policy of bytes.Buffer / append (a constant factor)
   and the nodes BuildKnowledgeBase allocates per meta are not part of the account; the
   harness bounds the implementation's TotalAlloc on the same inputs.

   The allocation clause holds for EVERY byte string, decodable or not:
   alloc_decode bs <= 3 * length bs + 8.  That no make in ast/Serializer.go takes its size
   from the stream (except the guarded one of the constant rebuild) is anchored to the
   source in proofs/AnchorsCodec.v (anchor_no_length_driven_make, anchor_raw_reads). *)
From Grule Require Import Base CodecPrim Codec CodecProofs.
(* ---- C20 begin: GRL text, JSON rule text, JSON fact text ----
   The theorems below are about the loader MODELS; what is outside them is said plainly.

   GRL text.  Lexer / parser / builder model (coq/model/Lexer.v, Parser.v): total
   functions (termination by construction); never Panic; the lexer's fuel and the parser's
   nesting fuel never run out (every larger fuel gives the same answer, so "None" is always
   a genuine lexical / syntax error); tokens <= characters; tree nodes <= tokens.
   REFUTED: the memory clause for the text the listener stores in every node of the tree
   (x.GrlText = ctx.GetText(): finding D23, [stored_conditions]): no bound K * length + K'.
   Outside the model: the generated ANTLR lexer / parser and its runtime (which recurses on
   the goroutine stack: finding D24), bytes >= 128.

   JSON rule text.  Translator model (coq/model/JsonRule.v [translate]) over the DECODED
   JSON value: structural recursion (no fuel, any nesting depth; the 1024-level error of
   buildExpressionEx is an ordinary error), never Panic, output at most 16 * size + 64
   characters, and the builder model does not panic on that output.  Outside the model:
   encoding/json (which also caps the nesting at 10 000 levels), non-integer numbers,
   bytes >= 128.

   JSON fact text.  The value tree behind a JSONValueNode, over the decoded value: total,
   size-preserving; DataContext.AddJSON modelled as an update that always succeeds.
   encoding/json is outside the model.

   Time and resident memory have no counterpart in Coq; together with everything listed as
   outside they are covered by the sandboxed runs of tools/harness/c20*.go (fuzzing /
   differential testing: supporting evidence, not proof). *)
From Grule Require Import Syntax Lexer Parser JsonRule LoaderProofs.
(* ---- C20 end ---- *)

Theorem C20_binary : C20_binary_statement.
Proof. exact C20_binary_proved. Qed.
Print Assumptions C20_binary.

(* ---- C20 begin: GRL text, JSON rule text, JSON fact text ---- *)
Theorem C20_grl_model : C20_grl_model_statement.
Proof. exact C20_grl_model_proved. Qed.
Print Assumptions C20_grl_model.

Theorem C20_grl_stored_text_refuted : C20_grl_stored_text_refuted_statement.
Proof. exact C20_grl_stored_text_refuted_proved. Qed.
Print Assumptions C20_grl_stored_text_refuted.

Theorem C20_jsonrule_model : C20_jsonrule_model_statement.
Proof. exact C20_jsonrule_model_proved. Qed.
Print Assumptions C20_jsonrule_model.

Theorem C20_jsonfact_model : C20_jsonfact_model_statement.
Proof. exact C20_jsonfact_model_proved. Qed.
Print Assumptions C20_jsonfact_model.
(* ---- C20 end ---- *)
