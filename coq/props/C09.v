(* C09 — instances are faithful copies, mutually isolated, and safe to run concurrently.

   "NewKnowledgeBaseInstance succeeds for every successfully built or loaded
   knowledge base and yields rules that behave exactly like the library's; the
   instance shares no mutable state with the library's blueprint or with other
   instances, so executing, retracting or removing rules in one never changes
   another.  Any number of goroutines may concurrently create instances from one
   library and execute them on their own facts without data races, each obtaining
   the result a sequential run gives."

   PARTIAL.  Proved, over the pointer-graph model of KnowledgeBase.Clone (coq/model/Clone.v,
   statements in coq/proofs/CloneProofs.v) and over the library state machine (coq/model/Library.v):
     C09_clone      every well-formed CLOSED graph (no node of the working memory is an orphan) is cloned
                    successfully; the clone is a copy along the clone table (sharing kept both ways), unfolds to the
                    same trees under the same rule keys, its working-memory maps are the re-targeted ones, its ids
                    are fresh;
     C09_build_history   the graph the builder makes (bottom-up, Expression / ExpressionAtom / Variable nodes interned by
                    snapshot = by tree; a rejected resource is walked and then rolled back to the checkpoint taken
                    before the walk, engine commit 4ed034e) from ANY sequence of accepted and rejected resources, any
                    number, any trees, is well formed and closed - so instance creation succeeds also after rejected
                    resources; C09_accepted_build is the special case without rejections;
     C09_orphan     a graph with an orphan in the working memory is NOT clonable: what the checkpoint prevents
                    (the walk of a refused rule without roll-back: Example without_checkpoint_not_clonable, the
                    former finding D10a);
     C09_disjoint   blueprint, instance and any later instance have pairwise disjoint nodes;
     C09_instance   on the library machine: instance creation succeeds for every built / stored+loaded key at any later
                    time, and Execute / FetchMatchingRules on the new instance are those of the library's knowledge base;
     C09_frame      an operation on one instance (execute with its retractions and removals, remove) changes no
                    other instance and no library knowledge base;
     C09_isolation  steps local to disjoint cell sets commute; for ANY interleaving of the atomic steps of k
                    instances every instance ends with the result of its own sequential run.  This is sequential
                    consistency of atomic steps: a schedule is a list.
   NOT proved, and not provable in a Gallina model: absence of data races on the Go objects (maps, uuid generator,
   loggers) under the Go memory model.  The harness runs the concurrent part under the race detector as supporting
   evidence only. *)
From Grule Require Import Base EngineGen EngineAbs Clone BuildGraph Library CloneProofs BuildGraphProofs LibraryProofs.

Theorem C09_clone : C09_clone_statement.
Proof. exact C09_clone_proved. Qed.
Print Assumptions C09_clone.

Theorem C09_accepted_build : forall rs, wf_kb (to_kbg (build_rules rs)) /\ closed (to_kbg (build_rules rs)).
Proof. exact accepted_build_closed. Qed.
Print Assumptions C09_accepted_build.

Theorem C09_build_history : forall h, wf_kb (to_kbg (build_history h)) /\ closed (to_kbg (build_history h)).
Proof. exact any_build_history_closed. Qed.
Print Assumptions C09_build_history.

Theorem C09_orphan : C09_orphan_statement.
Proof. exact C09_orphan_proved. Qed.
Print Assumptions C09_orphan.

Theorem C09_disjoint : C09_disjoint_statement.
Proof. exact C09_disjoint_proved. Qed.
Print Assumptions C09_disjoint.

Theorem C09_instance : forall B F holds self zap order, C09_instance_statement B F holds self zap order.
Proof. exact C09_instance_proved. Qed.
Print Assumptions C09_instance.

Theorem C09_frame : forall B F holds self zap order, C16_frame_statement B F holds self zap order.
Proof. exact C16_frame_proved. Qed.
Print Assumptions C09_frame.

Theorem C09_isolation : C09_isolation_statement.
Proof. exact C09_isolation_proved. Qed.
Print Assumptions C09_isolation.
