(* C04 — rule actions write exactly the computed values to exactly the addressed facts (C04_statement in proofs/MemoTheorems.v). *)
From Grule Require Import Base Values Syntax EngineAbs Facts Eval Frame FrameTheorems Refinement MemoTheorems StoreExact.
Theorem C04 : forall rules meth panics_inside mutating
  (meth_pure : forall fs f args ret fs', mutating f = false -> meth fs f args = Ok (ret, fs') -> fs' = fs),
  rules_ok rules mutating -> dependency_hypothesis rules meth mutating ->
  C04_statement rules meth panics_inside mutating.
Proof. exact C04_proved. Qed.
Print Assumptions C04.

(* for flat rule sets (proofs/Frame.v: top-level names, field chains and literal selectors F.X, F.In.X, F.Arr[2], F.M["k"];
   constants, negation, parentheses, binary operators, the value built-ins (Max, Min, Abs, IsZero, IsNil); calls (also chained) of admitted methods - side-effect free, independent of the
   receiver's state, not the built-in Len - on such variables; assignments and control built-ins as actions) both hypotheses
   on the rules are theorems *)
Theorem C04_flat : forall meth panics_inside mutating
  (meth_pure : forall fs f args ret fs', mutating f = false -> meth fs f args = Ok (ret, fs') -> fs' = fs)
  (okmeth : string -> bool)
  (ok_pure : forall f, okmeth f = true -> mutating f = false)
  (ok_stateless : forall f, okmeth f = true -> forall fs fs' args,
     match meth fs f args, meth fs' f args with
     | Ok (r, _), Ok (r', _) => r = r' | Err, Err => True | Panic, Panic => True | _, _ => False end)
  (ok_not_len : forall f, okmeth f = true -> f <> "Len"%string)
  rules, flat_rules okmeth rules = true ->
  C04_statement rules meth panics_inside mutating.
Proof. exact FrameTheorems.C04_flat. Qed.
Print Assumptions C04_flat.

(* "exactly the computed values": an integer stored into an integer location of either family and any width arrives bit
   for bit whenever it is in the range of the destination - whatever its magnitude (no detour through float64) *)
Theorem C04_integer_store_exact_signed : forall k old src z,
  int_of_num src = Some z -> fits_int k z ->
  store_scalar (FV (VInt k old)) src = Ok (FV (VInt k z)).
Proof. exact store_int_exact. Qed.
Print Assumptions C04_integer_store_exact_signed.

Theorem C04_integer_store_exact_unsigned : forall k old src z,
  int_of_num src = Some z -> fits_uint k z ->
  store_scalar (FV (VUint k old)) src = Ok (FV (VUint k z)).
Proof. exact store_uint_exact. Qed.
Print Assumptions C04_integer_store_exact_unsigned.
