(* C07 — a rule's meaning never depends on which other rules share its knowledge base (C07_statement in proofs/MemoTheorems.v). *)
From Grule Require Import Base Values Syntax EngineAbs Facts Eval Frame FrameTheorems Refinement MemoTheorems.
Theorem C07 : forall rules meth panics_inside mutating
  (meth_pure : forall fs f args ret fs', mutating f = false -> meth fs f args = Ok (ret, fs') -> fs' = fs),
  rules_ok rules mutating -> dependency_hypothesis rules meth mutating ->
  C07_statement rules meth panics_inside mutating.
Proof. exact C07_proved. Qed.
Print Assumptions C07.

(* for flat rule sets (proofs/Frame.v: top-level names, field chains and literal selectors F.X, F.In.X, F.Arr[2], F.M["k"] - no computed selectors, methods or functions - constants, negation, parentheses, binary operators;
   assignments and control built-ins) both hypotheses are theorems *)
Theorem C07_flat : forall meth panics_inside mutating
  (meth_pure : forall fs f args ret fs', mutating f = false -> meth fs f args = Ok (ret, fs') -> fs' = fs)
  rules, flat_rules rules = true ->
  C07_statement rules meth panics_inside mutating.
Proof. exact FrameTheorems.C07_flat. Qed.
Print Assumptions C07_flat.
