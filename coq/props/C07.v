(* C07 — a rule's meaning never depends on which other rules share its knowledge base (C07_statement in proofs/MemoTheorems.v). *)
From Grule Require Import Base Values Syntax EngineAbs Facts Eval Refinement MemoTheorems.
Theorem C07 : forall rules meth panics_inside mutating
  (meth_pure : forall fs f args ret fs', mutating f = false -> meth fs f args = Ok (ret, fs') -> fs' = fs),
  rules_ok rules mutating -> dependency_hypothesis rules meth mutating ->
  C07_statement rules meth panics_inside mutating.
Proof. exact C07_proved. Qed.
Print Assumptions C07.
