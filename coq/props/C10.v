(* C10 — Retract and Complete have exactly their documented control effect.

   "After an action calls Retract(name), the named rule is neither evaluated
   nor fired for the remainder of that Execute call, every other rule is
   unaffected, and an unknown name is a no-op.  After an action calls
   Complete(), the remaining actions of the current rule still run and Execute
   then returns nil without evaluating or firing any further rule." *)
From Coq Require Import Permutation.
From Grule Require Import Base EngineGen EngineAbs EngineProofs EngineTheorems.

Theorem C10 : forall (U : Type) cond act reset_user es0,
  NoDup (map e_key es0) -> forall c order, (forall i l, Permutation (order i l) l) ->
  C10_statement U cond act reset_user es0 c order.
Proof. exact C10_proved. Qed.
Print Assumptions C10.
