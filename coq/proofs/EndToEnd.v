(* EndToEnd.v — from a GRL text to the theorems, with no hypothesis left: the text is parsed by the parser model
   (C17), the parsed rules are checked to be flat by computation, and C01 / C02 / C14 / C08 follow for every set of
   rule entries, budget, flag, cancellation point, iteration order and initial facts. *)
From Coq Require Import Permutation.
From Grule Require Import Base Values Syntax Lexer Parser EngineAbs Facts Eval Fresh Engine Methods
     Refinement RefineTheorems MemoTheorems Frame FrameTheorems.
Open Scope string_scope.

Definition sample_text : string :=
"rule Count ""counts"" salience 0 { when F.I < 3 && !(F.S == ""stop"") && F.Sum(F.I, 1) < 9 then F.I += 1; F.Arr[1] = F.Arr[0] + F.I; }
rule Mark ""marks"" salience 5 { when F.I >= G.Cfg.Limit && F.S.ToUpper() == ""GO"" then F.S = F.S + ""!""; Retract(""Mark""); }
rule Done ""done"" salience -1 { when !G.Open || N > 5 || IsNil(G.Cfg) then Complete(); }".

Definition sample_rules : list rule :=
  Eval vm_compute in match parse_grl sample_text with Ok rs => rs | _ => [] end.

Example sample_parses : parse_grl sample_text = Ok sample_rules.
Proof. vm_compute. reflexivity. Qed.

Example sample_is_flat : flat_rules ex_okmeth sample_rules = true.
Proof. vm_compute. reflexivity. Qed.

(* the fact library restricted to the admitted methods: nothing else can be called *)
Definition ex_meth (fs : list (string * fval)) (f : string) (args : list val) : res (option val * list (string * fval)) :=
  if ex_okmeth f then fact_meth fs f args else Err.
Definition no_mutation : string -> bool := fun _ => false.

Lemma ex_meth_stateless : forall f, ex_okmeth f = true -> forall fs fs' args,
  match ex_meth fs f args, ex_meth fs' f args with
  | Ok (r, _), Ok (r', _) => r = r'
  | Err, Err => True
  | Panic, Panic => True
  | _, _ => False
  end.
Proof. intros f H fs fs' args. unfold ex_meth. rewrite H. apply ex_ok_stateless. exact H. Qed.

Lemma ex_meth_pure : forall fs f args ret fs', no_mutation f = false -> ex_meth fs f args = Ok (ret, fs') -> fs' = fs.
Proof.
  intros fs f args ret fs' _ H. unfold ex_meth in H. destruct (ex_okmeth f) eqn:E; [|discriminate].
  destruct (ex_okmeth_cases f E) as [->|[->|[->|[->| ->]]]]; unfold fact_meth in H.
  - destruct args as [|[k1 a1|k1 a1|k1 a1|s1|b1|t1| |p1|i1|ok1 ot1] [|[k2 a2|k2 a2|k2 a2|s2|b2|t2| |p2|i2|ok2 ot2] [|a3 rest]]]; try discriminate;
      try (destruct k1; discriminate); destruct k1; try discriminate; destruct k2; try discriminate; inversion H; reflexivity.
  - destruct (forallb _ args); inversion H; reflexivity.
  - destruct args as [|[k1 a1|k1 a1|k1 a1|s1|b1|t1| |p1|i1|ok1 ot1] [|a2 rest]]; try discriminate; destruct k1; try discriminate; inversion H; reflexivity.
  - discriminate.
  - discriminate.
Qed.

Section Sample.
Variable es : list entry.
Hypothesis keys_nodup : NoDup (map e_key es).
Variable c : config.
Hypothesis max_nonneg : (0 <= c_max c)%Z.
Variable order : nat -> list entry -> list entry.
Hypothesis order_perm : forall i l, Permutation (order i l) l.

Theorem sample_C01 : C01_statement sample_rules ex_meth fact_panics_inside es c order.
Proof.
  exact (C01_flat ex_meth fact_panics_inside no_mutation ex_meth_pure ex_okmeth (fun _ _ => eq_refl) ex_meth_stateless ex_ok_not_len
           sample_rules sample_is_flat es keys_nodup c max_nonneg order order_perm).
Qed.
Theorem sample_C02 : C02_statement sample_rules ex_meth fact_panics_inside es c order.
Proof.
  exact (C02_flat ex_meth fact_panics_inside no_mutation ex_meth_pure ex_okmeth (fun _ _ => eq_refl) ex_meth_stateless ex_ok_not_len
           sample_rules sample_is_flat es keys_nodup c max_nonneg order order_perm).
Qed.
Theorem sample_C14 : C14_statement sample_rules ex_meth fact_panics_inside no_mutation es c order.
Proof.
  exact (C14_flat ex_meth fact_panics_inside no_mutation ex_meth_pure ex_okmeth (fun _ _ => eq_refl) ex_meth_stateless ex_ok_not_len
           sample_rules sample_is_flat es keys_nodup c order order_perm).
Qed.
End Sample.

Theorem sample_C08 : C08_statement sample_rules ex_meth fact_panics_inside.
Proof.
  exact (C08_flat ex_meth fact_panics_inside no_mutation ex_meth_pure ex_okmeth (fun _ _ => eq_refl) ex_meth_stateless ex_ok_not_len
           sample_rules sample_is_flat).
Qed.
