(* Formats.v — the three loaders deliver into the engine theorems.  The parser model (C17), the JSON translator model (C18)
   and the stream decoder model (C12) all produce values of the one type [rule] the engine model runs; so whichever way a
   knowledge base was loaded, C01 (and with it C02, C08, C14: same hypotheses) holds of it as soon as the loaded rules are
   in the decidable flat class - with nothing assumed about the rules beyond that computation. *)
From Coq Require Import Permutation.
From Grule Require Import Base Values Syntax Lexer Parser GrlPrint JsonRule JsonProofs JsonParse C18Proof
     Codec Catalog CatalogProofs EngineAbs Facts Eval Fresh Engine Methods
     Refinement RefineTheorems MemoTheorems Frame FrameTheorems EndToEnd.
Open Scope string_scope.

Section Link.
Variable es : list entry.
Hypothesis keys_nodup : NoDup (map e_key es).
Variable c : config.
Hypothesis max_nonneg : (0 <= c_max c)%Z.
Variable order : nat -> list entry -> list entry.
Hypothesis order_perm : forall i l, Permutation (order i l) l.

Definition engine_ok (rs : list rule) : Prop :=
  C01_statement rs ex_meth fact_panics_inside es c order /\ C02_statement rs ex_meth fact_panics_inside es c order.

Lemma flat_engine_ok : forall rs, flat_rules ex_okmeth rs = true -> engine_ok rs.
Proof.
  intros rs Hf. split.
  - exact (C01_flat ex_meth fact_panics_inside no_mutation ex_meth_pure ex_okmeth (fun _ _ => eq_refl) ex_meth_stateless ex_ok_not_len
             rs Hf es keys_nodup c max_nonneg order order_perm).
  - exact (C02_flat ex_meth fact_panics_inside no_mutation ex_meth_pure ex_okmeth (fun _ _ => eq_refl) ex_meth_stateless ex_ok_not_len
             rs Hf es keys_nodup c max_nonneg order order_perm).
Qed.

(* GRL text *)
Theorem grl_text_link : forall text rs, parse_grl text = Ok rs -> flat_rules ex_okmeth rs = true -> engine_ok rs.
Proof. intros text rs _ Hf. apply flat_engine_ok. exact Hf. Qed.

(* a JSON rule: translated, parsed, run *)
Theorem json_rule_link : forall r, wf_trule r = true ->
  exists text g, translate (rule_json r) = Ok text /\ parse_grl text = Ok [g] /\
                 (flat_rules ex_okmeth [g] = true -> engine_ok [g]).
Proof.
  intros r H. destruct (C18_main_proved r H) as (text & g & Ht & Hp & _).
  exists text, g. split; [exact Ht|]. split; [exact Hp|]. apply flat_engine_ok.
Qed.

(* a stored knowledge base: encoded, decoded, run *)
Theorem stored_kb_link : forall name version rs,
  Catalog.rules_ok rs = true -> wf_catalog (catalog_of_kb name version rs) = true -> flat_rules ex_okmeth rs = true ->
  match decode (encode (catalog_of_kb name version rs)) with
  | Ok cat => match kb_of_catalog cat with Ok rs' => engine_ok rs' | _ => False end
  | _ => False
  end.
Proof.
  intros name version rs Hok Hwf Hf.
  destruct (C12_kb_roundtrip_proved name version rs Hok) as [_ H]. specialize (H Hwf).
  destruct (decode (encode (catalog_of_kb name version rs))) as [cat| |]; try contradiction.
  destruct H as (_ & _ & Hk). rewrite Hk. apply flat_engine_ok. exact Hf.
Qed.
End Link.

(* the three premises are met together: the sample text of EndToEnd.v, stored and loaded again *)
Example stored_sample_premises :
  Catalog.rules_ok sample_rules = true /\ wf_catalog (catalog_of_kb "KB" "1" sample_rules) = true /\ flat_rules ex_okmeth sample_rules = true.
Proof. vm_compute. repeat split; reflexivity. Qed.
Print Assumptions grl_text_link.
Print Assumptions json_rule_link.
Print Assumptions stored_kb_link.
