(* Potential.v — a potential argument for the abstract engine, for every instantiation: if evaluating a condition never
   raises a potential of the user state and executing the action list of entry e raises it by at most cost (e_key e),
   then over a whole Execute call the potential rises by at most the cost of the rules that were executed, cycle by
   cycle.  Used for the run-level form of C13 (CallCount.v). *)
From Coq Require Import Lia.
From Grule Require Import Base EngineGen EngineAbs.
Open Scope Z_scope.

Section Potential.
Variable U : Type.
Variable cond : U -> entry -> U * cres.
Variable act : U -> entry -> U * list effect * bool.
Variable Phi : U -> Z.
Variable cost : string -> Z.
Hypothesis cond_le : forall u e, Phi (fst (cond u e)) <= Phi u.
Hypothesis act_le : forall u e, Phi (fst (fst (act u e))) <= Phi u + cost (e_key e).

Notation st := (st U).

Definition rec_cost (r : cycle_rec) : Z :=
  match cr_exec r with
  | Some (_, k) => if cr_started r then cost k else 0
  | None => 0
  end.
Definition recs_cost (l : list cycle_rec) : Z := fold_right (fun r acc => rec_cost r + acc) 0 l.

Lemma recs_cost_app : forall a b, recs_cost (a ++ b) = recs_cost a + recs_cost b.
Proof. induction a as [|r a IH]; intros b; simpl; [reflexivity|]. rewrite IH. lia. Qed.

Lemma eval_loop_pot : forall c es (s : st) run evs s' run' evs' o,
  eval_loop U cond c es s run evs = (s', run', evs', o) -> Phi (s_user s') <= Phi (s_user s).
Proof.
  intros c es. induction es as [|e es IH]; intros s run evs s' run' evs' o H; simpl in H.
  - inversion H; subst. lia.
  - destruct (cancelled c s); [inversion H; subst; simpl; lia|].
    destruct (eval_guard (e_retracted e) (e_deleted e)).
    2:{ apply IH in H. simpl in H. exact H. }
    destruct (cancelled c (bump s)).
    { destruct (c_reterr c); [inversion H; subst; simpl; lia|]. apply IH in H. simpl in H. exact H. }
    pose proof (cond_le (s_user s) e) as Hc.
    destruct (cond (s_user s) e) as [u r]. simpl in Hc.
    destruct r.
    + apply IH in H. simpl in H. lia.
    + apply IH in H. simpl in H. lia.
    + destruct (c_reterr c); [inversion H; subst; simpl; lia|]. apply IH in H. simpl in H. lia.
Qed.

Lemma fold_apply_user' : forall fxs (s : st), s_user (fold_left (@apply_fx U) fxs s) = s_user s.
Proof. induction fxs as [|fx fxs IH]; intros s; simpl; [reflexivity|]. rewrite IH. destruct fx; reflexivity. Qed.

Lemma cycle_step_pot : forall c ord (s : st),
  match cycle_step U cond act c ord s with
  | Continue s' r => Phi (s_user s') <= Phi (s_user s) + rec_cost r
  | Stop s' (Some r) _ => Phi (s_user s') <= Phi (s_user s) + rec_cost r
  | Stop s' None _ => Phi (s_user s') <= Phi (s_user s)
  end.
Proof.
  intros c ord s. unfold cycle_step.
  destruct (cancelled c s); [simpl; lia|].
  destruct (eval_loop U cond c (ord (s_entries (bump s))) (bump s) [] []) as [[[s1 run] evs] early] eqn:El.
  apply eval_loop_pot in El. simpl in El.
  destruct early as [o|]; [unfold rec_cost; simpl; lia|].
  destruct run as [|hd tl].
  - destruct (cancelled c s1); unfold rec_cost; simpl; lia.
  - cbv zeta. simpl s_cycle.
    destruct (over_budget (s_cycle s1 + 1) (c_max c)); [unfold rec_cost; simpl; lia|].
    match goal with |- context [cancelled c ?t] => destruct (cancelled c t) end; [unfold rec_cost; simpl; lia|].
    simpl s_user.
    pose proof (act_le (s_user s1) (pick hd tl)) as Ha.
    destruct (act (s_user s1) (pick hd tl)) as [[u fxs] failed]. simpl in Ha.
    match goal with |- context [fold_left (@apply_fx U) fxs ?t] => set (t0 := t) end.
    assert (Hu: s_user (fold_left (@apply_fx U) fxs t0) = u) by (rewrite fold_apply_user'; reflexivity).
    destruct failed; [unfold rec_cost; simpl; rewrite Hu; lia|].
    destruct (s_complete (fold_left (@apply_fx U) fxs t0)).
    + destruct (cancelled c (fold_left (@apply_fx U) fxs t0)); unfold rec_cost; simpl; rewrite Hu; lia.
    + unfold rec_cost; simpl; rewrite Hu; lia.
Qed.

Lemma run_loop_pot : forall fuel c order i (s : st) acc sf recs o,
  run_loop U cond act fuel c order i s acc = (sf, recs, o) ->
  exists new, recs = (acc ++ new)%list /\ Phi (s_user sf) <= Phi (s_user s) + recs_cost new.
Proof.
  induction fuel as [|fuel IH]; intros c order i s acc sf recs o H; simpl in H.
  - inversion H; subst. exists []. rewrite app_nil_r. simpl. split; [reflexivity|lia].
  - pose proof (cycle_step_pot c (order i) s) as Hs.
    destruct (cycle_step U cond act c (order i) s) as [s1 r|s1 [r|] o1].
    + apply IH in H. destruct H as (new & -> & Hn). exists (r :: new). rewrite <- app_assoc. split; [reflexivity|].
      simpl. lia.
    + inversion H; subst. exists [r]. split; [reflexivity|]. simpl. lia.
    + inversion H; subst. exists []. rewrite app_nil_r. split; [reflexivity|]. simpl. lia.
Qed.

Theorem execute_pot : forall (reset_user : U -> U) fuel c order u es sf recs o,
  execute U cond act reset_user fuel c order u es = (sf, recs, o) ->
  Phi (s_user sf) <= Phi (reset_user u) + recs_cost recs.
Proof.
  intros reset_user fuel c order u es sf recs o H. unfold execute in H.
  apply run_loop_pot in H. destruct H as (new & -> & Hn). simpl in Hn. exact Hn.
Qed.

End Potential.
