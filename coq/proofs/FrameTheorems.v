(* FrameTheorems.v — for flat rule sets (Frame.v) the hypotheses of the refinement theorems are
   theorems: C01, C02, C04, C07, C08, C14 hold for them with no semantic assumption on the rules. *)
From Coq Require Import Permutation.
From Grule Require Import Base Values Syntax EngineAbs Facts Eval Fresh Engine Methods MemoProofs Refinement RefineTheorems MemoTheorems Frame.
Open Scope Z_scope.

Section FT.
Variable meth : list (string * fval) -> string -> list val -> res (option val * list (string * fval)).
Variable panics_inside : string -> list val -> bool.
Variable mutating : string -> bool.
Hypothesis meth_pure : forall fs f args ret fs', mutating f = false -> meth fs f args = Ok (ret, fs') -> fs' = fs.
(* the fact methods admitted in flat rule sets: side-effect free, independent of the receiver's state, not the built-in Len *)
Variable okmeth : string -> bool.
Hypothesis ok_pure : forall f, okmeth f = true -> mutating f = false.
Hypothesis ok_stateless : forall f, okmeth f = true -> forall fs fs' args,
  match meth fs f args, meth fs' f args with
  | Ok (r, _), Ok (r', _) => r = r'
  | Err, Err => True
  | Panic, Panic => True
  | _, _ => False
  end.
Hypothesis ok_not_len : forall f, okmeth f = true -> f <> "Len"%string.
Notation flat_expr := (flat_expr okmeth).
Notation flat_atom := (flat_atom okmeth).
Notation flat_elist := (flat_elist okmeth).
Notation flat_rules := (flat_rules okmeth).

Lemma flat_var_pure : forall x, flat_var x = true -> pure_var mutating x = true.
Proof.
  induction x as [r|x' IH g|x' IH sel]; intros H; simpl in H; [reflexivity| |].
  - change (pure_var mutating x' = true). auto.
  - apply andb_prop in H. destruct H as [H Hs].
    change (pure_var mutating x' && pure_expr mutating sel = true). rewrite (IH H).
    destruct sel as [a| |]; try discriminate. destruct a as [c| | | | | |]; try discriminate. reflexivity.
Qed.

Lemma flat_pure :
  (forall e, flat_expr e = true -> pure_expr mutating e = true) /\
  (forall a, flat_atom a = true -> pure_atom mutating a = true) /\
  (forall l, flat_elist l = true -> pure_elist mutating l = true).
Proof.
  enough (H: (forall e, flat_expr e = true -> pure_expr mutating e = true) /\
             (forall a, flat_atom a = true -> pure_atom mutating a = true) /\
             (forall x : var, True) /\ (forall l, flat_elist l = true -> pure_elist mutating l = true))
    by (destruct H as (A & B & _ & C); auto).
  apply syntax_mutind; try (intros; exact I).
  - intros a IH H. change (pure_atom mutating a = true). apply IH. exact H.
  - intros n e IH H. change (pure_expr mutating e = true). apply IH. exact H.
  - intros o l IHl r IHr H. simpl in H. apply andb_prop in H. destruct H as [A B].
    change (pure_expr mutating l && pure_expr mutating r = true). rewrite (IHl A), (IHr B). reflexivity.
  - intros c H. reflexivity.
  - intros x _ H. simpl in H. change (pure_var mutating x = true). apply flat_var_pure. exact H.
  - intros f l IHl H. simpl in H. apply andb_prop in H. destruct H as [Hc Hl].
    change (negb (control_builtin f) && pure_elist mutating l = true). rewrite Hc, (IHl Hl). reflexivity.
  - intros a IHa f l IHl H. simpl in H.
    apply andb_prop in H. destruct H as [H Hl]. apply andb_prop in H. destruct H as [Hr Hok].
    change (negb (mutating f) && pure_atom mutating a && pure_elist mutating l = true).
    rewrite (ok_pure f Hok), (IHa Hr), (IHl Hl). reflexivity.
  - intros a _ n H. discriminate.
  - intros a _ e _ H. discriminate.
  - intros a IH H. change (pure_atom mutating a = true). apply IH. exact H.
  - intros H. reflexivity.
  - intros e IHe l IHl H. simpl in H. apply andb_prop in H. destruct H as [A B].
    change (pure_expr mutating e && pure_elist mutating l = true). rewrite (IHe A), (IHl B). reflexivity.
Qed.

Lemma flat_rules_ok : forall rules, flat_rules rules = true -> rules_ok rules mutating.
Proof.
  intros rules Hf r Hr. unfold flat_rules in Hf. rewrite forallb_forall in Hf. specialize (Hf r Hr).
  unfold flat_rule in Hf. apply andb_prop in Hf. destruct Hf as [Hw Ht]. destruct flat_pure as (Pe & Pa & Pl).
  split; [apply Pe; exact Hw|].
  apply Forall_forall. intros st Hst. rewrite forallb_forall in Ht. specialize (Ht st Hst).
  destruct st as [x o e|a]; simpl in *.
  - apply andb_prop in Ht. destruct Ht as [A B]. split; [apply flat_var_pure; exact A|apply Pe; exact B].
  - destruct a; try discriminate. apply Pl. exact Ht.
Qed.

Variable rules : list rule.
Hypothesis Hflat : flat_rules rules = true.
Variable es : list entry.
Hypothesis keys_nodup : NoDup (map e_key es).
Variable c : config.
Hypothesis max_nonneg : 0 <= c_max c.
Variable order : nat -> list entry -> list entry.
Hypothesis order_perm : forall i l, Permutation (order i l) l.

Let Hok := flat_rules_ok rules Hflat.
Let Hdep := flat_dependency_hypothesis rules meth mutating okmeth ok_stateless ok_not_len Hflat.

Theorem C01_flat : C01_statement rules meth panics_inside es c order.
Proof. exact (C01_proved rules meth panics_inside mutating meth_pure Hok Hdep es keys_nodup c max_nonneg order order_perm). Qed.
Theorem C02_flat : C02_statement rules meth panics_inside es c order.
Proof. exact (C02_proved rules meth panics_inside mutating meth_pure Hok Hdep es keys_nodup c max_nonneg order order_perm). Qed.
Theorem C04_flat : C04_statement rules meth panics_inside mutating.
Proof. exact (C04_proved rules meth panics_inside mutating meth_pure Hok Hdep). Qed.
Theorem C07_flat : C07_statement rules meth panics_inside mutating.
Proof. exact (C07_proved rules meth panics_inside mutating meth_pure Hok Hdep). Qed.
Theorem C08_flat : C08_statement rules meth panics_inside.
Proof. exact (C08_proved rules meth panics_inside mutating meth_pure Hok Hdep). Qed.
Theorem C14_flat : C14_statement rules meth panics_inside mutating es c order.
Proof. exact (C14_proved rules meth panics_inside mutating meth_pure Hok Hdep es keys_nodup c order order_perm). Qed.
End FT.

(* ---- the flat class is not empty: a three-rule set (top-level name, fields, a nested field) that runs several cycles ---- *)
Definition fv (r f : string) : var := VMember (VName r) f.
Definition flat_example : list rule :=
  [{| rname := "Count"%string; rdesc := ""%string; rsal := 0;
      rwhen := EBin OAnd (EBin OAnd (EBin OLT (EAtom (AVar (fv "F" "I"))) (EAtom (AConst (CInt 3))))
                                    (EParen true (EBin OEq (EAtom (AVar (fv "F" "S"))) (EAtom (AConst (CStr "stop"))))))
                         (EBin OOr (EBin OLT (EAtom (AMethod (AVar (VName "F")) "Sum" (ECons (EAtom (AVar (fv "F" "I"))) (ECons (EAtom (AConst (CInt 1))) ENil))))
                                             (EAtom (AConst (CInt 9))))
                                   (EAtom (AFunc "IsNil" (ECons (EAtom (AVar (fv "G" "Cfg"))) ENil))));
      rthen := [SAssign (fv "F" "I") AsAdd (EAtom (AConst (CInt 1)));
                SAssign (VSel (fv "F" "Arr") (EAtom (AConst (CInt 1)))) AsSet (EBin OAdd (EAtom (AVar (VSel (fv "F" "Arr") (EAtom (AConst (CInt 0)))))) (EAtom (AVar (fv "F" "I"))))] |};
   {| rname := "Mark"%string; rdesc := ""%string; rsal := 5;
      rwhen := EBin OGTE (EAtom (AVar (fv "F" "I"))) (EAtom (AVar (VMember (fv "G" "Cfg") "Limit")));
      rthen := [SAssign (fv "F" "S") AsSet (EBin OAdd (EAtom (AVar (fv "F" "S"))) (EAtom (AConst (CStr "!"))));
                SAtom (AFunc "Retract" (ECons (EAtom (AConst (CStr "Mark"))) ENil))] |};
   {| rname := "Done"%string; rdesc := ""%string; rsal := -1;
      rwhen := EBin OOr (EAtom (ANeg (AVar (fv "G" "Open")))) (EBin OGT (EAtom (AVar (VName "N"))) (EAtom (AConst (CInt 5))));
      rthen := [SAtom (AFunc "Complete" ENil)] |}].
(* the methods of the fact library (Methods.v) that do not look at their receiver, and the string built-ins *)
Definition ex_okmeth (f : string) : bool :=
  String.eqb f "Sum" || String.eqb f "Concat" || String.eqb f "IsPos" || String.eqb f "ToUpper" || String.eqb f "ToLower".
Example flat_example_is_flat : flat_rules ex_okmeth flat_example = true.
Proof. reflexivity. Qed.

Lemma ex_okmeth_cases : forall f, ex_okmeth f = true ->
  f = "Sum"%string \/ f = "Concat"%string \/ f = "IsPos"%string \/ f = "ToUpper"%string \/ f = "ToLower"%string.
Proof.
  intros f H. unfold ex_okmeth in H. repeat (apply orb_prop in H; destruct H as [H|H]);
    apply String.eqb_eq in H; auto 10.
Qed.
Lemma ex_ok_not_len : forall f, ex_okmeth f = true -> f <> "Len"%string.
Proof. intros f H E. subst. discriminate. Qed.
Definition ex_mutating (f : string) : bool := String.eqb f "Inc" || String.eqb f "AddTo".
Lemma ex_ok_pure : forall f, ex_okmeth f = true -> ex_mutating f = false.
Proof. intros f H. destruct (ex_okmeth_cases f H) as [->|[->|[->|[->| ->]]]]; reflexivity. Qed.
Lemma ex_ok_stateless : forall f, ex_okmeth f = true -> forall fs fs' args,
  match Methods.fact_meth fs f args, Methods.fact_meth fs' f args with
  | Ok (r, _), Ok (r', _) => r = r'
  | Err, Err => True
  | Panic, Panic => True
  | _, _ => False
  end.
Proof.
  intros f H fs fs' args. destruct (ex_okmeth_cases f H) as [->|[->|[->|[->| ->]]]]; unfold Methods.fact_meth.
  - destruct args as [|[k1 a1|k1 a1|k1 a1|s1|b1|t1| |p1|i1|ok1 ot1] [|[k2 a2|k2 a2|k2 a2|s2|b2|t2| |p2|i2|ok2 ot2] [|a3 rest]]]; try exact I;
      try (destruct k1; exact I); try (destruct k1; destruct k2; try exact I; reflexivity).
  - destruct (forallb _ args); [reflexivity|exact I].
  - destruct args as [|[k1 a1|k1 a1|k1 a1|s1|b1|t1| |p1|i1|ok1 ot1] [|a2 rest]]; try exact I; destruct k1; try exact I; reflexivity.
  - exact I.
  - exact I.
Qed.

(* … and it does something: on these facts the engine model runs five cycles, fires Count, Count, Mark, Count
   and ends at quiescence with F.I = 3 and F.S = "go!" *)
Definition flat_facts : facts :=
  [("F"%string, FPtr (Some (FStruct [("I"%string, FV (VInt I64 0)); ("S"%string, FV (VStr "go")); ("Arr"%string, FSlice [FV (VInt I64 10); FV (VInt I64 0)])])));
   ("G"%string, FPtr (Some (FStruct [("Cfg"%string, FPtr (Some (FStruct [("Limit"%string, FV (VInt I64 2))]))); ("Open"%string, FV (VBool true))])));
   ("N"%string, FV (VInt I64 1))].
Definition flat_entries : list entry :=
  map (fun r => {| e_key := rname r; e_name := rname r; e_sal := rsal r; e_retracted := false; e_deleted := false |}) flat_example.
Definition flat_run :=
  Engine.eng_execute flat_example 20 {| c_max := 10; c_reterr := false; c_cancel := None |} (fun _ l => l) flat_facts flat_entries.
Example flat_example_runs :
  map cr_exec (snd (fst flat_run)) = [Some (1, "Count"%string); Some (2, "Count"%string); Some (3, "Mark"%string); Some (4, "Count"%string); None]
  /\ snd flat_run = OQuiescent.
Proof. vm_compute. split; reflexivity. Qed.
