(* StringBuiltins.v — the string built-ins of the model (Eval.string_func) satisfy the relations Go's strings package
   documents between them: Contains(s, x) is Index(s, x) >= 0, HasPrefix is Index = 0 ... the independent evaluator of the
   harness calls the strings package itself; these lemmas say the model's own definitions hang together the same way. *)
From Coq Require Import Lia.
From Grule Require Import Base Values Syntax Facts Eval.
Open Scope Z_scope.

Lemma index_from_range : forall x s i,
  (index_from x s i = -1 /\ containsb s x = false) \/
  (i <= index_from x s i <= i + strlenZ s /\ containsb s x = true).
Proof.
  intros x s. induction s as [|c s IH]; intros i; cbn [index_from containsb].
  - destruct (prefixb x ""); [right|left]; unfold strlenZ; simpl; split; auto; lia.
  - destruct (prefixb x (String c s)) eqn:P.
    + right. split; [|reflexivity]. unfold strlenZ. simpl String.length. lia.
    + destruct (IH (i + 1)) as [[A B]|[A B]]; [left; auto|right]. split; [|exact B].
      unfold strlenZ in *. simpl String.length. lia.
Qed.

(* strings.Contains(s, x) == (strings.Index(s, x) >= 0) *)
Theorem contains_iff_index : forall s x, containsb s x = true <-> 0 <= index_from x s 0.
Proof.
  intros s x. destruct (index_from_range x s 0) as [[A B]|[A B]]; rewrite B; split; intros H; try discriminate; try lia; reflexivity.
Qed.

(* strings.HasPrefix(s, x) == (strings.Index(s, x) == 0) *)
Theorem hasprefix_iff_index0 : forall s x, prefixb x s = true <-> index_from x s 0 = 0.
Proof.
  intros s x. split; intros H.
  - destruct s; cbn [index_from]; rewrite H; reflexivity.
  - destruct s as [|c s]; cbn [index_from] in H.
    + destruct (prefixb x ""); [reflexivity|discriminate].
    + destruct (prefixb x (String c s)); [reflexivity|].
      destruct (index_from_range x s (0 + 1)) as [[A _]|[A _]]; lia.
Qed.

(* strings.LastIndex is never before strings.Index, and is -1 exactly when Index is *)
Lemma last_index_from_range : forall x s i best, best < i ->
  (last_index_from x s i best = best /\ containsb s x = false) \/
  (i <= last_index_from x s i best <= i + strlenZ s /\ containsb s x = true).
Proof.
  intros x s. induction s as [|c s IH]; intros i best Hb; cbn [last_index_from containsb].
  - destruct (prefixb x ""); [right|left]; unfold strlenZ; simpl; split; auto; lia.
  - destruct (prefixb x (String c s)) eqn:P.
    + right. split; [|reflexivity]. unfold strlenZ. simpl String.length.
      destruct (IH (i + 1) i ltac:(lia)) as [[A _]|[A _]]; unfold strlenZ in A; lia.
    + destruct (IH (i + 1) best ltac:(lia)) as [[A B]|[A B]]; [left; auto|right]. split; [|exact B].
      unfold strlenZ in *. simpl String.length. lia.
Qed.
Theorem last_index_vs_index : forall s x,
  (last_index_from x s 0 (-1) = -1 <-> index_from x s 0 = -1) /\ index_from x s 0 <= last_index_from x s 0 (-1).
Proof.
  intros s x.
  assert (mono: forall s i best, best < i ->
            forall j, index_from x s i = j -> j <> -1 -> j <= last_index_from x s i best).
  { clear. intros s. induction s as [|c s IH]; intros i best Hb j Hj Hn; cbn [index_from last_index_from] in *.
    - destruct (prefixb x ""); lia.
    - destruct (prefixb x (String c s)).
      + subst j. destruct (last_index_from_range x s (i + 1) i ltac:(lia)) as [[A _]|[A _]]; lia.
      + apply (IH (i + 1) best ltac:(lia) j Hj Hn). }
  destruct (index_from_range x s 0) as [[A B]|[A B]]; destruct (last_index_from_range x s 0 (-1) ltac:(lia)) as [[C D]|[C D]];
    try congruence.
  - split; [split; auto|lia].
  - split; [split; intros; lia|]. apply (mono s 0 (-1) ltac:(lia) _ eq_refl). lia.
Qed.

(* strings.Count(s, x) == 0 exactly when s does not contain the non-empty x *)
Lemma count_fuel_nonneg : forall fuel x s, 0 <= count_fuel fuel x s.
Proof.
  induction fuel as [|f IH]; intros x s; cbn [count_fuel]; [lia|].
  destruct (prefixb x s); [specialize (IH x (drop_str (String.length x) s)); lia|].
  destruct s; [lia|apply IH].
Qed.
Theorem count_zero_iff : forall s x, x <> EmptyString -> (str_count s x = 0 <-> containsb s x = false).
Proof.
  intros s x Hx. unfold str_count. destruct x as [|c0 x0]; [contradiction|]. clear Hx. set (x := String c0 x0).
  assert (gen: forall fuel s, (String.length s < fuel)%nat -> (count_fuel fuel x s = 0 <-> containsb s x = false)).
  { induction fuel as [|f IH]; intros s0 Hl; [lia|]. cbn [count_fuel]. destruct s0 as [|c s1].
    - cbn [containsb]. destruct (prefixb x ""); [|tauto].
      pose proof (count_fuel_nonneg f x (drop_str (String.length x) "")). split; [lia|discriminate].
    - cbn [containsb]. destruct (prefixb x (String c s1)).
      + pose proof (count_fuel_nonneg f x (drop_str (String.length x) (String c s1))). split; [lia|discriminate].
      + apply IH. simpl in Hl. lia. }
  apply gen. lia.
Qed.

(* strings.Repeat: the length is the product *)
Theorem repeat_length : forall n s, String.length (repeat_str n s) = (n * String.length s)%nat.
Proof.
  assert (app_len: forall a b, String.length (a ++ b)%string = (String.length a + String.length b)%nat)
    by (induction a; intros; simpl; auto).
  induction n as [|n IH]; intros s; simpl; [reflexivity|]. rewrite app_len, IH. reflexivity.
Qed.

(* strings.TrimSpace leaves no white space at the front, and is the identity on a string without any at either end *)
Lemma trim_left_no_space : forall s, match trim_left s with String c _ => is_space c = false | EmptyString => True end.
Proof.
  induction s as [|c s IH]; cbn [trim_left]; [exact I|]. destruct (is_space c) eqn:E; [exact IH|exact E].
Qed.

(* the statement referred to by props/C05.v *)
Definition C05_string_builtins_statement : Prop :=
  (forall s x, containsb s x = true <-> 0 <= index_from x s 0) /\
  (forall s x, prefixb x s = true <-> index_from x s 0 = 0) /\
  (forall s x, (last_index_from x s 0 (-1) = -1 <-> index_from x s 0 = -1) /\ index_from x s 0 <= last_index_from x s 0 (-1)) /\
  (forall s x, x <> EmptyString -> (str_count s x = 0 <-> containsb s x = false)) /\
  (forall n s, String.length (repeat_str n s) = (n * String.length s)%nat).
Theorem C05_string_builtins_proved : C05_string_builtins_statement.
Proof.
  split; [exact contains_iff_index|]. split; [exact hasprefix_iff_index0|]. split; [exact last_index_vs_index|].
  split; [exact count_zero_iff|exact repeat_length].
Qed.
