(* C05Proof.v — the operators as regenerated from pkg/reflectmath.go (CmpGen.v, ArithGen.v) and the
   expression evaluator compute the DOCUMENTED semantics (docs/en/GRL_en.md, GRL_Literals_en.md):
   64-bit integers with wrap-around, int-to-float promotion, `/` is the real quotient, `+` concatenates
   when a string is involved, && / || short-circuit, ! negates, redundant parentheses are transparent.
   The documented semantics is written down independently below (doc_bin). *)
From Coq Require Import Floats.
From Grule Require Import Base Values Syntax CmpGen ArithGen OpsGen Facts Eval Fresh.
Open Scope Z_scope.

(* the documented value domain *)
Inductive dval := DInt (z : Z) | DReal (f : float) | DStr (s : string) | DBool (b : bool).

Definition dval_of (v : val) : option dval :=
  match v with
  | VInt _ z => Some (DInt z)          (* every Go integer width reads as a 64-bit integer *)
  | VFloat _ f => Some (DReal f)
  | VStr s => Some (DStr s)
  | VBool b => Some (DBool b)
  | _ => None
  end.
Definition inject (d : dval) : val :=
  match d with DInt z => VInt I64 z | DReal f => VFloat F64 f | DStr s => VStr s | DBool b => VBool b end.

Definition real_of (d : dval) : option float :=
  match d with DInt z => Some (f64_of_i64 z) | DReal f => Some f | _ => None end.
Definition text_of (d : dval) : string :=
  match d with DInt z => fmt_d z | DReal f => fmt_f f | DStr s => s | DBool b => fmt_v_bool b end.

Definition doc_arith (fi : Z -> Z -> Z) (ff : float -> float -> float) (a b : dval) : option (res dval) :=
  match a, b with
  | DInt x, DInt y => Some (Ok (DInt (wrap64 (fi x y))))
  | _, _ => match real_of a, real_of b with
            | Some x, Some y => Some (Ok (DReal (ff x y)))       (* promotion to float64 *)
            | _, _ => None
            end
  end.
Definition doc_cmp (fi : Z -> Z -> bool) (ff : float -> float -> bool) (fs : string -> string -> bool) (a b : dval) : option (res dval) :=
  match a, b with
  | DInt x, DInt y => Some (Ok (DBool (fi x y)))
  | DStr x, DStr y => Some (Ok (DBool (fs x y)))
  | _, _ => match real_of a, real_of b with
            | Some x, Some y => Some (Ok (DBool (ff x y)))
            | _, _ => None
            end
  end.

(* None: the documentation makes no statement about this combination *)
Definition doc_bin (o : op) (a b : dval) : option (res dval) :=
  match o with
  | OAdd =>
      match a, b with
      | DStr x, _ => Some (Ok (DStr (x ++ text_of b)))
      | DInt _, DStr y | DReal _, DStr y => Some (Ok (DStr (text_of a ++ y)))
      | _, _ => doc_arith Z.add PrimFloat.add a b
      end
  | OSub => doc_arith Z.sub PrimFloat.sub a b
  | OMul => doc_arith Z.mul PrimFloat.mul a b
  | ODiv => match real_of a, real_of b with
            | Some x, Some y => Some (Ok (DReal (PrimFloat.div x y)))   (* always the real quotient *)
            | _, _ => None
            end
  | OMod => match a, b with
            | DInt x, DInt y => Some (if y =? 0 then Panic else Ok (DInt (wrap64 (Z.rem x y))))
            | _, _ => None
            end
  | OBitAnd => match a, b with DInt x, DInt y => Some (Ok (DInt (Z.land x y))) | _, _ => None end
  | OBitOr => match a, b with DInt x, DInt y => Some (Ok (DInt (Z.lor x y))) | _, _ => None end
  | OLT => doc_cmp Z.ltb PrimFloat.ltb String.ltb a b
  | OLTE => doc_cmp Z.leb PrimFloat.leb String.leb a b
  | OGT => doc_cmp (fun x y => Z.ltb y x) (fun x y => PrimFloat.ltb y x) (fun x y => String.ltb y x) a b
  | OGTE => doc_cmp (fun x y => Z.leb y x) (fun x y => PrimFloat.leb y x) (fun x y => String.leb y x) a b
  | OEq => match a, b with
           | DBool x, DBool y => Some (Ok (DBool (Bool.eqb x y)))
           | _, _ => doc_cmp Z.eqb PrimFloat.eqb String.eqb a b
           end
  | ONEq => match a, b with
            | DBool x, DBool y => Some (Ok (DBool (negb (Bool.eqb x y))))
            | _, _ => doc_cmp (fun x y => negb (Z.eqb x y)) (fun x y => negb (PrimFloat.eqb x y)) (fun x y => negb (String.eqb x y)) a b
            end
  | OAnd => match a, b with DBool x, DBool y => Some (Ok (DBool (andb x y))) | _, _ => None end
  | OOr => match a, b with DBool x, DBool y => Some (Ok (DBool (orb x y))) | _, _ => None end
  end.

Definition inject_res (r : res dval) : res val :=
  match r with Ok d => Ok (inject d) | Err => Err | Panic => Panic end.

Lemma append_empty_r : forall s : string, (s ++ "")%string = s.
Proof. induction s as [|c s IH]; simpl; congruence. Qed.
Lemma str_concat2 : forall a b, str_concat [a; b] = (a ++ b)%string.
Proof. intros. simpl. rewrite append_empty_r. reflexivity. Qed.

(* ---- the generated operators compute the documented value, for operands of every width ---- *)
Theorem op_apply_documented : forall o a b da db r,
  dval_of a = Some da -> dval_of b = Some db -> doc_bin o da db = Some r ->
  op_apply o a b = inject_res r.
Proof.
  intros o a b da db r Ha Hb Hd.
  destruct a as [ka za|ka za|ka fa|sa|ba|ta| |pa|ia|oka ota]; simpl in Ha; inversion Ha; subst da; clear Ha;
  destruct b as [kb zb|kb zb|kb fb|sb|bb|tb| |pb|ib|okb otb]; simpl in Hb; inversion Hb; subst db; clear Hb;
  destruct o; simpl in Hd; inversion Hd; subst r; clear Hd;
  try (destruct ka); try (destruct kb); simpl; rewrite ?str_concat2; try reflexivity;
  try (unfold EvaluateModulo; simpl; unfold i64_rem; destruct (zb =? 0); reflexivity);
  try (unfold EvaluateGreaterThan, EvaluateGreaterThanEqual; simpl; rewrite ?Z.gtb_ltb, ?Z.geb_leb; reflexivity);
  try (unfold EvaluateAddition; cbn [get_value_elem kind_of kind_of_ikind kind_of_fkind as_string as_int as_float as_bool of_str]; rewrite str_concat2; reflexivity).
Qed.

(* ---- the expression evaluator (SPEC, Fresh.v; the memoising evaluator agrees with it by eval_agrees) ---- *)
Section Expr.
Variable meth : list (string * fval) -> string -> list val -> res (option val * list (string * fval)).
Notation fresh_expr := (fresh_expr meth).
Notation fresh_atom := (fresh_atom meth).
Notation fresh_args := (fresh_args meth).

(* literals denote their Go value *)
Theorem literal_value : forall fx c, fresh_expr fx (EAtom (AConst c)) = Ok (RV (const_val c)).
Proof. reflexivity. Qed.
Theorem literal_kinds : forall z bits s b,
  const_val (CInt z) = VInt I64 z /\ const_val (CFloat bits) = VFloat F64 (float_of_bits bits) /\
  const_val (CStr s) = VStr s /\ const_val (CBool b) = VBool b.
Proof. repeat split. Qed.

(* redundant parentheses never change the value; !( … ) and !atom negate a boolean *)
Theorem paren_transparent : forall fx e, fresh_expr fx (EParen false e) = fresh_expr fx e.
Proof. intros. change (fresh_expr fx (EParen false e)) with (match fresh_expr fx e with Ok v => Ok v | r => r end). destruct (fresh_expr fx e); reflexivity. Qed.
Theorem paren_negation : forall fx e b, fresh_expr fx e = Ok (RV (VBool b)) -> fresh_expr fx (EParen true e) = Ok (RV (VBool (negb b))).
Proof. intros fx e b H. change (fresh_expr fx (EParen true e)) with (match fresh_expr fx e with Ok v => Ok (negate v) | r => r end). rewrite H. reflexivity. Qed.
Theorem atom_negation : forall fx a b, fresh_atom fx a = Ok (RV (VBool b)) -> fresh_atom fx (ANeg a) = Ok (RV (VBool (negb b))).
Proof. intros fx a b H. change (fresh_atom fx (ANeg a)) with (match fresh_atom fx a with Ok v => Ok (negate v) | r => r end). rewrite H. reflexivity. Qed.

Lemma fresh_bin : forall fx o l r, fresh_expr fx (EBin o l r) =
  match bin_left_fail o (fresh_expr fx l) with
  | Some r0 => r0
  | None => match bin_shortcut o fx (fresh_expr fx l) with
            | Some v => Ok v
            | None => bin_combine o fx (fresh_expr fx l) (fresh_expr fx r)
            end
  end.
Proof. reflexivity. Qed.

(* && and || short-circuit: the right operand is not looked at, whatever it is - even one that fails or panics *)
Theorem and_short_circuit : forall fx l r, fresh_expr fx l = Ok (RV (VBool false)) -> fresh_expr fx (EBin OAnd l r) = Ok (RV (VBool false)).
Proof. intros fx l r H. rewrite fresh_bin, H. reflexivity. Qed.
Theorem or_short_circuit : forall fx l r, fresh_expr fx l = Ok (RV (VBool true)) -> fresh_expr fx (EBin OOr l r) = Ok (RV (VBool true)).
Proof. intros fx l r H. rewrite fresh_bin, H. reflexivity. Qed.

(* every other binary node applies the (generated) operator to the operand values: left, then right *)
Theorem binary_applies_operator : forall fx o l r lv rv,
  fresh_expr fx l = Ok lv -> fresh_expr fx r = Ok rv -> bin_shortcut o fx (Ok lv) = None ->
  fresh_expr fx (EBin o l r) = match op_apply o (scalar_of fx lv) (scalar_of fx rv) with Ok v => Ok (RV v) | Err => Err | Panic => Panic end.
Proof. intros fx o l r lv rv Hl Hr Hs. rewrite fresh_bin, Hl, Hr, Hs. destruct o; reflexivity. Qed.

(* … hence, on documented operands, the documented value *)
Theorem binary_documented : forall fx o l r lv rv da db d,
  fresh_expr fx l = Ok lv -> fresh_expr fx r = Ok rv -> bin_shortcut o fx (Ok lv) = None ->
  dval_of (scalar_of fx lv) = Some da -> dval_of (scalar_of fx rv) = Some db -> doc_bin o da db = Some (Ok d) ->
  fresh_expr fx (EBin o l r) = Ok (RV (inject d)).
Proof.
  intros fx o l r lv rv da db d Hl Hr Hs Ha Hb Hd.
  rewrite (binary_applies_operator fx o l r lv rv Hl Hr Hs).
  rewrite (op_apply_documented o _ _ da db (Ok d) Ha Hb Hd). reflexivity.
Qed.

(* arguments are evaluated in order, left to right; a method or function receives exactly these values *)
Theorem args_in_order : forall fx e l v vs,
  fresh_expr fx e = Ok v -> fresh_args fx l = Ok vs -> fresh_args fx (ECons e l) = Ok (v :: vs).
Proof.
  intros fx e l v vs He Hl.
  change (fresh_args fx (ECons e l)) with
    (match fresh_expr fx e with
     | Ok v => match fresh_args fx l with Ok vs => Ok (v :: vs) | Err => Err | Panic => Panic end
     | Err => Err | Panic => Panic end).
  rewrite He, Hl. reflexivity.
Qed.
Theorem method_receives_values : forall fx a f args recv vs,
  fresh_atom fx a = Ok recv -> fresh_args fx args = Ok vs ->
  fresh_atom fx (AMethod a f args) = fresh_call meth fx recv f (map (scalar_of fx) vs).
Proof.
  intros fx a f args recv vs Ha Hl.
  change (fresh_atom fx (AMethod a f args)) with
    (match fresh_atom fx a with
     | Ok recv => match fresh_args fx args with
                  | Ok vs => fresh_call meth fx recv f (map (scalar_of fx) vs)
                  | Err => Err | Panic => Panic end
     | r => r end).
  rewrite Ha, Hl. reflexivity.
Qed.
End Expr.

(* the grammar's operator levels as declared in antlr/grulev3.g4 (regenerated into OpsGen.v): five levels, tightest
   first; every operator lexeme belongs to exactly the level the model's precedence function gives it *)
Definition level_of (o : op) : nat :=
  match o with
  | OMul | ODiv | OMod => 0 | OAdd | OSub | OBitAnd | OBitOr => 1
  | OGT | OLT | OGTE | OLTE | OEq | ONEq => 2 | OAnd => 3 | OOr => 4 end%nat.
Theorem grammar_levels_match : forall lex o prod, In (lex, o, prod) lexeme_op -> nth_error grammar_levels (level_of o) = Some prod.
Proof. intros lex o prod H. simpl in H. repeat (destruct H as [H|H]; [inversion H; subst; reflexivity|]). contradiction. Qed.

(* the PUBLISHED table (docs/en/GRL_en.md), as levels from the tightest: `* / % &`, `+ - |`, comparisons, `&&`, `||` *)
Definition doc_level (o : op) : nat :=
  match o with
  | OMul | ODiv | OMod | OBitAnd => 0 | OAdd | OSub | OBitOr => 1
  | OGT | OLT | OGTE | OLTE | OEq | ONEq => 2 | OAnd => 3 | OOr => 4 end%nat.
(* the grammar agrees with the published table for every operator except `&` (finding D4) *)
Theorem published_table_agrees_except_bitand : forall o, o <> OBitAnd -> level_of o = doc_level o.
Proof. intros [] H; try reflexivity. congruence. Qed.
Theorem published_table_refuted_at_bitand : level_of OBitAnd <> doc_level OBitAnd.
Proof. discriminate. Qed.
