(* Frame.v — the dependency hypothesis of the refinement theorem is PROVED for "flat" rule sets:
   every variable is a field of a top-level fact (F.X), expressions are built from such variables,
   constants, negation, parentheses and the binary operators; actions are assignments to such
   variables and control built-ins with flat arguments.  For these rule sets C01, C02, C04, C07,
   C08, C14 hold without any semantic hypothesis (FrameTheorems below). *)
From Coq Require Import Relations.
From Grule Require Import Base Values Syntax CmpGen ArithGen OpsGen Snapshot Printer EngineAbs Facts Eval Fresh Engine
     FactsProofs ActionTheorems SnapContain MemoProofs Refinement.
Open Scope Z_scope.

Definition flat_var (x : var) : bool := match x with VMember (VName _) _ => true | _ => false end.
Fixpoint flat_atom (a : atom) : bool :=
  match a with
  | AConst _ => true
  | AVar x => flat_var x
  | ANeg a' => flat_atom a'
  | _ => false
  end.
Fixpoint flat_expr (e : expr) : bool :=
  match e with
  | EAtom a => flat_atom a
  | EParen _ e' => flat_expr e'
  | EBin _ l r => flat_expr l && flat_expr r
  end.
Fixpoint flat_elist (l : elist) : bool := match l with ENil => true | ECons e l' => flat_expr e && flat_elist l' end.
Definition flat_stmt (st : stmt) : bool :=
  match st with
  | SAssign x _ e => flat_var x && flat_expr e
  | SAtom (AFunc _ args) => flat_elist args
  | SAtom _ => false
  end.
Definition flat_rule (r : rule) : bool := flat_expr (rwhen r) && forallb flat_stmt (rthen r).
Definition flat_rules (rs : list rule) : bool := forallb flat_rule rs.

Section Frame.
Variable meth : list (string * fval) -> string -> list val -> res (option val * list (string * fval)).
Notation fresh_expr := (fresh_expr meth).
Notation fresh_atom := (fresh_atom meth).
Notation fresh_var := (fresh_var meth).

(* what "unchanged" means for a node: same from-scratch result, and if the result is a live view, the same view *)
Definition same_view (fx fx' : facts) (r : res rval) : Prop :=
  forall p, r = Ok (RRef p) -> scalar_of fx' (RRef p) = scalar_of fx (RRef p).
Definition unchanged_var (fx fx' : facts) (y : var) : Prop :=
  fresh_var fx' y = fresh_var fx y /\ same_view fx fx' (fresh_var fx y).

Lemma fresh_var_flat : forall fx r g,
  fresh_var fx (VMember (VName r) g) =
  match alookup r fx with
  | Some v => child_field_f fx (rval_of {| p_root := r; p_steps := [] |} v) g
  | None => Err
  end.
Proof. intros. rewrite fresh_var_unfold, fresh_var_unfold. destruct (alookup r fx); reflexivity. Qed.

Lemma path_get_root : forall fx fx' r ss, alookup r fx' = alookup r fx ->
  path_get fx' {| p_root := r; p_steps := ss |} = path_get fx {| p_root := r; p_steps := ss |}.
Proof. intros. unfold path_get. simpl. rewrite H. reflexivity. Qed.

(* a write that leaves the root r' alone leaves every flat variable under r' unchanged *)
Lemma var_frame_other_root : forall fx fx' r' g, alookup r' fx' = alookup r' fx ->
  unchanged_var fx fx' (VMember (VName r') g).
Proof.
  intros fx fx' r' g H. unfold unchanged_var. rewrite !fresh_var_flat, H.
  pose proof (fun ss => path_get_root fx fx' r' ss H) as Pall. clear H.
  destruct (alookup r' fx) as [v|]; [|split; [reflexivity|intros p E; discriminate]].
  destruct v as [sv|fs|o|xs|kvs]; simpl rval_of;
    try (split; [reflexivity|intros p E; discriminate]).
  all: unfold child_field_f; rewrite (Pall []);
    destruct (path_get fx {| p_root := r'; p_steps := [] |}) as [w| |]; try (split; [reflexivity|intros p E; discriminate]);
    destruct (step_get w (SField g)) as [c| |]; try (split; [reflexivity|intros p E; discriminate]);
    (split; [reflexivity|]); intros p E; inversion E as [E1];
    destruct c; simpl in E1; try discriminate; inversion E1; subst p;
    unfold scalar_of, path_snoc; simpl; rewrite Pall; reflexivity.
Qed.

(* writing field f of the struct at root r leaves every other field variable of r unchanged *)
Lemma var_frame_same_root : forall fx fx' r f g v v' sv,
  alookup r fx = Some v -> steps_set v [SField f] sv = Some v' -> fx' = aupdate r v' fx -> f <> g ->
  unchanged_var fx fx' (VMember (VName r) g).
Proof.
  intros fx fx' r f g v v' sv Hv Hs -> Hne. unfold unchanged_var. rewrite !fresh_var_flat.
  rewrite (alookup_aupdate_eq _ r v' fx), Hv.
  assert (Hshape: (exists fs c, v = FStruct fs /\ field_get fs f = Some c /\ v' = FStruct (field_set fs f sv)) \/
                  (exists fs c, v = FPtr (Some (FStruct fs)) /\ field_get fs f = Some c /\ v' = FPtr (Some (FStruct (field_set fs f sv))))).
  { simpl in Hs. destruct v as [x|fs|[t|]|xs|kvs]; try discriminate.
    - destruct (field_get fs f) as [c|] eqn:F; try discriminate. inversion Hs. left. eauto.
    - destruct t as [x|fs| | |]; try discriminate.
      destruct (field_get fs f) as [c|] eqn:F; try discriminate. inversion Hs. right. eauto. }
  assert (Hpg: forall ss w, path_get (aupdate r w fx) {| p_root := r; p_steps := ss |} = steps_get w ss).
  { intros. unfold path_get. simpl. rewrite alookup_aupdate_eq. reflexivity. }
  assert (Hpg0: forall ss, path_get fx {| p_root := r; p_steps := ss |} = steps_get v ss).
  { intros. unfold path_get. simpl. rewrite Hv. reflexivity. }
  destruct Hshape as [(fs & c & -> & Hc & ->)|(fs & c & -> & Hc & ->)]; simpl rval_of; unfold child_field_f;
    rewrite Hpg, Hpg0; simpl; rewrite (field_get_set_other fs f g sv Hne);
    (destruct (field_get fs g) as [d|]; [|split; [reflexivity|intros p E; discriminate]]);
    (split; [reflexivity|]); intros p E; inversion E as [E1];
    destruct d; simpl in E1; try discriminate; inversion E1; subst p;
    unfold scalar_of, path_snoc; simpl; rewrite Hpg, Hpg0; simpl; rewrite (field_get_set_other fs f g sv Hne); reflexivity.
Qed.

(* ---- expressions: unchanged variables give unchanged values ---- *)
Section ExprFrame.
Variables fx fx' : facts.

Definition unchanged_expr (e : expr) : Prop := fresh_expr fx' e = fresh_expr fx e /\ same_view fx fx' (fresh_expr fx e).
Definition unchanged_atom (a : atom) : Prop := fresh_atom fx' a = fresh_atom fx a /\ same_view fx fx' (fresh_atom fx a).

Lemma scalar_same : forall r v, same_view fx fx' r -> r = Ok v -> scalar_of fx' v = scalar_of fx v.
Proof. intros r v H E. destruct v as [x|p]; [reflexivity|]. apply H. exact E. Qed.

Lemma negate_view : forall r, same_view fx fx' r -> same_view fx fx' (match r with Ok v => Ok (negate v) | r0 => r0 end).
Proof.
  intros r H p E. destruct r as [v| |]; try discriminate. destruct v as [x|q]; simpl in E.
  - destruct x; try discriminate. 
  - inversion E; subst. apply H. reflexivity.
Qed.

Lemma flat_frame :
  (forall e, flat_expr e = true -> (forall y, In y (vars_expr e) -> flat_var y = true -> unchanged_var fx fx' y) -> unchanged_expr e) /\
  (forall a, flat_atom a = true -> (forall y, In y (vars_atom a) -> flat_var y = true -> unchanged_var fx fx' y) -> unchanged_atom a).
Proof.
  enough (H: (forall e, flat_expr e = true -> (forall y, In y (vars_expr e) -> flat_var y = true -> unchanged_var fx fx' y) -> unchanged_expr e) /\
             (forall a, flat_atom a = true -> (forall y, In y (vars_atom a) -> flat_var y = true -> unchanged_var fx fx' y) -> unchanged_atom a) /\
             (forall x : var, True) /\ (forall l : elist, True)) by (destruct H as (A & B & _); auto).
  apply syntax_mutind; try (intros; exact I); unfold unchanged_expr, unchanged_atom.
  - (* EAtom *) intros a IH Hf Hv. rewrite !fresh_expr_unfold. apply IH; auto.
  - (* EParen *) intros n e IH Hf Hv. simpl in Hf. destruct (IH Hf Hv) as [A B].
    rewrite (fresh_expr_unfold meth fx'), (fresh_expr_unfold meth fx). rewrite A. split; [reflexivity|].
    intros p E. apply B. destruct (fresh_expr fx e) as [v| |]; try discriminate.
    destruct n; [|exact E]. destruct v as [x|q]; simpl in E; [destruct x; discriminate|exact E].
  - (* EBin *) intros o l IHl r IHr Hf Hv. simpl in Hf. apply andb_prop in Hf. destruct Hf as [Hfl Hfr].
    assert (Hvl: forall y, In y (vars_expr l) -> flat_var y = true -> unchanged_var fx fx' y)
      by (intros; apply Hv; auto; simpl; apply in_or_app; auto).
    assert (Hvr: forall y, In y (vars_expr r) -> flat_var y = true -> unchanged_var fx fx' y)
      by (intros; apply Hv; auto; simpl; apply in_or_app; auto).
    destruct (IHl Hfl Hvl) as [Al Bl]. destruct (IHr Hfr Hvr) as [Ar Br].
    rewrite (fresh_expr_unfold meth fx'), (fresh_expr_unfold meth fx). cbv zeta. rewrite Al, Ar.
    assert (Hshort: bin_shortcut o fx' (fresh_expr fx l) = bin_shortcut o fx (fresh_expr fx l)).
    { unfold bin_shortcut. destruct o; try reflexivity; destruct (fresh_expr fx l) as [lv| |] eqn:El; try reflexivity;
        rewrite (scalar_same _ lv Bl eq_refl); reflexivity. }
    assert (Hcomb: bin_combine o fx' (fresh_expr fx l) (fresh_expr fx r) = bin_combine o fx (fresh_expr fx l) (fresh_expr fx r)).
    { unfold bin_combine. destruct (fresh_expr fx l) as [lv| |] eqn:El; destruct (fresh_expr fx r) as [rv| |] eqn:Er; try reflexivity.
      rewrite (scalar_same _ lv Bl eq_refl), (scalar_same _ rv Br eq_refl). reflexivity. }
    rewrite Hshort, Hcomb. split; [reflexivity|].
    (* the result of a binary node is never a live view *)
    intros p E. exfalso.
    destruct (bin_left_fail o (fresh_expr fx l)) as [r0|] eqn:Bf.
    { unfold bin_left_fail in Bf. destruct o; destruct (fresh_expr fx l); inversion Bf; subst; discriminate. }
    destruct (bin_shortcut o fx (fresh_expr fx l)) as [w|] eqn:Bs.
    { unfold bin_shortcut in Bs. destruct o; try discriminate; destruct (fresh_expr fx l); try discriminate;
        destruct (EvaluateLogicSingle _) as [[]| |]; try discriminate; destruct b; inversion Bs; subst; discriminate. }
    unfold bin_combine in E. destruct (fresh_expr fx l); destruct (fresh_expr fx r); try discriminate.
    destruct (op_apply o _ _); discriminate.
  - (* AConst *) intros c Hf Hv. rewrite !fresh_atom_unfold. split; [reflexivity|]. intros p E. discriminate.
  - (* AVar *) intros x IH Hf Hv. rewrite !fresh_atom_unfold. simpl in Hf. apply Hv; auto. simpl.
    destruct x as [n|x' n|x' s]; try discriminate. simpl. auto.
  - (* AFunc *) intros f l IH Hf. discriminate.
  - (* AMethod *) intros a IHa f l IHl Hf. discriminate.
  - (* AMember *) intros a IH n Hf. discriminate.
  - (* ASel *) intros a IHa e IHe Hf. discriminate.
  - (* ANeg *) intros a IH Hf Hv. simpl in Hf. destruct (IH Hf Hv) as [A B].
    rewrite (fresh_atom_unfold meth fx'), (fresh_atom_unfold meth fx). rewrite A. split; [reflexivity|].
    intros p E. apply B. destruct (fresh_atom fx a) as [v| |]; try discriminate.
    destruct v as [x|q]; simpl in E; [destruct x; discriminate|exact E].
Qed.
End ExprFrame.

End Frame.

(* ---- every node of a flat rule set is flat ---- *)
Definition is_name (v : var) : bool := match v with VName _ => true | _ => false end.
Definition flat_node (n : node) : bool :=
  match n with
  | NdE e => flat_expr e
  | NdA a => flat_atom a
  | NdV v => flat_var v || is_name v
  | NdL l => flat_elist l
  end.

Lemma child_flat : forall c p, child c p -> flat_node p = true -> flat_node c = true.
Proof.
  intros c p H. destruct H; simpl; intros Hf; try discriminate; auto;
    try (apply andb_prop in Hf; destruct Hf; assumption).
  - (* AVar *) rewrite Hf. reflexivity.
  - (* VMember *) destruct x; simpl in *; try discriminate. reflexivity.
Qed.

Lemma flat_root : forall rules r n, flat_rules rules = true -> In r rules -> In n (rule_roots r) -> flat_node n = true.
Proof.
  intros rules r n Hf Hr Hn. unfold flat_rules in Hf. rewrite forallb_forall in Hf. specialize (Hf r Hr).
  unfold flat_rule in Hf. apply andb_prop in Hf. destruct Hf as [Hw Ht].
  destruct Hn as [<-|Hn]; [exact Hw|].
  apply in_flat_map in Hn. destruct Hn as (st & Hst & Hn). rewrite forallb_forall in Ht. specialize (Ht st Hst).
  destruct st as [x o e|a]; simpl in *.
  - apply andb_prop in Ht. destruct Ht as [A B]. destruct Hn as [<-|[<-|[]]]; simpl; [rewrite A; reflexivity|exact B].
  - destruct a; try discriminate. destruct Hn as [<-|[]]. exact Ht.
Qed.

Lemma in_kb_flat : forall rules n, flat_rules rules = true -> in_kb rules n -> flat_node n = true.
Proof.
  intros rules n Hf (root & Hin & Hrt). apply in_flat_map in Hin. destruct Hin as (r & Hr & Hroot).
  pose proof (flat_root rules r root Hf Hr Hroot) as H0.
  apply clos_rt_rt1n in Hrt. induction Hrt as [|x y z Hxy Hyz IH]; auto.
  eapply child_flat; eauto.
Qed.

(* in a flat node the root variable of every field variable is listed as well *)
Lemma flat_parent :
  (forall e, flat_expr e = true -> forall r g, In (VMember (VName r) g) (vars_expr e) -> In (VName r) (vars_expr e)) /\
  (forall a, flat_atom a = true -> forall r g, In (VMember (VName r) g) (vars_atom a) -> In (VName r) (vars_atom a)).
Proof.
  enough (H: (forall e, flat_expr e = true -> forall r g, In (VMember (VName r) g) (vars_expr e) -> In (VName r) (vars_expr e)) /\
             (forall a, flat_atom a = true -> forall r g, In (VMember (VName r) g) (vars_atom a) -> In (VName r) (vars_atom a)) /\
             (forall x : var, True) /\ (forall l : elist, True)) by (destruct H as (A & B & _); auto).
  apply syntax_mutind; try (intros; exact I).
  - intros a IH Hf r g H. simpl in *. eauto.
  - intros n e IH Hf r g H. simpl in *. eauto.
  - intros o l IHl r0 IHr Hf r g H. simpl in *. apply andb_prop in Hf. destruct Hf as [A B].
    apply in_app_or in H. apply in_or_app. destruct H; [left|right]; eauto.
  - intros c Hf r g H. inversion H.
  - intros x _ Hf r g H. simpl in *. destruct x as [n|x' n|x' s]; try discriminate.
    destruct x' as [m| |]; try discriminate. simpl in *.
    destruct H as [H|[H|[]]]; [inversion H; subst; auto|discriminate].
  - intros f l _ Hf. discriminate.
  - intros a _ f l _ Hf. discriminate.
  - intros a _ n Hf. discriminate.
  - intros a _ e _ Hf. discriminate.
  - intros a IH Hf r g H. simpl in *. eauto.
Qed.

Section Dependency.
Variable rules : list rule.
Variable meth : list (string * fval) -> string -> list val -> res (option val * list (string * fval)).
Variable mutating : string -> bool.
Hypothesis Hflat : flat_rules rules = true.

(* what a successful write to a flat variable / a top-level name does to the facts *)
Lemma write_flat_field : forall fx r f nv fx' t,
  fresh_target meth fx (VMember (VName r) f) = Ok t -> write_target fx t nv = Ok fx' ->
  exists v v' sv, alookup r fx = Some v /\ steps_set v [SField f] sv = Some v' /\ fx' = aupdate r v' fx.
Proof.
  intros fx r f nv fx' t Ht Hw. unfold fresh_target in Ht. rewrite fresh_var_unfold in Ht.
  destruct (alookup r fx) as [v|] eqn:Ev; try discriminate.
  destruct (rval_of {| p_root := r; p_steps := [] |} v) as [x|p] eqn:Er; try discriminate.
  inversion Ht; subst t. assert (p = {| p_root := r; p_steps := [] |}) by (destruct v; simpl in Er; inversion Er; reflexivity). subst p.
  simpl in Hw. unfold path_get in Hw. simpl in Hw. rewrite Ev in Hw. simpl in Hw.
  assert (Hw': match step_get v (SField f) with
               | Ok dst => match store_scalar dst nv with
                           | Ok nv0 => match path_set fx (path_snoc {| p_root := r; p_steps := [] |} (SField f)) nv0 with Some fx0 => Ok fx0 | None => Err end
                           | _ => Err end
               | _ => Err end = Ok fx').
  { destruct v as [| |[o|]| |]; try exact Hw. discriminate. }
  destruct (step_get v (SField f)) as [dst| |]; try discriminate.
  destruct (store_scalar dst nv) as [sv| |]; try discriminate.
  unfold path_set, path_snoc in Hw'. cbn [p_root p_steps app] in Hw'. rewrite Ev in Hw'.
  destruct (steps_set v [SField f] sv) as [v'|] eqn:Es; try discriminate. inversion Hw'; subst.
  exists v, v', sv. split; [reflexivity|]. split; [exact Es|reflexivity].
Qed.

Lemma flat_write_frame : forall x fx t nv fx',
  flat_node (NdV x) = true -> fresh_target meth fx x = Ok t -> write_target fx t nv = Ok fx' ->
  forall y, flat_var y = true -> ~ In x (vars_var y) -> unchanged_var meth fx fx' y.
Proof.
  intros x fx t nv fx' Hx Ht Hw y Hy Hnot.
  destruct y as [n|y' g|y' s]; try discriminate. destruct y' as [r'| |]; try discriminate. simpl in Hnot.
  destruct x as [r|x' f|x' s]; simpl in Hx; try discriminate.
  - (* a top-level name is replaced *)
    simpl in Ht. inversion Ht; subst t. simpl in Hw. inversion Hw; subst fx'.
    apply var_frame_other_root. apply alookup_aupdate_other. intro E. subst. apply Hnot. right. left. reflexivity.
  - destruct x' as [r| |]; try discriminate.
    destruct (write_flat_field fx r f nv fx' t Ht Hw) as (v & v' & sv & Ev & Es & ->).
    destruct (String.eqb r r') eqn:Er.
    + apply String.eqb_eq in Er. subst r'. eapply var_frame_same_root; eauto.
      intro E. subst. apply Hnot. left. reflexivity.
    + apply var_frame_other_root. apply alookup_aupdate_other. intro E. subst. rewrite String.eqb_refl in Er. discriminate.
Qed.

Theorem flat_dependency_hypothesis : dependency_hypothesis rules meth mutating.
Proof.
  intros x fx t nv fx' HNV Hp Ht Hw. pose proof (in_kb_flat rules _ Hflat HNV) as Hx.
  assert (Hframe: forall y, flat_var y = true -> ~ In x (vars_var y) -> unchanged_var meth fx fx' y)
    by (eapply flat_write_frame; eauto).
  assert (Hsub: forall (vs : list var), ~ In x vs ->
            (forall r g, In (VMember (VName r) g) vs -> In (VName r) vs) ->
            forall y, In y vs -> flat_var y = true -> ~ In x (vars_var y)).
  { intros vs Hn Hpar y Hy Hfy. destruct y as [n|y' g|y' s]; try discriminate. destruct y' as [r'| |]; try discriminate.
    simpl. intros [E|[E|[]]]; subst; apply Hn; auto. eapply Hpar; eauto. }
  destruct flat_parent as [Pe Pa].
  split.
  - intros e HNE _ Hc. pose proof (in_kb_flat rules _ Hflat HNE) as He. simpl in He.
    assert (Hn: ~ In x (vars_expr e)).
    { intro Hin. rewrite (expr_contains_its_vars e x Hin) in Hc. discriminate. }
    destruct (flat_frame meth fx fx') as [Fe _]. apply (Fe e He).
    intros y Hy Hfy. apply Hframe; auto. eapply Hsub; eauto.
  - intros a HNA _ Hc. pose proof (in_kb_flat rules _ Hflat HNA) as Ha. simpl in Ha.
    assert (Hn: ~ In x (vars_atom a)).
    { intro Hin. rewrite (atom_contains_its_vars a x Hin) in Hc. discriminate. }
    destruct (flat_frame meth fx fx') as [_ Fa]. apply (Fa a Ha).
    intros y Hy Hfy. apply Hframe; auto. eapply Hsub; eauto.
Qed.

End Dependency.
