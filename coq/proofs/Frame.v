(* Frame.v — the dependency hypothesis of the refinement theorem is PROVED for "flat" rule sets:
   every variable is a top-level name or a chain of fields and literal selectors below one
   (N, F.X, F.In.X, F.Arr[2], F.M["k"] - no computed selectors),
   expressions are built from such variables, constants, negation, parentheses, the binary operators, the value
   built-ins (Max, Min, Abs, IsZero, IsNil) and calls of admitted methods (okmeth: side-effect free, independent of the
   receiver's state, not the container built-in Len) on such variables; actions are assignments to such
   variables and control built-ins with flat arguments.  For these rule sets C01, C02, C04, C07,
   C08, C14 hold without any semantic hypothesis (FrameTheorems below). *)
From Coq Require Import Relations.
From Grule Require Import Base Values Syntax CmpGen ArithGen OpsGen Snapshot Printer EngineAbs Facts Eval Fresh Engine
     FactsProofs ActionTheorems SnapContain MemoProofs MemoKeep Refinement.
Open Scope Z_scope.

(* a selector that is a literal index or key *)
Definition sel_step (sel : expr) : option step :=
  match sel with
  | EAtom (AConst (CInt i)) => Some (SIndex i)
  | EAtom (AConst (CStr k)) => Some (SKey k)
  | _ => None
  end.
Fixpoint flat_var (x : var) : bool :=
  match x with
  | VName _ => true
  | VMember x' _ => flat_var x'
  | VSel x' sel => flat_var x' && match sel_step sel with Some _ => true | None => false end
  end.
(* the location a flat variable denotes *)
Fixpoint spath (x : var) : path :=
  match x with
  | VName r => {| p_root := r; p_steps := [] |}
  | VMember x' f => path_snoc (spath x') (SField f)
  | VSel x' sel => match sel_step sel with Some st => path_snoc (spath x') st | None => spath x' end
  end.
(* okmeth: the fact methods that may appear (on a flat receiver): side-effect free and independent of the receiver's state *)
Section FlatClass.
Variable okmeth : string -> bool.
Fixpoint flat_expr (e : expr) : bool :=
  match e with
  | EAtom a => flat_atom a
  | EParen _ e' => flat_expr e'
  | EBin _ l r => flat_expr l && flat_expr r
  end
with flat_atom (a : atom) : bool :=
  match a with
  | AConst _ => true
  | AVar x => flat_var x
  | ANeg a' => flat_atom a'
  | AMethod a' f args => flat_atom a' && okmeth f && flat_elist args     (* also chained: F.S.ToUpper().HasPrefix("A") *)
  | AFunc f args => negb (control_builtin f) && flat_elist args          (* the value built-ins: Max, Min, Abs, IsZero, IsNil *)
  | _ => false
  end
with flat_elist (l : elist) : bool :=
  match l with ENil => true | ECons e l' => flat_expr e && flat_elist l' end.
Definition flat_stmt (st : stmt) : bool :=
  match st with
  | SAssign x _ e => flat_var x && flat_expr e
  | SAtom (AFunc _ args) => flat_elist args
  | SAtom _ => false
  end.
Definition flat_rule (r : rule) : bool := flat_expr (rwhen r) && forallb flat_stmt (rthen r).
Definition flat_rules (rs : list rule) : bool := forallb flat_rule rs.
End FlatClass.

Lemma len_match : forall (A : Type) (f : string) (args : list val) (a b : A),
  f <> "Len"%string -> (match f, args with "Len"%string, [] => a | _, _ => b end) = b.
Proof.
  intros A f args a b H.
  destruct f as [|c1 f]; [reflexivity|].
  destruct c1 as [[] [] [] [] [] [] [] []]; try reflexivity.
  destruct f as [|c2 f]; [reflexivity|].
  destruct c2 as [[] [] [] [] [] [] [] []]; try reflexivity.
  destruct f as [|c3 f]; [reflexivity|].
  destruct c3 as [[] [] [] [] [] [] [] []]; try reflexivity.
  destruct f as [|c4 f]; [|reflexivity].
  exfalso. apply H. reflexivity.
Qed.

Lemma isnil_match : forall (A : Type) (f : string) (vals : list val) (a b : A),
  f <> "IsNil"%string -> (match f, vals with "IsNil"%string, [_] => a | _, _ => b end) = b.
Proof.
  intros A f vals a b H.
  destruct f as [|c1 f]; [reflexivity|].
  destruct c1 as [[] [] [] [] [] [] [] []]; try reflexivity.
  destruct f as [|c2 f]; [reflexivity|].
  destruct c2 as [[] [] [] [] [] [] [] []]; try reflexivity.
  destruct f as [|c3 f]; [reflexivity|].
  destruct c3 as [[] [] [] [] [] [] [] []]; try reflexivity.
  destruct f as [|c4 f]; [reflexivity|].
  destruct c4 as [[] [] [] [] [] [] [] []]; try reflexivity.
  destruct f as [|c5 f]; [reflexivity|].
  destruct c5 as [[] [] [] [] [] [] [] []]; try reflexivity.
  destruct f as [|c6 f]; [|reflexivity].
  exfalso. apply H. reflexivity.
Qed.

Section Frame.
Variable meth : list (string * fval) -> string -> list val -> res (option val * list (string * fval)).
Variable okmeth : string -> bool.
(* an admitted method returns the same thing whatever the state of its receiver, and is not the container built-in Len *)
Hypothesis ok_stateless : forall f, okmeth f = true -> forall fs fs' args,
  match meth fs f args, meth fs' f args with
  | Ok (r, _), Ok (r', _) => r = r'
  | Err, Err => True
  | Panic, Panic => True
  | _, _ => False
  end.
Hypothesis ok_not_len : forall f, okmeth f = true -> f <> "Len"%string.
Notation fresh_expr := (fresh_expr meth).
Notation fresh_atom := (fresh_atom meth).
Notation fresh_var := (fresh_var meth).
Notation fresh_args := (fresh_args meth).
Notation flat_expr := (flat_expr okmeth).
Notation flat_atom := (flat_atom okmeth).
Notation flat_elist := (flat_elist okmeth).

(* the top constructor of a stored value: all that scalar_of and rval_of look at *)
Definition shape (v : fval) : nat :=
  match v with
  | FV _ => 0 | FStruct _ => 1 | FPtr None => 2 | FPtr (Some (FStruct _)) => 3 | FPtr (Some _) => 6 | FSlice _ => 4 | FMap _ => 5
  end%nat.

Lemma path_get_snoc : forall fx p s,
  path_get fx (path_snoc p s) = match path_get fx p with Ok v => step_get v s | Err => Err | Panic => Panic end.
Proof.
  intros fx p s. unfold path_get, path_snoc. simpl. destruct (alookup (p_root p) fx) as [v|]; [|reflexivity].
  generalize v. induction (p_steps p) as [|t tt IH]; intros w; simpl.
  - destruct (step_get w s); reflexivity.
  - destruct (step_get w t); auto.
Qed.

Lemma child_field_path : forall fx p g,
  child_field_f fx (RRef p) g =
  match path_get fx (path_snoc p (SField g)) with Ok c => Ok (rval_of (path_snoc p (SField g)) c) | Err => Err | Panic => Panic end.
Proof.
  intros. unfold child_field_f. rewrite path_get_snoc. destruct (path_get fx p) as [v| |]; try reflexivity.
Qed.

(* along the written path the aggregates keep their shape *)
Lemma steps_set_prefix_shape : forall tt s ss v x v',
  steps_set v (tt ++ s :: ss)%list x = Some v' ->
  exists c c', steps_get v tt = Ok c /\ steps_get v' tt = Ok c' /\ shape c' = shape c /\ shape c <> 0%nat.
Proof.
  induction tt as [|t tt IH]; intros s ss v x v' H.
  - simpl in H. exists v, v'. split; [reflexivity|]. split; [reflexivity|].
    destruct s as [n|i|k]; destruct v as [sv|fs|[tg|]|xs|kvs]; try discriminate.
    + destruct (field_get fs n); try discriminate. destruct (steps_set f ss x); inversion H. simpl. auto.
    + destruct tg as [sv|fs| | |]; try discriminate.
      destruct (field_get fs n); try discriminate. destruct (steps_set f ss x); inversion H. simpl. auto.
    + destruct (nth_z xs i); try discriminate. destruct (steps_set f ss x); inversion H. simpl. auto.
    + destruct (field_get kvs k).
      * destruct (steps_set f ss x); inversion H. simpl. auto.
      * destruct ss; inversion H. simpl. auto.
  - simpl in H.
    destruct t as [n|i|k]; destruct v as [sv|fs|[tg|]|xs|kvs]; try discriminate.
    + destruct (field_get fs n) as [c0|] eqn:E; try discriminate.
      destruct (steps_set c0 (tt ++ s :: ss)%list x) as [c0'|] eqn:S; try discriminate. inversion H; subst.
      destruct (IH _ _ _ _ _ S) as (c & c' & A & B & C & D). exists c, c'.
      simpl. rewrite E. rewrite field_get_set_same by congruence. auto.
    + destruct tg as [sv|fs| | |]; try discriminate.
      destruct (field_get fs n) as [c0|] eqn:E; try discriminate.
      destruct (steps_set c0 (tt ++ s :: ss)%list x) as [c0'|] eqn:S; try discriminate. inversion H; subst.
      destruct (IH _ _ _ _ _ S) as (c & c' & A & B & C & D). exists c, c'.
      simpl. rewrite E. rewrite field_get_set_same by congruence. auto.
    + destruct (nth_z xs i) as [c0|] eqn:E; try discriminate.
      destruct (steps_set c0 (tt ++ s :: ss)%list x) as [c0'|] eqn:S; try discriminate. inversion H; subst.
      destruct (IH _ _ _ _ _ S) as (c & c' & A & B & C & D). exists c, c'.
      simpl. rewrite E. rewrite nth_set_same by congruence. auto.
    + destruct (field_get kvs k) as [c0|] eqn:E.
      * destruct (steps_set c0 (tt ++ s :: ss)%list x) as [c0'|] eqn:S; try discriminate. inversion H; subst.
        destruct (IH _ _ _ _ _ S) as (c & c' & A & B & C & D). exists c, c'.
        simpl. rewrite E. rewrite field_get_set_same by congruence. auto.
      * destruct (tt ++ s :: ss)%list eqn:L; [destruct tt; discriminate|discriminate].
Qed.

(* two step lists: they diverge, or one is a prefix of the other *)
Lemma steps_trichotomy : forall a b : list step,
  diverge a b = true \/ (exists s ss, a = (b ++ s :: ss)%list) \/ (exists ss, b = (a ++ ss)%list).
Proof.
  induction a as [|x a IH]; intros b.
  - right. right. exists b. reflexivity.
  - destruct b as [|y b].
    + right. left. exists x, a. reflexivity.
    + simpl. destruct (step_eqb x y) eqn:E.
      * apply step_eqb_eq in E. subst y. destruct (IH b) as [D|[(s & ss & ->)|(ss & ->)]].
        -- left. exact D.
        -- right. left. exists s, ss. reflexivity.
        -- right. right. exists ss. reflexivity.
      * left. reflexivity.
Qed.

(* the effect of a write on what a location shows: nothing if the locations diverge or the roots differ; the same shape
   if the location is an aggregate on the way to the written one *)
Definition view_kept (fx fx' : facts) (p : path) : Prop :=
  path_get fx' p = path_get fx p \/
  (exists c c', path_get fx p = Ok c /\ path_get fx' p = Ok c' /\ shape c' = shape c /\ shape c <> 0%nat).

Lemma view_kept_rval : forall fx fx' p, view_kept fx fx' p ->
  match path_get fx' p with Ok c => Ok (rval_of p c) | Err => Err | Panic => Panic end =
  match path_get fx p with Ok c => Ok (rval_of p c) | Err => Err | Panic => Panic end.
Proof.
  intros fx fx' p [E|(c & c' & A & B & C & D)]; [rewrite E; reflexivity|]. rewrite A, B. f_equal.
  destruct c as [x|fs|[t|]|xs|kvs]; destruct c' as [x'|fs'|[t'|]|xs'|kvs']; try destruct t; try destruct t'; simpl in *; try discriminate; try reflexivity; congruence.
Qed.
Lemma view_kept_scalar : forall fx fx' p, view_kept fx fx' p -> scalar_of fx' (RRef p) = scalar_of fx (RRef p).
Proof.
  intros fx fx' p [E|(c & c' & A & B & C & D)]; unfold scalar_of; [rewrite E; reflexivity|]. rewrite A, B.
  destruct c as [x|fs|[t|]|xs|kvs]; destruct c' as [x'|fs'|[t'|]|xs'|kvs']; try destruct t; try destruct t'; simpl in *; try discriminate; try reflexivity; congruence.
Qed.

(* what "unchanged" means for a node: same from-scratch result, and if the result is a live view, the same view *)
Definition same_view (fx fx' : facts) (r : res rval) : Prop :=
  forall p, r = Ok (RRef p) -> view_kept fx fx' p.
Definition unchanged_var (fx fx' : facts) (y : var) : Prop :=
  fresh_var fx' y = fresh_var fx y /\ same_view fx fx' (fresh_var fx y).

(* selecting with a literal: determined by the shape of the container and what the element's location shows *)
Definition sel_val (st : step) : val :=
  match st with SIndex i => VInt I64 i | SKey k => VStr k | SField _ => VNil end.
Lemma sel_step_val : forall fx sel st, sel_step sel = Some st ->
  fresh_expr fx sel = Ok (RV (sel_val st)) /\ (match st with SField _ => False | _ => True end).
Proof.
  intros fx sel st H. destruct sel as [a| |]; try discriminate. destruct a as [c| | | | | |]; try discriminate.
  destruct c as [k|i| | |]; inversion H; subst; simpl; split; auto; rewrite fresh_expr_unfold, fresh_atom_unfold; reflexivity.
Qed.

Lemma child_sel_view : forall fx fx' p st,
  match st with SField _ => False | _ => True end ->
  view_kept fx fx' p -> view_kept fx fx' (path_snoc p st) ->
  child_sel_f fx' (RRef p) (sel_val st) = child_sel_f fx (RRef p) (sel_val st).
Proof.
  intros fx fx' p st Hst Kp Ks. unfold child_sel_f.
  pose proof (view_kept_rval _ _ _ Ks) as R. rewrite !path_get_snoc in R.
  destruct Kp as [E|(c & c' & A & B & C & D)]; [rewrite E in *|rewrite A, B in *].
  - reflexivity.
  - destruct st as [f|i|k]; [contradiction| |]; simpl in *;
      destruct c as [x|fs|[t|]|xs|kvs]; destruct c' as [x'|fs'|[t'|]|xs'|kvs']; try destruct t; try destruct t'; simpl in C, D; try discriminate; try congruence; try reflexivity.
    + destruct (nth_z xs' i); destruct (nth_z xs i); simpl in R; try discriminate; congruence.
    + destruct (field_get kvs' k); destruct (field_get kvs k); simpl in R; try discriminate; congruence.
Qed.

(* a write to location q, seen from location p that q is not a prefix of *)
Lemma write_view : forall fx fx' q sv p,
  path_set fx q sv = Some fx' ->
  ~ (p_root p = p_root q /\ exists ss, p_steps p = (p_steps q ++ ss)%list) ->
  view_kept fx fx' p.
Proof.
  intros fx fx' q sv p Hs Hn.
  destruct (String.eqb (p_root q) (p_root p)) eqn:Er.
  2:{ left. eapply path_get_set_other; eauto. unfold paths_diverge. rewrite Er. reflexivity. }
  apply String.eqb_eq in Er.
  destruct (steps_trichotomy (p_steps q) (p_steps p)) as [D|[(s & ss & E)|(ss & E)]].
  - left. eapply path_get_set_other; eauto. unfold paths_diverge. rewrite D. apply orb_true_r.
  - right. unfold path_set in Hs. unfold path_get. rewrite <- Er.
    destruct (alookup (p_root q) fx) as [v|] eqn:Ev; try discriminate.
    destruct (steps_set v (p_steps q) sv) as [v'|] eqn:S; try discriminate. inversion Hs; subst fx'.
    rewrite alookup_aupdate_eq. rewrite E in S. apply steps_set_prefix_shape in S. exact S.
  - exfalso. apply Hn. split; [congruence|]. exists ss. exact E.
Qed.

(* replacing a whole top-level entry, seen from another root *)
Lemma replace_view : forall fx r w p, p_root p <> r -> view_kept fx (aupdate r w fx) p.
Proof. intros fx r w p H. left. unfold path_get. rewrite alookup_aupdate_other; auto. Qed.

(* ---- flat variables: their value is what their location shows ---- *)
Lemma fresh_var_spath : forall fx y, flat_var y = true ->
  (forall p, fresh_var fx y = Ok (RRef p) -> p = spath y).
Proof.
  induction y as [r|y' IH g|y' IH sel]; intros Hf p H; simpl in Hf; try discriminate.
  - rewrite fresh_var_unfold in H. destruct (alookup r fx) as [v|]; try discriminate.
    destruct v; simpl in H; inversion H; reflexivity.
  - rewrite fresh_var_unfold in H. destruct (fresh_var fx y') as [ry| |] eqn:Ey; try discriminate.
    destruct ry as [x|q]; [simpl in H; discriminate|].
    rewrite (IH Hf q eq_refl) in H. rewrite child_field_path in H.
    destruct (path_get fx (path_snoc (spath y') (SField g))) as [c| |]; try discriminate.
    destruct c; simpl in H; inversion H; reflexivity.
  - apply andb_prop in Hf. destruct Hf as [Hf Hs]. destruct (sel_step sel) as [st|] eqn:Es; try discriminate.
    destruct (sel_step_val fx sel st Es) as [Ev Hst].
    rewrite fresh_var_unfold in H. destruct (fresh_var fx y') as [ry| |] eqn:Ey; try discriminate.
    rewrite Ev in H. simpl scalar_of in H.
    destruct ry as [x|q]; [simpl in H; discriminate|].
    rewrite (IH Hf q eq_refl) in H. simpl spath. rewrite Es.
    unfold child_sel_f in H. destruct (path_get fx (spath y')) as [c| |]; try discriminate.
    destruct st as [f|i|k]; [contradiction| |]; simpl in H;
      destruct c as [x|fs|[t|]|xs|kvs]; try discriminate.
    + destruct (nth_z xs i) as [d|]; try discriminate. destruct d; simpl in H; inversion H; reflexivity.
    + destruct (field_get kvs k) as [d|]; try discriminate. destruct d; simpl in H; inversion H; reflexivity.
Qed.

Lemma sel_step_inj : forall s1 s2 st, sel_step s1 = Some st -> sel_step s2 = Some st -> s1 = s2.
Proof.
  intros s1 s2 st H1 H2.
  destruct s1 as [a1| |]; try discriminate. destruct a1 as [c1| | | | | |]; try discriminate.
  destruct s2 as [a2| |]; try discriminate. destruct a2 as [c2| | | | | |]; try discriminate.
  destruct c1 as [k1|i1| | |]; inversion H1; subst; destruct c2 as [k2|i2| | |]; inversion H2; subst; reflexivity.
Qed.
Lemma sel_step_not_field : forall s st, sel_step s = Some st -> forall g, st <> SField g.
Proof.
  intros s st H g. destruct s as [a| |]; try discriminate. destruct a as [c| | | | | |]; try discriminate.
  destruct c; inversion H; discriminate.
Qed.

(* a flat variable is a name, or a flat parent followed by one step *)
Lemma flat_cases : forall y, flat_var y = true ->
  (exists r, y = VName r) \/
  (exists y' st, flat_var y' = true /\ spath y = path_snoc (spath y') st /\
                 (forall z, In z (vars_var y) <-> z = y \/ In z (vars_var y')) /\
                 ((exists g, y = VMember y' g /\ st = SField g) \/ (exists sel, y = VSel y' sel /\ sel_step sel = Some st))).
Proof.
  intros [r|y' g|y' sel] H; simpl in H.
  - left. eauto.
  - right. exists y', (SField g). split; [exact H|]. split; [reflexivity|]. split.
    + intros z. cbn [vars_var In]. split; intros [A|A]; subst; auto.
    + left. eauto.
  - right. apply andb_prop in H. destruct H as [H Hs]. destruct (sel_step sel) as [st|] eqn:Es; try discriminate.
    exists y', st. split; [exact H|]. split; [simpl; rewrite Es; reflexivity|]. split.
    + intros z. cbn [vars_var].
      assert (Hv: vars_expr sel = []).
      { destruct sel as [a| |]; try discriminate. destruct a as [c| | | | | |]; try discriminate. reflexivity. }
      rewrite Hv, app_nil_r. cbn [In]. split; intros [A|A]; subst; auto.
    + right. eauto.
Qed.

Lemma path_snoc_inj : forall p q s t, path_snoc p s = path_snoc q t -> p = q /\ s = t.
Proof.
  intros [rp sp] [rq sq] s t H. unfold path_snoc in H. simpl in H. inversion H as [[Hr Hs]].
  apply app_inj_tail in Hs. destruct Hs as [-> ->]. auto.
Qed.

Lemma spath_inj : forall a, flat_var a = true -> forall b, flat_var b = true -> spath a = spath b -> a = b.
Proof.
  induction a as [ra|a' IHa fa|a' IHa sa]; intros Ha b Hb E.
  - destruct (flat_cases b Hb) as [(rb & ->)|(b' & st & _ & Eb & _)].
    + simpl in E. inversion E. reflexivity.
    + rewrite Eb in E. simpl in E. unfold path_snoc in E. injection E as Hr0 Hs. destruct (p_steps (spath b')); discriminate.
  - destruct (flat_cases b Hb) as [(rb & ->)|(b' & st & Hb' & Eb & _ & Hk)].
    + simpl in E. unfold path_snoc in E. injection E as Hr0 Hs. destruct (p_steps (spath a')); discriminate.
    + simpl in E. rewrite Eb in E. apply path_snoc_inj in E. destruct E as [E1 E2]. simpl in Ha.
      destruct Hk as [(g & -> & ->)|(sel & -> & Hs)].
      * inversion E2; subst. f_equal. apply IHa; auto.
      * exfalso. symmetry in E2. exact (sel_step_not_field _ _ Hs _ E2).
  - simpl in Ha. apply andb_prop in Ha. destruct Ha as [Ha Hsa]. destruct (sel_step sa) as [sta|] eqn:Esa; try discriminate.
    destruct (flat_cases b Hb) as [(rb & ->)|(b' & st & Hb' & Eb & _ & Hk)].
    + simpl in E. rewrite Esa in E. unfold path_snoc in E. injection E as Hr0 Hs. destruct (p_steps (spath a')); discriminate.
    + simpl in E. rewrite Esa, Eb in E. apply path_snoc_inj in E. destruct E as [E1 E2]. subst st.
      destruct Hk as [(g & -> & Hg)|(sel & -> & Hs)].
      * exfalso. exact (sel_step_not_field _ _ Esa _ Hg).
      * f_equal; [apply IHa; auto|eapply sel_step_inj; eauto].
Qed.

Lemma spath_root_steps : forall y, flat_var y = true -> forall x, flat_var x = true ->
  p_root (spath y) = p_root (spath x) -> (exists ss, p_steps (spath y) = (p_steps (spath x) ++ ss)%list) -> In x (vars_var y).
Proof.
  induction y as [r|y' IH g|y' IH sel]; intros Hy x Hx Hr (ss & Hs).
  - simpl in *. destruct (flat_cases x Hx) as [(rx & ->)|(x' & st & _ & Ex & _)].
    + simpl in Hr. subst. left. reflexivity.
    + rewrite Ex in Hs. simpl in Hs. destruct (p_steps (spath x')); discriminate.
  - destruct (flat_cases _ Hy) as [(r & E)|(y0 & st & Hy0 & Ey & Hin & Hk)]; [discriminate|].
    destruct Hk as [(g0 & E0 & ->)|(sel & E0 & _)]; [|discriminate]. inversion E0; subst y0 g0.
    apply Hin. rewrite Ey in Hs, Hr. simpl in Hs, Hr.
    destruct ss as [|s0 ss0] using rev_ind.
    + left. rewrite app_nil_r in Hs. symmetry. apply spath_inj; auto. rewrite Ey.
      destruct (spath x) as [rx sx]. unfold path_snoc. simpl in *. congruence.
    + right. rewrite app_assoc in Hs. apply app_inj_tail in Hs. destruct Hs as [Hs1 _]. apply IH; auto. exists ss0. exact Hs1.
  - destruct (flat_cases _ Hy) as [(r & E)|(y0 & st & Hy0 & Ey & Hin & Hk)]; [discriminate|].
    destruct Hk as [(g0 & E0 & _)|(sel0 & E0 & Hst)]; [discriminate|]. inversion E0; subst y0 sel0.
    apply Hin. rewrite Ey in Hs, Hr. simpl in Hs, Hr.
    destruct ss as [|s0 ss0] using rev_ind.
    + left. rewrite app_nil_r in Hs. symmetry. apply spath_inj; auto. rewrite Ey.
      destruct (spath x) as [rx sx]. unfold path_snoc. simpl in *. congruence.
    + right. rewrite app_assoc in Hs. apply app_inj_tail in Hs. destruct Hs as [Hs1 _]. apply IH; auto. exists ss0. exact Hs1.
Qed.

(* the frame for one flat variable: a write at location q, and q is not at or above y *)
Lemma flat_var_frame : forall fx fx' y,
  flat_var y = true ->
  (forall z, In z (vars_var y) -> view_kept fx fx' (spath z)) ->
  unchanged_var fx fx' y.
Proof.
  intros fx fx' y. induction y as [r|y' IH g|y' IH sel]; intros Hf Hv; simpl in Hf; try discriminate.
  - pose proof (Hv (VName r) (or_introl eq_refl)) as K. simpl in K.
    assert (E: fresh_var fx' (VName r) = fresh_var fx (VName r)).
    { rewrite !fresh_var_unfold. pose proof (view_kept_rval _ _ _ K) as R. unfold path_get in R. simpl in R.
      destruct (alookup r fx') as [v'|]; destruct (alookup r fx) as [v|]; try (inversion R; fail); auto. }
    split; [exact E|]. intros p Hp. rewrite (fresh_var_spath fx (VName r) eq_refl p Hp). exact K.
  - assert (Hv': forall z, In z (vars_var y') -> view_kept fx fx' (spath z)) by (intros; apply Hv; right; assumption).
    destruct (IH Hf Hv') as [A B].
    pose proof (Hv (VMember y' g) (or_introl eq_refl)) as K. simpl in K.
    assert (E: fresh_var fx' (VMember y' g) = fresh_var fx (VMember y' g)).
    { rewrite (fresh_var_unfold meth fx'), (fresh_var_unfold meth fx). rewrite A.
      destruct (fresh_var fx y') as [ry| |] eqn:Ey; try reflexivity.
      destruct ry as [x|q]; [reflexivity|]. rewrite (fresh_var_spath fx y' Hf q Ey).
      rewrite !child_field_path. apply view_kept_rval. exact K. }
    split; [exact E|]. intros p Hp.
    rewrite (fresh_var_spath fx (VMember y' g) Hf p Hp). exact K.
  - pose proof Hf as Hfull. apply andb_prop in Hf. destruct Hf as [Hf Hs].
    destruct (sel_step sel) as [st|] eqn:Es; try discriminate.
    assert (Hv': forall z, In z (vars_var y') -> view_kept fx fx' (spath z)).
    { intros z Hz. apply Hv. cbn [vars_var]. right. apply in_or_app. left. exact Hz. }
    destruct (IH Hf Hv') as [A B].
    pose proof (Hv (VSel y' sel) (or_introl eq_refl)) as K. simpl in K. rewrite Es in K.
    destruct (sel_step_val fx sel st Es) as [Ev Hst]. destruct (sel_step_val fx' sel st Es) as [Ev' _].
    assert (E: fresh_var fx' (VSel y' sel) = fresh_var fx (VSel y' sel)).
    { rewrite (fresh_var_unfold meth fx'), (fresh_var_unfold meth fx). rewrite A, Ev, Ev'.
      destruct (fresh_var fx y') as [ry| |] eqn:Ey; try reflexivity.
      destruct ry as [x|q]; [reflexivity|]. rewrite (fresh_var_spath fx y' Hf q Ey). simpl scalar_of.
      apply child_sel_view; auto.
      (* the container's own view: y' is among the variables of y *)
      apply Hv'. destruct y'; cbn [vars_var]; left; reflexivity. }
    split; [exact E|]. intros p Hp.
    assert (Hfull': flat_var (VSel y' sel) = true) by (simpl; rewrite Es, Hf; reflexivity).
    rewrite (fresh_var_spath fx (VSel y' sel) Hfull' p Hp). simpl spath. rewrite Es. exact K.
Qed.

(* ---- an admitted method call on a receiver whose view is kept ---- *)
Lemma fresh_call_frame : forall fx fx' recv f args,
  okmeth f = true -> (forall p, recv = RRef p -> view_kept fx fx' p) ->
  fresh_call meth fx' recv f args = fresh_call meth fx recv f args.
Proof.
  intros fx fx' recv f args Hok Hv. unfold fresh_call, receiver_kind.
  destruct recv as [v|p]; [reflexivity|].
  pose proof (ok_not_len f Hok) as Hl.
  destruct (Hv p eq_refl) as [E|(c & c' & A & B & C & D)]; [rewrite E; reflexivity|]. rewrite A, B.
  destruct c as [x|fs|[t|]|xs|kvs]; destruct c' as [x'|fs'|[t'|]|xs'|kvs'];
    try (destruct t as [tx|tfs|tp|txs|tkvs]); try (destruct t' as [tx'|tfs'|tp'|txs'|tkvs']);
    simpl in C, D; try discriminate; try congruence; try reflexivity;
    rewrite ?(len_match _ f args _ _ Hl); try reflexivity.
  (* both are structs behind a pointer: the method does not look at the fields *)
  pose proof (ok_stateless f Hok tfs' tfs args) as Hs.
  destruct (meth tfs' f args) as [[r1 s1]| |]; destruct (meth tfs f args) as [[r2 s2]| |]; try contradiction; subst; reflexivity.
Qed.

Lemma fresh_call_not_ref : forall fx recv f args p, okmeth f = true -> fresh_call meth fx recv f args <> Ok (RRef p).
Proof.
  intros fx recv f args p Hok H. unfold fresh_call, receiver_kind in H.
  pose proof (ok_not_len f Hok) as Hl.
  destruct recv as [v|q].
  - destruct v; try discriminate. destruct (string_func s f args); discriminate.
  - destruct (path_get fx q) as [c| |]; try discriminate.
    destruct c as [x|fs|[t|]|xs|kvs]; try (destruct t as [tx|tfs|tp|txs|tkvs]); try discriminate;
      rewrite ?(len_match _ f args _ _ Hl) in H; try discriminate.
    destruct (meth tfs f args) as [[r1 s1]| |]; discriminate.
Qed.

(* ---- the value built-ins: a function of the argument values and, for IsNil, of the shape at the argument's location ---- *)
Definition views_kept (fx fx' : facts) (vs : list rval) : Prop :=
  Forall (fun v => forall p, v = RRef p -> view_kept fx fx' p) vs.

Lemma views_scalars : forall fx fx' vs, views_kept fx fx' vs -> map (scalar_of fx') vs = map (scalar_of fx) vs.
Proof.
  intros fx fx' vs H. induction H as [|v vs Hv Hvs IH]; simpl; [reflexivity|]. rewrite IH. f_equal.
  destruct v as [x|p]; [reflexivity|]. apply view_kept_scalar. apply Hv. reflexivity.
Qed.

Lemma isnil_view : forall fx fx' p, view_kept fx fx' p ->
  match path_get fx' p with
  | Ok (FPtr None) => Ok (RV (VBool true))
  | Ok (FStruct _) | Ok (FPtr (Some _)) => Ok (RV (VBool false))
  | Ok (FSlice _) | Ok (FMap _) => Ok (RV (VBool false))
  | _ => Err
  end =
  match path_get fx p with
  | Ok (FPtr None) => Ok (RV (VBool true))
  | Ok (FStruct _) | Ok (FPtr (Some _)) => Ok (RV (VBool false))
  | Ok (FSlice _) | Ok (FMap _) => Ok (RV (VBool false))
  | _ => @Err rval
  end.
Proof.
  intros fx fx' p [E|(c & c' & A & B & C & D)]; [rewrite E; reflexivity|]. rewrite A, B.
  destruct c as [x|fs|[t|]|xs|kvs]; destruct c' as [x'|fs'|[t'|]|xs'|kvs']; try destruct t; try destruct t';
    simpl in C, D; try discriminate; try congruence; reflexivity.
Qed.

Lemma defunc_value_frame : forall fx fx' f vs, views_kept fx fx' vs -> defunc_value fx' f vs = defunc_value fx f vs.
Proof.
  intros fx fx' f vs H. unfold defunc_value. cbv zeta. rewrite (views_scalars fx fx' vs H).
  destruct (String.eqb f "IsNil") eqn:E.
  - apply String.eqb_eq in E. subst f.
    destruct (map (scalar_of fx) vs) as [|w [|w2 ws]] eqn:Em; try reflexivity.
    destruct vs as [|v [|v2 vs']]; try reflexivity. destruct v as [x|p]; try reflexivity.
    apply isnil_view. inversion H as [|? ? Hv _]; subst. apply Hv. reflexivity.
  - assert (Hn: f <> "IsNil"%string) by (intro; subst; discriminate).
    rewrite !(isnil_match _ f _ _ _ Hn). reflexivity.
Qed.

Lemma defunc_value_not_ref : forall fx f vs p, defunc_value fx f vs <> Ok (RRef p).
Proof.
  intros fx f vs p H. unfold defunc_value in H. cbv zeta in H.
  destruct (String.eqb f "IsNil") eqn:E.
  - apply String.eqb_eq in E. subst f.
    destruct (map (scalar_of fx) vs) as [|w [|w2 ws]]; try (destruct (pure_builtin _ _) as [[]|]; discriminate).
    repeat match type of H with context [match ?x with _ => _ end] => destruct x; try discriminate end.
  - assert (Hn: f <> "IsNil"%string) by (intro; subst; discriminate).
    rewrite (isnil_match _ f _ _ _ Hn) in H. destruct (pure_builtin f _) as [[]|]; discriminate.
Qed.

(* ---- expressions: unchanged variables give unchanged values ---- *)
Section ExprFrame.
Variables fx fx' : facts.

Definition unchanged_expr (e : expr) : Prop := fresh_expr fx' e = fresh_expr fx e /\ same_view fx fx' (fresh_expr fx e).
Definition unchanged_atom (a : atom) : Prop := fresh_atom fx' a = fresh_atom fx a /\ same_view fx fx' (fresh_atom fx a).

Lemma scalar_same : forall r v, same_view fx fx' r -> r = Ok v -> scalar_of fx' v = scalar_of fx v.
Proof. intros r v H E. destruct v as [x|p]; [reflexivity|]. apply view_kept_scalar. apply H. exact E. Qed.

Lemma negate_view : forall r, same_view fx fx' r -> same_view fx fx' (match r with Ok v => Ok (negate v) | r0 => r0 end).
Proof.
  intros r H p E. destruct r as [v| |]; try discriminate. destruct v as [x|q]; simpl in E.
  - destruct x; try discriminate. 
  - inversion E; subst. apply H. reflexivity.
Qed.

Definition unchanged_args (l : elist) : Prop :=
  fresh_args fx' l = fresh_args fx l /\
  (forall vs, fresh_args fx l = Ok vs -> views_kept fx fx' vs).

Lemma flat_frame :
  (forall e, flat_expr e = true -> (forall y, In y (vars_expr e) -> flat_var y = true -> unchanged_var fx fx' y) -> unchanged_expr e) /\
  (forall a, flat_atom a = true -> (forall y, In y (vars_atom a) -> flat_var y = true -> unchanged_var fx fx' y) -> unchanged_atom a).
Proof.
  enough (H: (forall e, flat_expr e = true -> (forall y, In y (vars_expr e) -> flat_var y = true -> unchanged_var fx fx' y) -> unchanged_expr e) /\
             (forall a, flat_atom a = true -> (forall y, In y (vars_atom a) -> flat_var y = true -> unchanged_var fx fx' y) -> unchanged_atom a) /\
             (forall x : var, True) /\
             (forall l, flat_elist l = true -> (forall y, In y (vars_elist l) -> flat_var y = true -> unchanged_var fx fx' y) -> unchanged_args l))
    by (destruct H as (A & B & _); auto).
  apply syntax_mutind; try (intros; exact I); unfold unchanged_expr, unchanged_atom, unchanged_args.
  - (* EAtom *) intros a IH Hf Hv. rewrite !fresh_expr_unfold. apply IH; auto.
  - (* EParen *) intros n e IH Hf Hv. simpl in Hf. destruct (IH Hf Hv) as [A B].
    rewrite (fresh_expr_unfold meth fx'), (fresh_expr_unfold meth fx). rewrite A. split; [reflexivity|].
    intros p E. apply B. destruct (fresh_expr fx e) as [v| |]; try discriminate.
    destruct n; [|exact E]. destruct v as [x|q]; simpl in E; [destruct x; discriminate|exact E].
  - (* EBin *) intros o l IHl r IHr Hf Hv. simpl in Hf. apply andb_prop in Hf. destruct Hf as [Hfl Hfr].
    assert (Hvl: forall y, In y (vars_expr l) -> flat_var y = true -> unchanged_var fx fx' y)
      by (intros; apply Hv; auto; simpl; apply in_or_app; auto).
    assert (Hvr: forall y, In y (vars_expr r) -> flat_var y = true -> unchanged_var fx fx' y)
      by (intros; apply Hv; auto; simpl; apply in_or_app; auto).
    destruct (IHl Hfl Hvl) as [Al Bl]. destruct (IHr Hfr Hvr) as [Ar Br].
    rewrite (fresh_expr_unfold meth fx'), (fresh_expr_unfold meth fx). cbv zeta. rewrite Al, Ar.
    assert (Hshort: bin_shortcut o fx' (fresh_expr fx l) = bin_shortcut o fx (fresh_expr fx l)).
    { unfold bin_shortcut. destruct o; try reflexivity; destruct (fresh_expr fx l) as [lv| |] eqn:El; try reflexivity;
        rewrite (scalar_same _ lv Bl eq_refl); reflexivity. }
    assert (Hcomb: bin_combine o fx' (fresh_expr fx l) (fresh_expr fx r) = bin_combine o fx (fresh_expr fx l) (fresh_expr fx r)).
    { unfold bin_combine. destruct (fresh_expr fx l) as [lv| |] eqn:El; destruct (fresh_expr fx r) as [rv| |] eqn:Er; try reflexivity.
      rewrite (scalar_same _ lv Bl eq_refl), (scalar_same _ rv Br eq_refl). reflexivity. }
    rewrite Hshort, Hcomb. split; [reflexivity|].
    (* the result of a binary node is never a live view *)
    intros p E. exfalso.
    destruct (bin_left_fail o (fresh_expr fx l)) as [r0|] eqn:Bf.
    { unfold bin_left_fail in Bf. destruct o; destruct (fresh_expr fx l); inversion Bf; subst; discriminate. }
    destruct (bin_shortcut o fx (fresh_expr fx l)) as [w|] eqn:Bs.
    { unfold bin_shortcut in Bs. destruct o; try discriminate; destruct (fresh_expr fx l); try discriminate;
        destruct (EvaluateLogicSingle _) as [[]| |]; try discriminate; destruct b; inversion Bs; subst; discriminate. }
    unfold bin_combine in E. destruct (fresh_expr fx l); destruct (fresh_expr fx r); try discriminate.
    destruct (op_apply o _ _); discriminate.
  - (* AConst *) intros c Hf Hv. rewrite !fresh_atom_unfold. split; [reflexivity|]. intros p E. discriminate.
  - (* AVar *) intros x IH Hf Hv. rewrite !fresh_atom_unfold. simpl in Hf. apply Hv; auto.
    cbn [vars_atom]. destruct x as [n|x' n|x' s]; cbn [vars_var]; left; reflexivity.
  - (* AFunc *) intros f l IH Hf Hv. simpl in Hf. apply andb_prop in Hf. destruct Hf as [Hc Hfl].
    apply negb_true_iff in Hc.
    destruct (IH Hfl Hv) as [Al Bl].
    rewrite (fresh_atom_unfold meth fx'), (fresh_atom_unfold meth fx). rewrite Al, Hc.
    destruct (Fresh.fresh_args meth fx l) as [vs| |] eqn:El; try (split; [reflexivity|intros p E; discriminate]).
    split; [apply defunc_value_frame; apply Bl; reflexivity|].
    intros p E. exfalso. exact (defunc_value_not_ref fx f vs p E).
  - (* AMethod *) intros a IHa f l IHl Hf Hv. simpl in Hf.
    apply andb_prop in Hf. destruct Hf as [Hf Hfl]. apply andb_prop in Hf. destruct Hf as [Hfr Hok].
    assert (Hva: forall y, In y (vars_atom a) -> flat_var y = true -> unchanged_var fx fx' y)
      by (intros; apply Hv; auto; cbn [vars_atom]; apply in_or_app; auto).
    assert (Hvl: forall y, In y (vars_elist l) -> flat_var y = true -> unchanged_var fx fx' y)
      by (intros; apply Hv; auto; cbn [vars_atom]; apply in_or_app; auto).
    destruct (IHa Hfr Hva) as [Aa Ba]. destruct (IHl Hfl Hvl) as [Al Bl].
    rewrite (fresh_atom_unfold meth fx'), (fresh_atom_unfold meth fx). rewrite Aa, Al.
    destruct (Fresh.fresh_atom meth fx a) as [recv| |] eqn:Er; try (split; [reflexivity|intros p E; discriminate]).
    destruct (Fresh.fresh_args meth fx l) as [vs| |] eqn:El; try (split; [reflexivity|intros p E; discriminate]).
    rewrite (views_scalars fx fx' vs (Bl vs eq_refl)).
    split.
    + apply fresh_call_frame; auto. intros p ->. apply Ba. reflexivity.
    + intros p E. exfalso. exact (fresh_call_not_ref fx recv f _ p Hok E).
  - (* AMember *) intros a IH n Hf. discriminate.
  - (* ASel *) intros a IHa e IHe Hf. discriminate.
  - (* ANeg *) intros a IH Hf Hv. simpl in Hf. destruct (IH Hf Hv) as [A B].
    rewrite (fresh_atom_unfold meth fx'), (fresh_atom_unfold meth fx). rewrite A. split; [reflexivity|].
    intros p E. apply B. destruct (fresh_atom fx a) as [v| |]; try discriminate.
    destruct v as [x|q]; simpl in E; [destruct x; discriminate|exact E].
  - (* ENil *) intros Hf Hv. rewrite !fresh_args_unfold. split; [reflexivity|]. intros vs E. inversion E. constructor.
  - (* ECons *) intros e IHe l IHl Hf Hv. simpl in Hf. apply andb_prop in Hf. destruct Hf as [Hfe Hfl].
    assert (Hve: forall y, In y (vars_expr e) -> flat_var y = true -> unchanged_var fx fx' y)
      by (intros; apply Hv; auto; simpl; apply in_or_app; auto).
    assert (Hvl: forall y, In y (vars_elist l) -> flat_var y = true -> unchanged_var fx fx' y)
      by (intros; apply Hv; auto; simpl; apply in_or_app; auto).
    destruct (IHe Hfe Hve) as [Ae Be]. destruct (IHl Hfl Hvl) as [Al Bl].
    rewrite (fresh_args_unfold meth fx'), (fresh_args_unfold meth fx). rewrite Ae, Al. split; [reflexivity|].
    intros vs E. destruct (Fresh.fresh_expr meth fx e) as [v| |] eqn:Ee; try discriminate.
    destruct (Fresh.fresh_args meth fx l) as [vs0| |] eqn:El; try discriminate. inversion E; subst.
    constructor; [intros p ->; apply Be; reflexivity|apply Bl; reflexivity].
Qed.
End ExprFrame.

End Frame.

(* ---- every node of a flat rule set is flat ---- *)
Section Nodes.
Variable okmeth : string -> bool.
Notation flat_expr := (flat_expr okmeth).
Notation flat_atom := (flat_atom okmeth).
Notation flat_elist := (flat_elist okmeth).
Notation flat_rules := (flat_rules okmeth).
Definition flat_node (n : node) : bool :=
  match n with
  | NdE e => flat_expr e
  | NdA a => flat_atom a
  | NdV v => flat_var v
  | NdL l => flat_elist l
  end.

Lemma child_flat : forall c p, child c p -> flat_node p = true -> flat_node c = true.
Proof.
  intros c p H. destruct H; simpl; intros Hf; try discriminate; auto;
    try (apply andb_prop in Hf; destruct Hf; assumption).
  - (* the receiver of an admitted method call *)
    apply andb_prop in Hf. destruct Hf as [Hf _]. apply andb_prop in Hf. destruct Hf as [Hf _]. exact Hf.
  - (* the literal selector of a flat variable is a flat expression *)
    apply andb_prop in Hf. destruct Hf as [_ Hs].
    destruct e as [a| |]; try discriminate. destruct a as [c0| | | | | |]; try discriminate. reflexivity.
Qed.

Lemma flat_root : forall rules r n, flat_rules rules = true -> In r rules -> In n (rule_roots r) -> flat_node n = true.
Proof.
  intros rules r n Hf Hr Hn. unfold flat_rules in Hf. rewrite forallb_forall in Hf. specialize (Hf r Hr).
  unfold flat_rule in Hf. apply andb_prop in Hf. destruct Hf as [Hw Ht].
  destruct Hn as [<-|Hn]; [exact Hw|].
  apply in_flat_map in Hn. destruct Hn as (st & Hst & Hn). rewrite forallb_forall in Ht. specialize (Ht st Hst).
  destruct st as [x o e|a]; simpl in *.
  - apply andb_prop in Ht. destruct Ht as [A B]. destruct Hn as [<-|[<-|[]]]; simpl; assumption.
  - destruct a; try discriminate. destruct Hn as [<-|[]]. exact Ht.
Qed.

Lemma in_kb_flat : forall rules n, flat_rules rules = true -> in_kb rules n -> flat_node n = true.
Proof.
  intros rules n Hf (root & Hin & Hrt). apply in_flat_map in Hin. destruct Hin as (r & Hr & Hroot).
  pose proof (flat_root rules r root Hf Hr Hroot) as H0.
  apply clos_rt_rt1n in Hrt. induction Hrt as [|x y z Hxy Hyz IH]; auto.
  eapply child_flat; eauto.
Qed.

(* the variable lists of flat nodes contain, with a variable, the variables above it *)
Lemma vars_var_closed : forall y z, In z (vars_var y) -> flat_var y = true -> incl (vars_var z) (vars_var y).
Proof.
  assert (step: forall y y', (forall z, In z (vars_var y) <-> z = y \/ In z (vars_var y')) ->
                (forall z, In z (vars_var y') -> incl (vars_var z) (vars_var y')) ->
                forall z, In z (vars_var y) -> incl (vars_var z) (vars_var y)).
  { intros y y' Hin IH z Hz. apply Hin in Hz. destruct Hz as [->|Hz]; [apply incl_refl|].
    intros w Hw. apply Hin. right. exact (IH z Hz w Hw). }
  induction y as [r|y' IH g|y' IH sel]; intros z Hz Hf.
  - simpl in Hz. destruct Hz as [<-|[]]. apply incl_refl.
  - destruct (flat_cases _ Hf) as [(r0 & E)|(y0 & st & Hy0 & _ & Hin & Hk)]; [discriminate|].
    destruct Hk as [(g0 & E0 & _)|(sel0 & E0 & _)]; [|discriminate]. inversion E0; subst y0 g0.
    eapply step; eauto.
  - destruct (flat_cases _ Hf) as [(r0 & E)|(y0 & st & Hy0 & _ & Hin & Hk)]; [discriminate|].
    destruct Hk as [(g0 & E0 & _)|(sel0 & E0 & _)]; [discriminate|]. inversion E0; subst y0 sel0.
    eapply step; eauto.
Qed.

Lemma flat_vars_closed :
  (forall e, flat_expr e = true -> forall y, In y (vars_expr e) -> incl (vars_var y) (vars_expr e)) /\
  (forall a, flat_atom a = true -> forall y, In y (vars_atom a) -> incl (vars_var y) (vars_atom a)).
Proof.
  enough (H: (forall e, flat_expr e = true -> forall y, In y (vars_expr e) -> incl (vars_var y) (vars_expr e)) /\
             (forall a, flat_atom a = true -> forall y, In y (vars_atom a) -> incl (vars_var y) (vars_atom a)) /\
             (forall x : var, True) /\
             (forall l, flat_elist l = true -> forall y, In y (vars_elist l) -> incl (vars_var y) (vars_elist l)))
    by (destruct H as (A & B & _); auto).
  apply syntax_mutind; try (intros; exact I).
  - intros a IH Hf y H. simpl in *. eauto.
  - intros n e IH Hf y H. simpl in *. eauto.
  - intros o l IHl r0 IHr Hf y H. simpl in *. apply andb_prop in Hf. destruct Hf as [A B].
    apply in_app_or in H. destruct H as [H|H].
    + apply incl_appl. eauto.
    + apply incl_appr. eauto.
  - intros c Hf y H. inversion H.
  - intros x _ Hf y H. simpl in *. apply vars_var_closed; auto.
  - intros f l IHl Hf y H. simpl in Hf. apply andb_prop in Hf. destruct Hf as [_ Hfl].
    cbn [vars_atom] in *. exact (IHl Hfl y H).
  - intros a IHa f l IHl Hf y H. simpl in Hf.
    apply andb_prop in Hf. destruct Hf as [Hf Hfl]. apply andb_prop in Hf. destruct Hf as [Hfr _].
    cbn [vars_atom] in *. apply in_app_or in H. destruct H as [H|H].
    + apply incl_appl. apply (IHa Hfr y H).
    + apply incl_appr. apply (IHl Hfl y H).
  - intros a _ n Hf. discriminate.
  - intros a _ e _ Hf. discriminate.
  - intros a IH Hf y H. simpl in *. eauto.
  - intros Hf y H. inversion H.
  - intros e IHe l IHl Hf y H. simpl in *. apply andb_prop in Hf. destruct Hf as [A B].
    apply in_app_or in H. destruct H as [H|H].
    + apply incl_appl. eauto.
    + apply incl_appr. eauto.
Qed.
End Nodes.

Section Dependency.
Variable rules : list rule.
Variable meth : list (string * fval) -> string -> list val -> res (option val * list (string * fval)).
Variable mutating : string -> bool.
Variable okmeth : string -> bool.
Hypothesis ok_stateless : forall f, okmeth f = true -> forall fs fs' args,
  match meth fs f args, meth fs' f args with
  | Ok (r, _), Ok (r', _) => r = r'
  | Err, Err => True
  | Panic, Panic => True
  | _, _ => False
  end.
Hypothesis ok_not_len : forall f, okmeth f = true -> f <> "Len"%string.
Hypothesis Hflat : flat_rules okmeth rules = true.

(* a successful write to a flat variable is a path_set at its location (or the replacement of a top-level entry) *)
Lemma write_flat : forall fx x nv fx' t,
  flat_var x = true -> fresh_target meth fx x = Ok t -> write_target fx t nv = Ok fx' ->
  (exists r w, x = VName r /\ fx' = aupdate r w fx) \/
  (exists sv, path_set fx (spath x) sv = Some fx').
Proof.
  intros fx x nv fx' t Hx Ht Hw. destruct x as [r|x' f|x' s]; simpl in Hx; try discriminate.
  - left. simpl in Ht. inversion Ht; subst t. simpl in Hw. inversion Hw; subst. eauto.
  - right. unfold fresh_target in Ht.
    destruct (Fresh.fresh_var meth fx x') as [rx| |] eqn:Ex; try discriminate.
    destruct rx as [v|p]; try discriminate. inversion Ht; subst t.
    rewrite (fresh_var_spath meth fx x' Hx p Ex) in Hw. simpl in Hw.
    destruct (path_get fx (spath x')) as [obj| |]; try discriminate.
    assert (Hw': match step_get obj (SField f) with
                 | Ok dst => match store_scalar dst nv with
                             | Ok nv0 => match path_set fx (path_snoc (spath x') (SField f)) nv0 with Some fx0 => Ok fx0 | None => Err end
                             | _ => Err end
                 | _ => Err end = Ok fx').
    { destruct obj as [| |[o|]| |]; try exact Hw. discriminate. }
    destruct (step_get obj (SField f)) as [dst| |]; try discriminate.
    destruct (store_scalar dst nv) as [sv| |]; try discriminate.
    destruct (path_set fx (path_snoc (spath x') (SField f)) sv) as [fx0|] eqn:Es; try discriminate.
    inversion Hw'; subst. exists sv. exact Es.
  - right. apply andb_prop in Hx. destruct Hx as [Hx Hs]. destruct (sel_step s) as [st|] eqn:Est; try discriminate.
    destruct (sel_step_val meth fx s st Est) as [Ev Hst].
    unfold fresh_target in Ht.
    destruct (Fresh.fresh_var meth fx x') as [rx| |] eqn:Ex; try discriminate.
    rewrite Ev in Ht. destruct rx as [v|p]; try discriminate. inversion Ht; subst t. simpl scalar_of in Hw.
    rewrite (fresh_var_spath meth fx x' Hx p Ex) in Hw. simpl spath. rewrite Est.
    destruct st as [f|i|k]; [contradiction| |]; simpl in Hw.
    + destruct (path_get fx (spath x')) as [obj| |]; try discriminate.
      destruct obj as [v|fs|o|xs|kvs]; try discriminate.
      destruct (nth_z xs i) as [dst|]; try discriminate.
      destruct (store_scalar dst nv) as [sv| |]; try discriminate.
      destruct (path_set fx (path_snoc (spath x') (SIndex i)) sv) as [fx0|] eqn:Es; try discriminate.
      inversion Hw; subst. exists sv. exact Es.
    + destruct (path_get fx (spath x')) as [obj| |]; try discriminate.
      destruct obj as [v|fs|o|xs|kvs]; try discriminate.
      destruct (store_map_elem _ _ nv) as [sv| |]; try discriminate.
      destruct (path_set fx (path_snoc (spath x') (SKey k)) sv) as [fx0|] eqn:Es; try discriminate.
      inversion Hw; subst. exists sv. exact Es.
Qed.

Lemma flat_write_frame : forall x fx t nv fx',
  flat_var x = true -> fresh_target meth fx x = Ok t -> write_target fx t nv = Ok fx' ->
  forall y, flat_var y = true -> ~ In x (vars_var y) -> unchanged_var meth fx fx' y.
Proof.
  intros x fx t nv fx' Hx Ht Hw y Hy Hnot.
  apply flat_var_frame; auto. intros z Hz.
  assert (Hzf: flat_var z = true).
  { clear - Hz Hy. revert z Hz. induction y as [r|y' IH g|y' IH sel]; intros z Hz.
    - destruct Hz as [<-|[]]. reflexivity.
    - cbn [vars_var] in Hz. destruct Hz as [<-|Hz]; auto.
    - destruct (flat_cases _ Hy) as [(r0 & E)|(y0 & st & Hy0 & _ & Hin & Hk)]; [discriminate|].
      destruct Hk as [(g0 & E0 & _)|(sel0 & E0 & _)]; [discriminate|]. inversion E0; subst y0 sel0.
      apply Hin in Hz. destruct Hz as [->|Hz]; auto. }
  assert (Hnz: ~ In x (vars_var z)) by (intro Hin; apply Hnot; eapply vars_var_closed; eauto).
  destruct (write_flat fx x nv fx' t Hx Ht Hw) as [(r & w & -> & ->)|(sv & Hs)].
  - apply replace_view. intro E. apply Hnz.
    apply (spath_root_steps z Hzf (VName r) eq_refl); [exact E|]. exists (p_steps (spath z)). reflexivity.
  - eapply write_view; eauto. intros [Hr Hss]. apply Hnz. apply (spath_root_steps z Hzf x Hx Hr Hss).
Qed.

Theorem flat_dependency_hypothesis : dependency_hypothesis rules meth mutating.
Proof.
  intros x fx t nv fx' HNV Hp Ht Hw. pose proof (in_kb_flat okmeth rules _ Hflat HNV) as Hx. simpl in Hx.
  assert (Hframe: forall y, flat_var y = true -> ~ In x (vars_var y) -> unchanged_var meth fx fx' y)
    by (eapply flat_write_frame; eauto).
  destruct (flat_vars_closed okmeth) as [Ce Ca].
  split.
  - intros e HNE _ Hc. pose proof (in_kb_flat okmeth rules _ Hflat HNE) as He. simpl in He.
    assert (Hn: ~ In x (vars_expr e)).
    { intro Hin. specialize (Hc x (or_introl eq_refl)). rewrite (expr_contains_its_vars e x Hin) in Hc. discriminate. }
    destruct (flat_frame meth okmeth ok_stateless ok_not_len fx fx') as [Fe _]. apply (Fe e He).
    intros y Hy Hfy. apply Hframe; auto. intro Hin. apply Hn. eapply Ce; eauto.
  - intros a HNA _ Hc. pose proof (in_kb_flat okmeth rules _ Hflat HNA) as Ha. simpl in Ha.
    assert (Hn: ~ In x (vars_atom a)).
    { intro Hin. specialize (Hc x (or_introl eq_refl)). rewrite (atom_contains_its_vars a x Hin) in Hc. discriminate. }
    destruct (flat_frame meth okmeth ok_stateless ok_not_len fx fx') as [_ Fa]. apply (Fa a Ha).
    intros y Hy Hfy. apply Hframe; auto. intro Hin. apply Hn. eapply Ca; eauto.
Qed.

End Dependency.
