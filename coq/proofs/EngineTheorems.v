(* EngineTheorems.v — the statements of C03, C06, C10, C15 over the abstract
   engine, derived from EngineProofs.v.  Everything is universally quantified
   over the condition/action semantics (cond, act), the rule entries, the
   configuration (budget, error flag, cancellation point) and the map
   iteration order of every pass. *)
From Coq Require Import Permutation.
From Grule Require Import Base EngineGen EngineAbs AnchorsEngine EngineProofs.
Open Scope Z_scope.

Lemma nodup_keys_filter_gen : forall (f : entry -> bool) (l : list entry), NoDup (map e_key l) -> NoDup (map e_key (filter f l)).
Proof.
  intros f l. induction l as [|e l IH]; intros H; simpl; auto.
  inversion H as [|? ? Hn Hd]; subst. destruct (f e); simpl; auto.
  constructor; auto. intro Hin. apply Hn. apply in_map_iff in Hin. destruct Hin as (x & Hx & Hi).
  apply filter_In in Hi. destruct Hi as [Hi _]. apply in_map_iff. exists x; auto.
Qed.

Section Theorems.
Variable U : Type.
Variable cond : U -> entry -> U * cres.
Variable act : U -> entry -> U * list effect * bool.
Variable reset_user : U -> U.
Variable es0 : list entry.
Hypothesis keys_nodup : NoDup (map e_key es0).
Variable c : config.
Variable order : nat -> list entry -> list entry.
Hypothesis order_perm : forall i l, Permutation (order i l) l.

Notation execute := (execute U cond act reset_user).

(* a rule is active after history h iff it is not removed and no action so far retracted its name *)
Definition active (h : list cycle_rec) (e : entry) : bool :=
  negb (retracted_by h (e_name e)) && negb (e_deleted e).

Lemma guard_mark : forall h e, guard (mark h e) = active h e.
Proof.
  intros h e. unfold guard, active, mark, set_retracted; cbn [e_retracted e_deleted e_name].
  generalize (retracted_by h (e_name e)) (e_deleted e). intros r d.
  destruct (eval_guard r d) eqn:E.
  - apply eval_guard_spec in E. destruct E as [-> ->]. reflexivity.
  - destruct r, d; try reflexivity.
    assert (eval_guard false false = true) by (apply eval_guard_spec; auto). congruence.
Qed.

Lemma filter_guard_marked_gen : forall h (l : list entry), filter guard (map (mark h) l) = map (mark h) (filter (active h) l).
Proof.
  intros h l. induction l as [|e l IH]; simpl; auto.
  rewrite guard_mark. destruct (active h e); simpl; rewrite IH; reflexivity.
Qed.
Lemma filter_guard_marked : forall h, filter guard (map (mark h) es0) = map (mark h) (filter (active h) es0).
Proof. intros. apply filter_guard_marked_gen. Qed.

Lemma perm_filter : forall (A : Type) (f : A -> bool) (l l' : list A), Permutation l l' -> Permutation (filter f l) (filter f l').
Proof.
  intros A f l l' H. induction H; simpl; auto.
  - destruct (f x); auto.
  - destruct (f x), (f y); auto. apply perm_swap.
  - eapply perm_trans; eauto.
Qed.

Lemma map_fst_combine_full : forall (A B : Type) (l : list A) (f : list B),
  (List.length l <= List.length f)%nat -> map fst (combine l f) = l.
Proof.
  intros A B l. induction l as [|a l IH]; intros [|b f] H; simpl in *; try lia; auto.
  rewrite IH; auto. lia.
Qed.

Lemma ev_key_mk : forall n (l : list (entry * bool)), map ev_key (map (mk_ev n) l) = map (fun p => e_key (fst p)) l.
Proof. intros. rewrite map_map. apply map_ext. intros [e b]; reflexivity. Qed.

Lemma incl_combine_keys : forall (l : list entry) (f : list bool) k,
  In k (map (fun p => e_key (fst p)) (combine l f)) -> In k (map e_key l).
Proof.
  intros l f k H. apply in_map_iff in H. destruct H as ([e b] & <- & Hin). apply in_combine_l in Hin.
  apply in_map. exact Hin.
Qed.

Lemma nodup_combine_keys : forall (l : list entry) (f : list bool),
  NoDup (map e_key l) -> NoDup (map (fun p => e_key (fst p)) (combine l f)).
Proof.
  induction l as [|e l IH]; intros [|b f] H; simpl; try constructor.
  - inversion H as [|? ? Hn Hd]; subst. intro Hin. apply Hn. eapply incl_combine_keys; eauto.
  - inversion H; subst. apply IH; auto.
Qed.

Lemma nodup_keys_filter : forall (f : entry -> bool) (l : list entry), NoDup (map e_key l) -> NoDup (map e_key (filter f l)).
Proof.
  intros f l. induction l as [|e l IH]; intros H; simpl; auto.
  inversion H as [|? ? Hn Hd]; subst. destruct (f e); simpl; auto.
  constructor; auto. intro Hin. apply Hn. apply in_map_iff in Hin. destruct Hin as (x & Hx & Hi).
  apply filter_In in Hi. destruct Hi as [Hi _]. apply in_map_iff. exists x; auto.
Qed.

Lemma nodup_active_keys : forall i h, NoDup (map e_key (filter guard (order i (map (mark h) es0)))).
Proof.
  intros i h. apply nodup_keys_filter.
  eapply Permutation_NoDup.
  - apply Permutation_map. apply Permutation_sym. apply order_perm.
  - rewrite map_map. simpl. exact keys_nodup.
Qed.

(* ---------------------------------------------------------------- C03 *)
Definition C03_statement : Prop :=
  forall fuel u sf recs o, execute fuel c order u es0 = (sf, recs, o) ->
  forall pre r post, recs = (pre ++ r :: post)%list ->
    (* the cycle record holds at most one execution (by its type); it is a candidate of this cycle with maximal salience *)
    (forall n k, cr_exec r = Some (n, k) ->
       exists e, In e es0 /\ e_key e = k /\ In (n, k, true) (cr_evals r) /\
                 forall e', In e' es0 -> In (n, e_key e', true) (cr_evals r) -> e_sal e' <= e_sal e) /\
    (* every rule is evaluated at most once per cycle *)
    NoDup (map ev_key (cr_evals r)) /\
    (* a further cycle starts only after this cycle's action list was entered (and, act being atomic, left) *)
    (post <> [] -> cr_started r = true).

Theorem C03_proved : C03_statement.
Proof.
  intros fuel u sf recs o H pre r post E.
  pose proof (execute_ok U cond act reset_user es0 keys_nodup c order order_perm _ _ _ _ _ H) as Hok.
  pose proof (run_ok_recs es0 c order _ _ _ _ _ Hok pre r post E) as Hr. simpl in Hr.
  destruct Hr as (Hb & (flags & Hev) & Hex & _).
  split; [|split].
  - intros n k Hk. destruct (Hex n k Hk) as (_ & e & Hin & _ & Hkey & Hc & Hmax).
    apply in_map_iff in Hin. destruct Hin as (e0 & <- & Hin0).
    exists e0. repeat split; auto.
    intros e' He' Hev'. specialize (Hmax (mark pre e') (in_map _ _ _ He') Hev'). exact Hmax.
  - rewrite Hev, ev_key_mk. apply nodup_combine_keys. apply nodup_active_keys.
  - intros Hp. eapply run_ok_nonlast; eauto.
Qed.

(* ---------------------------------------------------------------- C06 *)
Definition nil_outcome (o : outcome) : bool := match o with OQuiescent | OCompleted => true | _ => false end.

Definition C06_statement : Prop :=
  0 <= c_max c ->
  forall fuel u sf recs o, execute fuel c order u es0 = (sf, recs, o) ->
  (* (a) Execute returns: any fuel above MaxCycle suffices *)
  (Z.of_nat fuel > c_max c -> o <> OFuel) /\
  (* (b) at most MaxCycle rules fire *)
  Z.of_nat (List.length (filter cr_started recs)) <= c_max c /\
  (* (c) the cycle-limit error means exactly MaxCycle rules fired and one more candidate was found *)
  (o = OCycleLimit -> exists pre r, recs = (pre ++ [r])%list /\ cr_exec r = None /\
                        Exists (fun x => ev_flag x = true) (cr_evals r) /\ Z.of_nat (List.length pre) = c_max c /\
                        Forall (fun x => cr_started x = true) pre) /\
  (* nil at quiescence: the last pass evaluated every active rule and none was a candidate *)
  (o = OQuiescent -> exists pre r, recs = (pre ++ [r])%list /\ cr_exec r = None /\
                       Forall (fun x => ev_flag x = false) (cr_evals r) /\
                       Permutation (map ev_key (cr_evals r)) (map e_key (filter (active pre) es0))) /\
  (* nil after Complete: the last action list called Complete() *)
  (o = OCompleted -> exists pre r, recs = (pre ++ [r])%list /\ cr_started r = true /\ completes r = true) /\
  (* (d) protocol: cycles numbered 1,2,…; every event of a cycle carries its number; the executed rule was
         reported as candidate; each active rule is evaluated exactly once in every complete pass *)
  (forall pre r post, recs = (pre ++ r :: post)%list ->
     cr_begin r = Z.of_nat (List.length pre) + 1 /\
     Forall (fun x => ev_num x = cr_begin r) (cr_evals r) /\
     (forall n k, cr_exec r = Some (n, k) -> n = cr_begin r /\ In (n, k, true) (cr_evals r)) /\
     NoDup (map ev_key (cr_evals r)) /\
     (forall x, In x (cr_evals r) -> exists e, In e es0 /\ e_key e = ev_key x /\ active pre e = true) /\
     (cr_exec r <> None -> Permutation (map ev_key (cr_evals r)) (map e_key (filter (active pre) es0)))).

Lemma evals_of_active : forall i h (flags : list bool) n x,
  In x (map (mk_ev n) (combine (filter guard (order i (map (mark h) es0))) flags)) ->
  exists e, In e es0 /\ e_key e = ev_key x /\ active h e = true.
Proof.
  intros i h flags n x H. apply in_map_iff in H. destruct H as ([e b] & <- & Hin).
  apply in_combine_l in Hin. apply filter_In in Hin. destruct Hin as [Hin Hg].
  apply (Permutation_in _ (order_perm i _)) in Hin. apply in_map_iff in Hin. destruct Hin as (e0 & <- & Hin0).
  exists e0. rewrite guard_mark in Hg. repeat split; auto.
Qed.

Lemma complete_evals_perm : forall i h (flags : list bool) n,
  (List.length (filter guard (order i (map (mark h) es0))) <= List.length flags)%nat ->
  Permutation (map ev_key (map (mk_ev n) (combine (filter guard (order i (map (mark h) es0))) flags)))
              (map e_key (filter (active h) es0)).
Proof.
  intros i h flags n Hl. rewrite ev_key_mk.
  replace (map (fun p : entry * bool => e_key (fst p)) (combine (filter guard (order i (map (mark h) es0))) flags))
     with (map e_key (map fst (combine (filter guard (order i (map (mark h) es0))) flags))) by (rewrite map_map; reflexivity).
  rewrite map_fst_combine_full by exact Hl.
  eapply perm_trans.
  - apply Permutation_map. apply perm_filter. apply order_perm.
  - rewrite filter_guard_marked, map_map. apply Permutation_refl.
Qed.

Lemma all_started_prefix : forall i h rest o n, run_ok es0 c order i h rest o n ->
  forall pre r, rest = (pre ++ [r])%list -> Forall (fun x => cr_started x = true) pre.
Proof.
  intros i h rest o n Hok pre r E. apply Forall_forall. intros x Hx.
  apply in_split in Hx. destruct Hx as (l1 & l2 & ->).
  rewrite <- app_assoc in E. simpl in E.
  eapply (run_ok_nonlast es0 c order _ _ _ _ _ Hok l1 x (l2 ++ [r])); eauto.
  destruct l2; discriminate.
Qed.

Theorem C06_proved : C06_statement.
Proof.
  intros Hmax fuel u sf recs o H.
  pose proof (execute_ok U cond act reset_user es0 keys_nodup c order order_perm _ _ _ _ _ H) as Hok.
  split; [|split; [|split; [|split; [|split]]]].
  - intros Hf. unfold EngineAbs.execute in H.
    eapply (run_loop_fuel U cond act es0 keys_nodup c order order_perm fuel 0%nat [] _ sf recs o); eauto.
    + apply (init_inv U reset_user es0).
    + simpl. lia.
    + lia.
  - pose proof (run_ok_started_count es0 c order _ _ _ _ _ Hok) as Hc. simpl in Hc. lia.
  - intros ->.
    assert (Hne: recs <> []) by (intro E; subst; inversion Hok).
    destruct (exists_last Hne) as (pre & r & ->).
    destruct (run_ok_last es0 c order _ _ _ _ _ Hok pre r eq_refl) as [E|Hl]; [discriminate|].
    simpl in Hl. destruct Hl as (He & Hx & Hgt & _).
    pose proof (all_started_prefix _ _ _ _ _ Hok pre r eq_refl) as Hst.
    exists pre, r. repeat split; auto.
    pose proof (run_ok_started_count es0 c order _ _ _ _ _ Hok) as Hc. simpl in Hc.
    rewrite filter_app, app_length in Hc.
    assert (List.length (filter cr_started pre) = List.length pre).
    { clear -Hst. induction Hst as [|x l Hx _ IH]; simpl; auto. rewrite Hx. simpl. rewrite IH. reflexivity. }
    lia.
  - intros ->.
    assert (Hne: recs <> []) by (intro E; subst; inversion Hok).
    destruct (exists_last Hne) as (pre & r & ->).
    destruct (run_ok_last es0 c order _ _ _ _ _ Hok pre r eq_refl) as [E|Hl]; [discriminate|].
    simpl in Hl. destruct Hl as (He & Hall & Hlen & _).
    pose proof (run_ok_recs es0 c order _ _ _ _ _ Hok pre r [] eq_refl) as Hr. simpl in Hr.
    destruct Hr as (_ & (flags & Hev) & _).
    exists pre, r. repeat split; auto.
    rewrite Hev. apply complete_evals_perm.
    rewrite Hev, map_length, combine_length in Hlen. lia.
  - intros ->.
    assert (Hne: recs <> []) by (intro E; subst; inversion Hok).
    destruct (exists_last Hne) as (pre & r & ->).
    destruct (run_ok_last es0 c order _ _ _ _ _ Hok pre r eq_refl) as [E|Hl]; [discriminate|].
    simpl in Hl. destruct Hl as (Hs & Hc & _). exists pre, r. auto.
  - intros pre r post E.
    pose proof (run_ok_recs es0 c order _ _ _ _ _ Hok pre r post E) as Hr. simpl in Hr.
    destruct Hr as (Hb & (flags & Hev) & Hex & _ & _ & Hcomp).
    split; [exact Hb|]. split; [|split; [|split; [|split]]].
    + rewrite Hev. apply Forall_forall. intros x Hx. apply in_map_iff in Hx. destruct Hx as ([e b] & <- & _). reflexivity.
    + intros n k Hk. destruct (Hex n k Hk) as (Hn & e & _ & _ & _ & Hc & _). auto.
    + rewrite Hev, ev_key_mk. apply nodup_combine_keys. apply nodup_active_keys.
    + intros x Hx. rewrite Hev in Hx. eapply evals_of_active; eauto.
    + intros Hne. specialize (Hcomp Hne). rewrite Hev. apply complete_evals_perm.
      rewrite Hev, map_length, combine_length in Hcomp. lia.
Qed.


(* ---------------------------------------------------------------- C10 *)
Definition retract_called (r : cycle_rec) (name : string) : Prop := In (FxRetract name) (cr_fx r).

Lemma retracted_by_in : forall h r name, In r h -> retract_called r name -> retracted_by h name = true.
Proof.
  intros h r name Hr Hc. unfold retracted_by. apply existsb_exists. exists r. split; auto.
  apply existsb_exists. exists (FxRetract name). split; auto. simpl. apply String.eqb_refl.
Qed.

Lemma retracted_by_other : forall h name, (forall r, In r h -> ~ retract_called r name) -> retracted_by h name = false.
Proof.
  intros h name H. unfold retracted_by. destruct (existsb _ h) eqn:E; auto.
  apply existsb_exists in E. destruct E as (r & Hr & E). apply existsb_exists in E. destruct E as (fx & Hfx & E).
  destruct fx as [m|]; simpl in E; try discriminate. apply String.eqb_eq in E. subst m. exfalso. eapply H; eauto.
Qed.

Lemma key_unique : forall e1 e2, In e1 es0 -> In e2 es0 -> e_key e1 = e_key e2 -> e1 = e2.
Proof.
  intros e1 e2. generalize keys_nodup. generalize es0 as l.
  induction l as [|y l IH]; intros Hnd H1 H2 Hkk; [inversion H1|].
  inversion Hnd as [|? ? Hn Hd]; subst.
  destruct H1 as [<-|H1]; destruct H2 as [<-|H2]; auto.
  - exfalso. apply Hn. rewrite Hkk. apply in_map; auto.
  - exfalso. apply Hn. rewrite <- Hkk. apply in_map; auto.
Qed.

Lemma run_ok_fuel_incomplete : forall i h rest o n, run_ok es0 c order i h rest o n -> o = OFuel ->
  forall r, In r rest -> completes r = false.
Proof.
  induction 1 as [i h n|i h n Hs|i h r1 o n Hr Hl|i h r1 rest o n Hr Hs Hcp Hrun IH]; intros Eo r Hin.
  - inversion Hin.
  - inversion Hin.
  - subst o. simpl in Hl. contradiction.
  - destruct Hin as [<-|Hin]; auto.
Qed.

Definition C10_statement : Prop :=
  forall fuel u sf recs o, execute fuel c order u es0 = (sf, recs, o) ->
  forall pre r post, recs = (pre ++ r :: post)%list ->
    (* Retract(name) in an earlier firing of this call: the named rule is neither evaluated nor fired any more *)
    (forall r0 name, In r0 pre -> retract_called r0 name ->
       (forall x e, In x (cr_evals r) -> In e es0 -> e_key e = ev_key x -> e_name e <> name) /\
       (forall n k e, cr_exec r = Some (n, k) -> In e es0 -> e_key e = k -> e_name e <> name)) /\
    (* every other rule is unaffected: a rule that is not removed and whose name nobody retracted is evaluated
       in every complete pass (an unknown name therefore changes nothing) *)
    (forall e, In e es0 -> e_deleted e = false -> (forall r0, In r0 pre -> ~ retract_called r0 (e_name e)) ->
       cr_exec r <> None -> In (e_key e) (map ev_key (cr_evals r))) /\
    (* Complete(): the effects of the whole action list were applied, and no further pass follows *)
    (completes r = true -> post = [] /\ (o = OCompleted \/ o = OCtxErr \/ exists k, o = OActErr k false)).

Theorem C10_proved : C10_statement.
Proof.
  intros fuel u sf recs o H pre r post E.
  pose proof (execute_ok U cond act reset_user es0 keys_nodup c order order_perm _ _ _ _ _ H) as Hok.
  pose proof (run_ok_recs es0 c order _ _ _ _ _ Hok pre r post E) as Hr. simpl in Hr.
  destruct Hr as (Hb & (flags & Hev) & Hex & Hst & Hfx & Hcomp).
  split; [|split].
  - intros r0 name Hin Hcall.
    pose proof (retracted_by_in pre r0 name Hin Hcall) as Hret.
    split.
    + intros x e Hx He Hk Hname. rewrite Hev in Hx.
      destruct (evals_of_active _ _ _ _ _ Hx) as (e1 & He1 & Hk1 & Hact).
      assert (e1 = e) by (apply key_unique; auto; congruence).
      subst e1. unfold active in Hact. rewrite Hname, Hret in Hact. discriminate.
    + intros n k e Hk He Hke Hname.
      destruct (Hex n k Hk) as (_ & em & Hem & Hg & Hkm & _).
      apply in_map_iff in Hem. destruct Hem as (e1 & <- & He1).
      rewrite guard_mark in Hg. simpl in Hkm.
      assert (e1 = e) by (apply key_unique; auto; congruence).
      subst e1. unfold active in Hg. rewrite Hname, Hret in Hg. discriminate.
  - intros e He Hdel Hnot Hne.
    specialize (Hcomp Hne).
    assert (Hp: Permutation (map ev_key (cr_evals r)) (map e_key (filter (active pre) es0))).
    { rewrite Hev. apply complete_evals_perm. rewrite Hev, map_length, combine_length in Hcomp. lia. }
    eapply Permutation_in; [apply Permutation_sym; exact Hp|].
    apply in_map. apply filter_In. split; auto.
    unfold active. rewrite Hdel, (retracted_by_other pre (e_name e) Hnot). reflexivity.
  - intros Hc.
    destruct post as [|p post].
    + split; auto.
      destruct (run_ok_last es0 c order _ _ _ _ _ Hok pre r E) as [->|Hl].
      * exfalso. assert (completes r = false).
        { eapply run_ok_fuel_incomplete; eauto. rewrite E. apply in_or_app. right; left; reflexivity. }
        congruence.
      * simpl in Hl. destruct o; simpl in Hl; auto.
        -- destruct Hl as (He & _). assert (cr_started r = false) by (destruct (cr_started r) eqn:S; auto; destruct (Hst eq_refl) as [X _]; congruence).
           unfold completes in Hc. rewrite (Hfx H0) in Hc. discriminate.
        -- destruct Hl as (He & _). assert (cr_started r = false) by (destruct (cr_started r) eqn:S; auto; destruct (Hst eq_refl) as [X _]; congruence).
           unfold completes in Hc. rewrite (Hfx H0) in Hc. discriminate.
        -- destruct Hl as (He & _). assert (cr_started r = false) by (destruct (cr_started r) eqn:S; auto; destruct (Hst eq_refl) as [X _]; congruence).
           unfold completes in Hc. rewrite (Hfx H0) in Hc. discriminate.
        -- destruct ctx.
           ++ destruct Hl as (_ & Hs & _). simpl in Hs. unfold completes in Hc. rewrite (Hfx Hs) in Hc. discriminate.
           ++ right; right. eauto.
        -- contradiction.
    + exfalso. assert (Hp: p :: post <> []) by discriminate.
      destruct (run_ok_nonlast es0 c order _ _ _ _ _ Hok pre r (p :: post) E Hp) as [_ Hcf]. congruence.
Qed.

(* ---------------------------------------------------------------- C15 *)
Definition ctx_outcome (o : outcome) : bool :=
  match o with OCtxErr | OCondErr _ true | OActErr _ true => true | _ => false end.

Definition C15_statement : Prop :=
  forall fuel u sf recs o, execute fuel c order u es0 = (sf, recs, o) ->
  (* (a) an action list is entered only if no ctx.Err() check performed so far has seen the cancellation *)
  (forall r kc, In r recs -> cr_started r = true -> c_cancel c = Some kc -> (cr_act_chk r <= kc)%nat) /\
  (* (b) a context that is cancelled before the call fires no rule at all *)
  (c_cancel c = Some 0%nat -> (1 <= fuel)%nat -> recs = [] /\ o = OCtxErr) /\
  (* (c) nil is returned only if no check, including the one on the exit path, saw a cancelled context *)
  (nil_outcome o = true -> ~ cancel_seen c (s_chk sf)) /\
  (* (d) whenever the engine's own ctx.Err() is returned, some check did see the cancellation *)
  (ctx_outcome o = true -> cancel_seen c (s_chk sf)).

Theorem C15_proved : C15_statement.
Proof.
  intros fuel u sf recs o H.
  pose proof (execute_ok U cond act reset_user es0 keys_nodup c order order_perm _ _ _ _ _ H) as Hok.
  split; [|split; [|split]].
  - intros r kc Hin Hs Hk. apply in_split in Hin. destruct Hin as (pre & post & E).
    pose proof (run_ok_recs es0 c order _ _ _ _ _ Hok pre r post E) as Hr.
    destruct Hr as (_ & _ & _ & Hst & _). destruct (Hst Hs) as (_ & _ & Hc). auto.
  - intros Hc Hf. destruct fuel as [|fuel]; [lia|].
    unfold EngineAbs.execute in H. simpl in H. unfold cycle_step, cancelled in H. rewrite Hc in H. simpl in H.
    inversion H; subst. auto.
  - intros Hn.
    destruct recs as [|r0 recs0] eqn:Er.
    + inversion Hok; subst; simpl in Hn; discriminate.
    + assert (Hne: r0 :: recs0 <> []) by discriminate.
      destruct (exists_last Hne) as (pre & r & Elast). rewrite Elast in Hok.
      destruct (run_ok_last es0 c order _ _ _ _ _ Hok pre r eq_refl) as [->|Hl]; [simpl in Hn; discriminate|].
      destruct o; simpl in Hn; try discriminate; simpl in Hl.
      * destruct Hl as (_ & _ & _ & X). exact X.
      * destruct Hl as (_ & _ & X). exact X.
  - intros Hc.
    destruct recs as [|r0 recs0] eqn:Er.
    + inversion Hok; subst; simpl in Hc; try discriminate. assumption.
    + assert (Hne: r0 :: recs0 <> []) by discriminate.
      destruct (exists_last Hne) as (pre & r & Elast). rewrite Elast in Hok.
      destruct (run_ok_last es0 c order _ _ _ _ _ Hok pre r eq_refl) as [->|Hl]; [simpl in Hc; discriminate|].
      destruct o as [| | | |k [|]|k [|]|]; simpl in Hc; try discriminate; simpl in Hl.
      * exact Hl.
      * destruct Hl as (_ & _ & X). auto.
      * destruct Hl as (_ & _ & X). auto.
Qed.

End Theorems.

(* ---------------------------------------------------------------- C11 *)
Section Fetch.
Variable U : Type.
Variable cond : U -> entry -> U * cres.
Variable reset_user : U -> U.

(* FetchMatchingRules cannot run a rule action: its model does not even take the action semantics as a parameter *)
Definition fetch_signature :
  forall U : Type, (U -> entry -> U * cres) -> (U -> U) -> bool -> (list entry -> list entry) -> U -> list entry -> U * res (list entry)
  := @fetch.

(* evaluate every listed rule once, in order, threading the (memo) state *)
Fixpoint thread (es : list entry) (u : U) : list (entry * cres) * U :=
  match es with
  | [] => ([], u)
  | e :: es' => let '(u', r) := cond u e in let '(l, u'') := thread es' u' in ((e, r) :: l, u'')
  end.

Definition is_true (r : cres) : bool := match r with CTrue => true | _ => false end.
Definition is_err (r : cres) : bool := match r with CErr => true | _ => false end.
Definition fguard (e : entry) : bool := fetch_guard (e_retracted e) (e_deleted e).

Lemma fetch_loop_spec : forall reterr es u acc u' acc' err,
  (forall e, In e es -> e_retracted e = false) ->
  fetch_loop U cond reterr es u acc = (u', acc', err) ->
  match err with
  | None => acc' = (acc ++ map fst (filter (fun p => is_true (snd p)) (fst (thread (filter fguard es) u))))%list /\
            u' = snd (thread (filter fguard es) u) /\
            (reterr = true -> forallb (fun p => negb (is_err (snd p))) (fst (thread (filter fguard es) u)) = true)
  | Some k => reterr = true /\ existsb (fun p => is_err (snd p)) (fst (thread (filter fguard es) u)) = true
  end.
Proof.
  intros reterr es. induction es as [|e es IH]; intros u acc u' acc' err Hr H; simpl in H.
  - inversion H; subst. simpl. rewrite app_nil_r. auto.
  - assert (Hr': forall x, In x es -> e_retracted x = false) by (intros; apply Hr; right; auto).
    simpl filter. change (fguard e) with (fetch_guard (e_retracted e) (e_deleted e)).
    destruct (fetch_guard (e_retracted e) (e_deleted e)) eqn:Eg.
    2:{ apply IH in H; auto. }
    rewrite (Hr e (or_introl eq_refl)) in H.
    simpl thread. destruct (cond u e) as [u1 r] eqn:Ec.
    destruct (thread (filter fguard es) u1) as [l u2] eqn:Et.
    destruct r; simpl.
    + apply IH in H; auto. rewrite Et in H. destruct err; simpl in *; auto.
      destruct H as (A & B & C). rewrite A, <- app_assoc. auto.
    + apply IH in H; auto. rewrite Et in H. destruct err; simpl in *; auto.
    + destruct reterr.
      * inversion H; subst. auto.
      * apply IH in H; auto. rewrite Et in H. destruct err; simpl in *; auto.
        -- destruct H; discriminate.
        -- destruct H as (A & B & C). repeat split; auto; try discriminate.
Qed.

Definition ge_sal (a b : entry) : Prop := e_sal a >= e_sal b.

Lemma insert_perm : forall x l, Permutation (insert_stable x l) (x :: l).
Proof.
  intros x l. induction l as [|y l IH]; simpl; auto.
  destruct (fetch_before (e_sal y) (e_sal x)); auto.
  eapply perm_trans; [apply perm_skip; exact IH|]. apply perm_swap.
Qed.

Lemma sort_perm : forall l, Permutation (sort_stable l) l.
Proof.
  induction l as [|x l IH]; simpl; auto.
  eapply perm_trans; [apply insert_perm|]. apply perm_skip. exact IH.
Qed.

Lemma insert_sorted : forall x l, Sorted.StronglySorted ge_sal l -> Sorted.StronglySorted ge_sal (insert_stable x l).
Proof.
  intros x l H. induction H as [|y l Hs IH Hall]; simpl.
  - constructor; constructor.
  - destruct (fetch_before (e_sal y) (e_sal x)) eqn:E.
    + apply fetch_before_sound in E. constructor; auto.
      eapply Permutation_Forall; [apply Permutation_sym; apply insert_perm|].
      constructor; auto.
    + assert (Hxy: e_sal x >= e_sal y).
      { destruct (Z_ge_lt_dec (e_sal x) (e_sal y)) as [G|L]; auto.
        assert (fetch_before (e_sal y) (e_sal x) = true) by (apply fetch_before_complete; lia). congruence. }
      constructor.
      * constructor; auto.
      * constructor; auto. eapply Forall_impl; [|exact Hall]. unfold ge_sal. intros a Ha. lia.
Qed.

Lemma sort_sorted : forall l, Sorted.StronglySorted ge_sal (sort_stable l).
Proof. induction l as [|x l IH]; simpl; [constructor|]. apply insert_sorted; auto. Qed.

Definition C11_statement : Prop :=
  forall reterr (ord : list entry -> list entry) u es u' result,
  (forall l, Permutation (ord l) l) -> NoDup (map e_key es) ->
  fetch U cond reset_user reterr ord u es = (u', result) ->
  (* the rules examined: every rule that is not removed, once, in map order; each evaluated on the reset memo state *)
  let examined := filter fguard (ord (unretract es)) in
  let results := fst (thread examined (reset_user u)) in
  match result with
  | Ok l =>
      (* exactly the rules whose condition evaluated to true, each once *)
      Permutation l (map fst (filter (fun p => is_true (snd p)) results)) /\
      NoDup (map e_key l) /\
      (forall e, In e l -> e_deleted e = false) /\
      (* in non-increasing salience order *)
      Sorted.StronglySorted ge_sal l /\
      (* with the flag set, success means no condition failed *)
      (reterr = true -> forallb (fun p => negb (is_err (snd p))) results = true)
  | Err => reterr = true /\ existsb (fun p => is_err (snd p)) results = true
  | Panic => False
  end.

Lemma unretract_flags : forall es e, In e (unretract es) -> e_retracted e = false.
Proof. intros es e H. apply in_map_iff in H. destruct H as (x & <- & _). reflexivity. Qed.

Lemma thread_fst : forall es u, map fst (fst (thread es u)) = es.
Proof.
  induction es as [|e es IH]; intros u; simpl; auto.
  destruct (cond u e) as [u1 r]. specialize (IH u1). destruct (thread es u1) as [l u2]. simpl in *. rewrite IH. reflexivity.
Qed.

Theorem C11_proved : C11_statement.
Proof.
  intros reterr ord u es u' result Hperm Hnd H examined results.
  unfold fetch in H.
  destruct (fetch_loop U cond reterr (ord (unretract es)) (reset_user u) []) as [[u1 matched] err] eqn:El.
  assert (Hflags: forall e, In e (ord (unretract es)) -> e_retracted e = false).
  { intros e He. apply (Permutation_in _ (Hperm _)) in He. eapply unretract_flags; eauto. }
  pose proof (fetch_loop_spec _ _ _ _ _ _ _ Hflags El) as Hs.
  destruct err as [k|].
  - inversion H; subst. exact Hs.
  - inversion H; subst. simpl in Hs. destruct Hs as (Hm & _ & Herr).
    fold examined in Hm, Herr. fold results in Hm, Herr.
    assert (Hsub: forall e, In e matched -> In e examined).
    { intros e He. rewrite Hm in He. apply in_map_iff in He. destruct He as ([e1 r] & <- & Hin).
      apply filter_In in Hin. destruct Hin as [Hin _].
      assert (In e1 (map fst results)) by (apply in_map_iff; exists (e1, r); auto).
      unfold results in H0. rewrite thread_fst in H0. exact H0. }
    assert (Hndm: NoDup (map e_key matched)).
    { rewrite Hm. 
      assert (Hnr: NoDup (map e_key (map fst results))).
      { unfold results. rewrite thread_fst. unfold examined. apply nodup_keys_filter_gen.
        eapply Permutation_NoDup; [apply Permutation_map; apply Permutation_sym; apply Hperm|].
        unfold unretract. rewrite map_map. simpl. exact Hnd. }
      clear -Hnr. induction results as [|[e r] l IH]; simpl in *; [constructor|].
      inversion Hnr as [|? ? Hn Hd]; subst. destruct (is_true r); simpl; auto.
      constructor; auto. intro Hin. apply Hn. apply in_map_iff in Hin. destruct Hin as (x & Hx & Hi).
      apply in_map_iff in Hi. destruct Hi as (p & <- & Hp). apply filter_In in Hp. destruct Hp as [Hp _].
      rewrite <- Hx. apply in_map. apply in_map. exact Hp. }
    assert (Hdel: forall e, In e matched -> e_deleted e = false).
    { intros e He. apply Hsub in He. apply filter_In in He. destruct He as [_ Hg]. unfold fguard in Hg. apply fetch_guard_spec in Hg. exact Hg. }
    destruct matched as [|a [|b rest]].
    + repeat split; auto. * rewrite <- Hm; auto. * constructor.
    + repeat split; auto. * rewrite <- Hm; auto. * constructor; constructor.
    + pose proof (sort_perm (a :: b :: rest)) as Hp.
      repeat split; auto.
      * rewrite <- Hm. exact Hp.
      * eapply Permutation_NoDup; [apply Permutation_map; apply Permutation_sym; exact Hp|exact Hndm].
      * intros e He. apply Hdel. eapply Permutation_in; eauto.
      * apply sort_sorted.
Qed.

End Fetch.
