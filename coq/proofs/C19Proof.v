(* C19Proof.v — the six comparison operators of the GENERATED ArithGen.v are
   mutually consistent and depend on operand values only. *)
From Coq Require Import Floats SpecFloat.
From Flocq Require Import IEEE754.BinarySingleNaN IEEE754.PrimFloat.
From Grule Require Import Base Values CmpGen.
Open Scope Z_scope.

Inductive cmpop := CLt | CEq | CGt | CLe | CGe | CNe.

Definition of_cmp (op : cmpop) (c : comparison) : bool :=
  match op, c with
  | CLt, Lt | CEq, Eq | CGt, Gt => true
  | CLe, Lt | CLe, Eq | CGe, Gt | CGe, Eq | CNe, Lt | CNe, Gt => true
  | _, _ => false
  end.

Definition evalop (op : cmpop) : val -> val -> res val :=
  match op with
  | CLt => EvaluateLesserThan
  | CEq => EvaluateEqual
  | CGt => EvaluateGreaterThan
  | CLe => EvaluateLesserThanEqual
  | CGe => EvaluateGreaterThanEqual
  | CNe => EvaluateNotEqual
  end.

(* ---- the value an operand denotes, whatever its width, signedness, wrapping
        in pointers/interfaces, location ---- *)
Inductive nv := NZ (z : Z) | NF (f : float).
Inductive av := ANum (n : nv) | AStr (s : string) | ABool (b : bool) | ATime (inst : Z).

Definition fcompare (x y : float) : option comparison := SFcompare (Prim2SF x) (Prim2SF y).

Definition nv_compare (a b : nv) : option comparison :=
  match a, b with
  | NZ x, NZ y => Some (x ?= y)
  | NZ x, NF g => fcompare (f64_of_i64 x) g
  | NF f, NZ y => fcompare f (f64_of_i64 y)
  | NF f, NF g => fcompare f g
  end.

Definition av_compare (a b : av) : option comparison :=
  match a, b with
  | ANum x, ANum y => nv_compare x y
  | AStr x, AStr y => Some (String.compare x y)
  | ATime x, ATime y => Some (x ?= y)
  | _, _ => None
  end.

Definition is_uptr (k : ukind) : bool := match k with Uptr => true | _ => false end.

(* Domain of the property: integers inside the int64 range (so unsigned values
   below 2^63), floats that are not NaN, strings, booleans, times; possibly
   behind pointers and interfaces.  uintptr is not a numeric width of the GRL
   documentation and is rejected by the implementation. *)
Definition abs_elem (v : val) : option av :=
  match v with
  | VInt _ z => if in_i64b z then Some (ANum (NZ z)) else None
  | VUint k z => if is_uptr k then None
                 else if (0 <=? z) && (z <? two63) then Some (ANum (NZ z)) else None
  | VFloat _ f => if f_is_nan f then None else Some (ANum (NF f))
  | VStr s => Some (AStr s)
  | VBool b => Some (ABool b)
  | VTime t => Some (ATime (t_inst t))
  | _ => None
  end.
Definition abs (v : val) : option av := abs_elem (get_value_elem v).

Definition same_family (x y : av) : bool :=
  match x, y with
  | ANum _, ANum _ | AStr _, AStr _ | ABool _, ABool _ | ATime _, ATime _ => true
  | _, _ => false
  end.
Definition ordered (x : av) : bool := match x with ABool _ => false | _ => true end.

(* ---- floats: the three-way comparison is total and antisymmetric off NaN ---- *)
Lemma SFcompare_swap : forall x y,
  SFcompare y x = match SFcompare x y with Some c => Some (CompOpp c) | None => None end.
Proof.
  intros x y.
  destruct x as [ ? | [] | | [] mx ex ]; destruct y as [ ? | [] | | [] my ey ]; simpl; try easy.
  - rewrite <- (Zcompare_antisym ex ey). destruct (ex ?= ey)%Z; try easy.
    now rewrite (Pcompare_antisym mx my).
  - rewrite <- (Zcompare_antisym ex ey). destruct (ex ?= ey)%Z; try easy.
    now rewrite Pcompare_antisym.
Qed.

Lemma fcompare_swap : forall x y,
  fcompare y x = match fcompare x y with Some c => Some (CompOpp c) | None => None end.
Proof. intros; apply SFcompare_swap. Qed.

Lemma not_nan_SF : forall x, f_is_nan x = false -> Prim2SF x <> S754_nan.
Proof.
  unfold f_is_nan. intros x H E. rewrite FloatAxioms.eqb_spec, E in H. simpl in H. discriminate.
Qed.

Lemma SF_not_nan_is_nan : forall x, Prim2SF x <> S754_nan -> f_is_nan x = false.
Proof.
  unfold f_is_nan. intros x H. rewrite FloatAxioms.eqb_spec. unfold SFeqb.
  destruct (Prim2SF x) as [ ? | [] | | [] m e ]; simpl; try easy.
  all: rewrite Z.compare_refl, Pos.compare_refl; reflexivity.
Qed.

Lemma fcompare_total : forall x y, f_is_nan x = false -> f_is_nan y = false ->
  exists c, fcompare x y = Some c.
Proof.
  intros x y Hx Hy. apply not_nan_SF in Hx. apply not_nan_SF in Hy. unfold fcompare.
  destruct (Prim2SF x) as [ ? | [] | | [] mx ex ]; destruct (Prim2SF y) as [ ? | [] | | [] my ey ];
    simpl; try congruence; eauto.
Qed.

(* Go's float comparisons in terms of the three-way comparison *)
Lemma f_ops_of_fcompare : forall x y c, fcompare x y = Some c ->
  f_lt x y = of_cmp CLt c /\ f_eq x y = of_cmp CEq c /\ f_gt x y = of_cmp CGt c /\
  f_le x y = of_cmp CLe c /\ f_ge x y = of_cmp CGe c /\ f_ne x y = of_cmp CNe c.
Proof.
  intros x y c H.
  pose proof (fcompare_swap x y) as Hs. rewrite H in Hs.
  unfold f_lt, f_eq, f_gt, f_le, f_ge, f_ne.
  rewrite !FloatAxioms.ltb_spec, !FloatAxioms.leb_spec, !FloatAxioms.eqb_spec. unfold SFltb, SFleb, SFeqb.
  unfold fcompare in *. rewrite H, Hs. destruct c; simpl; repeat split; reflexivity.
Qed.

(* int -> float conversion never yields NaN *)
Lemma of_uint63_not_nan : forall n, f_is_nan (PrimFloat.of_uint63 n) = false.
Proof.
  intros n. apply SF_not_nan_is_nan. rewrite <- B2SF_Prim2B.
  rewrite of_int63_equiv.
  pose proof (binary_normalize_correct prec emax Hprec Hmax mode_NE (Uint63.to_Z n) 0 false) as H.
  cbv zeta in H.
  destruct (Raux.Rlt_bool _ _) in H.
  - destruct H as (_ & Hf & _).
    destruct (binary_normalize _ _ _ _ _ _ _ _); simpl in *; congruence.
  - rewrite H. intro E.
    match type of E with binary_overflow _ _ _ ?b = _ =>
      pose proof (is_nan_binary_overflow prec emax mode_NE b) as Hn end.
    rewrite E in Hn. discriminate.
Qed.

Lemma opp_not_nan : forall x, f_is_nan x = false -> f_is_nan (PrimFloat.opp x) = false.
Proof.
  intros x H. apply SF_not_nan_is_nan. apply not_nan_SF in H. rewrite FloatAxioms.opp_spec.
  destruct (Prim2SF x); simpl; congruence.
Qed.

Lemma f64_of_i64_not_nan : forall z, in_i64b z = true -> f_is_nan (f64_of_i64 z) = false.
Proof.
  intros z Hz. unfold in_i64b in Hz. apply andb_prop in Hz. destruct Hz as [Hlo Hhi].
  apply Z.leb_le in Hlo. apply Z.ltb_lt in Hhi.
  unfold f64_of_i64.
  destruct (0 <=? z) eqn:E0.
  - unfold f64_of_u64. replace (z <? two63) with true by (symmetry; apply Z.ltb_lt; lia).
    apply of_uint63_not_nan.
  - apply Z.leb_gt in E0. apply opp_not_nan.
    destruct (Z.eq_dec z (- two63)) as [->|Hne].
    + vm_compute. reflexivity.
    + unfold f64_of_u64. replace (- z <? two63) with true by (symmetry; apply Z.ltb_lt; lia).
      apply of_uint63_not_nan.
Qed.

(* ---- three-way comparison of denoted values: total and antisymmetric ---- *)
Definition nv_ok (n : nv) : Prop :=
  match n with NZ z => in_i64b z = true | NF f => f_is_nan f = false end.
Definition av_ok (a : av) : Prop := match a with ANum n => nv_ok n | _ => True end.

Lemma abs_elem_ok : forall v x, abs_elem v = Some x -> av_ok x.
Proof.
  intros v x H. destruct v as [k z|k z|k f|s|b|t| |o|o|k ty]; simpl in H; try discriminate.
  - destruct (in_i64b z) eqn:E; inversion H; subst; exact E.
  - destruct (is_uptr k); try discriminate.
    destruct ((0 <=? z) && (z <? two63)) eqn:E; inversion H; subst. simpl.
    apply andb_prop in E. destruct E as [E1 E2]. apply Z.leb_le in E1. apply Z.ltb_lt in E2.
    unfold in_i64b. apply andb_true_intro. split; [apply Z.leb_le | apply Z.ltb_lt]; unfold two63 in *; lia.
  - destruct (f_is_nan f) eqn:E; inversion H; subst; exact E.
  - inversion H; exact I.
  - inversion H; exact I.
  - inversion H; exact I.
Qed.

Lemma av_compare_total : forall x y, av_ok x -> av_ok y -> same_family x y = true -> ordered x = true ->
  exists c, av_compare x y = Some c /\ av_compare y x = Some (CompOpp c).
Proof.
  intros x y Hx Hy Hf Ho.
  destruct x as [nx|sx|bx|tx]; destruct y as [ny|sy|by_|ty]; simpl in Hf, Ho; try discriminate.
  - assert (Hex: exists c, nv_compare nx ny = Some c).
    { destruct nx as [zx|fx]; destruct ny as [zy|fy]; simpl in *.
      + eauto.
      + apply fcompare_total; auto using f64_of_i64_not_nan.
      + apply fcompare_total; auto using f64_of_i64_not_nan.
      + apply fcompare_total; auto. }
    destruct Hex as [c Hc]. exists c. split; [exact Hc|].
    destruct nx as [zx|fx]; destruct ny as [zy|fy]; simpl in *.
    + inversion Hc; subst. now rewrite Z.compare_antisym.
    + rewrite fcompare_swap, Hc; reflexivity.
    + rewrite fcompare_swap, Hc; reflexivity.
    + rewrite fcompare_swap, Hc; reflexivity.
  - simpl. exists (String.compare sx sy). split; [reflexivity|].
    now rewrite String.compare_antisym.
  - simpl. exists (tx ?= ty). split; [reflexivity|]. now rewrite Z.compare_antisym.
Qed.

(* ---- the generated functions compute of_cmp of the three-way comparison ---- *)
Lemma Zcmp_ops : forall x y,
  (x <? y) = of_cmp CLt (x ?= y) /\ (x =? y) = of_cmp CEq (x ?= y) /\ (x >? y) = of_cmp CGt (x ?= y) /\
  (x <=? y) = of_cmp CLe (x ?= y) /\ (x >=? y) = of_cmp CGe (x ?= y) /\ negb (x =? y) = of_cmp CNe (x ?= y).
Proof.
  intros. unfold Z.ltb, Z.gtb, Z.leb, Z.geb.
  destruct (Z.compare_spec x y) as [E|E|E]; simpl.
  - subst. rewrite Z.eqb_refl. repeat split; reflexivity.
  - replace (x =? y) with false by (symmetry; apply Z.eqb_neq; lia). repeat split; reflexivity.
  - replace (x =? y) with false by (symmetry; apply Z.eqb_neq; lia). repeat split; reflexivity.
Qed.

Lemma string_compare_refl : forall s, String.compare s s = Eq.
Proof.
  induction s as [|c s IH]; simpl; auto.
  unfold Ascii.compare. rewrite N.compare_refl. exact IH.
Qed.

Lemma Scmp_ops : forall x y,
  s_lt x y = of_cmp CLt (String.compare x y) /\ s_eq x y = of_cmp CEq (String.compare x y) /\
  s_gt x y = of_cmp CGt (String.compare x y) /\ s_le x y = of_cmp CLe (String.compare x y) /\
  s_ge x y = of_cmp CGe (String.compare x y) /\ s_ne x y = of_cmp CNe (String.compare x y).
Proof.
  intros. unfold s_lt, s_eq, s_gt, s_le, s_ge, s_ne, String.ltb, String.leb.
  rewrite (String.compare_antisym y x).
  assert (He: String.eqb x y = match String.compare x y with Eq => true | _ => false end).
  { destruct (String.compare x y) eqn:E.
    - apply String.compare_eq_iff in E. subst. apply String.eqb_refl.
    - apply String.eqb_neq. intros ->. rewrite string_compare_refl in E. discriminate.
    - apply String.eqb_neq. intros ->. rewrite string_compare_refl in E. discriminate. }
  rewrite He. destruct (String.compare x y); simpl; repeat split; reflexivity.
Qed.

Lemma wrap64_id : forall z, in_i64b z = true -> wrap64 z = z.
Proof.
  intros z H. unfold in_i64b in H. apply andb_prop in H. destruct H as [H1 H2].
  apply Z.leb_le in H1. apply Z.ltb_lt in H2. unfold wrap64.
  rewrite Z.mod_small; unfold two64, two63 in *; lia.
Qed.

Lemma f64_of_i64_nonneg : forall z, 0 <= z -> f64_of_i64 z = f64_of_u64 z.
Proof. intros z H. unfold f64_of_i64. replace (0 <=? z) with true by (symmetry; apply Z.leb_le; exact H). reflexivity. Qed.

Lemma time_ops : forall a b,
  time_before a b = of_cmp CLt (t_inst a ?= t_inst b) /\
  time_equal a b = of_cmp CEq (t_inst a ?= t_inst b) /\
  time_after a b = of_cmp CGt (t_inst a ?= t_inst b).
Proof.
  intros. unfold time_before, time_equal, time_after.
  destruct (Zcmp_ops (t_inst a) (t_inst b)) as (H1&H2&H3&_). auto.
Qed.

(* Every leaf of the six generated comparison tables is of_cmp of the
   three-way comparison of the denoted values.  This is the obligation that is
   re-checked against the regenerated ArithGen.v on every run. *)
Lemma cmp_sound_elem : forall op a b x y c,
  abs_elem a = Some x -> abs_elem b = Some y -> av_compare x y = Some c ->
  forall a' b', get_value_elem a' = a -> get_value_elem b' = b ->
  evalop op a' b' = Ok (VBool (of_cmp op c)).
Proof.
  intros op a b x y c Ha Hb Hc a' b' Ea Eb.
  destruct a as [ka za|ka za|ka fa|sa|ba|ta| |oa|oa|ka tya]; simpl in Ha; try discriminate;
  destruct b as [kb zb|kb zb|kb fb|sb|bb|tb| |ob|ob|kb tyb]; simpl in Hb; try discriminate.
  all: repeat match goal with
       | H : (if ?c then _ else _) = Some _ |- _ => destruct c eqn:?; try discriminate
       end.
  all: inversion Ha; subst x; inversion Hb; subst y; simpl in Hc; try discriminate.
  all: repeat match goal with
       | H : (_ && _)%bool = true |- _ => apply andb_prop in H; destruct H
       | H : (_ <=? _) = true |- _ => apply Z.leb_le in H
       | H : (_ <? _) = true |- _ => apply Z.ltb_lt in H
       end.
  (* int/int *)
  - inversion Hc; subst c. destruct (Zcmp_ops za zb) as (?&?&?&?&?&?).
    destruct op; unfold evalop; cbv beta delta [EvaluateLesserThan EvaluateEqual EvaluateGreaterThan EvaluateLesserThanEqual EvaluateGreaterThanEqual EvaluateNotEqual] zeta; rewrite Ea, Eb;
    destruct ka, kb; cbn [kind_of kind_of_ikind as_int]; unfold of_bool; congruence.
  (* int/uint *)
  - inversion Hc; subst c. destruct (Zcmp_ops za zb) as (?&?&?&?&?&?).
    assert (Hw: i64_of_u64 zb = zb) by (apply wrap64_id; unfold in_i64b; apply andb_true_intro; split; [apply Z.leb_le|apply Z.ltb_lt]; unfold two63 in *; lia).
    destruct op; unfold evalop; cbv beta delta [EvaluateLesserThan EvaluateEqual EvaluateGreaterThan EvaluateLesserThanEqual EvaluateGreaterThanEqual EvaluateNotEqual] zeta; rewrite Ea, Eb;
    destruct ka, kb; try discriminate; cbn [kind_of kind_of_ikind kind_of_ukind as_int as_uint]; unfold of_bool; rewrite Hw; congruence.
  (* int/float *)
  - destruct (f_ops_of_fcompare _ _ _ Hc) as (?&?&?&?&?&?).
    destruct op; unfold evalop; cbv beta delta [EvaluateLesserThan EvaluateEqual EvaluateGreaterThan EvaluateLesserThanEqual EvaluateGreaterThanEqual EvaluateNotEqual] zeta; rewrite Ea, Eb;
    destruct ka, kb; cbn [kind_of kind_of_ikind kind_of_fkind as_int as_float]; unfold of_bool; congruence.
  (* uint/int *)
  - inversion Hc; subst c. destruct (Zcmp_ops za zb) as (?&?&?&?&?&?).
    assert (Hw: i64_of_u64 za = za) by (apply wrap64_id; unfold in_i64b; apply andb_true_intro; split; [apply Z.leb_le|apply Z.ltb_lt]; unfold two63 in *; lia).
    destruct op; unfold evalop; cbv beta delta [EvaluateLesserThan EvaluateEqual EvaluateGreaterThan EvaluateLesserThanEqual EvaluateGreaterThanEqual EvaluateNotEqual] zeta; rewrite Ea, Eb;
    destruct ka, kb; try discriminate; cbn [kind_of kind_of_ikind kind_of_ukind as_int as_uint]; unfold of_bool; rewrite Hw; congruence.
  (* uint/uint *)
  - inversion Hc; subst c. destruct (Zcmp_ops za zb) as (?&?&?&?&?&?).
    destruct op; unfold evalop; cbv beta delta [EvaluateLesserThan EvaluateEqual EvaluateGreaterThan EvaluateLesserThanEqual EvaluateGreaterThanEqual EvaluateNotEqual] zeta; rewrite Ea, Eb;
    destruct ka, kb; try discriminate; cbn [kind_of kind_of_ukind as_uint]; unfold of_bool; congruence.
  (* uint/float *)
  - rewrite f64_of_i64_nonneg in Hc by assumption.
    destruct (f_ops_of_fcompare _ _ _ Hc) as (?&?&?&?&?&?).
    destruct op; unfold evalop; cbv beta delta [EvaluateLesserThan EvaluateEqual EvaluateGreaterThan EvaluateLesserThanEqual EvaluateGreaterThanEqual EvaluateNotEqual] zeta; rewrite Ea, Eb;
    destruct ka, kb; try discriminate; cbn [kind_of kind_of_ukind kind_of_fkind as_uint as_float]; unfold of_bool; congruence.
  (* float/int *)
  - destruct (f_ops_of_fcompare _ _ _ Hc) as (?&?&?&?&?&?).
    destruct op; unfold evalop; cbv beta delta [EvaluateLesserThan EvaluateEqual EvaluateGreaterThan EvaluateLesserThanEqual EvaluateGreaterThanEqual EvaluateNotEqual] zeta; rewrite Ea, Eb;
    destruct ka, kb; cbn [kind_of kind_of_ikind kind_of_fkind as_int as_float]; unfold of_bool; congruence.
  (* float/uint *)
  - rewrite f64_of_i64_nonneg in Hc by assumption.
    destruct (f_ops_of_fcompare _ _ _ Hc) as (?&?&?&?&?&?).
    destruct op; unfold evalop; cbv beta delta [EvaluateLesserThan EvaluateEqual EvaluateGreaterThan EvaluateLesserThanEqual EvaluateGreaterThanEqual EvaluateNotEqual] zeta; rewrite Ea, Eb;
    destruct ka, kb; try discriminate; cbn [kind_of kind_of_ukind kind_of_fkind as_uint as_float]; unfold of_bool; congruence.
  (* float/float *)
  - destruct (f_ops_of_fcompare _ _ _ Hc) as (?&?&?&?&?&?).
    destruct op; unfold evalop; cbv beta delta [EvaluateLesserThan EvaluateEqual EvaluateGreaterThan EvaluateLesserThanEqual EvaluateGreaterThanEqual EvaluateNotEqual] zeta; rewrite Ea, Eb;
    destruct ka, kb; cbn [kind_of kind_of_fkind as_float]; unfold of_bool; congruence.
  (* string/string *)
  - inversion Hc; subst c. destruct (Scmp_ops sa sb) as (?&?&?&?&?&?).
    destruct op; unfold evalop; cbv beta delta [EvaluateLesserThan EvaluateEqual EvaluateGreaterThan EvaluateLesserThanEqual EvaluateGreaterThanEqual EvaluateNotEqual] zeta; rewrite Ea, Eb;
    cbn [kind_of as_string]; unfold of_bool; congruence.
  (* time/time *)
  - inversion Hc; subst c. destruct (time_ops ta tb) as (H1&H2&H3).
    destruct op; unfold evalop; cbv beta delta [EvaluateLesserThan EvaluateEqual EvaluateGreaterThan EvaluateLesserThanEqual EvaluateGreaterThanEqual EvaluateNotEqual] zeta; rewrite Ea, Eb;
    cbn [kind_of type_is_time as_time]; unfold of_bool; rewrite ?H1, ?H2, ?H3; destruct (t_inst ta ?= t_inst tb); reflexivity.
Qed.

Lemma cmp_sound : forall op a b x y c,
  abs a = Some x -> abs b = Some y -> av_compare x y = Some c ->
  evalop op a b = Ok (VBool (of_cmp op c)).
Proof.
  intros op a b x y c Ha Hb Hc.
  eapply (cmp_sound_elem op _ _ x y c Ha Hb Hc); reflexivity.
Qed.

Definition bool_result (op : cmpop) (x y : bool) : res val :=
  match op with
  | CEq => Ok (VBool (Bool.eqb x y))
  | CNe => Ok (VBool (negb (Bool.eqb x y)))
  | _ => Err
  end.

Lemma bool_sound : forall op a b x y,
  abs a = Some (ABool x) -> abs b = Some (ABool y) -> evalop op a b = bool_result op x y.
Proof.
  unfold abs. intros op a b x y Ha Hb.
  destruct (get_value_elem a) as [ka za|ka za|ka fa|sa|ba|ta| |oa|oa|ka tya] eqn:Ea; simpl in Ha; try discriminate;
  repeat match goal with H : (if ?c then _ else _) = Some _ |- _ => destruct c; try discriminate end.
  destruct (get_value_elem b) as [kb zb|kb zb|kb fb|sb|bb|tb| |ob|ob|kb tyb] eqn:Eb; simpl in Hb; try discriminate;
  repeat match goal with H : (if ?c then _ else _) = Some _ |- _ => destruct c; try discriminate end.
  inversion Ha; inversion Hb; subst.
  destruct op; unfold evalop; cbv beta delta [EvaluateLesserThan EvaluateEqual EvaluateGreaterThan EvaluateLesserThanEqual EvaluateGreaterThanEqual EvaluateNotEqual] zeta;
    rewrite Ea, Eb; reflexivity.
Qed.

Definition exactly_one (a b c : bool) : bool :=
  (a && negb b && negb c) || (negb a && b && negb c) || (negb a && negb b && c).

(* ---- the property ---- *)
Definition C19_ordered_statement : Prop :=
  forall a b x y, abs a = Some x -> abs b = Some y -> same_family x y = true -> ordered x = true ->
  exists lt eq gt,
    evalop CLt a b = Ok (VBool lt) /\ evalop CEq a b = Ok (VBool eq) /\ evalop CGt a b = Ok (VBool gt) /\
    exactly_one lt eq gt = true /\
    evalop CLe a b = Ok (VBool (lt || eq)) /\ evalop CGe a b = Ok (VBool (gt || eq)) /\
    evalop CNe a b = Ok (VBool (negb eq)) /\
    (* swapping the operands mirrors the outcome *)
    evalop CGt b a = Ok (VBool lt) /\ evalop CEq b a = Ok (VBool eq) /\ evalop CLt b a = Ok (VBool gt) /\
    evalop CGe b a = Ok (VBool (lt || eq)) /\ evalop CLe b a = Ok (VBool (gt || eq)) /\
    evalop CNe b a = Ok (VBool (negb eq)).

Definition C19_bool_statement : Prop :=
  forall a b x y, abs a = Some (ABool x) -> abs b = Some (ABool y) ->
  exists eq,
    evalop CEq a b = Ok (VBool eq) /\ evalop CNe a b = Ok (VBool (negb eq)) /\
    evalop CEq b a = Ok (VBool eq) /\ evalop CNe b a = Ok (VBool (negb eq)).

(* the outcome is a function of the denoted values only: operands of any
   width / signedness / wrapping / location / monotonic reading that denote the
   same values give the same result, for each operator *)
Definition C19_value_only_statement : Prop :=
  forall op a a' b b' x y, abs a = Some x -> abs a' = Some x -> abs b = Some y -> abs b' = Some y ->
  same_family x y = true -> evalop op a b = evalop op a' b'.

Theorem C19_ordered_proved : C19_ordered_statement.
Proof.
  intros a b x y Ha Hb Hf Ho.
  assert (Hx: av_ok x) by (eapply abs_elem_ok; exact Ha).
  assert (Hy: av_ok y) by (eapply abs_elem_ok; exact Hb).
  destruct (av_compare_total x y Hx Hy Hf Ho) as (c & Hc & Hc').
  exists (of_cmp CLt c), (of_cmp CEq c), (of_cmp CGt c).
  rewrite (cmp_sound CLt a b x y c), (cmp_sound CEq a b x y c), (cmp_sound CGt a b x y c),
          (cmp_sound CLe a b x y c), (cmp_sound CGe a b x y c), (cmp_sound CNe a b x y c) by assumption.
  rewrite (cmp_sound CLt b a y x _ Hb Ha Hc'), (cmp_sound CEq b a y x _ Hb Ha Hc'), (cmp_sound CGt b a y x _ Hb Ha Hc'),
          (cmp_sound CLe b a y x _ Hb Ha Hc'), (cmp_sound CGe b a y x _ Hb Ha Hc'), (cmp_sound CNe b a y x _ Hb Ha Hc').
  destruct c; simpl; repeat split; reflexivity.
Qed.

Theorem C19_bool_proved : C19_bool_statement.
Proof.
  intros a b x y Ha Hb. exists (Bool.eqb x y).
  rewrite (bool_sound CEq a b x y Ha Hb), (bool_sound CNe a b x y Ha Hb),
          (bool_sound CEq b a y x Hb Ha), (bool_sound CNe b a y x Hb Ha).
  simpl. destruct x, y; repeat split; reflexivity.
Qed.

Theorem C19_value_only_proved : C19_value_only_statement.
Proof.
  intros op a a' b b' x y Ha Ha' Hb Hb' Hf.
  destruct (ordered x) eqn:Ho.
  - assert (Hx: av_ok x) by (eapply abs_elem_ok; exact Ha).
    assert (Hy: av_ok y) by (eapply abs_elem_ok; exact Hb).
    destruct (av_compare_total x y Hx Hy Hf Ho) as (c & Hc & _).
    rewrite (cmp_sound op a b x y c), (cmp_sound op a' b' x y c) by assumption. reflexivity.
  - destruct x as [| |bx|]; try discriminate. destruct y as [| |by_|]; try discriminate.
    rewrite (bool_sound op a b bx by_ Ha Hb), (bool_sound op a' b' bx by_ Ha' Hb'). reflexivity.
Qed.

(* ---- non-vacuity: concrete operands of different widths, signedness,
        wrapping and locations satisfy the hypotheses ---- *)
Example c19_nonvacuous_num :
  abs (VPtr (Some (VInt I8 (-3)))) = Some (ANum (NZ (-3))) /\
  abs (VIface (Some (VUint U16 7))) = Some (ANum (NZ 7)) /\
  abs (VFloat F32 PrimFloat.two) = Some (ANum (NF PrimFloat.two)) /\
  same_family (ANum (NZ (-3))) (ANum (NF PrimFloat.two)) = true /\
  evalop CLt (VPtr (Some (VInt I8 (-3)))) (VFloat F32 PrimFloat.two) = Ok (VBool true).
Proof. vm_compute. repeat split; reflexivity. Qed.

Example c19_nonvacuous_time :
  let t1 := VTime {| t_inst := 1000; t_loc := 0; t_mono := true |} in
  let t2 := VTime {| t_inst := 1000; t_loc := 7; t_mono := false |} in
  abs t1 = Some (ATime 1000) /\ abs t2 = Some (ATime 1000) /\
  evalop CEq t1 t2 = Ok (VBool true) /\ evalop CLe t1 t2 = Ok (VBool true) /\ evalop CNe t1 t2 = Ok (VBool false).
Proof. vm_compute. repeat split; reflexivity. Qed.
