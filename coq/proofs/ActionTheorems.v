(* ActionTheorems.v — C04: what a successful assignment stores, where, and what it leaves alone. *)
From Grule Require Import Base Values Syntax CmpGen ArithGen OpsGen EngineAbs Facts Eval Fresh FactsProofs.
Open Scope Z_scope.

Lemma alookup_aupdate_eq : forall (A : Type) k (v : A) m, alookup k (aupdate k v m) = Some v.
Proof.
  intros A k v m. induction m as [|[k' v'] m IH]; simpl.
  - rewrite String.eqb_refl. reflexivity.
  - destruct (String.eqb k k') eqn:E; simpl.
    + rewrite String.eqb_refl. reflexivity.
    + rewrite E. exact IH.
Qed.

(* the location an assignment target denotes *)
Definition target_path (t : target) : option path :=
  match t with
  | TTop n => Some {| p_root := n; p_steps := [] |}
  | TField p n => Some (path_snoc p (SField n))
  | TIndex p (VInt _ i) => Some (path_snoc p (SIndex i))
  | TIndex p (VStr k) => Some (path_snoc p (SKey k))
  | TIndex _ _ => None
  end.

(* what ends up in the location: the value itself for a top-level variable; for a struct field or slice
   element the value converted to the destination's kind (store_scalar); for a map entry the value
   converted to the map's element kind (store_map_elem) *)
Definition stored_value (fx : facts) (t : target) (nv : val) (stored : fval) : Prop :=
  match t with
  | TTop _ => stored = FV nv
  | TField p n => exists obj dst, path_get fx p = Ok obj /\ step_get obj (SField n) = Ok dst /\ store_scalar dst nv = Ok stored
  | TIndex p (VInt _ i) => exists xs dst, path_get fx p = Ok (FSlice xs) /\ nth_z xs i = Some dst /\ store_scalar dst nv = Ok stored
  | TIndex p (VStr k) => exists kvs, path_get fx p = Ok (FMap kvs) /\
                           store_map_elem (field_get kvs k) (match kvs with (_, e) :: _ => Some e | [] => None end) nv = Ok stored
  | TIndex _ _ => False
  end.

Theorem write_target_exact : forall fx t nv fx',
  write_target fx t nv = Ok fx' ->
  exists q stored,
    target_path t = Some q /\
    stored_value fx t nv stored /\
    path_get fx' q = Ok stored /\                                                  (* exactly the computed value, at the addressed location *)
    (forall q', paths_diverge q q' = true -> path_get fx' q' = path_get fx q').     (* every other piece of fact data unchanged *)
Proof.
  intros fx t nv fx' H. destruct t as [n|p n|p k]; simpl in H.
  - inversion H; subst. exists {| p_root := n; p_steps := [] |}, (FV nv). repeat split.
    + unfold path_get. simpl. rewrite alookup_aupdate_eq. reflexivity.
    + intros q' D. unfold paths_diverge in D. simpl in D.
      destruct (String.eqb n (p_root q')) eqn:E; simpl in D.
      * destruct (p_steps q'); discriminate.
      * unfold path_get. rewrite alookup_aupdate_other; auto. intro Heq. rewrite Heq, String.eqb_refl in E. discriminate.
  - destruct (path_get fx p) as [obj| |] eqn:Ep; try discriminate.
    assert (Hobj: match step_get obj (SField n) with
                  | Ok dst => match store_scalar dst nv with
                              | Ok nv0 => match path_set fx (path_snoc p (SField n)) nv0 with Some fx'0 => Ok fx'0 | None => Err end
                              | _ => Err end
                  | _ => Err end = Ok fx').
    { destruct obj as [| |[o|]| |]; try exact H. discriminate. }
    clear H. destruct (step_get obj (SField n)) as [dst| |] eqn:Es; try discriminate.
    destruct (store_scalar dst nv) as [sv| |] eqn:Est; try discriminate.
    destruct (path_set fx (path_snoc p (SField n)) sv) as [fx2|] eqn:Eps; try discriminate.
    inversion Hobj; subst. exists (path_snoc p (SField n)), sv. repeat split.
    + exists obj, dst. auto.
    + eapply path_get_set_same; eauto.
    + intros q' D. eapply path_get_set_other; eauto.
  - destruct (path_get fx p) as [obj| |] eqn:Ep; try discriminate.
    destruct obj as [v|fs|o|xs|kvs]; destruct k as [ik i|uk u|fk f|s|b|tm| |pt|it|ok oty]; simpl in H; try discriminate.
    + destruct (nth_z xs i) as [dst|] eqn:En; try discriminate.
      destruct (store_scalar dst nv) as [sv| |] eqn:Est; try discriminate.
      destruct (path_set fx (path_snoc p (SIndex i)) sv) as [fx2|] eqn:Eps; try discriminate.
      inversion H; subst. exists (path_snoc p (SIndex i)), sv. repeat split.
      * exists xs, dst. auto.
      * eapply path_get_set_same; eauto.
      * intros q' D. eapply path_get_set_other; eauto.
    + destruct (store_map_elem (field_get kvs s) (match kvs with (_, e) :: _ => Some e | [] => None end) nv) as [sv| |] eqn:Est; try discriminate.
      destruct (path_set fx (path_snoc p (SKey s)) sv) as [fx2|] eqn:Eps; try discriminate.
      inversion H; subst. exists (path_snoc p (SKey s)), sv. repeat split.
      * exists kvs. auto.
      * eapply path_get_set_same; eauto.
      * intros q' D. eapply path_get_set_other; eauto.
Qed.
