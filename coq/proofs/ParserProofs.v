(* ParserProofs.v — the parser model inverts the printer on every well-formed
   rule list, for all sizes (token level: [parse_tokens_rstoks]; text level:
   [parse_print_roundtrip]); literal round trips; rejection lemmas; builder
   model lemmas. *)
From Grule Require Import Base Syntax Lexer Parser GrlPrint LexProofs.
Open Scope Z_scope.

(* ------------------------------------------------------------------------ *)
(* 1. token lists of trees                                                   *)

Lemma toks_app :
  (forall e k, etoks e k = etoks e [] ++ k)%list /\
  (forall a k, atoks a k = atoks a [] ++ k)%list /\
  (forall v k, vtoks v k = vtoks v [] ++ k)%list /\
  (forall l k, ltoks l k = ltoks l [] ++ k)%list.
Proof.
  apply syntax_mutind; intros; cbn [etoks atoks vtoks ltoks].
  - apply H.
  - destruct neg; cbn [app]; rewrite H; rewrite (H [TRParen]); rewrite <- app_assoc; reflexivity.
  - rewrite H. rewrite (H (_ :: etoks r [])). rewrite H0. rewrite <- app_assoc. reflexivity.
  - destruct c; cbn [const_toks]; try reflexivity.
    + destruct (z <? 0); reflexivity.
    + destruct (bits <? sign_bit); reflexivity.
    + destruct b; reflexivity.
  - apply H.
  - cbn [app]. rewrite H. rewrite (H [TRParen]). rewrite <- app_assoc. reflexivity.
  - rewrite H. rewrite (H (_ :: _ :: _ :: ltoks args [TRParen])). rewrite <- app_assoc. cbn [app].
    rewrite H0. rewrite (H0 [TRParen]). rewrite <- app_assoc. reflexivity.
  - rewrite H. rewrite (H [_; _]). rewrite <- app_assoc. reflexivity.
  - rewrite H. rewrite (H (_ :: etoks sel [TRBrack])). rewrite <- app_assoc. cbn [app].
    rewrite H0. rewrite (H0 [TRBrack]). rewrite <- app_assoc. reflexivity.
  - cbn [app]. rewrite H. reflexivity.
  - reflexivity.
  - rewrite H. rewrite (H [_; _]). rewrite <- app_assoc. reflexivity.
  - rewrite H. rewrite (H (_ :: etoks sel [TRBrack])). rewrite <- app_assoc. cbn [app].
    rewrite H0. rewrite (H0 [TRBrack]). rewrite <- app_assoc. reflexivity.
  - reflexivity.
  - destruct l.
    + apply H.
    + rewrite H. rewrite (H (TComma :: _)). rewrite <- app_assoc. cbn [app]. rewrite H0. reflexivity.
Qed.

Definition etoks_app := proj1 toks_app.
Definition atoks_app := proj1 (proj2 toks_app).
Definition vtoks_app := proj1 (proj2 (proj2 toks_app)).
Definition ltoks_app := proj2 (proj2 (proj2 toks_app)).

Lemma consumed_app : forall (xs rest : list token), consumed (xs ++ rest)%list rest = List.length xs.
Proof. intros. unfold consumed. rewrite app_length. lia. Qed.

(* ------------------------------------------------------------------------ *)
(* 2. the skip counter steps over what a sub-parser consumed                 *)

Lemma binloop_skip : forall j operand xs rest lhs,
  binloop j operand (xs ++ rest)%list (List.length xs) lhs = binloop j operand rest 0 lhs.
Proof. induction xs; intros; [reflexivity|]. cbn [app List.length binloop]. apply IHxs. Qed.

Lemma argloop_skip : forall pe xs rest,
  argloop pe (xs ++ rest)%list (List.length xs) = argloop pe rest 0.
Proof. induction xs; intros; [reflexivity|]. cbn [app List.length argloop]. apply IHxs. Qed.

Lemma varloop_skip : forall pe xs rest v,
  varloop pe (xs ++ rest)%list (List.length xs) v = varloop pe rest 0 v.
Proof. induction xs; intros; [reflexivity|]. cbn [app List.length varloop]. apply IHxs. Qed.

Lemma atomloop_skip : forall pe xs rest a,
  atomloop pe (xs ++ rest)%list (List.length xs) a = atomloop pe rest 0 a.
Proof. induction xs; intros; [reflexivity|]. cbn [app List.length atomloop]. apply IHxs. Qed.

Lemma stmtloop_skip : forall pe xs rest,
  stmtloop pe (xs ++ rest)%list (List.length xs) = stmtloop pe rest 0.
Proof. induction xs; intros; [reflexivity|]. cbn [app List.length stmtloop]. apply IHxs. Qed.

Lemma ruleloop_skip : forall pe xs rest,
  ruleloop pe (xs ++ rest)%list (List.length xs) = ruleloop pe rest 0.
Proof. induction xs; intros; [reflexivity|]. cbn [app List.length ruleloop]. apply IHxs. Qed.

(* ------------------------------------------------------------------------ *)
(* 3. first tokens                                                           *)

Definition atom_start (t : token) : bool :=
  match t with
  | TName _ | TStr _ _ | TInt _ | TMinus | TFloat _ | TTrue | TFalse | TNil | TNot => true
  | _ => false
  end.

Definition expr_start (t : token) : bool :=
  match t with TLParen => true | _ => atom_start t end.

Lemma vtoks_head : forall v k, exists n xs, vtoks v k = TName n :: xs.
Proof.
  induction v; intros; cbn [vtoks].
  - eauto.
  - apply IHv.
  - apply IHv.
Qed.

Lemma atoks_head : forall a k, exists t xs, atoks a k = t :: xs /\ atom_start t = true.
Proof.
  induction a; intros; cbn [atoks].
  - destruct c; cbn [const_toks].
    + eauto.
    + destruct (z <? 0); eauto.
    + destruct (bits <? sign_bit); eauto.
    + destruct b; eauto.
    + eauto.
  - destruct (vtoks_head v k) as (n & xs & ->). eauto.
  - eauto.
  - apply IHa.
  - apply IHa.
  - apply IHa.
  - eauto.
Qed.

Lemma etoks_head : forall e k, exists t xs, etoks e k = t :: xs /\ expr_start t = true.
Proof.
  induction e; intros; cbn [etoks].
  - destruct (atoks_head a k) as (t & xs & -> & Ht). exists t, xs. split; [reflexivity|].
    destruct t; try discriminate; reflexivity.
  - destruct neg; eauto.
  - apply IHe1.
Qed.

(* the same with the tail exposed as (xs ++ k) *)
Lemma etoks_cons : forall e k, exists t xs, etoks e k = t :: (xs ++ k)%list /\ expr_start t = true.
Proof.
  intros. destruct (etoks_head e []) as (t & xs & E & Ht). exists t, xs.
  rewrite etoks_app, E. split; [reflexivity|assumption].
Qed.

(* ------------------------------------------------------------------------ *)
(* 4. what may follow                                                        *)

Definition postfix_start (t : token) : bool :=
  match t with TDot | TLBrack | TLParen => true | _ => false end.

(* k may follow an expression parsed at level j: it does not continue it *)
Definition follow_ok (j : nat) (k : list token) : bool :=
  match k with
  | [] => true
  | t :: _ => negb (postfix_start t) &&
              match binop_of t with Some (_, lv) => Nat.ltb j lv | None => true end
  end.

Lemma follow_ok_mono : forall j j' k, (j' <= j)%nat -> follow_ok j k = true -> follow_ok j' k = true.
Proof.
  intros j j' k Hle H. destruct k as [|t k]; [reflexivity|]. cbn [follow_ok] in *.
  apply andb_true_iff in H as [H1 H2]. rewrite H1. cbn [andb].
  destruct (binop_of t) as [[o lv]|]; [|reflexivity].
  apply Nat.ltb_lt in H2. apply Nat.ltb_lt. lia.
Qed.

Lemma binop_of_op_token : forall o, binop_of (op_token o) = Some (o, op_level o).
Proof. destruct o; reflexivity. Qed.

Lemma op_level_pos : forall o, (1 <= op_level o <= 5)%nat.
Proof. destruct o; cbn; lia. Qed.

Lemma binloop_exit : forall j operand k e, follow_ok j k = true -> binloop j operand k 0 e = Some (e, k).
Proof.
  intros. destruct k as [|t k]; [reflexivity|]. cbn [binloop follow_ok] in *.
  apply andb_true_iff in H as [_ H]. destruct (binop_of t) as [[o lv]|]; [|reflexivity].
  apply Nat.ltb_lt in H. destruct (Nat.eqb_spec lv j); [lia|reflexivity].
Qed.

(* ------------------------------------------------------------------------ *)
(* 5. one nesting level: everything below is correct for any expression      *)
(*    parser pe that is correct on the (less deeply nested) sub-expressions   *)

Section Level.
Variable pe : parser expr.
Variable F : nat.
Hypothesis Hpe : forall e k, wf_expr e = true -> (depth_e e < F)%nat -> follow_ok 5 k = true ->
  pe (etoks e k) = Some (e, k).

Lemma argloop_ok : forall l e k, wf_args (ECons e l) = true -> (depth_l (ECons e l) < F)%nat ->
  argloop pe (ltoks (ECons e l) (TRParen :: k)) 0 = Some (ECons e l, k).
Proof.
  induction l as [|e' l IH]; intros e k Hwf Hd.
  - cbn [ltoks]. cbn [wf_args depth_l] in *. apply andb_true_iff in Hwf as [We _].
    destruct (etoks_cons e (TRParen :: k)) as (t & xs & E & _).
    pose proof (Hpe e (TRParen :: k) We ltac:(lia) eq_refl) as P. rewrite E in *.
    cbn [argloop]. rewrite P. reflexivity.
  - change (ltoks (ECons e (ECons e' l)) (TRParen :: k))
      with (etoks e (TComma :: ltoks (ECons e' l) (TRParen :: k))).
    cbn [wf_args depth_l] in Hwf, Hd. apply andb_true_iff in Hwf as [We Wl].
    set (R := ltoks (ECons e' l) (TRParen :: k)) in *.
    destruct (etoks_cons e (TComma :: R)) as (t & xs & E & _).
    pose proof (Hpe e (TComma :: R) We ltac:(lia) eq_refl) as P. rewrite E in *.
    cbn [argloop]. rewrite P.
    replace (xs ++ TComma :: R)%list with ((xs ++ [TComma]) ++ R)%list by (rewrite <- app_assoc; reflexivity).
    rewrite consumed_app, argloop_skip. unfold R.
    rewrite IH; [reflexivity| |].
    + cbn [wf_args]. exact Wl.
    + cbn [depth_l]. lia.
Qed.

Lemma pargs_ok : forall l k, wf_args l = true -> (depth_l l < F)%nat ->
  pargs pe (ltoks l (TRParen :: k)) = Some (l, k).
Proof.
  intros [|e l] k Hwf Hd.
  - reflexivity.
  - unfold pargs. destruct (etoks_head e (match l with ENil => TRParen :: k | _ => TComma :: ltoks l (TRParen :: k) end))
      as (t & xs & E & Ht).
    assert (E' : ltoks (ECons e l) (TRParen :: k) = t :: xs) by (destruct l; exact E).
    rewrite <- (argloop_ok l e k Hwf Hd). rewrite E'.
    destruct t; try discriminate; reflexivity.
Qed.

(* ---- variables ---- *)
Fixpoint vroot (v : var) : string :=
  match v with VName n => n | VMember v' _ => vroot v' | VSel v' _ => vroot v' end.

(* tokens after the root name *)
Fixpoint vsuffix (v : var) (k : list token) : list token :=
  match v with
  | VName _ => k
  | VMember v' n => vsuffix v' (TDot :: TName n :: k)
  | VSel v' sel => vsuffix v' (TLBrack :: etoks sel (TRBrack :: k))
  end.

Lemma vtoks_root : forall v k, vtoks v k = TName (vroot v) :: vsuffix v k.
Proof. induction v; intros; cbn [vtoks vroot vsuffix]; auto. Qed.

Definition not_lparen (k : list token) : bool := match k with TLParen :: _ => false | _ => true end.

Lemma varloop_run : forall v k, wf_var v = true -> (depth_v v <= F)%nat -> not_lparen k = true ->
  varloop pe (vsuffix v k) 0 (VName (vroot v)) = varloop pe k 0 v.
Proof.
  induction v as [n|v IH n|v IH sel]; intros k Hwf Hd Hk; cbn [vsuffix vroot].
  - reflexivity.
  - cbn [wf_var depth_v] in *. apply andb_true_iff in Hwf as [Wv _].
    rewrite IH by (auto; lia). cbn [varloop].
    destruct k as [|t k]; [reflexivity|]. destruct t; try reflexivity. discriminate.
  - cbn [wf_var depth_v] in *. apply andb_true_iff in Hwf as [Wv Ws].
    rewrite IH by (auto; lia). cbn [varloop].
    rewrite (Hpe sel (TRBrack :: k) Ws ltac:(lia) eq_refl).
    rewrite etoks_app.
    replace (etoks sel [] ++ TRBrack :: k)%list with ((etoks sel [] ++ [TRBrack]) ++ k)%list
      by (rewrite <- app_assoc; reflexivity).
    rewrite consumed_app, varloop_skip. reflexivity.
Qed.

(* the variable ends here: a method call, or nothing a variable continues with *)
Definition var_stop (k : list token) : bool :=
  match k with
  | TDot :: TName _ :: TLParen :: _ => true
  | TDot :: TName _ :: _ => false
  | TLBrack :: _ => false
  | _ => true
  end.

Lemma varloop_stop : forall k v, var_stop k = true -> varloop pe k 0 v = Some (v, k).
Proof.
  intros k v H. destruct k as [|t k]; [reflexivity|]. destruct t; try reflexivity; try discriminate.
  cbn [varloop]. destruct k as [|t' k]; [reflexivity|]. destruct t'; try reflexivity.
  destruct k as [|t'' k]; [discriminate|]. destruct t''; try discriminate; reflexivity.
Qed.

Lemma var_stop_not_lparen : forall k, follow_ok 0 k = true -> var_stop k = true /\ not_lparen k = true.
Proof.
  intros [|t k] H; [split; reflexivity|]. cbn [follow_ok] in H. apply andb_true_iff in H as [H _].
  destruct t; try discriminate; split; reflexivity.
Qed.

(* ---- atoms: base, then postfix chain ---- *)
Fixpoint abase (a : atom) : atom :=
  match a with
  | AMethod a' _ _ => abase a'
  | AMember a' _ => abase a'
  | ASel a' _ => abase a'
  | _ => a
  end.

Fixpoint asuffix (a : atom) (k : list token) : list token :=
  match a with
  | AMethod a' f args => asuffix a' (TDot :: TName f :: TLParen :: ltoks args (TRParen :: k))
  | AMember a' n => asuffix a' (TDot :: TName n :: k)
  | ASel a' sel => asuffix a' (TLBrack :: etoks sel (TRBrack :: k))
  | _ => k
  end.

Lemma atoks_base : forall a k, atoks a k = atoks (abase a) (asuffix a k).
Proof. induction a; intros; cbn [atoks abase asuffix]; auto. Qed.

Lemma atomloop_run : forall a k, wf_atom a = true -> (depth_a a <= F)%nat -> not_lparen k = true ->
  atomloop pe (asuffix a k) 0 (abase a) = atomloop pe k 0 a.
Proof.
  induction a as [c|v|f args|a IH f args|a IH n|a IH sel|a IH]; intros k Hwf Hd Hk; cbn [asuffix abase]; try reflexivity.
  - cbn [wf_atom depth_a] in *. repeat (apply andb_true_iff in Hwf as [Hwf ?]).
    rewrite IH by (auto; lia). cbn [atomloop].
    rewrite pargs_ok by (auto; lia).
    rewrite ltoks_app.
    replace (ltoks args [] ++ TRParen :: k)%list with ((ltoks args [] ++ [TRParen]) ++ k)%list
      by (rewrite <- app_assoc; reflexivity).
    rewrite consumed_app, atomloop_skip. reflexivity.
  - cbn [wf_atom depth_a] in *. repeat (apply andb_true_iff in Hwf as [Hwf ?]).
    rewrite IH by (auto; lia). cbn [atomloop].
    destruct k as [|t k]; [reflexivity|]. destruct t; try reflexivity. discriminate.
  - cbn [wf_atom depth_a] in *. repeat (apply andb_true_iff in Hwf as [Hwf ?]).
    rewrite IH by (auto; lia). cbn [atomloop].
    rewrite (Hpe sel (TRBrack :: k)) by (auto; lia).
    rewrite etoks_app.
    replace (etoks sel [] ++ TRBrack :: k)%list with ((etoks sel [] ++ [TRBrack]) ++ k)%list
      by (rewrite <- app_assoc; reflexivity).
    rewrite consumed_app, atomloop_skip. reflexivity.
Qed.

Lemma atomloop_stop : forall k a, follow_ok 0 k = true -> atomloop pe k 0 a = Some (a, k).
Proof.
  intros [|t k] a H; [reflexivity|]. cbn [follow_ok] in H. apply andb_true_iff in H as [H _].
  destruct t; try discriminate; reflexivity.
Qed.

(* the first token of a postfix chain on a variable is a method call *)
Lemma asuffix_var_stop : forall a, wf_atom a = true -> forall v, abase a = AVar v -> is_avar a = false ->
  forall k, var_stop (asuffix a k) = true /\ not_lparen (asuffix a k) = true.
Proof.
  induction a as [c|v0|f args|a IH f args|a IH n|a IH sel|a IH]; intros Hwf v Hb Hv k; cbn [asuffix abase] in *;
    try discriminate.
  - cbn [wf_atom] in Hwf. repeat (apply andb_true_iff in Hwf as [Hwf ?]).
    destruct (is_avar a) eqn:Ea.
    + destruct a; try discriminate. cbn [asuffix]. split; reflexivity.
    + apply (IH ltac:(assumption) v Hb eq_refl).
  - cbn [wf_atom] in Hwf. repeat (apply andb_true_iff in Hwf as [Hwf ?]).
    apply (IH ltac:(assumption) v Hb). destruct (is_avar a); [discriminate|reflexivity].
  - cbn [wf_atom] in Hwf. repeat (apply andb_true_iff in Hwf as [Hwf ?]).
    apply (IH ltac:(assumption) v Hb). destruct (is_avar a); [discriminate|reflexivity].
Qed.

Lemma vsuffix_not_lparen : forall v k, not_lparen k = true -> not_lparen (vsuffix v k) = true.
Proof. induction v; intros; cbn [vsuffix]; auto. Qed.

Lemma pconst_ok : forall c k, wf_const c = true -> pconst (const_toks c k) = Some (c, k).
Proof.
  intros [s|z|b|b|] k H; cbn [wf_const] in H; try discriminate.
  - cbn [const_toks pconst]. rewrite unquote_quote_body. reflexivity.
  - cbn [const_toks]. destruct (Z.ltb_spec z 0).
    + cbn [pconst]. rewrite Z.opp_involutive, H. reflexivity.
    + cbn [pconst]. rewrite H. reflexivity.
  - cbn [const_toks]. destruct (Z.ltb_spec b sign_bit); cbn [pconst]; [reflexivity|].
    f_equal. f_equal. f_equal. lia.
  - destruct b; reflexivity.
  - reflexivity.
Qed.

Lemma abase_not_aneg : forall a, wf_atom a = true -> is_aneg a = false -> is_aneg (abase a) = false.
Proof.
  induction a; intros Hwf Hn; cbn [abase]; try reflexivity; try discriminate;
    cbn [wf_atom] in Hwf; repeat (apply andb_true_iff in Hwf as [Hwf ?]);
    (apply IHa; [assumption|destruct (is_aneg a); [discriminate|reflexivity]]).
Qed.

Lemma abase_shape : forall a, match abase a with AMethod _ _ _ | AMember _ _ | ASel _ _ => False | _ => True end.
Proof. induction a; cbn [abase]; auto. Qed.

Lemma abase_wf : forall a, wf_atom a = true -> wf_atom (abase a) = true.
Proof.
  induction a; intros Hwf; cbn [abase]; try assumption;
    cbn [wf_atom] in Hwf; repeat (apply andb_true_iff in Hwf as [Hwf ?]); apply IHa; assumption.
Qed.

Lemma abase_depth : forall a, (depth_a (abase a) <= depth_a a)%nat.
Proof. induction a; cbn [abase depth_a]; lia. Qed.

Lemma asuffix_nil : forall a, is_avar a = true -> forall k, asuffix a k = k.
Proof. destruct a; try discriminate; reflexivity. Qed.

(* a chain that is not a negation *)
Lemma patom_chain_ok : forall a k, wf_atom a = true -> is_aneg a = false -> (depth_a a <= F)%nat ->
  follow_ok 0 k = true -> patom pe (atoks a k) = Some (a, k).
Proof.
  intros a k Hwf Hn Hd Hk.
  pose proof (var_stop_not_lparen k Hk) as [Hvs Hnl].
  assert (Hloop : atomloop pe (asuffix a k) 0 (abase a) = Some (a, k)).
  { rewrite atomloop_run by assumption. apply atomloop_stop. assumption. }
  rewrite atoks_base.
  pose proof (abase_not_aneg a Hwf Hn) as Hbn. pose proof (abase_shape a) as Hsh.
  pose proof (abase_wf a Hwf) as Hbw. pose proof (abase_depth a) as Hbd.
  destruct (abase a) as [c|v|f args| | | |] eqn:Eb; try contradiction; try discriminate.
  - (* constant *)
    cbn [atoks]. cbn [wf_atom] in Hbw.
    pose proof (pconst_ok c (asuffix a k) Hbw) as Pc.
    assert (Hb : patom_base pe (const_toks c (asuffix a k)) = Some (AConst c, asuffix a k)).
    { destruct c as [s|z|b|b|]; cbn [const_toks] in *; try discriminate.
      - unfold patom_base. rewrite Pc. reflexivity.
      - destruct (z <? 0); unfold patom_base; rewrite Pc; reflexivity.
      - destruct (b <? sign_bit); unfold patom_base; rewrite Pc; reflexivity.
      - destruct b; unfold patom_base; rewrite Pc; reflexivity.
      - unfold patom_base. rewrite Pc. reflexivity. }
    assert (Hp : patom pe (const_toks c (asuffix a k)) =
                 match patom_base pe (const_toks c (asuffix a k)) with
                 | Some (a0, rest) => atomloop pe rest 0 a0 | None => None end).
    { destruct c as [s|z|b|b|]; cbn [const_toks]; try reflexivity.
      - destruct (z <? 0); reflexivity.
      - destruct (b <? sign_bit); reflexivity.
      - destruct b; reflexivity. }
    rewrite Hp, Hb. exact Hloop.
  - (* variable *)
    cbn [atoks]. rewrite vtoks_root. cbn [wf_atom depth_a] in Hbw, Hbd.
    assert (Hk' : var_stop (asuffix a k) = true /\ not_lparen (asuffix a k) = true).
    { destruct (is_avar a) eqn:Ea.
      - rewrite asuffix_nil by assumption. split; assumption.
      - apply (asuffix_var_stop a Hwf v Eb Ea). }
    destruct Hk' as [Hs' Hn'].
    pose proof (vsuffix_not_lparen v _ Hn') as Hvn.
    assert (Hv : varloop pe (vsuffix v (asuffix a k)) 0 (VName (vroot v)) = Some (v, asuffix a k)).
    { rewrite varloop_run by (auto; lia). apply varloop_stop. assumption. }
    cbn [patom]. unfold patom_base.
    destruct (vsuffix v (asuffix a k)) as [|t ts] eqn:Es.
    + rewrite Hv. exact Hloop.
    + destruct t; try discriminate; rewrite Hv; exact Hloop.
  - (* function call *)
    cbn [atoks patom]. unfold patom_base. cbn [wf_atom depth_a] in Hbw, Hbd.
    apply andb_true_iff in Hbw as [_ Wa].
    rewrite pargs_ok by (auto; lia). exact Hloop.
Qed.

Lemma patom_ok : forall a k, wf_atom a = true -> (depth_a a <= F)%nat -> follow_ok 0 k = true ->
  patom pe (atoks a k) = Some (a, k).
Proof.
  induction a; intros k Hwf Hd Hk; try (apply patom_chain_ok; auto; fail).
  cbn [atoks patom]. cbn [wf_atom depth_a] in *. rewrite IHa by assumption. reflexivity.
Qed.

(* a non-negated atom does not start with "!" *)
Lemma atoks_head_nonneg : forall a k, wf_atom a = true -> is_aneg a = false ->
  exists t xs, atoks a k = t :: xs /\ atom_start t = true /\ t <> TNot.
Proof.
  induction a; intros k Hwf Hn; cbn [atoks]; try discriminate.
  - destruct c; cbn [const_toks].
    + do 2 eexists; repeat split; discriminate.
    + destruct (z <? 0); do 2 eexists; repeat split; discriminate.
    + destruct (bits <? sign_bit); do 2 eexists; repeat split; discriminate.
    + destruct b; do 2 eexists; repeat split; discriminate.
    + do 2 eexists; repeat split; discriminate.
  - destruct (vtoks_head v k) as (n & xs & ->). do 2 eexists; repeat split; discriminate.
  - do 2 eexists; repeat split; discriminate.
  - cbn [wf_atom] in Hwf. repeat (apply andb_true_iff in Hwf as [Hwf ?]).
    apply IHa; [assumption|destruct (is_aneg a); [discriminate|reflexivity]].
  - cbn [wf_atom] in Hwf. repeat (apply andb_true_iff in Hwf as [Hwf ?]).
    apply IHa; [assumption|destruct (is_aneg a); [discriminate|reflexivity]].
  - cbn [wf_atom] in Hwf. repeat (apply andb_true_iff in Hwf as [Hwf ?]).
    apply IHa; [assumption|destruct (is_aneg a); [discriminate|reflexivity]].
Qed.

Lemma pprimary_atom : forall a k, wf_atom a = true -> (depth_a a <= F)%nat -> follow_ok 0 k = true ->
  pprimary pe (atoks a k) = Some (EAtom a, k).
Proof.
  intros a k Hwf Hd Hk. pose proof (patom_ok a k Hwf Hd Hk) as P.
  destruct (is_aneg a) eqn:En.
  - destruct a; try discriminate. cbn [atoks] in *. cbn [wf_atom] in Hwf.
    destruct (atoks_head a k) as (t & xs & E & Ht). rewrite E in *.
    unfold pprimary. destruct t; try discriminate; rewrite P; reflexivity.
  - destruct (atoks_head_nonneg a k Hwf En) as (t & xs & E & Ht & Hnot). rewrite E in *.
    unfold pprimary. destruct t; try discriminate; try congruence; rewrite P; reflexivity.
Qed.

Lemma pprimary_ok : forall e k, wf_expr e = true -> elevel e = O -> (depth_e e <= F)%nat ->
  follow_ok 0 k = true -> pprimary pe (etoks e k) = Some (e, k).
Proof.
  intros [a|neg e|o l r] k Hwf Hl Hd Hk.
  - cbn [etoks wf_expr depth_e] in *. apply pprimary_atom; assumption.
  - cbn [etoks wf_expr depth_e] in *.
    destruct neg; cbn [pprimary]; rewrite (Hpe e (TRParen :: k)) by (auto; lia); reflexivity.
  - cbn [elevel] in Hl. pose proof (op_level_pos o). lia.
Qed.

(* ---- precedence levels ---- *)
Definition prim : parser expr := pprimary pe.

Lemma plevels_S : forall j ts, plevels prim (S j) ts =
  match plevels prim j ts with
  | Some (a, rest) => binloop (S j) (plevels prim j) rest 0 a
  | None => None
  end.
Proof. reflexivity. Qed.

(* A: an expression of level <= j followed by something that does not continue it at level j
   B: the same seen from inside level j+1: the loop of level j+1 resumes after it *)
Definition claimA (e : expr) (j : nat) : Prop :=
  forall k, follow_ok j k = true -> plevels prim j (etoks e k) = Some (e, k).
Definition claimB (e : expr) (j : nat) : Prop :=
  forall k, follow_ok j k = true ->
    plevels prim (S j) (etoks e k) = binloop (S j) (plevels prim j) k 0 e.

Lemma A_to_B : forall e j, claimA e j -> claimB e j.
Proof. intros e j HA k Hk. rewrite plevels_S, (HA k Hk). reflexivity. Qed.

Lemma B_to_A : forall e j, claimB e j -> claimA e (S j).
Proof.
  intros e j HB k Hk. rewrite (HB k (follow_ok_mono (S j) j k ltac:(lia) Hk)).
  apply binloop_exit. assumption.
Qed.

Lemma follow_ok_binop : forall j o k, (j < op_level o)%nat -> follow_ok j (op_token o :: k) = true.
Proof.
  intros. cbn [follow_ok]. rewrite binop_of_op_token. apply andb_true_iff. split.
  - destruct o; reflexivity.
  - apply Nat.ltb_lt. assumption.
Qed.

Lemma levels_ok : forall e, wf_expr e = true -> (depth_e e <= F)%nat ->
  forall j, ((elevel e <= j)%nat -> claimA e j) /\ ((elevel e <= S j)%nat -> claimB e j).
Proof.
  induction e as [a|neg e _|o l IHl r IHr]; intros Hwf Hd.
  - (* atom *)
    assert (A0 : claimA (EAtom a) 0) by (intros k Hk; apply pprimary_ok; auto).
    induction j as [|j [IHA IHB]].
    + split; intros _; [exact A0|apply A_to_B; exact A0].
    + assert (A1 : claimA (EAtom a) (S j)) by (apply B_to_A; apply IHB; cbn; lia).
      split; intros _; [exact A1|apply A_to_B; exact A1].
  - (* bracket *)
    assert (A0 : claimA (EParen neg e) 0) by (intros k Hk; apply pprimary_ok; auto).
    induction j as [|j [IHA IHB]].
    + split; intros _; [exact A0|apply A_to_B; exact A0].
    + assert (A1 : claimA (EParen neg e) (S j)) by (apply B_to_A; apply IHB; cbn; lia).
      split; intros _; [exact A1|apply A_to_B; exact A1].
  - (* binary *)
    cbn [wf_expr depth_e] in Hwf, Hd.
    apply andb_true_iff in Hwf as [Hwf Hr]. apply andb_true_iff in Hwf as [Hwf Hl].
    apply andb_true_iff in Hwf as [Wl Wr]. apply Nat.leb_le in Hl. apply Nat.ltb_lt in Hr.
    specialize (IHl Wl ltac:(lia)). specialize (IHr Wr ltac:(lia)).
    pose proof (op_level_pos o) as Hpos. cbn [elevel].
    (* the level of the operator itself *)
    assert (Bm : forall m, op_level o = S m -> claimB (EBin o l r) m).
    { intros m Em k Hk. cbn [etoks].
      destruct (IHl m) as [_ BL]. rewrite (BL ltac:(lia)) by (apply follow_ok_binop; lia).
      cbn [binloop]. rewrite binop_of_op_token, Em, Nat.eqb_refl.
      destruct (IHr m) as [AR _]. rewrite (AR ltac:(lia) k Hk).
      rewrite etoks_app, consumed_app, binloop_skip. reflexivity. }
    induction j as [|j [IHA IHB]].
    + split; intros Hj; [lia|]. apply Bm. lia.
    + assert (A1 : (op_level o <= S j)%nat -> claimA (EBin o l r) (S j))
        by (intros Hj; apply B_to_A; apply IHB; exact Hj).
      split; [exact A1|]. intros Hj.
      destruct (Nat.eq_dec (op_level o) (S (S j))) as [E|NE].
      * apply Bm. exact E.
      * apply A_to_B. apply A1. lia.
Qed.

Lemma pexpr_level_ok : forall e k, wf_expr e = true -> (depth_e e <= F)%nat -> follow_ok 5 k = true ->
  plevels prim 5 (etoks e k) = Some (e, k).
Proof.
  intros e k Hwf Hd Hk. destruct (levels_ok e Hwf Hd 5) as [A _]. apply A; [|assumption].
  destruct e; cbn [elevel]; try lia. pose proof (op_level_pos o). lia.
Qed.

End Level.

(* ------------------------------------------------------------------------ *)
(* 6. expressions, for every nesting depth                                   *)

Theorem pexpr_ok : forall f e k, wf_expr e = true -> (depth_e e < f)%nat -> follow_ok 5 k = true ->
  pexpr f (etoks e k) = Some (e, k).
Proof.
  induction f as [|f IH]; intros e k Hwf Hd Hk; [lia|].
  cbn [pexpr]. apply (pexpr_level_ok (fun ts' => pexpr f ts') f); auto. lia.
Qed.

(* ------------------------------------------------------------------------ *)
(* 7. actions and rules                                                      *)

Definition sdepth (s : stmt) : nat :=
  match s with
  | SAssign x _ e => Nat.max (depth_v x) (S (depth_e e))
  | SAtom a => depth_a a
  end.

Lemma stoks_app : forall s k, stoks s k = (stoks s [] ++ k)%list.
Proof.
  intros [x o e|a] k; cbn [stoks].
  - rewrite vtoks_app. rewrite (vtoks_app x (_ :: etoks e [TSemi])). rewrite <- app_assoc. cbn [app].
    rewrite etoks_app. rewrite (etoks_app e [TSemi]). rewrite <- app_assoc. reflexivity.
  - rewrite atoks_app. rewrite (atoks_app a [TSemi]). rewrite <- app_assoc. reflexivity.
Qed.

Lemma stoks_head : forall s k, exists t xs, stoks s k = t :: xs /\ atom_start t = true.
Proof.
  intros [x o e|a] k; cbn [stoks].
  - destruct (vtoks_head x (asg_token o :: etoks e (TSemi :: k))) as (n & xs & ->). eauto.
  - apply atoks_head.
Qed.

Lemma asg_of_asg_token : forall o, asg_of (asg_token o) = Some o.
Proof. destruct o; reflexivity. Qed.

Definition no_asg_head (k : list token) : Prop :=
  match k with [] => True | t :: _ => asg_of t = None end.

Lemma asuffix_no_asg : forall a k, no_asg_head k -> no_asg_head (asuffix a k).
Proof. induction a; intros k Hk; cbn [asuffix]; try assumption; apply IHa; reflexivity. Qed.

Section Rules.
Variable pe : parser expr.
Variable F : nat.
Hypothesis Hpe : forall e k, wf_expr e = true -> (depth_e e < F)%nat -> follow_ok 5 k = true ->
  pe (etoks e k) = Some (e, k).

Lemma pstmt_atom_ok : forall a k, wf_atom a = true -> (depth_a a <= F)%nat ->
  pstmt_atom pe (atoks a (TSemi :: k)) = Some (SAtom a, k).
Proof.
  intros. unfold pstmt_atom. rewrite (patom_ok pe F Hpe a (TSemi :: k)) by auto. reflexivity.
Qed.

Lemma pstmt_ok : forall s k, wf_stmt s = true -> (sdepth s <= F)%nat -> pstmt pe (stoks s k) = Some (s, k).
Proof.
  intros [x o e|a] k Hwf Hd; cbn [stoks wf_stmt sdepth] in *.
  - apply andb_true_iff in Hwf as [Wx We].
    rewrite vtoks_root. cbn [pstmt].
    rewrite (varloop_run pe F Hpe) by (auto; try lia; destruct o; reflexivity).
    rewrite varloop_stop by (destruct o; reflexivity).
    rewrite asg_of_asg_token. rewrite (Hpe e (TSemi :: k)) by (auto; lia). reflexivity.
  - pose proof (pstmt_atom_ok a k Hwf Hd) as P.
    destruct (is_aneg a) eqn:En.
    { destruct a; try discriminate. cbn [atoks] in *. exact P. }
    rewrite atoks_base in *.
    pose proof (abase_not_aneg a Hwf En) as Hbn. pose proof (abase_shape a) as Hsh.
    pose proof (abase_wf a Hwf) as Hbw. pose proof (abase_depth a) as Hbd.
    destruct (abase a) as [c|v|f args| | | |] eqn:Eb; try contradiction; try discriminate.
    + (* constant: does not start with a name *)
      cbn [atoks] in *. destruct c as [s|z|b|b|]; cbn [const_toks] in *; try exact P.
      * destruct (z <? 0); exact P.
      * destruct (b <? sign_bit); exact P.
      * destruct b; exact P.
    + (* variable *)
      cbn [atoks] in *. rewrite vtoks_root in *. cbn [wf_atom depth_a] in Hbw, Hbd.
      assert (Hk' : var_stop (asuffix a (TSemi :: k)) = true /\ not_lparen (asuffix a (TSemi :: k)) = true).
      { destruct (is_avar a) eqn:Ea.
        - rewrite asuffix_nil by assumption. split; reflexivity.
        - apply (asuffix_var_stop a Hwf v Eb Ea). }
      destruct Hk' as [Hs' Hn'].
      cbn [pstmt]. rewrite (varloop_run pe F Hpe) by (auto; lia). rewrite varloop_stop by assumption.
      pose proof (asuffix_no_asg a (TSemi :: k) eq_refl) as Hna.
      destruct (asuffix a (TSemi :: k)) as [|t ts]; [exact P|].
      cbn [no_asg_head] in Hna. rewrite Hna. exact P.
    + (* function call *)
      cbn [atoks] in *. cbn [pstmt varloop]. exact P.
Qed.

Lemma stmtloop_ok : forall l k, forallb wf_stmt l = true -> Forall (fun s => (sdepth s <= F)%nat) l ->
  stmtloop pe (sstoks l (TRBrace :: k)) 0 = Some (l, TRBrace :: k).
Proof.
  induction l as [|s l IH]; intros k Hwf Hd.
  - reflexivity.
  - cbn [sstoks forallb] in *. apply andb_true_iff in Hwf as [Ws Wl]. inversion Hd as [|? ? Ds Dl]; subst.
    set (R := sstoks l (TRBrace :: k)) in *.
    pose proof (pstmt_ok s R Ws Ds) as P.
    destruct (stoks_head s []) as (t & xs & E & Ht).
    rewrite (stoks_app s R) in P |- *. rewrite E in P |- *. cbn [app] in P |- *.
    assert (Hu : stmtloop pe (t :: xs ++ R) 0 =
                 match pstmt pe (t :: xs ++ R) with
                 | Some (s0, rest) => match stmtloop pe (xs ++ R) (consumed (xs ++ R) rest) with
                                      | Some (l0, r0) => Some (s0 :: l0, r0) | None => None end
                 | None => None end).
    { destruct t; try discriminate; reflexivity. }
    rewrite Hu, P, consumed_app, stmtloop_skip. unfold R. rewrite IH by assumption. reflexivity.
Qed.

Lemma psalience_ok : forall z k, in_i32 z = true ->
  psalience (TSalience :: sal_toks z (TLBrace :: k)) = Some (z, TLBrace :: k).
Proof.
  intros z k H. unfold sal_toks. destruct (Z.ltb_spec z 0).
  - cbn [psalience]. rewrite Z.opp_involutive, H. reflexivity.
  - cbn [psalience]. rewrite H. reflexivity.
Qed.

Definition rule_fits (r : rule) : Prop :=
  (depth_e (rwhen r) < F)%nat /\ Forall (fun s => (sdepth s <= F)%nat) (rthen r).

Lemma prule_ok : forall r k, wf_rule r = true -> rule_fits r -> prule pe (rtoks r k) = Some (r, k).
Proof.
  intros [n d z w th] k Hwf [Dw Dt]. unfold wf_rule in Hwf. cbn [rname rdesc rsal rwhen rthen] in *.
  repeat (apply andb_true_iff in Hwf as [Hwf ?]).
  unfold rtoks. cbn [rname rdesc rsal rwhen rthen prule pdesc]. rewrite unquote_quote_body.
  rewrite psalience_ok by assumption.
  rewrite (Hpe w) by auto.
  rewrite stmtloop_ok by assumption.
  destruct th; [discriminate|]. reflexivity.
Qed.

Lemma sstoks_app : forall l k, sstoks l k = (sstoks l [] ++ k)%list.
Proof.
  induction l as [|s l IH]; intros k; [reflexivity|]. cbn [sstoks].
  rewrite stoks_app, IH, (stoks_app s (sstoks l [])), <- app_assoc. reflexivity.
Qed.

Lemma rtoks_app : forall r k, rtoks r k = (rtoks r [] ++ k)%list.
Proof.
  intros r k. unfold rtoks, sal_toks.
  assert (E : etoks (rwhen r) (TThen :: sstoks (rthen r) (TRBrace :: k)) =
              (etoks (rwhen r) (TThen :: sstoks (rthen r) [TRBrace]) ++ k)%list).
  { rewrite etoks_app, (etoks_app _ (TThen :: sstoks (rthen r) [TRBrace])), <- app_assoc. cbn [app].
    rewrite sstoks_app, (sstoks_app _ [TRBrace]), <- app_assoc. reflexivity. }
  rewrite E. destruct (rsal r <? 0); reflexivity.
Qed.

Lemma ruleloop_ok : forall rs, forallb wf_rule rs = true -> Forall rule_fits rs ->
  ruleloop pe (rstoks rs) 0 = Some rs.
Proof.
  induction rs as [|r rs IH]; intros Hwf Hd; [reflexivity|].
  cbn [rstoks forallb] in *. apply andb_true_iff in Hwf as [Wr Wrs]. inversion Hd as [|? ? Dr Drs]; subst.
  pose proof (prule_ok r (rstoks rs) Wr Dr) as P.
  rewrite rtoks_app in *.
  assert (E : exists xs, rtoks r [] = TRule :: xs) by (unfold rtoks; eauto).
  destruct E as (xs & E). rewrite E in *. cbn [app] in *.
  cbn [ruleloop]. rewrite P, consumed_app, ruleloop_skip, IH by assumption. reflexivity.
Qed.

End Rules.

(* ------------------------------------------------------------------------ *)
(* 8. the fuel (number of tokens) exceeds every nesting depth                *)

Lemma depth_len :
  (forall e k, (depth_e e + List.length k < List.length (etoks e k))%nat) /\
  (forall a k, (depth_a a + List.length k < List.length (atoks a k))%nat) /\
  (forall v k, (depth_v v + List.length k < List.length (vtoks v k))%nat) /\
  (forall l k, (depth_l l + List.length k <= List.length (ltoks l k))%nat).
Proof.
  apply syntax_mutind; intros; cbn [etoks atoks vtoks ltoks depth_e depth_a depth_v depth_l].
  - apply H.
  - destruct neg; cbn [List.length]; specialize (H (TRParen :: k)); cbn [List.length] in H; lia.
  - specialize (H (op_token o :: etoks r k)). specialize (H0 k). cbn [List.length] in H. lia.
  - destruct c; cbn [const_toks].
    + cbn [List.length]. lia.
    + destruct (z <? 0); cbn [List.length]; lia.
    + destruct (bits <? sign_bit); cbn [List.length]; lia.
    + destruct b; cbn [List.length]; lia.
    + cbn [List.length]. lia.
  - apply H.
  - cbn [List.length]. specialize (H (TRParen :: k)). cbn [List.length] in H. lia.
  - specialize (H (TDot :: TName f :: TLParen :: ltoks args (TRParen :: k))).
    specialize (H0 (TRParen :: k)). cbn [List.length] in H, H0. lia.
  - specialize (H (TDot :: TName n :: k)). cbn [List.length] in H. lia.
  - specialize (H (TLBrack :: etoks sel (TRBrack :: k))). specialize (H0 (TRBrack :: k)).
    cbn [List.length] in H, H0. lia.
  - cbn [List.length]. specialize (H k). lia.
  - cbn [List.length]. lia.
  - specialize (H (TDot :: TName n :: k)). cbn [List.length] in H. lia.
  - specialize (H (TLBrack :: etoks sel (TRBrack :: k))). specialize (H0 (TRBrack :: k)).
    cbn [List.length] in H, H0. lia.
  - lia.
  - destruct l.
    + specialize (H k). cbn [depth_l]. lia.
    + specialize (H (TComma :: ltoks (ECons e0 l) k)). specialize (H0 k). cbn [List.length] in H. lia.
Qed.

Lemma sdepth_len : forall s k, (sdepth s + List.length k < List.length (stoks s k))%nat.
Proof.
  destruct depth_len as (He & Ha & Hv & _).
  intros [x o e|a] k; cbn [stoks sdepth].
  - specialize (Hv x (asg_token o :: etoks e (TSemi :: k))). specialize (He e (TSemi :: k)).
    cbn [List.length] in Hv, He. lia.
  - specialize (Ha a (TSemi :: k)). cbn [List.length] in Ha. lia.
Qed.

Lemma sstoks_len : forall l k,
  (List.length k <= List.length (sstoks l k))%nat /\
  Forall (fun s => (sdepth s <= List.length (sstoks l k))%nat) l.
Proof.
  induction l as [|s l IH]; intros k; cbn [sstoks].
  - split; [lia|constructor].
  - destruct (IH k) as [L1 L2]. pose proof (sdepth_len s (sstoks l k)) as Hs. split; [lia|].
    constructor; [lia|]. eapply Forall_impl; [|exact L2]. cbn beta. intros; lia.
Qed.

Lemma rule_fits_mono : forall F F' r, rule_fits F r -> (F <= F')%nat -> rule_fits F' r.
Proof.
  intros F F' r [H1 H2] Hle. split; [lia|]. eapply Forall_impl; [|exact H2]. cbn beta. intros; lia.
Qed.

Lemma rule_fits_self : forall r k, rule_fits (List.length (rtoks r k)) r.
Proof.
  intros r k. destruct depth_len as (He & _).
  set (K := TThen :: sstoks (rthen r) (TRBrace :: k)).
  assert (L : (List.length (etoks (rwhen r) K) <= List.length (rtoks r k))%nat).
  { unfold rtoks, sal_toks. fold K. destruct (rsal r <? 0); cbn [List.length]; lia. }
  split.
  - specialize (He (rwhen r) K). lia.
  - destruct (sstoks_len (rthen r) (TRBrace :: k)) as [_ L2].
    eapply Forall_impl; [|exact L2]. cbn beta. intros s Hs.
    specialize (He (rwhen r) K). unfold K in He at 1. cbn [List.length] in He. lia.
Qed.

Lemma rstoks_fits : forall rs, Forall (rule_fits (List.length (rstoks rs))) rs.
Proof.
  induction rs as [|r rs IH]; [constructor|]. cbn [rstoks]. constructor.
  - apply rule_fits_self.
  - eapply Forall_impl; [|exact IH]. cbn beta. intros r' H. eapply rule_fits_mono; [exact H|].
    rewrite rtoks_app, app_length. lia.
Qed.

(* ------------------------------------------------------------------------ *)
(* 9. token level: the parser inverts the printer, for every rule list       *)

Theorem parse_tokens_rstoks : forall rs, forallb wf_rule rs = true -> parse_tokens (rstoks rs) = Some rs.
Proof.
  intros rs Hwf. unfold parse_tokens.
  apply (ruleloop_ok (pexpr (List.length (rstoks rs))) (List.length (rstoks rs))).
  - intros e k We Hd Hk. apply pexpr_ok; assumption.
  - assumption.
  - apply rstoks_fits.
Qed.

(* ------------------------------------------------------------------------ *)
(* 10. text level                                                             *)

Lemma wf_rules_split : forall rs, wf_rules rs = true ->
  forallb wf_rule rs = true /\ nodup_str (rule_names rs) = true.
Proof. intros rs H. unfold wf_rules in H. apply andb_true_iff in H. exact H. Qed.

(* the parser model inverts the printer on every well-formed rule list *)
Theorem parse_print_roundtrip : forall rs, wf_rules rs = true -> parse_grl (print_rules rs) = Ok rs.
Proof.
  intros rs H. destruct (wf_rules_split rs H) as [Hwf Hnd].
  unfold parse_grl, print_rules.
  rewrite lex_render by (apply rstoks_ok; assumption).
  rewrite parse_tokens_rstoks by assumption.
  rewrite Hnd. reflexivity.
Qed.

(* expressions alone: parse (print e) = e for every precedence-well-formed e *)
Theorem parse_expr_roundtrip : forall e, wf_expr e = true ->
  match lex (render (etoks e [])) with
  | Some ts => pexpr (List.length ts) ts = Some (e, [])
  | None => False
  end.
Proof.
  intros e H. destruct toks_ok as (He & _).
  rewrite lex_render by (apply He; auto).
  apply pexpr_ok; [assumption| |reflexivity].
  destruct depth_len as (Hd & _). specialize (Hd e []). cbn [List.length] in Hd. lia.
Qed.

(* a non-trivial rule list satisfies the well-formedness predicate *)
Definition example_rules : list rule :=
  [ {| rname := "SpeedUp"; rdesc := "say \""hi\"" to all"; rsal := -10;
       rwhen := EBin OOr
                  (EBin OAnd
                     (EBin OLT (EBin OAdd (EAtom (AVar (VMember (VName "Car") "Speed")))
                                          (EBin OMul (EAtom (AConst (CInt 2))) (EAtom (AConst (CInt (-3))))))
                               (EAtom (AMember (AMethod (AVar (VSel (VMember (VName "F") "Arr") (EAtom (AConst (CInt 0))))) "Max"
                                                  (ECons (EAtom (AConst (CStr "a""b\c"))) (ECons (EAtom (AConst CNil)) ENil))) "Limit")))
                     (EParen true (EBin OEq (EAtom (ANeg (AVar (VName "e")))) (EAtom (AConst (CBool false))))))
                  (EParen false (EBin OSub (EBin OSub (EAtom (AConst (CInt 1))) (EAtom (AConst (CInt 2))))
                                           (EParen false (EBin OSub (EAtom (AConst (CInt 3))) (EAtom (AConst (CInt 4)))))));
       rthen := [ SAssign (VMember (VName "Car") "Speed") AsAdd (EAtom (AFunc "Now" ENil));
                  SAtom (AFunc "Retract" (ECons (EAtom (AConst (CStr "SpeedUp"))) ENil)) ] |};
    {| rname := "p"; rdesc := ""; rsal := 2147483647;
       rwhen := EBin OLT (EAtom (AConst (CFloat 4609434218613702656)))              (* 1.5 *)
                         (EBin OMul (EAtom (AConst (CFloat 13830554455654793216)))     (* -0.5 *)
                                    (EAtom (AConst (CFloat 1))));                      (* the smallest subnormal *)
       rthen := [ SAtom (ASel (AMethod (AConst (CStr "x")) "Len" ENil) (EAtom (AConst (CInt 1)))) ] |} ]%string.

Example example_rules_wf : wf_rules example_rules = true.
Proof. vm_compute. reflexivity. Qed.

Example example_rules_roundtrip : parse_grl (print_rules example_rules) = Ok example_rules.
Proof. apply parse_print_roundtrip. exact example_rules_wf. Qed.

(* ------------------------------------------------------------------------ *)
(* 11. what acceptance guarantees (rejection lemmas in contrapositive form)   *)

(* every accepted rule has a salience in the 32-bit range and a non-empty action list *)
Lemma prule_sound : forall pe ts r rest, prule pe ts = Some (r, rest) ->
  rthen r <> [] /\ min_i32 <= rsal r <= max_i32.
Proof.
  intros pe ts r rest H. unfold prule in H.
  destruct ts as [|t ts]; [discriminate|]. destruct t; try discriminate.
  destruct ts as [|t ts]; [discriminate|]. destruct t; try discriminate.
  destruct (pdesc ts) as [[d ts2]|]; [|discriminate].
  destruct (psalience ts2) as [[sal ts3]|] eqn:Es; [|discriminate].
  destruct ts3 as [|t ts3]; [discriminate|]. destruct t; try discriminate.
  destruct ts3 as [|t ts3]; [discriminate|]. destruct t; try discriminate.
  destruct (pe ts3) as [[w ts4]|]; [|discriminate].
  destruct ts4 as [|t ts4]; [discriminate|]. destruct t; try discriminate.
  destruct (stmtloop pe ts4 0) as [[l r4]|]; [|discriminate].
  destruct l as [|st l]; [discriminate|].
  destruct r4 as [|t r4]; [discriminate|]. destruct t; try discriminate.
  inversion H; subst; clear H. cbn [rthen rsal]. split; [discriminate|].
  assert (Hs : in_i32 sal = true).
  { unfold psalience in Es.
    destruct ts2 as [|t ts2]; [inversion Es; reflexivity|].
    destruct t; try (inversion Es; reflexivity).
    destruct ts2 as [|t ts2]; [discriminate|]. destruct t; try discriminate.
    - destruct (in_i32 z) eqn:E; [|discriminate]. inversion Es; subst. exact E.
    - destruct ts2 as [|t ts2]; [discriminate|]. destruct t; try discriminate.
      destruct (in_i32 (- z)) eqn:E; [|discriminate]. inversion Es; subst. exact E. }
  unfold in_i32 in Hs. apply andb_true_iff in Hs as [A B]. apply Z.leb_le in A, B. lia.
Qed.

Definition rule_facets (r : rule) : Prop := rthen r <> [] /\ min_i32 <= rsal r <= max_i32.

Lemma ruleloop_sound : forall pe ts skip rs, ruleloop pe ts skip = Some rs -> Forall rule_facets rs.
Proof.
  induction ts as [|t ts IH]; intros skip rs H.
  - destruct skip; [|discriminate]. inversion H. constructor.
  - destruct skip as [|sk].
    + cbn [ruleloop] in H. destruct (prule pe (t :: ts)) as [[r rest]|] eqn:E; [|discriminate].
      destruct (ruleloop pe ts (consumed ts rest)) as [l|] eqn:E2; [|discriminate].
      inversion H; subst. constructor; [|eapply IH; exact E2].
      eapply prule_sound. exact E.
    + cbn [ruleloop] in H. eapply IH. exact H.
Qed.

(* an accepted text: every rule has a non-empty action list and a 32-bit salience, names are distinct *)
Theorem parse_grl_sound : forall text rs, parse_grl text = Ok rs ->
  Forall rule_facets rs /\ nodup_str (rule_names rs) = true.
Proof.
  intros text rs H. unfold parse_grl in H.
  destruct (lex text) as [ts|]; [|discriminate].
  destruct (parse_tokens ts) as [rs'|] eqn:E; [|discriminate].
  destruct (nodup_str (rule_names rs')) eqn:N; [|discriminate].
  inversion H; subst. split; [|assumption]. unfold parse_tokens in E. eapply ruleloop_sound. exact E.
Qed.

(* empty condition / empty action list: rejected whatever surrounds them *)
Lemma pexpr_then_none : forall f ts, pexpr f (TThen :: ts) = None.
Proof. destruct f; reflexivity. Qed.

Lemma reject_empty_when : forall f n d sal rest,
  prule (pexpr f) (TRule :: TName n :: TStr true d :: TSalience :: TInt sal :: TLBrace :: TWhen :: TThen :: rest) = None.
Proof.
  intros. cbn [prule pdesc]. destruct (unquote true d); [|reflexivity].
  cbn [psalience]. destruct (in_i32 sal); [|reflexivity].
  rewrite pexpr_then_none. reflexivity.
Qed.

(* a description with a malformed escape is rejected *)
Lemma reject_bad_description : forall pe n dq raw rest, unquote dq raw = None ->
  prule pe (TRule :: TName n :: TStr dq raw :: rest) = None.
Proof. intros pe n dq raw rest H. cbn [prule pdesc]. rewrite H. reflexivity. Qed.

Lemma reject_empty_then : forall pe ts r rest, prule pe ts = Some (r, rest) -> rthen r <> [].
Proof. intros. eapply prule_sound; eauto. Qed.

(* reserved words are never identifiers *)
Lemma ident_token_keyword : forall s t, keyword_of s = Some t -> ident_token s = t.
Proof. intros s t H. unfold ident_token. rewrite H. reflexivity. Qed.

Lemma ident_token_name : forall s n, ident_token s = TName n -> keyword_of s = None /\ n = s.
Proof.
  intros s n H. unfold ident_token in H. destruct (keyword_of s) as [t|] eqn:E.
  - subst t. unfold keyword_of in E. cbn [keywords alookup] in E.
    repeat match type of E with
    | (if ?b then _ else _) = _ => destruct b; [discriminate|]
    end. discriminate.
  - inversion H. auto.
Qed.

(* characters no token starts with are lexical errors *)
Lemma lex_one_illegal : forall c s, In (code c) [35; 36; 58; 63; 64; 92; 94; 95; 96; 126] -> lex_one c s = None.
Proof.
  intros c s H. cbn [In] in H.
  assert (E : c = chr (code c)).
  { unfold chr, code. rewrite N2Z.id, ascii_N_embedding. reflexivity. }
  repeat destruct H as [H|H]; try contradiction; rewrite E, <- H; reflexivity.
Qed.

Example reject_examples :
  map (fun t => match parse_grl t with Ok _ => true | _ => false end)
    [ "rule R { when F.A == 1 then F.A = 2; }";        (* accepted *)
      "rule R { when F.A == 1 then F.A = 2 }";         (* missing terminator *)
      "rule R { when F.A == 1 then }";                 (* empty action list *)
      "rule R { when then F.A = 2; }";                 (* empty condition *)
      "rule R { when (F.A == 1 then F.A = 2; }";       (* unbalanced bracket *)
      "rule R { when F.then == 1 then F.A = 2; }";     (* reserved word as identifier *)
      "rule R { when F.A == 1 # then F.A = 2; }";      (* illegal character *)
      "R { when F.A == 1 then F.A = 2; }";             (* missing keyword *)
      "rule R salience 2147483648 { when true then F.A = 2; }";      (* salience out of range *)
      "rule R { when F.A == 9223372036854775808 then F.A = 2; }";    (* integer out of range *)
      "rule R { when F.S == ""a\qb"" then F.A = 2; }";                (* malformed escape *)
      "rule R { when true then F.A = 2; } rule R { when true then F.A = 3; }"; (* duplicate name *)
      "rule R ""a\qb"" { when true then F.A = 2; }";                         (* malformed escape in the description *)
      "rule R ""say \""hi\"" "" { when true then F.A = 2; }"                  (* accepted: escaped description *)
    ]%string
  = [true; false; false; false; false; false; false; false; false; false; false; false; false; true].
Proof. vm_compute. reflexivity. Qed.

(* ------------------------------------------------------------------------ *)
(* 12. knowledge-base level (builder model)                                   *)

Lemma kb_find_app_r : forall n kb rs, mem_str n (rule_names kb) = false ->
  kb_find n (kb ++ rs)%list = kb_find n rs.
Proof.
  induction kb as [|r kb IH]; intros rs H; [reflexivity|]. cbn [rule_names map mem_str app kb_find] in *.
  apply orb_false_iff in H as [H1 H2]. rewrite H1. apply IH. exact H2.
Qed.

Lemma kb_find_app_l : forall n kb rs r, kb_find n kb = Some r -> kb_find n (kb ++ rs)%list = Some r.
Proof.
  induction kb as [|r0 kb IH]; intros rs r H; [discriminate|]. cbn [app kb_find] in *.
  destruct (String.eqb n (rname r0)); [assumption|]. apply IH. assumption.
Qed.

Lemma kb_find_nodup : forall rs r, nodup_str (rule_names rs) = true -> In r rs -> kb_find (rname r) rs = Some r.
Proof.
  induction rs as [|r0 rs IH]; intros r Hnd Hin; [contradiction|].
  cbn [rule_names map nodup_str kb_find] in *. apply andb_true_iff in Hnd as [Hn Hnd].
  destruct Hin as [->|Hin]; [rewrite String.eqb_refl; reflexivity|].
  destruct (String.eqb_spec (rname r) (rname r0)) as [E|_]; [|apply IH; assumption].
  exfalso. apply negb_true_iff in Hn.
  assert (M : mem_str (rname r0) (map rname rs) = true).
  { clear - Hin E. induction rs as [|x rs IH]; [contradiction|]. cbn [map mem_str].
    destruct Hin as [->|Hin]; [rewrite <- E, String.eqb_refl; reflexivity|]. rewrite IH by assumption. apply orb_true_r. }
  rewrite M in Hn. discriminate.
Qed.

Lemma disjoint_names_spec : forall kb rs r, disjoint_names kb rs = true -> In r rs ->
  mem_str (rname r) (rule_names kb) = false.
Proof.
  intros kb rs r H Hin. unfold disjoint_names in H. rewrite forallb_forall in H.
  specialize (H r Hin). apply negb_true_iff in H. exact H.
Qed.

(* acceptance: exactly the grammatical texts with new names; then every rule is stored as declared *)
Theorem build_accept_iff : forall kb text kb',
  build kb text = Ok kb' <->
  exists rs, parse_grl text = Ok rs /\ disjoint_names kb rs = true /\ kb' = (kb ++ rs)%list.
Proof.
  intros kb text kb'. unfold build. split.
  - destruct (parse_grl text) as [rs| |]; try discriminate.
    destruct (disjoint_names kb rs) eqn:D; [|discriminate]. intros H. inversion H. eauto.
  - intros (rs & -> & -> & ->). reflexivity.
Qed.

Theorem build_stores_declared : forall kb text kb' rs,
  build kb text = Ok kb' -> parse_grl text = Ok rs ->
  forall r, In r rs ->
    exists r', kb_find (rname r) kb' = Some r' /\ r' = r /\
               rdesc r' = rdesc r /\ rsal r' = rsal r /\ rwhen r' = rwhen r /\ rthen r' = rthen r.
Proof.
  intros kb text kb' rs Hb Hp r Hin.
  apply build_accept_iff in Hb as (rs' & Hp' & D & ->). rewrite Hp in Hp'. inversion Hp'; subst rs'.
  destruct (parse_grl_sound text rs Hp) as [_ Hnd].
  exists r. rewrite kb_find_app_r by (eapply disjoint_names_spec; eauto).
  rewrite kb_find_nodup by assumption. repeat split; reflexivity.
Qed.

Theorem build_keeps_loaded : forall kb text kb' r,
  build kb text = Ok kb' -> kb_find (rname r) kb = Some r -> kb_find (rname r) kb' = Some r.
Proof.
  intros kb text kb' r Hb Hf. apply build_accept_iff in Hb as (rs & _ & _ & ->).
  apply kb_find_app_l. assumption.
Qed.

(* rejection: an error, never a panic, and the knowledge base of the model is untouched *)
Theorem build_reject : forall kb text,
  (forall kb', build kb text <> Ok kb') -> build kb text = Err /\ kb_after kb text = kb.
Proof.
  intros kb text H. unfold kb_after. unfold build in *.
  destruct (parse_grl text) as [rs| |] eqn:P.
  - destruct (disjoint_names kb rs); [exfalso; eapply H; reflexivity|split; reflexivity].
  - split; reflexivity.
  - unfold parse_grl in P. destruct (lex text); [destruct (parse_tokens l); [destruct (nodup_str _)|]|]; discriminate.
Qed.

Theorem build_never_panics : forall kb text, build kb text <> Panic.
Proof.
  intros kb text. unfold build, parse_grl.
  destruct (lex text); [destruct (parse_tokens l); [destruct (nodup_str _)|]|]; try discriminate.
  destruct (disjoint_names kb l0); discriminate.
Qed.

(* a name that is already loaded, or declared twice, is rejected *)
Theorem build_reject_clash : forall kb text rs r,
  parse_grl text = Ok rs -> In r rs -> mem_str (rname r) (rule_names kb) = true -> build kb text = Err.
Proof.
  intros kb text rs r Hp Hin Hm. unfold build. rewrite Hp.
  destruct (disjoint_names kb rs) eqn:D; [|reflexivity].
  rewrite (disjoint_names_spec kb rs r D Hin) in Hm. discriminate.
Qed.

(* every well-formed rule list has a text that is accepted into any knowledge base with other names *)
Theorem build_print : forall kb rs, wf_rules rs = true -> disjoint_names kb rs = true ->
  build kb (print_rules rs) = Ok (kb ++ rs)%list.
Proof.
  intros kb rs Hwf D. unfold build. rewrite parse_print_roundtrip by assumption. rewrite D. reflexivity.
Qed.

(* ------------------------------------------------------------------------ *)
(* 13. the round trip for every spacing: any non-empty run of blanks, tabs and
       line breaks after each token *)
Theorem parse_print_any_spacing : forall rs seps, wf_rules rs = true ->
  List.length seps = List.length (rstoks rs) -> forallb ws_ok seps = true ->
  parse_grl (render_with (combine (rstoks rs) seps)) = Ok rs.
Proof.
  intros rs seps H Hlen Hs. destruct (wf_rules_split rs H) as [Hwf Hnd].
  unfold parse_grl.
  assert (Hok : forallb (fun p => tok_ok (fst p) && ws_ok (snd p)) (combine (rstoks rs) seps) = true).
  { pose proof (rstoks_ok rs Hwf) as Ht. revert seps Hlen Hs Ht. generalize (rstoks rs) as ts.
    induction ts as [|t ts IH]; intros [|s seps] Hlen Hs Ht; try discriminate; [reflexivity|].
    cbn [combine forallb fst snd] in *. apply andb_true_iff in Hs as [Hs1 Hs2]. apply andb_true_iff in Ht as [Ht1 Ht2].
    rewrite Ht1, Hs1. cbn [andb]. apply IH; auto. }
  rewrite (lex_render_with _ Hok).
  assert (Em : map fst (combine (rstoks rs) seps) = rstoks rs).
  { clear Hs Hok. revert seps Hlen. generalize (rstoks rs) as ts. induction ts as [|t ts IH]; intros [|s seps] Hlen; try discriminate; [reflexivity|].
    cbn [combine map fst]. f_equal. apply IH. cbn [List.length] in Hlen. lia. }
  rewrite Em, parse_tokens_rstoks by assumption. rewrite Hnd. reflexivity.
Qed.
