(* CallCountExamples.v — the run-level C13 theorem applied to a parsed rule set and the fact library of the harness:
   the hypotheses are met by a concrete, running rule set, and the bound is tight on it. *)
From Coq Require Import Lia.
From Grule Require Import Base Values Syntax Lexer Parser EngineAbs Facts Eval Methods Engine MemoProofs Refinement Potential CallCount.
Open Scope string_scope.

Definition cc_text : string :=
"rule Up ""u"" salience 5 { when F.Sum(F.I64, 1) < 4 then F.I64 += 1; }
rule Side ""s"" salience 0 { when F.Sum(F.I64, 1) >= 4 && F.U8 < 3 then F.U8 += 1; }
rule Peek ""p"" salience -1 { when F.Sum(F.I64, 1) > 100 || F.S == ""x"" then Complete(); }".

Definition cc_rules : list rule := Eval vm_compute in match parse_grl cc_text with Ok rs => rs | _ => [] end.
Example cc_parses : parse_grl cc_text = Ok cc_rules. Proof. vm_compute. reflexivity. Qed.

Definition cc_recv : atom := AVar (VName "F").
Definition cc_args : elist := ECons (EAtom (AVar (VMember (VName "F") "I64"))) (ECons (EAtom (AConst (CInt 1))) ENil).
Definition cc_mut : string -> bool := fun _ => false.
Definition cc_vars := Eval vm_compute in vars_rules cc_rules.


Lemma sum_no_panic : forall fs args, fact_meth fs "Sum" args = Panic -> fact_panics_inside "Sum" args = false.
Proof. intros fs args _. unfold fact_panics_inside. destruct args; reflexivity. Qed.

Lemma cc_rules_ok : rules_ok cc_rules cc_mut.
Proof.
  intros r Hin. simpl in Hin.
  repeat (destruct Hin as [<-|Hin]; [split; [reflexivity|repeat constructor; reflexivity]|]). contradiction.
Qed.

Lemma cc_only : forall r, In r cc_rules ->
  only_expr "Sum" cc_recv cc_args (rwhen r) = true /\ forallb (only_stmt "Sum" cc_recv cc_args) (rthen r) = true.
Proof. intros r Hin. simpl in Hin. repeat (destruct Hin as [<-|Hin]; [split; reflexivity|]). contradiction. Qed.

(* the invalidation events for F.Sum(F.I64, 1): the one statement of Up; nothing in Side and Peek *)
Example cc_costs : map (fun r => (rname r, stmts_cost cc_vars "Sum" cc_recv cc_args (rthen r))) cc_rules = [("Up", 1%Z); ("Side", 0%Z); ("Peek", 0%Z)].
Proof. vm_compute. reflexivity. Qed.

(* the theorem, for this rule set: every run, from any state of the instance, any entries, budget, cancellation point and
   iteration order *)
Theorem cc_bound : forall fuel c order u es sf recs o,
  execute estate (rule_cond cc_vars fact_meth fact_panics_inside cc_rules) (rule_act cc_vars fact_meth fact_panics_inside cc_rules)
          reset_all fuel c order u es = (sf, recs, o) ->
  (cnt "Sum" (s_user sf) <= cnt "Sum" u + 1 + recs_cost (rule_cost cc_vars "Sum" cc_recv cc_args cc_rules) recs)%Z.
Proof.
  exact (call_count_run cc_vars fact_meth fact_panics_inside cc_mut "Sum" cc_recv cc_args sum_no_panic cc_rules cc_rules_ok cc_only).
Qed.

(* ... and a run on which the bound is tight: Up fires three times (three invalidation events), Side three times (none),
   seven cycles with three evaluations each; Sum runs 1 + 3 = 4 times, not 21 *)
Definition cc_facts : facts :=
  [("F", FPtr (Some (FStruct [("I64", FV (VInt I64 0)); ("U8", FV (VUint U8 0)); ("S", FV (VStr "go"))])))].
Definition cc_entries : list entry :=
  map (fun r => {| e_key := rname r; e_name := rname r; e_sal := rsal r; e_retracted := false; e_deleted := false |}) cc_rules.
Definition cc_run := eng_execute cc_rules 20 {| c_max := 10; c_reterr := false; c_cancel := None |} (fun _ l => l) cc_facts cc_entries.
Example cc_run_tight :
  map cr_exec (snd (fst cc_run)) = [Some (1%Z, "Up"); Some (2%Z, "Up"); Some (3%Z, "Up"); Some (4%Z, "Side"); Some (5%Z, "Side"); Some (6%Z, "Side"); None]
  /\ snd cc_run = OQuiescent
  /\ cnt "Sum" (s_user (fst (fst cc_run))) = 4%Z
  /\ recs_cost (rule_cost cc_vars "Sum" cc_recv cc_args cc_rules) (snd (fst cc_run)) = 3%Z.
Proof. vm_compute. repeat split; reflexivity. Qed.
