(* LibraryProofs.v — invariants of the knowledge-library state machine
   (coq/model/Library.v) over arbitrary operation histories (C16; the frame
   theorems are also used by C09).  No bound on the length of a history, the number
   of keys, instances or rules. *)
From Coq Require Import List String Bool Lia Arith Permutation.
From Grule Require Import Base EngineGen AnchorsEngine EngineAbs Library.
Import ListNotations.
Open Scope list_scope.

(* ------------------------------------------------------------------ *)
(* strings / tombstone names                                           *)
Lemma lib_prefixb_app : forall p s, prefixb p (p ++ s)%string = true.
Proof. induction p; intros; cbn [append prefixb]; auto. rewrite Ascii.eqb_refl. apply IHp. Qed.

Lemma is_user_tomb : forall n, is_user (tomb n) = false.
Proof. intros n. unfold is_user, tomb. rewrite lib_prefixb_app. reflexivity. Qed.

Lemma lib_append_inj : forall p a b, (p ++ a = p ++ b)%string -> a = b.
Proof. induction p; intros a0 b0 H; cbn [append] in H; auto. inversion H. auto. Qed.

Lemma pad_inj : forall n m, pad n = pad m -> n = m.
Proof. induction n; destruct m; simpl; intros H; try discriminate; auto. inversion H. f_equal. auto. Qed.

Lemma tomb_inj : forall n m, tomb n = tomb m -> n = m.
Proof. intros n m H. apply pad_inj. eapply lib_append_inj. exact H. Qed.

Lemma user_not_tomb : forall n m, is_user n = true -> n <> tomb m.
Proof. intros n m H E. subst. rewrite is_user_tomb in H. discriminate. Qed.

(* ------------------------------------------------------------------ *)
(* association lists, set_nth                                          *)
Lemma lib_alookup_aupdate_eq : forall A k (v : A) m, alookup k (aupdate k v m) = Some v.
Proof.
  induction m as [|[k' v'] m IH]; simpl.
  - rewrite String.eqb_refl. reflexivity.
  - destruct (String.eqb k k') eqn:E; simpl.
    + rewrite String.eqb_refl. reflexivity.
    + rewrite E. exact IH.
Qed.

Lemma lib_alookup_aupdate_neq : forall A k j (v : A) m, k <> j -> alookup j (aupdate k v m) = alookup j m.
Proof.
  induction m as [|[k' v'] m IH]; simpl; intros Hn.
  - destruct (String.eqb j k) eqn:E; auto. apply String.eqb_eq in E. congruence.
  - destruct (String.eqb k k') eqn:E; simpl.
    + apply String.eqb_eq in E. subst k'.
      destruct (String.eqb j k) eqn:E2; auto. apply String.eqb_eq in E2. congruence.
    + destruct (String.eqb j k'); auto.
Qed.

Lemma lib_aupdate_same : forall A k (v : A) m, alookup k m = Some v -> aupdate k v m = m.
Proof.
  induction m as [|[k' v'] m IH]; simpl; intros H; [discriminate|].
  destruct (String.eqb k k') eqn:E.
  - apply String.eqb_eq in E. inversion H. subst. reflexivity.
  - f_equal. auto.
Qed.

Lemma set_nth_length : forall A i (x : A) l, List.length (set_nth i x l) = List.length l.
Proof. induction i; destruct l; simpl; auto. Qed.

Lemma nth_error_set_nth_eq : forall A i (x : A) l y, nth_error l i = Some y -> nth_error (set_nth i x l) i = Some x.
Proof. induction i; destruct l; simpl; intros; try discriminate; auto. eapply IHi; eauto. Qed.

Lemma nth_error_set_nth_neq : forall A i j (x : A) l, i <> j -> nth_error (set_nth i x l) j = nth_error l j.
Proof.
  induction i; destruct l; destruct j; simpl; intros; auto; try congruence.
Qed.

Lemma Forall_set_nth : forall A (P : A -> Prop) i x l, Forall P l -> P x -> Forall P (set_nth i x l).
Proof.
  induction i; destruct l; simpl; intros Hl Hx; auto; inversion Hl; subst; constructor; auto.
Qed.

Lemma nth_error_Forall : forall A (P : A -> Prop) l i x, Forall P l -> nth_error l i = Some x -> P x.
Proof. intros A P l i x H E. rewrite Forall_forall in H. apply H. eapply nth_error_In; eauto. Qed.

Section LibProofs.
Variable B : Type.
Variable F : Type.
Variable holds : B -> F -> bool.
Variable self : B -> string.
Variable zap : B -> option string.
Variable order : nat -> kb B -> kb B.
(* a pass of the engine visits entries of the knowledge base (in some order of the Go map) *)
Hypothesis order_incl : forall i l x, In x (order i l) -> In x l.

Notation lentry := (lentry B).
Notation kb := (kb B).
Notation state := (state B).
Notation step := (step B F holds self zap order).
Notation run := (run B F holds self zap order).
Notation exec_loop := (exec_loop B F holds self zap order).
Notation exec_kb := (exec_kb B F holds self zap order).
Notation op := (op B F).

(* ------------------------------------------------------------------ *)
(* the invariant                                                       *)
Definition entry_ok (next : nat) (x : lentry) : Prop :=
  e_name (le_e x) = le_key x /\
  (is_user (le_key x) = true \/ exists m, (m < next)%nat /\ le_key x = tomb m) /\
  (le_deleted x = true -> is_user (le_key x) = false).

Definition kb_ok (next : nat) (es : kb) : Prop := NoDup (keys es) /\ Forall (entry_ok next) es.

Definition wf_state (s : state) : Prop :=
  (forall k es, alookup k (st_lib s) = Some es -> kb_ok (st_next s) es) /\
  Forall (fun i => kb_ok (st_next s) (i_kb i)) (st_insts s).

(* the rules in force: keys of the entries that are not removed *)
Definition live (es : kb) : list string := keys (filter (fun x => negb (le_deleted x)) es).

Lemma entry_ok_mono : forall n n' x, (n <= n')%nat -> entry_ok n x -> entry_ok n' x.
Proof.
  intros n n' x Hle (H1 & H2 & H3). split; [|split]; auto.
  destruct H2 as [H2|(m & Hm & E)]; auto. right. exists m. split; auto. lia.
Qed.

Lemma kb_ok_mono : forall n n' es, (n <= n')%nat -> kb_ok n es -> kb_ok n' es.
Proof.
  intros n n' es Hle (H1 & H2). split; auto.
  eapply Forall_impl; [|exact H2]. intros x. apply entry_ok_mono; auto.
Qed.

Lemma kb_ok_nil : forall n, kb_ok n [].
Proof. intros n. split; constructor. Qed.

(* maps that keep key, name and do not set the Deleted flag *)
Lemma kb_ok_map : forall n (f : lentry -> lentry) es,
  (forall x, le_key (f x) = le_key x /\ e_name (le_e (f x)) = e_name (le_e x) /\ (le_deleted (f x) = true -> le_deleted x = true)) ->
  kb_ok n es -> kb_ok n (map f es).
Proof.
  intros n f es Hf (H1 & H2). split.
  - unfold keys in *. rewrite map_map. erewrite map_ext; [exact H1|]. intros x. apply Hf.
  - rewrite Forall_map. eapply Forall_impl; [|exact H2].
    intros x (A1 & A2 & A3). destruct (Hf x) as (K & N & D). unfold entry_ok. rewrite K, N. auto.
Qed.

Lemma keys_map : forall (f : lentry -> lentry) es, (forall x, le_key (f x) = le_key x) -> keys (map f es) = keys es.
Proof. intros f es Hf. unfold keys. rewrite map_map. apply map_ext. exact Hf. Qed.

Lemma live_map : forall (f : lentry -> lentry) es,
  (forall x, le_key (f x) = le_key x /\ le_deleted (f x) = le_deleted x) -> live (map f es) = live es.
Proof.
  intros f es Hf. unfold live, keys. induction es as [|x es IH]; simpl; auto.
  destruct (Hf x) as (K & D). rewrite D. destruct (le_deleted x); simpl; auto. rewrite K. f_equal. auto.
Qed.

Lemma clone_kb_ok : forall n es, kb_ok n es -> kb_ok n (clone_kb B es).
Proof. intros. apply kb_ok_map; [intros x; simpl; auto|assumption]. Qed.
Lemma live_clone : forall es, live (clone_kb B es) = live es.
Proof. intros. apply live_map. intros x. split; reflexivity. Qed.
Lemma keys_clone : forall es, keys (clone_kb B es) = keys es.
Proof. intros. apply keys_map. reflexivity. Qed.

Lemma reload_kb_ok : forall n es, kb_ok n es -> kb_ok n (reload_kb B es).
Proof.
  intros n es (H1 & H2). split.
  - unfold keys, reload_kb in *. rewrite map_map. erewrite map_ext; [exact H1|]. intros x. reflexivity.
  - unfold reload_kb. rewrite Forall_map. eapply Forall_impl; [|exact H2].
    intros x (A1 & A2 & A3). unfold entry_ok, le_key, le_deleted in *. simpl. split; auto. split; auto.
    intros Hd. apply negb_true_iff in Hd. rewrite <- A1. exact Hd.
Qed.
Lemma keys_reload : forall es, keys (reload_kb B es) = keys es.
Proof. intros. apply keys_map. reflexivity. Qed.

Lemma retract_kb_ok : forall n nm es, kb_ok n es -> kb_ok n (retract_kb B nm es).
Proof.
  intros. apply kb_ok_map; [|assumption]. intros x. destruct (String.eqb (e_name (le_e x)) nm); simpl; auto.
Qed.
Lemma live_retract : forall nm es, live (retract_kb B nm es) = live es.
Proof.
  intros. apply live_map. intros x. destruct (String.eqb (e_name (le_e x)) nm); split; reflexivity.
Qed.
Lemma keys_retract : forall nm es, keys (retract_kb B nm es) = keys es.
Proof. intros. apply keys_map. intros x. destruct (String.eqb (e_name (le_e x)) nm); reflexivity. Qed.

(* ---- has_key ---- *)
Lemma has_key_in : forall k es, has_key B k es = true <-> In k (keys es).
Proof.
  intros k es. unfold has_key, keys. rewrite existsb_exists. split.
  - intros (x & Hx & E). apply String.eqb_eq in E. subst. apply in_map. exact Hx.
  - intros H. apply in_map_iff in H. destruct H as (x & E & Hx). exists x. split; auto. apply String.eqb_eq. auto.
Qed.

Lemma has_key_false : forall k es, has_key B k es = false <-> ~ In k (keys es).
Proof.
  intros. rewrite <- has_key_in. destruct (has_key B k es); split; intros; try congruence; try (exfalso; auto; fail).
Qed.

Lemma keys_app : forall a b : kb, keys (a ++ b) = keys a ++ keys b.
Proof. intros. unfold keys. apply map_app. Qed.

Lemma nodup_snoc : forall A (l : list A) x, NoDup l -> ~ In x l -> NoDup (l ++ [x]).
Proof.
  induction l as [|y l IH]; simpl; intros x Hnd Hx.
  - constructor; [intros []|constructor].
  - inversion Hnd; subst. constructor.
    + intros Hi. apply in_app_or in Hi. destruct Hi as [Hi|[Hi|[]]]; [contradiction|]. subst. apply Hx. left. reflexivity.
    + apply IH; auto.
Qed.

(* ---- RemoveRuleEntry ---- *)
Lemma remove_kb_notin : forall n t es, ~ In n (keys es) -> remove_kb B n t es = es.
Proof.
  induction es as [|x es IH]; simpl; intros H; auto.
  destruct (String.eqb (le_key x) n) eqn:E.
  - apply String.eqb_eq in E. exfalso. apply H. left. exact E.
  - f_equal. apply IH. intros Hi. apply H. right. exact Hi.
Qed.

Lemma keys_remove_incl : forall n t es k, In k (keys (remove_kb B n t es)) -> In k (keys es) \/ k = t.
Proof.
  induction es as [|x es IH]; simpl; intros k H; auto.
  destruct H as [H|H].
  - destruct (String.eqb (le_key x) n); simpl in H; auto.
  - destruct (IH k H); auto.
Qed.

Lemma live_remove : forall n t es k, In k (live (remove_kb B n t es)) -> In k (live es) /\ k <> n.
Proof.
  unfold live, keys. induction es as [|x es IH]; simpl; intros k H; [contradiction|].
  destruct (String.eqb (le_key x) n) eqn:E; simpl in H.
  - destruct (IH k H) as (A & Bn). split; auto. destruct (le_deleted x); simpl; auto.
  - destruct (le_deleted x) eqn:D; simpl in *.
    + destruct (IH k H). split; auto.
    + destruct H as [H|H].
      * split; auto. subst k. intros E'. rewrite E', String.eqb_refl in E. discriminate.
      * destruct (IH k H). split; auto.
Qed.

Lemma live_incl_keys : forall es k, In k (live es) -> In k (keys es).
Proof.
  unfold live, keys. intros es k H. apply in_map_iff in H. destruct H as (x & E & Hx).
  apply filter_In in Hx. destruct Hx. apply in_map_iff. eauto.
Qed.

Lemma remove_kb_ok : forall next n es, kb_ok next es -> kb_ok (S next) (remove_kb B n (tomb next) es).
Proof.
  intros next n es (Hnd & Hall).
  assert (Hfresh : ~ In (tomb next) (keys es)).
  { intros Hi. unfold keys in Hi. apply in_map_iff in Hi. destruct Hi as (x & E & Hx).
    rewrite Forall_forall in Hall. destruct (Hall x Hx) as (_ & [U|(m & Hm & Em)] & _).
    - rewrite E, is_user_tomb in U. discriminate.
    - rewrite E in Em. apply tomb_inj in Em. lia. }
  split.
  - clear Hall. induction es as [|x es IH]; simpl; [constructor|].
    inversion Hnd as [|? ? Hx Hnd']; subst.
    destruct (String.eqb (le_key x) n) eqn:E.
    + apply String.eqb_eq in E. rewrite remove_kb_notin by (rewrite <- E; exact Hx).
      simpl. constructor; auto. intros Hi. apply Hfresh. right. exact Hi.
    + simpl. constructor.
      * intros Hi. apply keys_remove_incl in Hi. destruct Hi as [Hi|Hi]; [contradiction|].
        apply Hfresh. left. exact Hi.
      * apply IH; auto. intros Hi. apply Hfresh. right. exact Hi.
  - unfold remove_kb. rewrite Forall_map. eapply Forall_impl; [|exact Hall].
    intros x Hx. destruct (String.eqb (le_key x) n).
    + unfold entry_ok, tombstone, le_key, le_deleted. simpl. split; [reflexivity|]. split.
      * right. exists next. split; auto.
      * intros _. apply is_user_tomb.
    + eapply entry_ok_mono; [|exact Hx]. lia.
Qed.

Lemma remove_kb_not_live : forall n t es, ~ In n (live (remove_kb B n t es)).
Proof. intros n t es H. apply live_remove in H. destruct H. congruence. Qed.

(* after removal no entry carries the name any more (so it can be built again) *)
Lemma remove_kb_no_key : forall next n es, kb_ok next es -> is_user n = true -> ~ In n (keys (remove_kb B n (tomb next) es)).
Proof.
  intros next n es (Hnd & _) Hu. induction es as [|x es IH]; simpl; auto.
  inversion Hnd as [|? ? Hx Hnd']; subst.
  destruct (String.eqb (le_key x) n) eqn:E; simpl.
  - apply String.eqb_eq in E. rewrite remove_kb_notin by (rewrite <- E; exact Hx).
    intros [H|H].
    + apply (user_not_tomb n next Hu). auto.
    + rewrite <- E in H. contradiction.
  - intros [H|H].
    + rewrite H, String.eqb_refl in E. discriminate.
    + apply IH; auto.
Qed.

(* ---- BuildRuleFromResource ---- *)
Definition names (rs : list (rule B)) : list string := map r_name rs.

Lemma grl_collect_spec : forall rs acc err,
  exists kept, fst (grl_collect B rs acc err) = acc ++ kept /\ incl kept rs /\
               (forall r, In r rs -> In (r_name r) (names (acc ++ kept))).
Proof.
  induction rs as [|r rs IH]; simpl; intros acc err.
  - exists []. rewrite app_nil_r. split; auto. split; [intros x Hx; exact Hx|]. intros r [].
  - destruct (existsb (fun x => String.eqb (r_name x) (r_name r)) acc) eqn:E.
    + destruct (IH acc true) as (kept & E1 & I1 & N1). exists kept. split; auto. split.
      * intros x Hx. right. auto.
      * intros r' [->|Hr]; auto. apply existsb_exists in E. destruct E as (x & Hx & Ex).
        apply String.eqb_eq in Ex. unfold names. rewrite map_app. apply in_or_app. left. rewrite <- Ex. apply in_map. exact Hx.
    + destruct (IH (acc ++ [r]) err) as (kept & E1 & I1 & N1). exists (r :: kept).
      rewrite E1, <- app_assoc. simpl. split; auto. split.
      * intros x [->|Hx]; [left; auto|right; auto].
      * intros r' [->|Hr].
        -- unfold names. rewrite map_app. apply in_or_app. right. simpl. auto.
        -- specialize (N1 r' Hr). rewrite <- app_assoc in N1. exact N1.
Qed.

Lemma grl_collect_err_mono : forall rs acc, snd (grl_collect B rs acc true) = true.
Proof.
  induction rs as [|r rs IH]; simpl; intros acc; auto.
  destruct (existsb _ acc); auto.
Qed.

Lemma grl_collect_ok : forall rs acc err, snd (grl_collect B rs acc err) = false ->
  err = false /\ NoDup (names rs) /\ (forall r, In r rs -> ~ In (r_name r) (names acc)).
Proof.
  induction rs as [|r rs IH]; simpl; intros acc err H.
  - split; auto. split; [constructor|]. intros r [].
  - destruct (existsb (fun x => String.eqb (r_name x) (r_name r)) acc) eqn:E.
    + rewrite grl_collect_err_mono in H. discriminate.
    + destruct (IH _ _ H) as (He & Hnd & Hdis). split; auto.
      assert (Hr : ~ In (r_name r) (names acc)).
      { intros Hi. unfold names in Hi. apply in_map_iff in Hi. destruct Hi as (x & Ex & Hx).
        assert (existsb (fun x => String.eqb (r_name x) (r_name r)) acc = true).
        { apply existsb_exists. exists x. split; auto. apply String.eqb_eq. auto. }
        congruence. }
      split.
      * constructor; auto. intros Hi. unfold names in Hi. apply in_map_iff in Hi. destruct Hi as (r' & Er & Hr').
        apply (Hdis r' Hr'). unfold names. rewrite map_app. apply in_or_app. right. simpl. left. auto.
      * intros r' [->|Hr'] Hi; auto. apply (Hdis r' Hr'). unfold names. rewrite map_app. apply in_or_app. left. exact Hi.
Qed.

Lemma grl_collect_nodup : forall rs acc err,
  NoDup (names (acc ++ rs)) -> grl_collect B rs acc err = (acc ++ rs, err).
Proof.
  induction rs as [|r rs IH]; simpl; intros acc err H.
  - rewrite app_nil_r. reflexivity.
  - destruct (existsb (fun x => String.eqb (r_name x) (r_name r)) acc) eqn:E.
    + exfalso. apply existsb_exists in E. destruct E as (x & Hx & Ex). apply String.eqb_eq in Ex.
      unfold names in H. rewrite map_app in H. simpl in H. apply NoDup_remove_2 in H. apply H.
      apply in_or_app. left. rewrite <- Ex. apply in_map. exact Hx.
    + rewrite IH; rewrite <- app_assoc; simpl; auto.
Qed.

Lemma add_all_err_mono : forall rs es, snd (add_all B rs es true) = true.
Proof. induction rs as [|r rs IH]; simpl; intros es; auto. destruct (has_key B (r_name r) es); auto. Qed.

Lemma has_key_app : forall k (a b : kb), has_key B k (a ++ b) = has_key B k a || has_key B k b.
Proof. intros. unfold has_key. apply existsb_app. Qed.

Lemma add_all_spec : forall rs es err,
  exists added, fst (add_all B rs es err) = es ++ added /\
    (forall x, In x added -> exists r, In r rs /\ x = mk_entry B r /\ has_key B (r_name r) es = false).
Proof.
  induction rs as [|r rs IH]; simpl; intros es err.
  - exists []. rewrite app_nil_r. split; auto. intros x [].
  - destruct (has_key B (r_name r) es) eqn:E.
    + destruct (IH es true) as (added & E1 & A1). exists added. split; auto.
      intros x Hx. destruct (A1 x Hx) as (r' & Hr & Ex & Hk). exists r'. auto.
    + destruct (IH (es ++ [mk_entry B r]) err) as (added & E1 & A1). exists (mk_entry B r :: added).
      rewrite E1, <- app_assoc. simpl. split; auto.
      intros x [<-|Hx].
      * exists r. auto.
      * destruct (A1 x Hx) as (r' & Hr & Ex & Hk). exists r'. split; auto. split; auto.
        rewrite has_key_app in Hk. apply orb_false_iff in Hk. tauto.
Qed.

Lemma add_all_ok : forall rs es err, snd (add_all B rs es err) = false ->
  err = false /\ (forall r, In r rs -> has_key B (r_name r) es = false).
Proof.
  induction rs as [|r rs IH]; simpl; intros es err H.
  - split; auto. intros r [].
  - destruct (has_key B (r_name r) es) eqn:E.
    + rewrite add_all_err_mono in H. discriminate.
    + destruct (IH _ _ H) as (He & Hk). split; auto.
      intros r' [->|Hr]; auto. specialize (Hk r' Hr). rewrite has_key_app in Hk. apply orb_false_iff in Hk. tauto.
Qed.

Lemma add_all_accept : forall rs es err,
  NoDup (names rs) -> (forall r, In r rs -> has_key B (r_name r) es = false) ->
  add_all B rs es err = (es ++ map (mk_entry B) rs, err).
Proof.
  induction rs as [|r rs IH]; simpl; intros es err Hnd Hk.
  - rewrite app_nil_r. reflexivity.
  - rewrite (Hk r) by auto. inversion Hnd as [|? ? Hr Hnd']; subst.
    rewrite IH; auto.
    + rewrite <- app_assoc. reflexivity.
    + intros r' Hr'. rewrite has_key_app, (Hk r') by auto. simpl.
      unfold has_key. simpl. rewrite orb_false_r. unfold le_key. simpl.
      destruct (String.eqb (r_name r) (r_name r')) eqn:E; auto.
      apply String.eqb_eq in E. exfalso. apply Hr. rewrite E. apply in_map. exact Hr'.
Qed.

(* (a) a resource without duplicates whose names are all free is accepted and every rule is stored as written *)
Lemma walk_accept : forall rs es,
  NoDup (names rs) -> (forall r, In r rs -> has_key B (r_name r) es = false) ->
  walk_kb B rs es = (es ++ map (mk_entry B) rs, false).
Proof.
  intros rs es Hnd Hk. unfold walk_kb. rewrite (grl_collect_nodup rs [] false) by exact Hnd. simpl.
  apply add_all_accept; auto.
Qed.

(* the walk of the listener (before a possible restore) only appends rules of the resource whose name was free *)
Lemma walk_extends : forall rs es,
  exists added, fst (walk_kb B rs es) = es ++ added /\
    (forall x, In x added -> exists r, In r rs /\ x = mk_entry B r /\ has_key B (r_name r) es = false).
Proof.
  intros rs es. unfold walk_kb. destruct (grl_collect B rs [] false) as [g e1] eqn:Eg.
  destruct (grl_collect_spec rs [] false) as (kept & E1 & I1 & _). rewrite Eg in E1. simpl in E1. subst g.
  destruct (add_all_spec kept es e1) as (added & E2 & A2). exists added. split; auto.
  intros x Hx. destruct (A2 x Hx) as (r & Hr & Ex & Hk). exists r. split; auto.
Qed.

(* (c) the verdict: no error exactly when the names of the resource are pairwise different and all free *)
Lemma walk_error_iff : forall rs es,
  snd (walk_kb B rs es) = false <-> (NoDup (names rs) /\ forall r, In r rs -> has_key B (r_name r) es = false).
Proof.
  intros rs es. split.
  - unfold walk_kb. destruct (grl_collect B rs [] false) as [g e1] eqn:Eg. intros H.
    destruct (add_all_ok _ _ _ H) as (He & Hk). subst e1.
    assert (Hs : snd (grl_collect B rs [] false) = false) by (rewrite Eg; reflexivity).
    destruct (grl_collect_ok _ _ _ Hs) as (_ & Hnd & _). split; auto.
    rewrite (grl_collect_nodup rs [] false Hnd) in Eg. inversion Eg. subst g. exact Hk.
  - intros (Hnd & Hk). rewrite walk_accept; auto.
Qed.

Lemma walk_kb_ok : forall n rs es, forallb (fun r => is_user (r_name r)) rs = true -> kb_ok n es -> kb_ok n (fst (walk_kb B rs es)).
Proof.
  intros n rs es Hu (Hnd & Hall). rewrite forallb_forall in Hu.
  unfold walk_kb. destruct (grl_collect B rs [] false) as [g e1] eqn:Eg.
  destruct (grl_collect_spec rs [] false) as (kept & E1 & I1 & _). rewrite Eg in E1. simpl in E1. subst g.
  assert (Hug : forall r, In r kept -> is_user (r_name r) = true) by (intros r Hr; apply Hu; apply I1; exact Hr).
  clear Eg I1 Hu. revert es e1 Hnd Hall. induction kept as [|r kept IH]; simpl; intros es e1 Hnd Hall.
  - split; auto.
  - assert (Hug' : forall r0, In r0 kept -> is_user (r_name r0) = true) by (intros r0 Hr0; apply Hug; right; exact Hr0).
    destruct (has_key B (r_name r) es) eqn:E.
    + apply IH; auto.
    + apply IH; auto.
      * rewrite keys_app. simpl. apply has_key_false in E.
        apply nodup_snoc; auto.
      * apply Forall_app. split; auto. constructor; [|constructor].
        unfold entry_ok, mk_entry, le_key, le_deleted. simpl. split; [reflexivity|]. split; [left; apply Hug; left; reflexivity|discriminate].
Qed.

(* ---- the transactional build: the walk, then restore() when it reported an error ---- *)
Lemma build_kb_unfold : forall rs es,
  build_kb B rs es = (if snd (walk_kb B rs es) then (es, true) else (fst (walk_kb B rs es), false)).
Proof. intros. unfold build_kb. destruct (walk_kb B rs es) as [es' e]. reflexivity. Qed.

(* (a) a resource without duplicates whose names are all free is accepted and every rule is stored as written *)
Theorem build_accept : forall rs es,
  NoDup (names rs) -> (forall r, In r rs -> has_key B (r_name r) es = false) ->
  build_kb B rs es = (es ++ map (mk_entry B) rs, false).
Proof. intros rs es Hnd Hk. rewrite build_kb_unfold, walk_accept; auto. Qed.

(* (b) the verdict: no error exactly when the names of the resource are pairwise different and all free *)
Theorem build_error_iff : forall rs es,
  snd (build_kb B rs es) = false <-> (NoDup (names rs) /\ forall r, In r rs -> has_key B (r_name r) es = false).
Proof.
  intros rs es. rewrite <- walk_error_iff. rewrite build_kb_unfold. destruct (snd (walk_kb B rs es)); simpl; split; auto.
Qed.

(* (c) a rejected resource leaves the rule entries exactly as they were *)
Theorem build_reject : forall rs es, snd (build_kb B rs es) = true -> fst (build_kb B rs es) = es.
Proof. intros rs es. rewrite build_kb_unfold. destruct (snd (walk_kb B rs es)); simpl; auto. discriminate. Qed.

(* whatever the verdict, every entry that was there stays, unchanged and in place *)
Theorem build_extends : forall rs es,
  exists added, fst (build_kb B rs es) = es ++ added /\
    (forall x, In x added -> exists r, In r rs /\ x = mk_entry B r /\ has_key B (r_name r) es = false).
Proof.
  intros rs es. rewrite build_kb_unfold. destruct (snd (walk_kb B rs es)); simpl.
  - exists []. rewrite app_nil_r. split; auto. intros x [].
  - apply walk_extends.
Qed.

Lemma build_kb_ok : forall n rs es, forallb (fun r => is_user (r_name r)) rs = true -> kb_ok n es -> kb_ok n (fst (build_kb B rs es)).
Proof.
  intros n rs es Hu Hk. rewrite build_kb_unfold. destruct (snd (walk_kb B rs es)); simpl; auto. apply walk_kb_ok; auto.
Qed.


(* ------------------------------------------------------------------ *)
(* one Execute: what the passes can mention                            *)
Definition live_b (es : kb) : list (string * B) :=
  map (fun x => (le_key x, le_body x)) (filter (fun x => negb (le_deleted x)) es).

Lemma live_b_fst : forall es, map fst (live_b es) = live es.
Proof. intros. unfold live_b, live, keys. rewrite map_map. reflexivity. Qed.

Lemma live_b_map : forall (f : lentry -> lentry) es,
  (forall x, le_key (f x) = le_key x /\ le_deleted (f x) = le_deleted x /\ le_body (f x) = le_body x) -> live_b (map f es) = live_b es.
Proof.
  intros f es Hf. unfold live_b. induction es as [|x es IH]; simpl; auto.
  destruct (Hf x) as (K & D & Bd). rewrite D. destruct (le_deleted x); simpl; auto. rewrite K, Bd. f_equal. auto.
Qed.

Lemma live_b_clone : forall es, live_b (clone_kb B es) = live_b es.
Proof. intros. apply live_b_map. intros x. repeat split; reflexivity. Qed.

Lemma live_b_retract : forall nm es, live_b (retract_kb B nm es) = live_b es.
Proof.
  intros. apply live_b_map. intros x. destruct (String.eqb (e_name (le_e x)) nm); repeat split; reflexivity.
Qed.

Lemma live_b_remove : forall n t es p, In p (live_b (remove_kb B n t es)) -> In p (live_b es).
Proof.
  unfold live_b. induction es as [|x es IH]; simpl; intros p H; [contradiction|].
  destruct (String.eqb (le_key x) n) eqn:E; simpl in H.
  - destruct (le_deleted x); simpl; auto.
  - destruct (le_deleted x); simpl in *; auto. destruct H as [H|H]; auto.
Qed.

Lemma pick_l_in : forall tl hd, In (pick_l B hd tl) (hd :: tl).
Proof.
  unfold pick_l. induction tl as [|y tl IH]; simpl; intros hd; auto.
  destruct (salience_replace (e_sal (le_e hd)) (e_sal (le_e y))).
  - destruct (IH y) as [H|H]; auto.
  - destruct (IH hd) as [H|H]; auto.
Qed.

Lemma guard_live : forall es x, In x es -> guard B x = true -> In (le_key x, le_body x) (live_b es).
Proof.
  intros es x Hx Hg. unfold guard in Hg. apply eval_guard_spec in Hg. destruct Hg as (_ & Hd).
  unfold live_b. apply in_map_iff. exists x. split; auto. apply filter_In. split; auto. rewrite Hd. reflexivity.
Qed.

Definition mentions (c : cyc B) : list string :=
  map fst (cy_evals c) ++ match cy_fired c with Some (k, _) => [k] | None => [] end.

Definition cyc_in (es : kb) (c : cyc B) : Prop :=
  incl (mentions c) (live es) /\
  (forall k b, cy_fired c = Some (k, b) -> In (k, b) (live_b es) /\ In (k, true) (cy_evals c)).

Lemma live_in_b : forall es k b, In (k, b) (live_b es) -> In k (live es).
Proof. intros es k b H. rewrite <- live_b_fst. apply in_map_iff. exists (k, b). auto. Qed.

Lemma cyc_in_incl : forall es es' c, incl (live_b es') (live_b es) -> cyc_in es' c -> cyc_in es c.
Proof.
  intros es es' c Hi (H1 & H2). split.
  - intros k Hk. specialize (H1 k Hk). rewrite <- live_b_fst in *. apply in_map_iff in H1. destruct H1 as ((k', b) & E & Hp).
    simpl in E. subst k'. apply in_map_iff. exists (k, b). split; auto.
  - intros k b E. destruct (H2 k b E). split; auto.
Qed.

Lemma exec_loop_spec : forall fuel i f es next acc es' next' tr fin,
  exec_loop fuel i f es next acc = (es', next', tr, fin) ->
  exists new, tr = acc ++ new /\ incl (live_b es') (live_b es) /\ (next <= next')%nat /\
    (kb_ok next es -> kb_ok next' es') /\
    Forall (cyc_in es) new /\
    (forall pre c post n, new = pre ++ c :: post -> cy_zapped c = Some n ->
        ~ In n (live es') /\ Forall (fun c' => ~ In n (mentions c')) post).
Proof.
  induction fuel as [|fuel IH]; simpl; intros i f es next acc es' next' tr fin H.
  - inversion H; subst. exists []. rewrite app_nil_r. split; auto. split; [intros p Hp; exact Hp|]. split; auto.
    split; auto. split; [constructor|]. intros pre c post n E. destruct pre; discriminate.
  - set (scan := order i (filter (guard B) es)) in *.
    assert (Hscan : forall x, In x scan -> In x es /\ guard B x = true).
    { intros x Hx. apply order_incl in Hx. apply filter_In in Hx. exact Hx. }
    assert (Hev : forall k b, In (k, b) (map (fun x => (le_key x, holds (le_body x) f)) scan) -> In k (live es)).
    { intros k b Hk. apply in_map_iff in Hk. destruct Hk as (x & E & Hx). inversion E; subst.
      destruct (Hscan x Hx) as (Hin & Hg). eapply live_in_b. eapply guard_live; eauto. }
    destruct (filter (fun x => holds (le_body x) f) scan) as [|hd tl] eqn:Ef.
    + inversion H; subst. eexists. split; [reflexivity|]. split; [intros p Hp; exact Hp|]. split; auto. split; auto.
      split.
      * constructor; [|constructor]. split.
        -- unfold mentions. simpl. rewrite app_nil_r. intros k Hk. apply in_map_iff in Hk. destruct Hk as ((k', b) & E & Hp).
           simpl in E. subst k'. eapply Hev; eauto.
        -- simpl. intros k b E. discriminate.
      * intros pre c post n E Hz. destruct pre as [|c0 pre]; simpl in E.
        -- inversion E; subst. simpl in Hz. discriminate.
        -- inversion E. destruct pre; discriminate.
    + set (r := pick_l B hd tl) in *.
      assert (Hr : In r scan /\ holds (le_body r) f = true).
      { assert (Hin : In r (hd :: tl)) by apply pick_l_in. rewrite <- Ef in Hin. apply filter_In in Hin. exact Hin. }
      destruct Hr as (Hrs & Hrh). destruct (Hscan r Hrs) as (Hres & Hrg).
      set (es1 := retract_kb B (self (le_body r)) es) in *.
      set (es2 := match zap (le_body r) with Some n => remove_kb B n (tomb next) es1 | None => es1 end) in *.
      set (next2 := match zap (le_body r) with Some _ => S next | None => next end) in *.
      assert (Hl2 : incl (live_b es2) (live_b es)).
      { intros p Hp. unfold es2 in Hp. destruct (zap (le_body r)).
        - apply live_b_remove in Hp. unfold es1 in Hp. rewrite live_b_retract in Hp. exact Hp.
        - unfold es1 in Hp. rewrite live_b_retract in Hp. exact Hp. }
      destruct (IH _ _ _ _ _ _ _ _ _ H) as (new & Etr & Hinc & Hle & Hok & Hall & Hzap).
      exists ({| cy_evals := map (fun x => (le_key x, holds (le_body x) f)) scan; cy_fired := Some (le_key r, le_body r); cy_zapped := zap (le_body r) |} :: new).
      split; [rewrite Etr, <- app_assoc; reflexivity|].
      split; [intros p Hp; apply Hl2; apply Hinc; exact Hp|].
      split; [unfold next2 in Hle; destruct (zap (le_body r)); lia|].
      split.
      { intros Hk. apply Hok. unfold es2, next2. destruct (zap (le_body r)).
        - apply remove_kb_ok. unfold es1. apply retract_kb_ok. exact Hk.
        - unfold es1. apply retract_kb_ok. exact Hk. }
      split.
      { constructor.
        - split.
          + unfold mentions. simpl. intros k Hk. apply in_app_or in Hk. destruct Hk as [Hk|[Hk|[]]].
            * apply in_map_iff in Hk. destruct Hk as ((k', b) & E & Hp). simpl in E. subst k'. eapply Hev; eauto.
            * subst k. eapply live_in_b. eapply guard_live; eauto.
          + simpl. intros k b E. inversion E; subst. split.
            * eapply guard_live; eauto.
            * apply in_map_iff. exists r. rewrite Hrh. auto.
        - eapply Forall_impl; [|exact Hall]. intros c Hc. eapply cyc_in_incl; eauto. }
      intros pre c post n E Hz. destruct pre as [|c0 pre]; simpl in E.
      * inversion E; subst. simpl in Hz.
        assert (Hn2 : ~ In n (live es2)).
        { unfold es2. rewrite Hz. apply remove_kb_not_live. }
        split.
        -- intros Hi. apply Hn2. rewrite <- live_b_fst in *. apply in_map_iff in Hi. destruct Hi as (p & Ep & Hp).
           apply in_map_iff. exists p. split; auto.
        -- rewrite Forall_forall in *. intros c' Hc' Hi. apply Hn2. destruct (Hall c' Hc') as (Hm & _). apply Hm. exact Hi.
      * inversion E; subst. eapply Hzap; eauto.
Qed.

(* ---- FetchMatchingRules ---- *)
Lemma fetch_kb_live : forall f es k, In k (fetch_kb B F holds f es) -> In k (live es).
Proof.
  intros f es k H. unfold fetch_kb in H. apply in_map_iff in H. destruct H as (x & E & Hx). apply filter_In in Hx.
  destruct Hx as (Hx & Hg). apply andb_true_iff in Hg. destruct Hg as (Hg & _). apply fetch_guard_spec in Hg.
  unfold live, keys. apply in_map_iff. exists x. split; auto. apply filter_In. split; auto. rewrite Hg. reflexivity.
Qed.


(* ------------------------------------------------------------------ *)
(* (i) the invariant holds in every reachable state                    *)
Lemma lib_kb_ok : forall s k, wf_state s -> kb_ok (st_next s) (lib_kb B s k).
Proof.
  intros s k (Hl & _). unfold lib_kb. destruct (alookup k (st_lib s)) eqn:E; [eapply Hl; eauto|apply kb_ok_nil].
Qed.

Lemma wf_update_lib : forall s k es' n',
  wf_state s -> (st_next s <= n')%nat -> kb_ok n' es' ->
  wf_state {| st_lib := aupdate k es' (st_lib s); st_insts := st_insts s; st_next := n' |}.
Proof.
  intros s k es' n' (Hl & Hi) Hle Hk. split; simpl.
  - intros k' es0 E. destruct (String.eqb k k') eqn:Ek.
    + apply String.eqb_eq in Ek. subst k'. rewrite lib_alookup_aupdate_eq in E. inversion E; subst. exact Hk.
    + assert (k <> k') by (intros ->; rewrite String.eqb_refl in Ek; discriminate).
      rewrite lib_alookup_aupdate_neq in E by auto. eapply kb_ok_mono; [exact Hle|]. eapply Hl; eauto.
  - eapply Forall_impl; [|exact Hi]. intros x. apply kb_ok_mono. exact Hle.
Qed.

Lemma wf_update_inst : forall s i ins' n',
  wf_state s -> (st_next s <= n')%nat -> kb_ok n' (i_kb ins') ->
  wf_state {| st_lib := st_lib s; st_insts := set_nth i ins' (st_insts s); st_next := n' |}.
Proof.
  intros s i ins' n' (Hl & Hi) Hle Hk. split; simpl.
  - intros k' es0 E. eapply kb_ok_mono; [exact Hle|]. eapply Hl; eauto.
  - apply Forall_set_nth; auto. eapply Forall_impl; [|exact Hi]. intros x. apply kb_ok_mono. exact Hle.
Qed.

Theorem step_wf : forall s o, wf_state s -> op_user B F o = true -> wf_state (fst (step s o)).
Proof.
  intros s o Hwf Hu. destruct o as [k rs|k n|i n|k|k|i fuel f]; simpl.
  - destruct (build_kb B rs (lib_kb B s k)) as [es' err] eqn:Eb. simpl.
    apply wf_update_lib; auto. replace es' with (fst (build_kb B rs (lib_kb B s k))) by (rewrite Eb; reflexivity).
    apply build_kb_ok; auto. apply lib_kb_ok; auto.
  - destruct (alookup k (st_lib s)) as [es|] eqn:E; simpl; auto.
    apply wf_update_lib; auto. apply remove_kb_ok. destruct Hwf as (Hl & _). eapply Hl; eauto.
  - destruct (nth_error (st_insts s) i) as [ins|] eqn:E; simpl; auto.
    apply wf_update_inst; auto. simpl. apply remove_kb_ok. destruct Hwf as (_ & Hi). eapply (nth_error_Forall _ _ _ _ _ Hi E).
  - destruct (alookup k (st_lib s)) as [es|] eqn:E; simpl; auto.
    destruct Hwf as (Hl & Hi). split; simpl; auto. apply Forall_app. split; auto. constructor; [|constructor].
    simpl. apply clone_kb_ok. eapply Hl; eauto.
  - apply wf_update_lib; auto. apply reload_kb_ok. apply lib_kb_ok; auto.
  - destruct (nth_error (st_insts s) i) as [ins|] eqn:E; simpl; auto.
    destruct (exec_kb fuel f (i_kb ins) (st_next s)) as [[[es' next'] tr] fin] eqn:Ex. simpl.
    unfold Library.exec_kb in Ex. destruct (exec_loop_spec _ _ _ _ _ _ _ _ _ _ Ex) as (new & _ & _ & Hle & Hok & _).
    apply wf_update_inst; auto. simpl. apply Hok. apply clone_kb_ok. destruct Hwf as (_ & Hi). eapply (nth_error_Forall _ _ _ _ _ Hi E).
Qed.

Lemma init_wf : wf_state (init B).
Proof. split; simpl; [intros k es E; discriminate|constructor]. Qed.

Definition ops_user (ops : list op) : Prop := Forall (fun o => op_user B F o = true) ops.

Theorem run_wf_from : forall ops s, wf_state s -> ops_user ops -> wf_state (run ops s).
Proof.
  induction ops as [|o ops IH]; simpl; intros s Hwf Hu; auto.
  inversion Hu; subst. apply IH; auto. apply step_wf; auto.
Qed.

Theorem run_wf : forall ops, ops_user ops -> wf_state (run ops (init B)).
Proof. intros. apply run_wf_from; auto. apply init_wf. Qed.

(* names of the rules in force *)
Definition active_names (es : kb) : list string := map (fun x => e_name (le_e x)) (filter (fun x => negb (le_deleted x)) es).

Lemma nodup_filter_keys : forall (p : lentry -> bool) es, NoDup (keys es) -> NoDup (keys (filter p es)).
Proof.
  unfold keys. induction es as [|x es IH]; simpl; intros H; [constructor|].
  inversion H; subst. destruct (p x); simpl; auto. constructor; auto.
  intros Hi. apply in_map_iff in Hi. destruct Hi as (y & E & Hy). apply filter_In in Hy. destruct Hy.
  apply H2. rewrite <- E. apply in_map. auto.
Qed.

Lemma kb_ok_active_nodup : forall n es, kb_ok n es -> NoDup (active_names es).
Proof.
  intros n es (Hnd & Hall). unfold active_names.
  replace (map (fun x => e_name (le_e x)) (filter (fun x => negb (le_deleted x)) es)) with (keys (filter (fun x => negb (le_deleted x)) es)).
  - apply nodup_filter_keys. exact Hnd.
  - unfold keys. apply map_ext_in. intros x Hx. apply filter_In in Hx. destruct Hx as (Hx & _).
    rewrite Forall_forall in Hall. destruct (Hall x Hx) as (E & _). symmetry. exact E.
Qed.

(* C16, first sentence: in every reachable state no knowledge base and no instance holds two rules in force with one name *)
Theorem unique_names : forall ops, ops_user ops ->
  let s := run ops (init B) in
  (forall k es, alookup k (st_lib s) = Some es -> NoDup (active_names es)) /\
  (forall i ins, nth_error (st_insts s) i = Some ins -> NoDup (active_names (i_kb ins))).
Proof.
  intros ops Hu s. destruct (run_wf ops Hu) as (Hl & Hi). fold s in Hl, Hi. split.
  - intros k es E. eapply kb_ok_active_nodup. eapply Hl; eauto.
  - intros i ins E. eapply kb_ok_active_nodup. eapply (nth_error_Forall _ _ _ _ _ Hi E).
Qed.

(* ------------------------------------------------------------------ *)
(* (ii) Build on a state                                               *)
Definition kb_at (s : state) (k : string) : kb := lib_kb B s k.

Lemma kb_at_update_eq : forall (m : amap kb) k es insts n, kb_at {| st_lib := aupdate k es m; st_insts := insts; st_next := n |} k = es.
Proof. intros. unfold kb_at, lib_kb. simpl. rewrite lib_alookup_aupdate_eq. reflexivity. Qed.

(* a build is rejected exactly when a name occurs twice in the resource or is already a key of the knowledge base;
   an accepted resource is stored rule by rule as written, after the entries that were there;
   a rejected resource leaves the entries of that knowledge base exactly as they were *)
Theorem build_step : forall s k rs s' err,
  step s (OBuild k rs) = (s', RBuild err) ->
  (err = false <-> (NoDup (names rs) /\ forall r, In r rs -> has_key B (r_name r) (kb_at s k) = false)) /\
  (err = false -> kb_at s' k = kb_at s k ++ map (mk_entry B) rs) /\
  (err = true -> kb_at s' k = kb_at s k).
Proof.
  intros s k rs s' err H. simpl in H. destruct (build_kb B rs (lib_kb B s k)) as [es' e] eqn:Eb. inversion H; subst. clear H.
  rewrite kb_at_update_eq. unfold kb_at.
  pose proof (build_error_iff rs (lib_kb B s k)) as H2. pose proof (build_reject rs (lib_kb B s k)) as H4.
  rewrite Eb in H2, H4. simpl in H2, H4.
  split; [exact H2|]. split; [|exact H4].
  intros He. apply H2 in He. destruct He as (Hnd & Hk).
  pose proof (build_accept rs (lib_kb B s k) Hnd Hk) as H3. rewrite Eb in H3. inversion H3. reflexivity.
Qed.

(* a rejected build leaves the state unchanged: every instance, the tombstone supply and the entries of every knowledge
   base; the only trace it can leave is the EMPTY knowledge base GetKnowledgeBase creates for a key that did not exist *)
Theorem build_fail_unchanged : forall s k rs s',
  step s (OBuild k rs) = (s', RBuild true) ->
  st_insts s' = st_insts s /\ st_next s' = st_next s /\
  (forall k', kb_at s' k' = kb_at s k') /\
  (forall k', k' <> k -> alookup k' (st_lib s') = alookup k' (st_lib s)) /\
  (alookup k (st_lib s) <> None -> s' = s).
Proof.
  intros s k rs s' H. simpl in H. destruct (build_kb B rs (lib_kb B s k)) as [es' e] eqn:Eb. inversion H; subst. clear H.
  pose proof (build_reject rs (lib_kb B s k)) as Hr. rewrite Eb in Hr. simpl in Hr. specialize (Hr eq_refl). subst es'.
  simpl. split; auto. split; auto. split; [|split].
  - intros k'. destruct (String.eqb k k') eqn:E.
    + apply String.eqb_eq in E. subst k'. rewrite kb_at_update_eq. reflexivity.
    + unfold kb_at, lib_kb. simpl. rewrite lib_alookup_aupdate_neq; auto. intros ->. rewrite String.eqb_refl in E. discriminate.
  - intros k' Hk. apply lib_alookup_aupdate_neq. congruence.
  - intros Hex. unfold lib_kb. destruct (alookup k (st_lib s)) as [es|] eqn:E; [|congruence].
    rewrite lib_aupdate_same by exact E. destruct s; reflexivity.
Qed.

(* (iv) a name that was removed can be built again, and then denotes the new rule *)
Lemma find_key_snoc : forall es x, has_key B (le_key x) es = false -> find_key B (le_key x) (es ++ [x]) = Some x.
Proof.
  unfold find_key, has_key. induction es as [|y es IH]; simpl; intros x H.
  - rewrite String.eqb_refl. reflexivity.
  - apply orb_false_iff in H. destruct H as (H1 & H2). rewrite H1. apply IH. exact H2.
Qed.

Theorem rebuild_after_remove : forall s k es r,
  wf_state s -> alookup k (st_lib s) = Some es -> is_user (r_name r) = true ->
  let s1 := fst (step s (ORemoveLib k (r_name r))) in
  exists s2, step s1 (OBuild k [r]) = (s2, RBuild false) /\ find_key B (r_name r) (kb_at s2 k) = Some (mk_entry B r).
Proof.
  intros s k es r Hwf E Hu s1. unfold s1. simpl. rewrite E. simpl.
  set (es1 := remove_kb B (r_name r) (tomb (st_next s)) es).
  assert (Hno : has_key B (r_name r) es1 = false).
  { apply has_key_false. apply remove_kb_no_key; auto. destruct Hwf as (Hl & _). eapply Hl; eauto. }
  unfold lib_kb. simpl. rewrite lib_alookup_aupdate_eq.
  rewrite build_accept.
  - eexists. split; [reflexivity|]. rewrite kb_at_update_eq. simpl.
    apply (find_key_snoc es1 (mk_entry B r)). exact Hno.
  - simpl. constructor; [intros []|constructor].
  - intros r0 [<-|[]]. exact Hno.
Qed.

(* ------------------------------------------------------------------ *)
(* (v) frame: an operation touches only what it addresses              *)
Definition op_key (o : op) : option string :=
  match o with OBuild k _ | ORemoveLib k _ | OStoreLoad k => Some k | _ => None end.
Definition op_inst (o : op) : option nat :=
  match o with ORemoveInst i _ | OExec i _ _ => Some i | _ => None end.

Theorem step_frame : forall s o,
  let s' := fst (step s o) in
  (forall k, op_key o <> Some k -> alookup k (st_lib s') = alookup k (st_lib s)) /\
  (forall j, op_inst o <> Some j -> (j < List.length (st_insts s))%nat -> nth_error (st_insts s') j = nth_error (st_insts s) j) /\
  (List.length (st_insts s) <= List.length (st_insts s'))%nat.
Proof.
  intros s o. destruct o as [k rs|k n|i n|k|k|i fuel f]; simpl.
  - destruct (build_kb B rs (lib_kb B s k)) as [es' err]. simpl. split; [|split; auto].
    intros k' Hk. apply lib_alookup_aupdate_neq. congruence.
  - destruct (alookup k (st_lib s)) eqn:E; simpl; (split; [|split; auto]); auto.
    intros k' Hk. apply lib_alookup_aupdate_neq. congruence.
  - destruct (nth_error (st_insts s) i) eqn:E; simpl; (split; [|split]); auto.
    + intros j Hj _. apply nth_error_set_nth_neq. congruence.
    + rewrite set_nth_length. auto.
  - destruct (alookup k (st_lib s)) eqn:E; simpl; (split; [|split]); auto.
    + intros j _ Hj. apply nth_error_app1. exact Hj.
    + rewrite app_length. simpl. lia.
  - split; [|split; auto]. intros k' Hk. apply lib_alookup_aupdate_neq. congruence.
  - destruct (nth_error (st_insts s) i) eqn:E; simpl; [|split; [|split]; auto].
    destruct (exec_kb fuel f (i_kb i0) (st_next s)) as [[[es' next'] tr] fin]. simpl. split; [|split]; auto.
    + intros j Hj _. apply nth_error_set_nth_neq. congruence.
    + rewrite set_nth_length. auto.
Qed.

(* ------------------------------------------------------------------ *)
(* (iii) removal is permanent                                          *)
(* on an instance the set of rules in force only ever shrinks, whatever happens to the library *)
Theorem inst_live_shrinks : forall s o i ins,
  nth_error (st_insts s) i = Some ins ->
  exists ins', nth_error (st_insts (fst (step s o))) i = Some ins' /\ incl (live_b (i_kb ins')) (live_b (i_kb ins)).
Proof.
  intros s o i ins E.
  assert (Hsame : nth_error (st_insts (fst (step s o))) i = Some ins -> exists ins', nth_error (st_insts (fst (step s o))) i = Some ins' /\ incl (live_b (i_kb ins')) (live_b (i_kb ins))).
  { intros H. exists ins. split; auto. intros p Hp; exact Hp. }
  assert (Hlt : (i < List.length (st_insts s))%nat) by (apply nth_error_Some; congruence).
  destruct (step_frame s o) as (_ & Hfr & _).
  destruct o as [k rs|k n|j n|k|k|j fuel f]; try (apply Hsame; rewrite Hfr; [exact E|simpl; congruence|exact Hlt]).
  - destruct (Nat.eq_dec j i) as [->|Hne]; [|apply Hsame; rewrite Hfr; [exact E|simpl; congruence|exact Hlt]].
    simpl. rewrite E. simpl. eexists. split; [eapply nth_error_set_nth_eq; eauto|]. simpl.
    intros p Hp. eapply live_b_remove; eauto.
  - destruct (Nat.eq_dec j i) as [->|Hne]; [|apply Hsame; rewrite Hfr; [exact E|simpl; congruence|exact Hlt]].
    simpl. rewrite E. destruct (exec_kb fuel f (i_kb ins) (st_next s)) as [[[es' next'] tr] fin] eqn:Ex. simpl.
    unfold Library.exec_kb in Ex. destruct (exec_loop_spec _ _ _ _ _ _ _ _ _ _ Ex) as (new & _ & Hinc & _).
    eexists. split; [eapply nth_error_set_nth_eq; eauto|]. simpl. rewrite live_b_clone in Hinc. exact Hinc.
Qed.

Theorem inst_live_shrinks_run : forall ops s i ins,
  nth_error (st_insts s) i = Some ins ->
  exists ins', nth_error (st_insts (run ops s)) i = Some ins' /\ incl (live_b (i_kb ins')) (live_b (i_kb ins)).
Proof.
  induction ops as [|o ops IH]; simpl; intros s i ins E.
  - exists ins. split; auto. intros p Hp; exact Hp.
  - destruct (inst_live_shrinks s o i ins E) as (ins1 & E1 & H1).
    destruct (IH _ _ _ E1) as (ins2 & E2 & H2). exists ins2. split; auto. intros p Hp. apply H1. apply H2. exact Hp.
Qed.

(* RemoveRuleEntry on an instance: the name is out of force there, and stays out for every continuation of the history *)
Theorem removed_from_instance_forever : forall s i n ins ops,
  nth_error (st_insts s) i = Some ins ->
  let s1 := fst (step s (ORemoveInst i n)) in
  exists ins', nth_error (st_insts (run ops s1)) i = Some ins' /\ ~ In n (live (i_kb ins')).
Proof.
  intros s i n ins ops E s1.
  assert (E1 : nth_error (st_insts s1) i = Some {| i_src := i_src ins; i_kb := remove_kb B n (tomb (st_next s)) (i_kb ins) |}).
  { unfold s1. simpl. rewrite E. simpl. eapply nth_error_set_nth_eq; eauto. }
  destruct (inst_live_shrinks_run ops _ _ _ E1) as (ins' & E2 & Hinc). exists ins'. split; auto.
  simpl in Hinc. intros Hi. rewrite <- live_b_fst in Hi. apply in_map_iff in Hi. destruct Hi as ((k, b) & Ek & Hp). simpl in Ek. subst k.
  apply Hinc in Hp. apply live_in_b in Hp. eapply remove_kb_not_live; eauto.
Qed.

(* what an Execute / FetchMatchingRules on an instance can mention are rules in force there; a rule removed by an
   action during the run is not mentioned in any later pass of that run *)
Theorem exec_mentions_live : forall fuel f es next es' next' tr fin,
  exec_kb fuel f es next = (es', next', tr, fin) ->
  Forall (cyc_in es) tr /\ incl (live_b es') (live_b es) /\
  (forall pre c post n, tr = pre ++ c :: post -> cy_zapped c = Some n ->
      ~ In n (live es') /\ Forall (fun c' => ~ In n (mentions c')) post).
Proof.
  intros fuel f es next es' next' tr fin H. unfold Library.exec_kb in H.
  destruct (exec_loop_spec _ _ _ _ _ _ _ _ _ _ H) as (new & Etr & Hinc & _ & _ & Hall & Hz). simpl in Etr. subst tr.
  split; [|split]; auto.
  - eapply Forall_impl; [|exact Hall]. intros c Hc. eapply cyc_in_incl; [|exact Hc]. rewrite live_b_clone. intros p Hp; exact Hp.
  - rewrite live_b_clone in Hinc. exact Hinc.
Qed.

(* on the library: a user name that is out of force stays out until a resource with that name is built into that knowledge base *)
Definition builds_name (k n : string) (o : op) : bool :=
  match o with OBuild k' rs => String.eqb k' k && existsb (fun r => String.eqb (r_name r) n) rs | _ => false end.

Lemma live_reload_user : forall n es next, kb_ok next es -> is_user n = true -> In n (live (reload_kb B es)) -> In n (live es).
Proof.
  intros n es next (_ & Hall) Hu Hi. unfold live, keys in *. apply in_map_iff in Hi. destruct Hi as (x & E & Hx).
  apply filter_In in Hx. destruct Hx as (Hx & _). unfold reload_kb in Hx. apply in_map_iff in Hx. destruct Hx as (y & Ey & Hy).
  subst x. simpl in E. apply in_map_iff. exists y. split; auto. apply filter_In. split; auto.
  rewrite Forall_forall in Hall. destruct (Hall y Hy) as (_ & _ & Hd). destruct (le_deleted y) eqn:D; auto.
  specialize (Hd eq_refl). unfold le_key in *. simpl in E. rewrite E, Hu in Hd. discriminate.
Qed.

Lemma live_app : forall a b : kb, live (a ++ b) = live a ++ live b.
Proof. intros. unfold live, keys. rewrite filter_app, map_app. reflexivity. Qed.

Theorem lib_name_stays_out : forall s o k n,
  wf_state s -> is_user n = true -> builds_name k n o = false ->
  ~ In n (live (kb_at s k)) -> ~ In n (live (kb_at (fst (step s o)) k)).
Proof.
  intros s o k n Hwf Hu Hb Hout.
  destruct (step_frame s o) as (Hfr & _ & _).
  assert (Hsame : op_key o <> Some k -> ~ In n (live (kb_at (fst (step s o)) k))).
  { intros Hk. unfold kb_at, lib_kb. rewrite Hfr by exact Hk. exact Hout. }
  destruct o as [k' rs|k' n'|i n'|k'|k'|i fuel f]; try (apply Hsame; simpl; congruence).
  - destruct (String.eqb k' k) eqn:Ek; [|apply Hsame; simpl; intros E; inversion E; subst; rewrite String.eqb_refl in Ek; discriminate].
    apply String.eqb_eq in Ek. subst k'. simpl in Hb. rewrite String.eqb_refl in Hb. simpl in Hb.
    simpl. destruct (build_kb B rs (lib_kb B s k)) as [es' err] eqn:Eb. simpl. rewrite kb_at_update_eq.
    destruct (build_extends rs (lib_kb B s k)) as (added & Ea & Hadd). rewrite Eb in Ea. simpl in Ea. subst es'.
    rewrite live_app. intros Hi. apply in_app_or in Hi. destruct Hi as [Hi|Hi]; [apply Hout; exact Hi|].
    apply live_incl_keys in Hi. unfold keys in Hi. apply in_map_iff in Hi. destruct Hi as (x & Ex & Hx).
    destruct (Hadd x Hx) as (r & Hr & Exr & _). subst x. unfold le_key in Ex. simpl in Ex.
    assert (existsb (fun r => String.eqb (r_name r) n) rs = true).
    { apply existsb_exists. exists r. split; auto. apply String.eqb_eq. exact Ex. }
    congruence.
  - destruct (String.eqb k' k) eqn:Ek; [|apply Hsame; simpl; intros E; inversion E; subst; rewrite String.eqb_refl in Ek; discriminate].
    apply String.eqb_eq in Ek. subst k'. simpl. unfold kb_at, lib_kb in Hout.
    destruct (alookup k (st_lib s)) as [es|] eqn:E; simpl.
    + rewrite kb_at_update_eq. intros Hi. apply live_remove in Hi. destruct Hi. auto.
    + unfold kb_at, lib_kb. rewrite E. exact Hout.
  - destruct (String.eqb k' k) eqn:Ek; [|apply Hsame; simpl; intros E; inversion E; subst; rewrite String.eqb_refl in Ek; discriminate].
    apply String.eqb_eq in Ek. subst k'. simpl. rewrite kb_at_update_eq. intros Hi. apply Hout.
    eapply live_reload_user; eauto. apply lib_kb_ok. exact Hwf.
Qed.

Theorem lib_name_stays_out_run : forall ops s k n,
  wf_state s -> ops_user ops -> is_user n = true -> existsb (builds_name k n) ops = false ->
  ~ In n (live (kb_at s k)) -> ~ In n (live (kb_at (run ops s) k)).
Proof.
  induction ops as [|o ops IH]; simpl; intros s k n Hwf Hu Hn Hb H1; auto.
  apply orb_false_iff in Hb. destruct Hb as (Hb1 & Hb2). inversion Hu; subst.
  apply IH; auto.
  - apply step_wf; auto.
  - apply lib_name_stays_out; auto.
Qed.

Theorem removed_from_library : forall ops s k n,
  wf_state s -> ops_user ops -> is_user n = true ->
  existsb (builds_name k n) ops = false ->
  let s1 := fst (step s (ORemoveLib k n)) in
  let s2 := run ops s1 in
  ~ In n (live (kb_at s2 k)) /\
  (* an instance created now does not have it, whatever happens afterwards *)
  (forall s3 ops', step s2 (ONewInst k) = (s3, RInst true) ->
     exists ins, nth_error (st_insts (run ops' s3)) (List.length (st_insts s2)) = Some ins /\ ~ In n (live (i_kb ins))).
Proof.
  intros ops s k n Hwf Hu Hn Hb s1 s2.
  assert (Hwf1 : wf_state s1) by (apply step_wf; auto).
  assert (H1 : ~ In n (live (kb_at s1 k))).
  { unfold s1. simpl. destruct (alookup k (st_lib s)) as [es|] eqn:E; simpl.
    - rewrite kb_at_update_eq. apply remove_kb_not_live.
    - unfold kb_at, lib_kb. rewrite E. simpl. auto. }
  assert (H2 : ~ In n (live (kb_at s2 k))) by (apply lib_name_stays_out_run; auto).
  split; auto.
  intros s3 ops' Hs. simpl in Hs. unfold kb_at, lib_kb in H2. destruct (alookup k (st_lib s2)) as [es|] eqn:E; [|discriminate].
  inversion Hs; subst s3. clear Hs.
  assert (E3 : nth_error (st_insts {| st_lib := st_lib s2; st_insts := st_insts s2 ++ [{| i_src := k; i_kb := clone_kb B es |}]; st_next := st_next s2 |})
                 (List.length (st_insts s2)) = Some {| i_src := k; i_kb := clone_kb B es |}).
  { simpl. rewrite nth_error_app2 by lia. rewrite Nat.sub_diag. reflexivity. }
  destruct (inst_live_shrinks_run ops' _ _ _ E3) as (ins & Ei & Hinc). exists ins. split; auto.
  simpl in Hinc. rewrite live_b_clone in Hinc. intros Hi. apply H2.
  rewrite <- live_b_fst in Hi. apply in_map_iff in Hi. destruct Hi as ((k0, b) & Ek & Hp). simpl in Ek. subst k0.
  apply Hinc in Hp. eapply live_in_b; eauto.
Qed.

(* ------------------------------------------------------------------ *)
(* the removed RULE (not only its name): entries carrying a tombstone name are never in force            *)
Definition kb_clean (es : kb) : Prop := forall x, In x es -> is_user (le_key x) = false -> le_deleted x = true.
Definition clean (s : state) : Prop :=
  (forall k es, alookup k (st_lib s) = Some es -> kb_clean es) /\ Forall (fun i => kb_clean (i_kb i)) (st_insts s).

Lemma kb_clean_map : forall (f : lentry -> lentry) es,
  (forall x, le_key (f x) = le_key x /\ le_deleted (f x) = le_deleted x) -> kb_clean es -> kb_clean (map f es).
Proof.
  intros f es Hf Hc x Hx Hu. apply in_map_iff in Hx. destruct Hx as (y & <- & Hy). destruct (Hf y) as (K & D).
  rewrite D. apply Hc; auto. rewrite <- K. exact Hu.
Qed.

Lemma kb_clean_remove : forall n t es, kb_clean es -> kb_clean (remove_kb B n t es).
Proof.
  intros n t es Hc x Hx Hu. unfold remove_kb in Hx. apply in_map_iff in Hx. destruct Hx as (y & <- & Hy).
  destruct (String.eqb (le_key y) n); [reflexivity|]. apply Hc; auto.
Qed.

Lemma kb_clean_app : forall a b, kb_clean a -> kb_clean b -> kb_clean (a ++ b).
Proof. intros a b Ha Hb x Hx Hu. apply in_app_or in Hx. destruct Hx; auto. Qed.

Lemma kb_clean_build : forall rs es, forallb (fun r => is_user (r_name r)) rs = true -> kb_clean es -> kb_clean (fst (build_kb B rs es)).
Proof.
  intros rs es Hu Hc. destruct (build_extends rs es) as (added & -> & Hadd). apply kb_clean_app; auto.
  intros x Hx Hk. destruct (Hadd x Hx) as (r & Hr & -> & _). unfold le_key in Hk. simpl in Hk.
  rewrite forallb_forall in Hu. rewrite (Hu r Hr) in Hk. discriminate.
Qed.

Lemma kb_clean_exec : forall fuel i f es next acc es' next' tr fin,
  exec_loop fuel i f es next acc = (es', next', tr, fin) -> kb_clean es -> kb_clean es'.
Proof.
  induction fuel as [|fuel IH]; simpl; intros i f es next acc es' next' tr fin H Hc.
  - inversion H; subst. exact Hc.
  - destruct (filter (fun x => holds (le_body x) f) (order i (filter (guard B) es))) as [|hd tl].
    + inversion H; subst. exact Hc.
    + eapply IH; [exact H|]. destruct (zap (le_body (pick_l B hd tl))).
      * apply kb_clean_remove. apply kb_clean_map; auto. intros x. destruct (String.eqb (e_name (le_e x)) _); split; reflexivity.
      * apply kb_clean_map; auto. intros x. destruct (String.eqb (e_name (le_e x)) _); split; reflexivity.
Qed.

Lemma clean_update_lib : forall s k es' n', clean s -> kb_clean es' ->
  clean {| st_lib := aupdate k es' (st_lib s); st_insts := st_insts s; st_next := n' |}.
Proof.
  intros s k es' n' (Hl & Hi) Hk. split; simpl; auto.
  intros k' es0 E. destruct (String.eqb k k') eqn:Ek.
  - apply String.eqb_eq in Ek. subst k'. rewrite lib_alookup_aupdate_eq in E. inversion E; subst. exact Hk.
  - assert (k <> k') by (intros ->; rewrite String.eqb_refl in Ek; discriminate).
    rewrite lib_alookup_aupdate_neq in E by auto. eapply Hl; eauto.
Qed.

Lemma lib_kb_clean : forall s k, clean s -> kb_clean (lib_kb B s k).
Proof.
  intros s k (Hl & _). unfold lib_kb. destruct (alookup k (st_lib s)) eqn:E; [eapply Hl; eauto|]. intros x [].
Qed.

Theorem step_clean : forall s o, wf_state s -> clean s -> op_user B F o = true -> clean (fst (step s o)).
Proof.
  intros s o Hwf Hc Hu. destruct o as [k rs|k n|i n|k|k|i fuel f]; simpl.
  - destruct (build_kb B rs (lib_kb B s k)) as [es' err] eqn:Eb. simpl. apply clean_update_lib; auto.
    replace es' with (fst (build_kb B rs (lib_kb B s k))) by (rewrite Eb; reflexivity).
    apply kb_clean_build; auto. apply lib_kb_clean; auto.
  - destruct (alookup k (st_lib s)) as [es|] eqn:E; simpl; auto. apply clean_update_lib; auto.
    apply kb_clean_remove. destruct Hc as (Hl & _). eapply Hl; eauto.
  - destruct (nth_error (st_insts s) i) as [ins|] eqn:E; simpl; auto. destruct Hc as (Hl & Hi). split; simpl; auto.
    apply Forall_set_nth; auto. simpl. apply kb_clean_remove. eapply (nth_error_Forall _ _ _ _ _ Hi E).
  - destruct (alookup k (st_lib s)) as [es|] eqn:E; simpl; auto. destruct Hc as (Hl & Hi). split; simpl; auto.
    apply Forall_app. split; auto. constructor; [|constructor]. simpl. apply kb_clean_map; [|eapply Hl; eauto].
    intros x. split; reflexivity.
  - (* store+load: the flag comes back from the tombstone name *)
    apply clean_update_lib; auto.
    pose proof (lib_kb_ok s k Hwf) as (_ & Hall). rewrite Forall_forall in Hall.
    intros x Hx Hux. unfold reload_kb in Hx. apply in_map_iff in Hx. destruct Hx as (y & <- & Hy).
    destruct (Hall y Hy) as (En & _). unfold le_key, le_deleted in *. simpl in *. rewrite En, Hux. reflexivity.
  - destruct (nth_error (st_insts s) i) as [ins|] eqn:E; simpl; auto.
    destruct (exec_kb fuel f (i_kb ins) (st_next s)) as [[[es' next'] tr] fin] eqn:Ex. simpl.
    destruct Hc as (Hl & Hi). split; simpl; auto. apply Forall_set_nth; auto. simpl.
    unfold Library.exec_kb in Ex. eapply kb_clean_exec; [exact Ex|]. apply kb_clean_map; [|eapply (nth_error_Forall _ _ _ _ _ Hi E)].
    intros x. split; reflexivity.
Qed.

Lemma init_clean : clean (init B).
Proof. split; simpl; [intros k es E; discriminate|constructor]. Qed.

(* in every reachable state every entry that was ever removed (it carries a tombstone name) is out of force: in the
   library, after any number of store+load round trips, and on every instance *)
Theorem removed_rules_stay_removed_from : forall ops s,
  wf_state s -> clean s -> ops_user ops -> clean (run ops s).
Proof.
  induction ops as [|o ops IH]; simpl; intros s Hwf Hc Hu; auto.
  inversion Hu; subst. apply IH; auto.
  - apply step_wf; auto.
  - apply step_clean; auto.
Qed.

Theorem removed_rules_stay_removed : forall ops, ops_user ops -> clean (run ops (init B)).
Proof. intros. apply removed_rules_stay_removed_from; auto. apply init_wf. apply init_clean. Qed.

(* store+load of a knowledge base of a reachable state gives back every entry with its Deleted flag: it is a clone *)
Theorem reload_is_clone : forall n es, kb_ok n es -> kb_clean es -> reload_kb B es = clone_kb B es.
Proof.
  intros n es (_ & Hall) Hc. unfold reload_kb, clone_kb. apply map_ext_in. intros x Hx.
  rewrite Forall_forall in Hall. destruct (Hall x Hx) as (En & _ & Hd). f_equal.
  unfold le_key in *. rewrite En. destruct (is_user (e_key (le_e x))) eqn:U; simpl.
  - destruct (le_deleted x) eqn:D; auto. specialize (Hd eq_refl). congruence.
  - symmetry. apply Hc; auto.
Qed.

(* in a clean state, what is in force are user-named rules only *)
Lemma clean_live_user : forall es k, kb_clean es -> In k (live es) -> is_user k = true.
Proof.
  intros es k Hc Hi. unfold live, keys in Hi. apply in_map_iff in Hi. destruct Hi as (x & <- & Hx).
  apply filter_In in Hx. destruct Hx as (Hx & Hd). destruct (is_user (le_key x)) eqn:U; auto.
  rewrite (Hc x Hx U) in Hd. discriminate.
Qed.

End LibProofs.

(* ------------------------------------------------------------------ *)
(* the former witness of D8 (remove, store, load), now on the repaired model *)
Section Witnesses.
Let wholds (_ _ : unit) : bool := true.
Let wself (_ : unit) : string := "A"%string.
Let wzap (_ : unit) : option string := None.
Let worder (_ : nat) (es : kb unit) : kb unit := es.
Let wrun := run unit unit wholds wself wzap worder.
Let rA : rule unit := {| r_name := "A"%string; r_sal := 1%Z; r_body := tt |}.
Let rB : rule unit := {| r_name := "B"%string; r_sal := 2%Z; r_body := tt |}.
Let K : string := "KB:1"%string.

Definition d8_history : list (op unit unit) :=
  [OBuild K [rA; rB]; ORemoveLib K "A"%string; OStoreLoad K; OStoreLoad K; OBuild K [rA]; OStoreLoad K].
Definition d8_state : state unit := Eval vm_compute in wrun d8_history (init unit).

(* after remove, store, load, store, load, re-build, store, load: a fresh instance fetches the new A and B, not the tombstone *)
Example d8_witness_stays_removed : exists tr fin,
  probe_lib unit unit wholds wself wzap worder 5 tt d8_state K = Some (tr, fin, ["B"%string; "A"%string]) /\
  map (fun x => (le_key x, le_deleted x)) (lib_kb unit d8_state K) = [(tomb 0, true); ("B"%string, false); ("A"%string, false)].
Proof. eexists. eexists. split; vm_compute; reflexivity. Qed.

End Witnesses.

(* ------------------------------------------------------------------ *)
(* the statements of coq/props/C16.v                                   *)
Section Statements.
Variable B : Type.                                  (* rule bodies *)
Variable F : Type.                                  (* facts *)
Variable holds : B -> F -> bool.                    (* any condition semantics *)
Variable self : B -> string.
Variable zap : B -> option string.
Variable order : nat -> kb B -> kb B.               (* any iteration order of the entry map, pass by pass *)
Definition order_ok : Prop := forall i l x, In x (order i l) -> In x l.

Notation step := (step B F holds self zap order).
Notation run := (run B F holds self zap order).

(* 1. "A knowledge base never holds two active rules with the same name" — every history, every reachable state,
      every knowledge base and every instance *)
Definition C16_unique_names_statement : Prop :=
  order_ok -> forall ops, ops_user B F ops ->
  let s := run ops (init B) in
  (forall k es, alookup k (st_lib s) = Some es -> NoDup (active_names B es)) /\
  (forall i ins, nth_error (st_insts s) i = Some ins -> NoDup (active_names B (i_kb ins))).

(* 2. "building a rule whose name already exists, in the same or a later resource, returns an error and leaves the
      existing rule in force" (+ an accepted resource is stored as written, a rejected one changes nothing) *)
Definition C16_build_statement : Prop :=
  forall s k rs s' err, step s (OBuild k rs) = (s', RBuild err) ->
  (err = false <-> (NoDup (names B rs) /\ forall r, In r rs -> has_key B (r_name r) (kb_at B s k) = false)) /\
  (err = false -> kb_at B s' k = kb_at B s k ++ map (mk_entry B) rs) /\
  (err = true -> kb_at B s' k = kb_at B s k).

Definition C16_failed_build_unchanged_statement : Prop :=
  forall s k rs s', step s (OBuild k rs) = (s', RBuild true) ->
  st_insts s' = st_insts s /\ st_next s' = st_next s /\
  (forall k', kb_at B s' k' = kb_at B s k') /\
  (forall k', k' <> k -> alookup k' (st_lib s') = alookup k' (st_lib s)) /\
  (alookup k (st_lib s) <> None -> s' = s).

(* 3. "After RemoveRuleEntry the rule never matches or fires again on the instance it was removed from" *)
Definition C16_removed_from_instance_statement : Prop :=
  order_ok -> forall s i n ins ops, nth_error (st_insts s) i = Some ins ->
  let s1 := fst (step s (ORemoveInst i n)) in
  exists ins', nth_error (st_insts (run ops s1)) i = Some ins' /\ ~ In n (live B (i_kb ins')).

(* what Execute / FetchMatchingRules can evaluate, fire, fetch: rules in force; a rule removed during a run is not
   touched by the later passes of that run; a fired rule runs the body stored under its name *)
Definition C16_only_rules_in_force_statement : Prop :=
  order_ok ->
  (forall fuel f es next es' next' tr fin, exec_kb B F holds self zap order fuel f es next = (es', next', tr, fin) ->
     Forall (cyc_in B es) tr /\ incl (live_b B es') (live_b B es) /\
     (forall pre c post n, tr = pre ++ c :: post -> cy_zapped c = Some n ->
        ~ In n (live B es') /\ Forall (fun c' => ~ In n (mentions B c')) post)) /\
  (forall f es k, In k (fetch_kb B F holds f es) -> In k (live B es)).

(* 4. "or, when removed from the library, on every instance created afterwards, including after the library's knowledge
      base is stored and loaded" — at the level of the name (the rule level is C16_removed_rules) *)
Definition C16_removed_from_library_statement : Prop :=
  order_ok -> forall ops s k n, wf_state B s -> ops_user B F ops -> is_user n = true ->
  existsb (builds_name B F k n) ops = false ->
  let s1 := fst (step s (ORemoveLib k n)) in
  let s2 := run ops s1 in
  ~ In n (live B (kb_at B s2 k)) /\
  (forall s3 ops', step s2 (ONewInst k) = (s3, RInst true) ->
     exists ins, nth_error (st_insts (run ops' s3)) (List.length (st_insts s2)) = Some ins /\ ~ In n (live B (i_kb ins))).

(*    rule level: the removed entry itself (it carries a tombstone name) stays out of force in every reachable state, after
      any number of store+load round trips; and store+load of a reachable knowledge base is a clone (flags included) *)
Definition C16_removed_rules_statement : Prop :=
  order_ok ->
  (forall ops, ops_user B F ops -> clean B (run ops (init B))) /\
  (forall ops s, wf_state B s -> clean B s -> ops_user B F ops -> clean B (run ops s)) /\
  (forall n es, kb_ok B n es -> kb_clean B es -> reload_kb B es = clone_kb B es).

(* 5. "and its name can be reused by a newly built rule, which behaves per its own text" *)
Definition C16_rebuild_statement : Prop :=
  forall s k es r, wf_state B s -> alookup k (st_lib s) = Some es -> is_user (r_name r) = true ->
  let s1 := fst (step s (ORemoveLib k (r_name r))) in
  exists s2, step s1 (OBuild k [r]) = (s2, RBuild false) /\ find_key B (r_name r) (kb_at B s2 k) = Some (mk_entry B r).

(* frame: an operation changes only the knowledge base / the instance it addresses *)
Definition C16_frame_statement : Prop :=
  forall s o, let s' := fst (step s o) in
  (forall k, op_key B F o <> Some k -> alookup k (st_lib s') = alookup k (st_lib s)) /\
  (forall j, op_inst B F o <> Some j -> (j < List.length (st_insts s))%nat -> nth_error (st_insts s') j = nth_error (st_insts s) j) /\
  (List.length (st_insts s) <= List.length (st_insts s'))%nat.

Theorem C16_unique_names_proved : C16_unique_names_statement.
Proof. exact (unique_names B F holds self zap order). Qed.
Theorem C16_build_proved : C16_build_statement.
Proof. exact (build_step B F holds self zap order). Qed.
Theorem C16_failed_build_unchanged_proved : C16_failed_build_unchanged_statement.
Proof. exact (build_fail_unchanged B F holds self zap order). Qed.
Theorem C16_removed_from_instance_proved : C16_removed_from_instance_statement.
Proof. exact (removed_from_instance_forever B F holds self zap order). Qed.
Theorem C16_only_rules_in_force_proved : C16_only_rules_in_force_statement.
Proof.
  intros Ho. split.
  - exact (exec_mentions_live B F holds self zap order Ho).
  - exact (fetch_kb_live B F holds).
Qed.
Theorem C16_removed_from_library_proved : C16_removed_from_library_statement.
Proof. exact (removed_from_library B F holds self zap order). Qed.
Theorem C16_removed_rules_proved : C16_removed_rules_statement.
Proof.
  intros Ho. split; [|split].
  - exact (removed_rules_stay_removed B F holds self zap order Ho).
  - exact (removed_rules_stay_removed_from B F holds self zap order Ho).
  - exact (reload_is_clone B).
Qed.
Theorem C16_rebuild_proved : C16_rebuild_statement.
Proof. exact (rebuild_after_remove B F holds self zap order). Qed.
Theorem C16_frame_proved : C16_frame_statement.
Proof. exact (step_frame B F holds self zap order). Qed.
End Statements.

(* ------------------------------------------------------------------ *)
(* C09 on the library state machine: instance creation succeeds for every built or loaded key, the new instance behaves
   like the library's knowledge base, and (C16_frame_statement) operations on one instance change nothing else *)
Section C09Library.
Variable B : Type.
Variable F : Type.
Variable holds : B -> F -> bool.
Variable self : B -> string.
Variable zap : B -> option string.
Variable order : nat -> kb B -> kb B.
Notation step := (step B F holds self zap order).
Notation run := (run B F holds self zap order).

Definition has_kb (s : state B) (k : string) : Prop := alookup k (st_lib s) <> None.

Lemma has_kb_step : forall s o k, has_kb s k -> has_kb (fst (step s o)) k.
Proof.
  intros s o k H. unfold has_kb in *.
  assert (Hup : forall k' v, alookup k (aupdate k' v (st_lib s)) <> None).
  { intros k' v. destruct (String.eqb k' k) eqn:E.
    - apply String.eqb_eq in E. subst. rewrite lib_alookup_aupdate_eq. discriminate.
    - rewrite lib_alookup_aupdate_neq; auto. intros ->. rewrite String.eqb_refl in E. discriminate. }
  destruct o as [k' rs|k' n|i n|k'|k'|i fuel f]; simpl.
  - destruct (build_kb B rs (lib_kb B s k')). simpl. apply Hup.
  - destruct (alookup k' (st_lib s)); simpl; auto.
  - destruct (nth_error (st_insts s) i); simpl; auto.
  - destruct (alookup k' (st_lib s)); simpl; auto.
  - apply Hup.
  - destruct (nth_error (st_insts s) i); simpl; auto.
    destruct (exec_kb B F holds self zap order fuel f (i_kb i0) (st_next s)) as [[[a b] c] d]. simpl. auto.
Qed.

Lemma has_kb_run : forall ops s k, has_kb s k -> has_kb (run ops s) k.
Proof. induction ops as [|o ops IH]; simpl; intros s k H; auto. apply IH. apply has_kb_step. exact H. Qed.

Lemma clone_kb_idem : forall es : kb B, clone_kb B (clone_kb B es) = clone_kb B es.
Proof. intros es. unfold clone_kb. rewrite map_map. apply map_ext. intros x. reflexivity. Qed.

Lemma fetch_kb_clone : forall f (es : kb B), fetch_kb B F holds f (clone_kb B es) = fetch_kb B F holds f es.
Proof.
  intros f es. unfold fetch_kb, clone_kb. induction es as [|x es IH]; simpl; auto.
  unfold le_deleted at 1. simpl. fold (le_deleted x).
  destruct (fetch_guard false (le_deleted x) && holds (le_body x) f); simpl; rewrite IH; reflexivity.
Qed.

(* NewKnowledgeBaseInstance succeeds for every key that was ever built into or stored/loaded, at any later time; the new
   instance is the clone of the library's entries, and Execute / FetchMatchingRules on it are those of the library's
   knowledge base *)
Definition C09_instance_statement : Prop :=
  (forall s k rs ops, has_kb (run ops (fst (step s (OBuild k rs)))) k) /\
  (forall s k ops, has_kb (run ops (fst (step s (OStoreLoad k)))) k) /\
  (forall s k, has_kb s k -> exists s' es,
      step s (ONewInst k) = (s', RInst true) /\ alookup k (st_lib s) = Some es /\ st_lib s' = st_lib s /\
      nth_error (st_insts s') (List.length (st_insts s)) = Some {| i_src := k; i_kb := clone_kb B es |} /\
      (forall fuel f next, exec_kb B F holds self zap order fuel f (clone_kb B es) next = exec_kb B F holds self zap order fuel f es next) /\
      (forall f, fetch_kb B F holds f (clone_kb B es) = fetch_kb B F holds f es)).

Theorem C09_instance_proved : C09_instance_statement.
Proof.
  split; [|split].
  - intros s k rs ops. apply has_kb_run. unfold has_kb. simpl. destruct (build_kb B rs (lib_kb B s k)). simpl.
    rewrite lib_alookup_aupdate_eq. discriminate.
  - intros s k ops. apply has_kb_run. unfold has_kb. simpl. rewrite lib_alookup_aupdate_eq. discriminate.
  - intros s k H. unfold has_kb in H. destruct (alookup k (st_lib s)) as [es|] eqn:E; [|congruence].
    eexists. exists es. simpl. rewrite E. split; [reflexivity|]. split; auto. split; auto. split.
    + simpl. rewrite nth_error_app2 by lia. rewrite Nat.sub_diag. reflexivity.
    + split.
      * intros fuel f next. unfold exec_kb. rewrite clone_kb_idem. reflexivity.
      * intros f. apply fetch_kb_clone.
Qed.
End C09Library.
