(* Anchor obligations tying hand-written model definitions of Values.v to the
   source shapes extracted by the translator (T-tables). *)
From Grule Require Import Base Values ValuesGen.

(* Values.get_value_elem strips exactly pointers and interfaces, recursively;
   the translator checked that pkg.GetValueElem is
     if val.Kind() == K1 || ... { return GetValueElem(val.Elem()) } ; return val
   and extracted the kinds. *)
Lemma unwrap_kinds_ok : unwrap_kinds = [KPointer; KInterface].
Proof. reflexivity. Qed.
