(* Refinement.v — the engine with its memoising working memory is
   observationally equal to the SPEC engine that evaluates every condition and
   every right-hand side from scratch (C01, C02, C07, C08, C13, C14 build on it). *)
From Coq Require Import Relations.
From Grule Require Import Base Values Syntax CmpGen ArithGen OpsGen Snapshot Printer EngineGen EngineAbs Facts Eval Fresh
     EngineProofs MemoProofs Engine.
Open Scope Z_scope.

(* ---- the nodes of a knowledge base: everything reachable from the rules ---- *)
Inductive node := NdE (e : expr) | NdA (a : atom) | NdV (v : var) | NdL (l : elist).

Inductive child : node -> node -> Prop :=
| ch_EAtom : forall a, child (NdA a) (NdE (EAtom a))
| ch_EParen : forall n e, child (NdE e) (NdE (EParen n e))
| ch_EBinL : forall o l r, child (NdE l) (NdE (EBin o l r))
| ch_EBinR : forall o l r, child (NdE r) (NdE (EBin o l r))
| ch_AVar : forall x, child (NdV x) (NdA (AVar x))
| ch_AFunc : forall f l, child (NdL l) (NdA (AFunc f l))
| ch_AMethodA : forall a f l, child (NdA a) (NdA (AMethod a f l))
| ch_AMethodL : forall a f l, child (NdL l) (NdA (AMethod a f l))
| ch_AMember : forall a n, child (NdA a) (NdA (AMember a n))
| ch_ASelA : forall a e, child (NdA a) (NdA (ASel a e))
| ch_ASelE : forall a e, child (NdE e) (NdA (ASel a e))
| ch_ANeg : forall a, child (NdA a) (NdA (ANeg a))
| ch_VMember : forall x n, child (NdV x) (NdV (VMember x n))
| ch_VSelV : forall x e, child (NdV x) (NdV (VSel x e))
| ch_VSelE : forall x e, child (NdE e) (NdV (VSel x e))
| ch_LConsE : forall e l, child (NdE e) (NdL (ECons e l))
| ch_LConsL : forall e l, child (NdL l) (NdL (ECons e l)).

Definition stmt_roots (st : stmt) : list node :=
  match st with
  | SAssign x _ e => [NdV x; NdE e]
  | SAtom (AFunc _ args) => [NdL args]
  | SAtom a => [NdA a]
  end.
Definition rule_roots (r : rule) : list node := NdE (rwhen r) :: flat_map stmt_roots (rthen r).

Section Refinement.
Variable rules : list rule.
Variable meth : list (string * fval) -> string -> list val -> res (option val * list (string * fval)).
Variable panics_inside : string -> list val -> bool.
Variable mutating : string -> bool.
Hypothesis meth_pure : forall fs f args ret fs', mutating f = false -> meth fs f args = Ok (ret, fs') -> fs' = fs.

Definition in_kb (n : node) : Prop :=
  exists r, In r (flat_map rule_roots rules) /\ clos_refl_trans node child n r.

Lemma in_kb_child : forall c p, child c p -> in_kb p -> in_kb c.
Proof.
  intros c p Hc (r & Hin & Hrt). exists r. split; auto.
  eapply rt_trans; [apply rt_step; exact Hc | exact Hrt].
Qed.

Definition NE (e : expr) := in_kb (NdE e).
Definition NA (a : atom) := in_kb (NdA a).
Definition NV (x : var) := in_kb (NdV x).
Definition NL (l : elist) := in_kb (NdL l).

Notation pure_expr := (pure_expr mutating).
Notation pure_atom := (pure_atom mutating).
Notation pure_var := (pure_var mutating).
Notation pure_elist := (pure_elist mutating).

(* rule sets covered: side-effect free conditions; actions are assignments over side-effect free
   expressions, control built-ins (Retract, Complete, Forget, Changed) and side-effect free calls *)
Definition stmt_pure (st : stmt) : Prop :=
  match st with
  | SAssign x o e => pure_var x = true /\ pure_expr e = true
  | SAtom (AFunc f args) => pure_elist args = true
  | SAtom a => pure_atom a = true
  end.
Definition rules_ok : Prop :=
  forall r, In r rules -> pure_expr (rwhen r) = true /\ Forall stmt_pure (rthen r).

(* the dependency hypothesis: a successful assignment to x leaves the from-scratch value of every
   node of the knowledge base unchanged unless the node's snapshot contains the snapshot of x or - when x is a
   slice element or map entry - of an element variable of the same container whose selector may denote the same
   element (reset_set: every pair of selectors except two different literals) *)
Definition dependency_hypothesis : Prop :=
  forall x fx t nv fx',
    NV x -> pure_var x = true -> fresh_target meth fx x = Ok t -> write_target fx t nv = Ok fx' ->
    write_ok meth mutating NE NA (reset_set (vars_rules rules) x) fx fx'.

Let allvars := vars_rules rules.
Notation msound := (memo_sound meth mutating NE NA).

Definition R (u : estate) (fx : facts) : Prop := es_facts u = fx /\ msound u /\ es_fx u = [].

Lemma find_rule_in : forall k r, find (fun r => String.eqb (rname r) k) rules = Some r -> In r rules.
Proof. intros k r H. apply find_some in H. apply H. Qed.

Lemma root_when : forall r, In r rules -> NE (rwhen r).
Proof.
  intros r Hin. exists (NdE (rwhen r)). split; [|apply rt_refl].
  apply in_flat_map. exists r. split; auto. left. reflexivity.
Qed.

Lemma root_stmt : forall r st n, In r rules -> In st (rthen r) -> In n (stmt_roots st) -> in_kb n.
Proof.
  intros r st n Hr Hst Hn. exists n. split; [|apply rt_refl].
  apply in_flat_map. exists r. split; auto. right. apply in_flat_map. exists st. auto.
Qed.

Lemma stmts_ok : forall r, rules_ok -> In r rules ->
  Forall (stmt_ok mutating NE NA NV NL) (rthen r).
Proof.
  intros r Hok Hr. destruct (Hok r Hr) as [_ Hp].
  apply Forall_forall. intros st Hst. rewrite Forall_forall in Hp. specialize (Hp st Hst).
  destruct st as [x o e|a]; simpl in *.
  - destruct Hp as [A B]. repeat split; auto.
    + apply (root_stmt r (SAssign x o e) (NdV x)); simpl; auto.
    + apply (root_stmt r (SAssign x o e) (NdE e)); simpl; auto.
  - destruct a as [c|x|f args|a' f args|a' n|a' sel|a'].
    3:{ split; auto. apply (root_stmt r (SAtom (AFunc f args)) (NdL args)); simpl; auto. }
    all: split; auto; match goal with |- NA ?aa => apply (root_stmt r (SAtom aa) (NdA aa)); simpl; auto end.
Qed.

Hypothesis Hrules : rules_ok.
Hypothesis Hdep : dependency_hypothesis.

Ltac closure := intros; eapply in_kb_child; [constructor | eassumption].

Lemma agrees :
  (forall e, pure_expr e = true -> NE e -> forall s r s', msound s ->
     eval_expr allvars meth panics_inside e s = (r, s') ->
     r = fresh_expr meth (es_facts s) e /\ frame s s' /\ msound s').
Proof.
  intros e Hp Hn s r s' Hs H.
  refine (proj1 (eval_agrees allvars meth panics_inside mutating meth_pure NE NA NV NL _ _ _ _ _ _ _ _ _ _ _ _) e Hp Hn s r s' Hs H);
    unfold NE, NA, NV, NL; try closure.
  - intros o l r0 Hb. split; eapply in_kb_child; try eassumption; constructor.
  - intros a f l Hb. split; eapply in_kb_child; try eassumption; constructor.
  - intros a e0 Hb. split; eapply in_kb_child; try eassumption; constructor.
  - intros x e0 Hb. split; eapply in_kb_child; try eassumption; constructor.
  - intros e0 l Hb. split; eapply in_kb_child; try eassumption; constructor.
Qed.

(* conditions: the memoising evaluation of a rule's condition is its from-scratch value *)
Lemma cond_refines : forall u fx e, R u fx ->
  snd (rule_cond allvars meth panics_inside rules u e) = snd (spec_cond meth rules fx e) /\
  R (fst (rule_cond allvars meth panics_inside rules u e)) (fst (spec_cond meth rules fx e)).
Proof.
  intros u fx e (Hf & Hs & Hx). unfold rule_cond, spec_cond, find_rule.
  destruct (find (fun r => String.eqb (rname r) (e_key e)) rules) as [r|] eqn:Ef; simpl.
  2:{ split; auto. unfold R; split; [assumption|split; assumption]. }
  pose proof (find_rule_in _ _ Ef) as Hin.
  destruct (Hrules r Hin) as [Hp _].
  destruct (eval_expr allvars meth panics_inside (rwhen r) u) as [res u'] eqn:Ee.
  destruct (agrees (rwhen r) Hp (root_when r Hin) u res u' Hs Ee) as (Hr & [Hf1 Hf2] & Hs').
  assert (HR: R u' fx) by (unfold R; split; [congruence|split; [assumption|congruence]]).
  unfold holds. rewrite <- Hf at 1. rewrite <- Hr.
  destruct res as [[v|p]| |]; simpl; auto.
  destruct v; simpl; auto.
  match goal with |- context [if ?bb then _ else _] => destruct bb end; simpl; auto.
Qed.

Lemma act_refines : forall u fx e, R u fx ->
  snd (fst (rule_act allvars meth panics_inside rules u e)) = snd (fst (spec_act meth rules fx e)) /\
  snd (rule_act allvars meth panics_inside rules u e) = snd (spec_act meth rules fx e) /\
  R (fst (fst (rule_act allvars meth panics_inside rules u e))) (fst (fst (spec_act meth rules fx e))).
Proof.
  intros u fx e (Hf & Hs & Hx). unfold rule_act, spec_act, find_rule.
  destruct (find (fun r => String.eqb (rname r) (e_key e)) rules) as [r|] eqn:Ef; simpl.
  2:{ split; [reflexivity|split; [reflexivity|]]. unfold R; split; [assumption|split; assumption]. }
  pose proof (find_rule_in _ _ Ef) as Hin.
  destruct (exec_stmts allvars meth panics_inside (rthen r) (clear_fx u)) as [failed s1] eqn:Ex.
  assert (Hsc: msound (clear_fx u)) by (destruct Hs as (A & B & C); split; [|split]; simpl; auto).
  pose proof (exec_stmts_sim allvars meth panics_inside mutating meth_pure NE NA NV NL) as Sim.
  assert (Hsim: msound s1 /\
     (let '(fx', fxs, failed') := spec_stmts meth (es_facts (clear_fx u)) (rthen r) (es_fx (clear_fx u)) in
      failed = failed' /\ es_facts s1 = fx' /\ es_fx s1 = fxs)).
  { refine (Sim _ _ _ _ _ _ _ _ _ _ _ _ Hdep (rthen r) (clear_fx u) failed s1 (stmts_ok r Hrules Hin) Hsc Ex);
      unfold NE, NA, NV, NL; try closure.
    - intros o l r0 Hb. split; eapply in_kb_child; try eassumption; constructor.
    - intros a f l Hb. split; eapply in_kb_child; try eassumption; constructor.
    - intros a e0 Hb. split; eapply in_kb_child; try eassumption; constructor.
    - intros x e0 Hb. split; eapply in_kb_child; try eassumption; constructor.
    - intros e0 l Hb. split; eapply in_kb_child; try eassumption; constructor. }
  destruct Hsim as (Hs1 & Hm). simpl in Hm. rewrite Hf in Hm.
  destruct (spec_stmts meth fx (rthen r) []) as [[fx' fxs] failed'].
  destruct Hm as (-> & Hfx & Hfxs). simpl.
  split; [exact Hfxs|split; [reflexivity|]].
  unfold R. simpl. split; [assumption|split; [|reflexivity]].
  destruct Hs1 as (A & B & C). split; [|split]; simpl; auto.
Qed.

(* C01 / C02 core: for every budget, flag, cancellation point and iteration order, the run of the
   engine with its working memory - whatever that memory holds when the call starts - yields exactly
   the cycle records, outcome and final facts of the run in which every condition and right-hand side
   is evaluated from scratch on the current facts *)
Theorem engine_refines_spec_from : forall fuel c order (u : estate) es,
  es_fx u = [] ->
  let '(s1, recs1, o1) :=
    execute estate (rule_cond allvars meth panics_inside rules) (rule_act allvars meth panics_inside rules) reset_all
            fuel c order u es in
  let '(s2, recs2, o2) :=
    execute facts (spec_cond meth rules) (spec_act meth rules) (fun f => f) fuel c order (es_facts u) es in
  recs1 = recs2 /\ o1 = o2 /\ es_facts (s_user s1) = s_user s2.
Proof.
  intros fuel c order u es Hfx.
  pose proof (execute_sim estate facts
                (rule_cond allvars meth panics_inside rules) (rule_act allvars meth panics_inside rules)
                (spec_cond meth rules) (spec_act meth rules) R cond_refines act_refines
                reset_all (fun f => f) fuel c order u (es_facts u) es) as H.
  assert (Hi: R (reset_all u) (es_facts u)).
  { unfold R, reset_all; simpl. repeat split; auto; simpl; intros; contradiction. }
  specialize (H Hi).
  destruct (execute estate _ _ reset_all fuel c order u es) as [[s1 recs1] o1].
  destruct (execute facts _ _ (fun f => f) fuel c order (es_facts u) es) as [[s2 recs2] o2].
  destruct H as ((Hf & _) & Hrecs & Ho). auto.
Qed.

Theorem engine_refines_spec : forall fuel c order fx es,
  let '(s1, recs1, o1) :=
    execute estate (rule_cond allvars meth panics_inside rules) (rule_act allvars meth panics_inside rules) reset_all
            fuel c order (init_estate fx) es in
  let '(s2, recs2, o2) :=
    execute facts (spec_cond meth rules) (spec_act meth rules) (fun f => f) fuel c order fx es in
  recs1 = recs2 /\ o1 = o2 /\ es_facts (s_user s1) = s_user s2.
Proof. intros. apply (engine_refines_spec_from fuel c order (init_estate fx) es). reflexivity. Qed.

(* C08 core: a call behaves like the same call on a fresh instance, whatever values the working memory
   remembers and whichever rules are still retracted from earlier calls *)
Theorem reuse_is_fresh : forall fuel c order (u : estate) es es',
  es_fx u = [] ->
  map (fun e => (e_key e, e_name e, e_sal e, e_deleted e)) es = map (fun e => (e_key e, e_name e, e_sal e, e_deleted e)) es' ->
  let '(s1, recs1, o1) :=
    execute estate (rule_cond allvars meth panics_inside rules) (rule_act allvars meth panics_inside rules) reset_all
            fuel c order u es in
  let '(s2, recs2, o2) :=
    execute estate (rule_cond allvars meth panics_inside rules) (rule_act allvars meth panics_inside rules) reset_all
            fuel c order (init_estate (es_facts u)) es' in
  recs1 = recs2 /\ o1 = o2 /\ es_facts (s_user s1) = es_facts (s_user s2).
Proof.
  intros fuel c order u es es' Hfx Hes.
  assert (Hun: unretract es = unretract es').
  { revert es' Hes. induction es as [|e es IH]; intros [|e' es'] H; simpl in *; try discriminate; auto.
    injection H as H1 H2 H3 H4 H5. f_equal; [|apply IH; exact H5]. congruence. }
  pose proof (engine_refines_spec_from fuel c order u es Hfx) as H1.
  pose proof (engine_refines_spec_from fuel c order (init_estate (es_facts u)) es' eq_refl) as H2.
  simpl in H2.
  assert (Hspec: execute facts (spec_cond meth rules) (spec_act meth rules) (fun f => f) fuel c order (es_facts u) es =
                 execute facts (spec_cond meth rules) (spec_act meth rules) (fun f => f) fuel c order (es_facts u) es').
  { unfold execute, init_st. rewrite Hun. reflexivity. }
  rewrite Hspec in H1.
  destruct (execute estate _ _ reset_all fuel c order u es) as [[s1 recs1] o1].
  destruct (execute estate _ _ reset_all fuel c order (init_estate (es_facts u)) es') as [[s2 recs2] o2].
  destruct (execute facts _ _ (fun f => f) fuel c order (es_facts u) es') as [[s3 recs3] o3].
  destruct H1 as (A1 & B1 & C1). destruct H2 as (A2 & B2 & C2). repeat split; congruence.
Qed.

(* FetchMatchingRules with the working memory, from any memory contents, answers like the from-scratch fetch *)
Theorem fetch_refines_spec_from : forall reterr order (u : estate) es,
  es_fx u = [] ->
  let '(u1, r1) := fetch estate (rule_cond allvars meth panics_inside rules) reset_all reterr order u es in
  let '(f2, r2) := fetch facts (spec_cond meth rules) (fun f => f) reterr order (es_facts u) es in
  r1 = r2 /\ es_facts u1 = f2.
Proof.
  intros reterr order u es Hfx.
  pose proof (fetch_sim estate facts (rule_cond allvars meth panics_inside rules) (spec_cond meth rules) R cond_refines
                reset_all (fun f => f) reterr order u (es_facts u) es) as H.
  assert (Hi: R (reset_all u) (es_facts u)).
  { unfold R, reset_all; simpl. repeat split; auto; simpl; intros; contradiction. }
  specialize (H Hi).
  destruct (fetch estate _ reset_all reterr order u es) as [u1 r1].
  destruct (fetch facts _ (fun f => f) reterr order (es_facts u) es) as [f2 r2].
  destruct H as ((Hf & _) & Hr). auto.
Qed.

(* … and leaves the facts alone *)
Lemma spec_fetch_loop_facts : forall reterr es fx acc,
  fst (fst (fetch_loop facts (spec_cond meth rules) reterr es fx acc)) = fx.
Proof.
  intros reterr es. induction es as [|e es IH]; intros fx acc; simpl; auto.
  destruct (fetch_guard (e_retracted e) (e_deleted e)); auto.
  destruct (e_retracted e); auto.
  unfold spec_cond at 1. destruct (find _ rules) as [r|].
  - destruct (holds meth fx (rwhen r)); auto. destruct reterr; auto.
  - destruct reterr; auto.
Qed.

Theorem fetch_leaves_facts : forall reterr order (u : estate) es,
  es_fx u = [] ->
  es_facts (fst (fetch estate (rule_cond allvars meth panics_inside rules) reset_all reterr order u es)) = es_facts u.
Proof.
  intros reterr order u es Hfx.
  pose proof (fetch_refines_spec_from reterr order u es Hfx) as H.
  destruct (fetch estate _ reset_all reterr order u es) as [u1 r1].
  destruct (fetch facts (spec_cond meth rules) (fun f => f) reterr order (es_facts u) es) as [f2 r2] eqn:E.
  destruct H as [_ H]. simpl. rewrite H.
  unfold fetch in E.
  pose proof (spec_fetch_loop_facts reterr (order (unretract es)) (es_facts u) []) as L.
  destruct (fetch_loop facts (spec_cond meth rules) reterr (order (unretract es)) (es_facts u) []) as [[f m] er].
  simpl in L. destruct er; inversion E; subst; auto.
Qed.

Theorem fetch_reuse_is_fresh : forall reterr order (u : estate) es es',
  es_fx u = [] ->
  map (fun e => (e_key e, e_name e, e_sal e, e_deleted e)) es = map (fun e => (e_key e, e_name e, e_sal e, e_deleted e)) es' ->
  snd (fetch estate (rule_cond allvars meth panics_inside rules) reset_all reterr order u es) =
  snd (fetch estate (rule_cond allvars meth panics_inside rules) reset_all reterr order (init_estate (es_facts u)) es').
Proof.
  intros reterr order u es es' Hfx Hes.
  assert (Hun: unretract es = unretract es').
  { revert es' Hes. induction es as [|e es IH]; intros [|e' es'] H; simpl in *; try discriminate; auto.
    injection H as H1 H2 H3 H4 H5. f_equal; [|apply IH; exact H5]. congruence. }
  pose proof (fetch_refines_spec_from reterr order u es Hfx) as H1.
  pose proof (fetch_refines_spec_from reterr order (init_estate (es_facts u)) es' eq_refl) as H2.
  simpl in H2.
  assert (Hspec: fetch facts (spec_cond meth rules) (fun f => f) reterr order (es_facts u) es =
                 fetch facts (spec_cond meth rules) (fun f => f) reterr order (es_facts u) es').
  { unfold fetch. rewrite Hun. reflexivity. }
  rewrite Hspec in H1.
  destruct (fetch estate _ reset_all reterr order u es) as [u1 r1].
  destruct (fetch estate _ reset_all reterr order (init_estate (es_facts u)) es') as [u2 r2].
  destruct (fetch facts _ (fun f => f) reterr order (es_facts u) es') as [f3 r3].
  destruct H1 as [A1 _]. destruct H2 as [A2 _]. simpl. congruence.
Qed.

End Refinement.
