(* EngineProofs.v — properties of the abstract engine, for every condition /
   action semantics, every iteration order of the rule map, every budget and
   every cancellation point.  Used by C03, C06, C10, C11, C15. *)
From Coq Require Import Permutation Sorted.
From Grule Require Import Base EngineGen EngineAbs AnchorsEngine.
Open Scope Z_scope.

Section Proofs.
Variable U : Type.
Variable cond : U -> entry -> U * cres.
Variable act : U -> entry -> U * list effect * bool.
Variable reset_user : U -> U.

Notation st := (st U).
Notation eval_loop := (eval_loop U cond).
Notation cycle_step := (cycle_step U cond act).
Notation run_loop := (run_loop U cond act).
Notation execute := (execute U cond act reset_user).

Definition guard (e : entry) : bool := eval_guard (e_retracted e) (e_deleted e).
Definition ev_key (x : Z * string * bool) : string := snd (fst x).
Definition ev_num (x : Z * string * bool) : Z := fst (fst x).
Definition ev_flag (x : Z * string * bool) : bool := snd x.

(* ------------------------------------------------------------------ *)
(* the salience scan computes a maximum of a non-empty list            *)
Lemma pick_spec : forall tl hd,
  In (pick hd tl) (hd :: tl) /\ forall x, In x (hd :: tl) -> e_sal x <= e_sal (pick hd tl).
Proof.
  induction tl as [|y tl IH]; intros hd.
  - simpl. split; [auto|]. intros x [->|[]]. lia.
  - unfold pick. simpl. fold (pick (if salience_replace (e_sal hd) (e_sal y) then y else hd) tl).
    destruct (salience_replace (e_sal hd) (e_sal y)) eqn:E.
    + destruct (IH y) as [Hin Hmax]. split.
      * destruct Hin as [Hin|Hin]; [right; left; exact Hin | right; right; exact Hin].
      * intros x [Hx|[Hx|Hx]].
        -- subst x. apply salience_replace_sound in E. specialize (Hmax y (or_introl eq_refl)). lia.
        -- subst x. apply Hmax. left; reflexivity.
        -- apply Hmax. right; exact Hx.
    + destruct (IH hd) as [Hin Hmax]. split.
      * destruct Hin as [Hin|Hin]; [left; exact Hin | right; right; exact Hin].
      * intros x [Hx|[Hx|Hx]].
        -- subst x. apply Hmax. left; reflexivity.
        -- subst x. assert (~ e_sal hd < e_sal y) by (intro L; apply salience_replace_complete in L; congruence).
           specialize (Hmax hd (or_introl eq_refl)). lia.
        -- apply Hmax. right; exact Hx.
Qed.

(* ------------------------------------------------------------------ *)
(* the evaluation loop                                                 *)
Definition mk_ev (n : Z) (p : entry * bool) : Z * string * bool := (n, e_key (fst p), snd p).

Lemma eval_loop_spec : forall c es s run evs s' run' evs' o,
  eval_loop c es s run evs = (s', run', evs', o) ->
  s_cycle s' = s_cycle s /\ s_entries s' = s_entries s /\ s_complete s' = s_complete s /\ (s_chk s <= s_chk s')%nat /\
  exists flags,
    (List.length flags <= List.length (filter guard es))%nat /\
    (o = None -> List.length flags = List.length (filter guard es)) /\
    evs' = (evs ++ map (mk_ev (notify_evaluate_cycle (s_cycle s))) (combine (filter guard es) flags))%list /\
    run' = (run ++ map fst (filter snd (combine (filter guard es) flags)))%list.
Proof.
  assert (early: forall (l : list entry) (evs : list (Z * string * bool)) (run : list entry) n (o : option outcome),
            o <> None ->
            exists flags : list bool,
              (List.length flags <= List.length l)%nat /\
              (o = None -> List.length flags = List.length l) /\
              evs = (evs ++ map (mk_ev n) (combine l flags))%list /\
              run = (run ++ map fst (filter snd (combine l flags)))%list).
  { intros l evs run n o Ho. exists []. rewrite combine_nil. simpl. rewrite !app_nil_r.
    repeat split; auto; try lia. intros; congruence. }
  intros c es. induction es as [|e es IH]; intros s run evs s' run' evs' o H; simpl in H.
  - inversion H; subst. repeat split; auto. exists []. simpl. rewrite !app_nil_r. repeat split; auto.
  - destruct (cancelled c s) eqn:Ec.
    { inversion H; subst. simpl s_cycle; simpl s_entries; simpl s_complete; simpl s_chk.
      repeat split; auto. apply early. discriminate. }
    simpl filter.
    destruct (guard e) eqn:Eg; unfold guard in Eg; rewrite Eg in H.
    2:{ apply IH in H. simpl in H. destruct H as (A & B & C & D & flags & F1 & F2 & F3 & F4).
        repeat split; auto; try lia. exists flags. repeat split; auto. }
    assert (step: forall (sx : st) (runx : list entry) (evsx : list (Z * string * bool)) (b : bool),
              eval_loop c es sx runx evsx = (s', run', evs', o) ->
              s_cycle sx = s_cycle s -> s_entries sx = s_entries s -> s_complete sx = s_complete s -> (s_chk s <= s_chk sx)%nat ->
              runx = (run ++ (if b then [e] else []))%list ->
              evsx = (evs ++ [(notify_evaluate_cycle (s_cycle s), e_key e, b)])%list ->
              s_cycle s' = s_cycle s /\ s_entries s' = s_entries s /\ s_complete s' = s_complete s /\ (s_chk s <= s_chk s')%nat /\
              exists flags,
                (List.length flags <= S (List.length (filter guard es)))%nat /\
                (o = None -> List.length flags = S (List.length (filter guard es))) /\
                evs' = (evs ++ map (mk_ev (notify_evaluate_cycle (s_cycle s))) (combine (e :: filter guard es) flags))%list /\
                run' = (run ++ map fst (filter snd (combine (e :: filter guard es) flags)))%list).
    { intros sx runx evsx b Hx A0 B0 C0 D0 Hr He.
      apply IH in Hx. destruct Hx as (A & B & C & D & flags & F1 & F2 & F3 & F4).
      rewrite A0 in *. 
      repeat split; try congruence; try lia.
      exists (b :: flags). simpl.
      repeat split; try lia.
      - intros Ho. rewrite F2; auto.
      - rewrite F3, He, <- app_assoc. reflexivity.
      - rewrite F4, Hr, <- app_assoc. destruct b; reflexivity. }
    destruct (cancelled c (bump s)) eqn:Ec2.
    { destruct (c_reterr c).
      - inversion H; subst. simpl s_cycle; simpl s_entries; simpl s_complete; simpl s_chk.
        repeat split; auto; try lia. apply early. discriminate.
      - eapply (step _ _ _ false) in H; simpl; auto; try lia. rewrite app_nil_r. reflexivity. }
    destruct (cond (s_user s) e) as [u r] eqn:Ecd.
    destruct r.
    + eapply (step _ _ _ true) in H; simpl; auto; lia.
    + eapply (step _ _ _ false) in H; simpl; auto; try lia. rewrite app_nil_r. reflexivity.
    + destruct (c_reterr c).
      * inversion H; subst. simpl s_cycle; simpl s_entries; simpl s_complete; simpl s_chk.
        repeat split; auto; try lia. apply early. discriminate.
      * eapply (step _ _ _ false) in H; simpl; auto; try lia. rewrite app_nil_r. reflexivity.
Qed.


Definition cancel_seen (c : config) (n : nat) : Prop := exists kc, c_cancel c = Some kc /\ (kc < n)%nat.

Lemma cancelled_seen : forall c (s : st), cancelled c s = true -> cancel_seen c (S (s_chk s)).
Proof.
  unfold cancelled, cancel_seen. intros c s H. destruct (c_cancel c) as [kc|]; try discriminate.
  exists kc. split; auto. apply Nat.leb_le in H. lia.
Qed.

Lemma cancel_seen_mono : forall c n m, cancel_seen c n -> (n <= m)%nat -> cancel_seen c m.
Proof. intros c n m (kc & A & B) H. exists kc. split; auto. lia. Qed.

Lemma eval_loop_early : forall c es s run evs s' run' evs' out,
  eval_loop c es s run evs = (s', run', evs', Some out) ->
  (out = OCtxErr /\ cancel_seen c (s_chk s')) \/
  (exists k ctx, out = OCondErr k ctx /\ c_reterr c = true /\ (ctx = true -> cancel_seen c (s_chk s'))).
Proof.
  intros c es. induction es as [|e es IH]; intros s run evs s' run' evs' out H; simpl in H.
  - inversion H.
  - destruct (cancelled c s) eqn:Ec.
    { inversion H; subst. left. split; auto. apply cancelled_seen in Ec. exact Ec. }
    destruct (eval_guard (e_retracted e) (e_deleted e)).
    2:{ eapply IH; eauto. }
    destruct (cancelled c (bump s)) eqn:Ec2.
    { destruct (c_reterr c) eqn:Er.
      - inversion H; subst. right. exists (e_key e), true. repeat split; auto.
        intros _. apply cancelled_seen in Ec2. exact Ec2.
      - eapply IH; eauto. }
    destruct (cond (s_user s) e) as [u r] eqn:Ecd.
    destruct r; try (eapply IH; eauto; fail).
    destruct (c_reterr c) eqn:Er.
    + inversion H; subst. right. exists (e_key e), false. repeat split; auto. discriminate.
    + eapply IH; eauto.
Qed.

(* ------------------------------------------------------------------ *)
(* one pass of the outer loop                                          *)

(* Retracted flags are a function of the Retract calls made so far *)
Definition retracts (n : string) (fx : effect) : bool :=
  match fx with FxRetract m => String.eqb n m | FxComplete => false end.
Definition retracted_by (h : list cycle_rec) (n : string) : bool :=
  existsb (fun r => existsb (retracts n) (cr_fx r)) h.
Definition set_retracted (b : bool) (e : entry) : entry :=
  {| e_key := e_key e; e_name := e_name e; e_sal := e_sal e; e_retracted := b; e_deleted := e_deleted e |}.
Definition mark (h : list cycle_rec) (e : entry) : entry := set_retracted (retracted_by h (e_name e)) e.
Definition completes (r : cycle_rec) : bool :=
  existsb (fun fx => match fx with FxComplete => true | _ => false end) (cr_fx r).

Variable es0 : list entry.                      (* the rule entries of the knowledge base *)
Hypothesis keys_nodup : NoDup (map e_key es0).
Variable c : config.

Definition rec_ok (ord : list entry -> list entry) (h : list cycle_rec) (r : cycle_rec) : Prop :=
  let es := map (mark h) es0 in
  cr_begin r = Z.of_nat (List.length h) + 1 /\
  (exists flags, cr_evals r = map (mk_ev (cr_begin r)) (combine (filter guard (ord es)) flags)) /\
  (forall n k, cr_exec r = Some (n, k) ->
     n = cr_begin r /\
     exists e, In e es /\ guard e = true /\ e_key e = k /\ In (n, k, true) (cr_evals r) /\
               forall e', In e' es -> In (n, e_key e', true) (cr_evals r) -> e_sal e' <= e_sal e) /\
  (cr_started r = true ->
     cr_exec r <> None /\ Z.of_nat (List.length h) + 1 <= c_max c /\
     forall kc, c_cancel c = Some kc -> (cr_act_chk r <= kc)%nat) /\
  (cr_started r = false -> cr_fx r = []) /\
  (cr_exec r <> None -> List.length (cr_evals r) = List.length (filter guard (ord es))).

Definition inv (h : list cycle_rec) (s : st) : Prop :=
  s_entries s = map (mark h) es0 /\ s_cycle s = Z.of_nat (List.length h) /\ s_complete s = false.

Lemma mark_key : forall h e, e_key (mark h e) = e_key e. Proof. reflexivity. Qed.
Lemma mark_sal : forall h e, e_sal (mark h e) = e_sal e. Proof. reflexivity. Qed.
Lemma mark_name : forall h e, e_name (mark h e) = e_name e. Proof. reflexivity. Qed.

Lemma keys_marked : forall h, map e_key (map (mark h) es0) = map e_key es0.
Proof. intros. rewrite map_map. apply map_ext. reflexivity. Qed.

Lemma key_inj : forall h e1 e2, In e1 (map (mark h) es0) -> In e2 (map (mark h) es0) -> e_key e1 = e_key e2 -> e1 = e2.
Proof.
  intros h e1 e2 H1 H2 Hk.
  pose proof (keys_marked h) as Hm.
  assert (Hnd: NoDup (map e_key (map (mark h) es0))) by (rewrite Hm; exact keys_nodup).
  clear Hm. revert Hnd H1 H2. generalize (map (mark h) es0) as l.
  induction l as [|x l IH]; intros Hnd H1 H2; [inversion H1|].
  simpl in Hnd. inversion Hnd as [|? ? Hnot Hnd']; subst.
  destruct H1 as [<-|H1]; destruct H2 as [<-|H2]; auto.
  - exfalso. apply Hnot. rewrite Hk. apply in_map. exact H2.
  - exfalso. apply Hnot. rewrite <- Hk. apply in_map. exact H1.
Qed.

Lemma in_combine_filter : forall (l : list entry) (flags : list bool) e b,
  In (e, b) (combine l flags) -> In e l.
Proof. intros. eapply in_combine_l; eauto. Qed.

Lemma fold_apply_fx_spec : forall fxs (s : st),
  let s' := fold_left apply_fx fxs s in
  s_user s' = s_user s /\ s_cycle s' = s_cycle s /\ s_chk s' = s_chk s /\
  s_complete s' = (s_complete s || existsb (fun fx => match fx with FxComplete => true | _ => false end) fxs)%bool /\
  s_entries s' = map (fun e => set_retracted (e_retracted e || existsb (retracts (e_name e)) fxs)%bool e) (s_entries s).
Proof.
  induction fxs as [|fx fxs IH]; intros s; simpl.
  - repeat split; auto. + rewrite orb_false_r; reflexivity.
    + rewrite <- (map_id (s_entries s)) at 1. apply map_ext. intros [k n sa r d]. unfold set_retracted; simpl. rewrite orb_false_r. reflexivity.
  - destruct (IH (apply_fx s fx)) as (A & B & C & D & E). rewrite A, B, C, D, E. clear IH A B C D E.
    destruct fx as [m|]; simpl; repeat split; auto.
    + unfold retract_in. rewrite map_map. apply map_ext. intros [k n sa r d]. simpl.
      destruct (String.eqb n m) eqn:En; unfold set_retracted; simpl; rewrite ?En; simpl; try reflexivity.
      rewrite orb_true_r. reflexivity.
    + rewrite orb_true_r. destruct (s_complete s); reflexivity.
Qed.

Lemma mark_snoc : forall h r e,
  mark (h ++ [r]) e = set_retracted (e_retracted (mark h e) || existsb (retracts (e_name (mark h e))) (cr_fx r))%bool (mark h e).
Proof.
  intros. unfold mark, set_retracted, retracted_by. simpl. rewrite existsb_app. simpl. rewrite orb_false_r. reflexivity.
Qed.

Lemma rec_ok_noexec : forall ord h evs flags,
  evs = map (mk_ev (Z.of_nat (List.length h) + 1)) (combine (filter guard (ord (map (mark h) es0))) flags) ->
  rec_ok ord h {| cr_begin := Z.of_nat (List.length h) + 1; cr_evals := evs; cr_exec := None; cr_started := false; cr_fx := []; cr_act_chk := 0 |}.
Proof.
  intros ord h evs flags H. unfold rec_ok. simpl.
  split; [reflexivity|]. split; [exists flags; exact H|]. split; [intros n k E; discriminate|].
  split; [intros E; discriminate|]. split; [intros _; reflexivity|]. intros E; congruence.
Qed.

Lemma cycle_step_spec : forall ord h (s : st),
  (forall l, Permutation (ord l) l) ->
  inv h s ->
  match cycle_step c ord s with
  | Continue s' r => inv (h ++ [r]) s' /\ rec_ok ord h r /\ cr_started r = true /\ completes r = false /\ (s_chk s <= s_chk s')%nat
  | Stop s' (Some r) o =>
      rec_ok ord h r /\ (s_chk s <= s_chk s')%nat /\
      match o with
      | OQuiescent => cr_exec r = None /\ Forall (fun x => ev_flag x = false) (cr_evals r) /\
                      List.length (cr_evals r) = List.length (filter guard (ord (map (mark h) es0))) /\
                      ~ cancel_seen c (s_chk s')
      | OCompleted => cr_started r = true /\ completes r = true /\ ~ cancel_seen c (s_chk s')
      | OCycleLimit => cr_exec r = None /\ Exists (fun x => ev_flag x = true) (cr_evals r) /\ Z.of_nat (List.length h) + 1 > c_max c /\
                       List.length (cr_evals r) = List.length (filter guard (ord (map (mark h) es0)))
      | OCtxErr => cancel_seen c (s_chk s')
      | OCondErr k ctx => cr_exec r = None /\ c_reterr c = true /\ (ctx = true -> cancel_seen c (s_chk s'))
      | OActErr k ctx => cr_exec r <> None /\ cr_started r = negb ctx /\ (ctx = true -> cancel_seen c (s_chk s'))
      | OFuel => False
      end
  | Stop s' None o => o = OCtxErr /\ cancel_seen c (s_chk s')
  end.
Proof.
  intros ord h s Hperm (Hent & Hcyc & Hcomp).
  unfold cycle_step.
  destruct (cancelled c s) eqn:Ec0.
  { split; auto. apply cancelled_seen in Ec0. exact Ec0. }
  destruct (eval_loop c (ord (s_entries (bump s))) (bump s) [] []) as [[[s1 runnable] evs] early] eqn:Eloop.
  pose proof (eval_loop_spec _ _ _ _ _ _ _ _ _ Eloop) as (A1 & A2 & A3 & A4 & flags & F1 & F2 & F3 & F4).
  simpl in A1, A2, A3, A4, F1, F2, F3, F4.
  rewrite Hent in F1, F2, F3, F4.
  set (es := map (mark h) es0) in *.
  set (act_es := filter guard (ord es)) in *.
  assert (Hb: notify_begin_cycle (s_cycle (bump s)) = Z.of_nat (List.length h) + 1)
    by (simpl; rewrite notify_begin_spec, Hcyc; reflexivity).
  assert (Hn: notify_evaluate_cycle (s_cycle s) = Z.of_nat (List.length h) + 1)
    by (rewrite notify_evaluate_spec, Hcyc; reflexivity).
  rewrite Hn in F3.
  rewrite Hb.
  destruct early as [out|].
  - (* the evaluation loop returned early *)
    destruct (eval_loop_early _ _ _ _ _ _ _ _ _ Eloop) as [[-> Hs]|(k & ctx & -> & Hr & Hs)].
    + split.
      * eapply rec_ok_noexec; exact F3.
      * split; [simpl in A4; lia|]. exact Hs.
    + split.
      * eapply rec_ok_noexec; exact F3.
      * split; [simpl in A4; lia|]. repeat split; auto.
  - specialize (F2 eq_refl).
    destruct runnable as [|hd tl].
    + (* quiescence *)
      assert (Hq: Forall (fun x => ev_flag x = false) evs /\ List.length evs = List.length act_es).
      { split.
        - rewrite F3. apply Forall_forall. intros x Hx. apply in_map_iff in Hx. destruct Hx as ([e b] & <- & Hin).
          unfold ev_flag, mk_ev. simpl. destruct b; auto.
          assert (In e (map fst (filter snd (combine act_es flags)))).
          { apply in_map_iff. exists (e, true). split; auto. apply filter_In. split; auto. }
          rewrite <- F4 in H. inversion H.
        - rewrite F3, map_length, combine_length. lia. }
      destruct (cancelled c s1) eqn:Ecq.
      * split; [eapply rec_ok_noexec; exact F3|]. split; [simpl; simpl in A4; lia|].
        apply cancelled_seen in Ecq. exact Ecq.
      * split; [eapply rec_ok_noexec; exact F3|]. split; [simpl; simpl in A4; lia|].
        destruct Hq as [Hq1 Hq2]. simpl. repeat split; auto.
        intros (kc & Hk & Hlt). unfold cancelled in Ecq. rewrite Hk in Ecq. apply Nat.leb_gt in Ecq. simpl in Hlt. lia.
    + (* some candidate exists *)
      simpl s_cycle.
      assert (Hrun: forall e, In e (hd :: tl) <-> In (e, true) (combine act_es flags)).
      { intros e. rewrite F4. split.
        - intros H. apply in_map_iff in H. destruct H as ([e' b] & <- & Hin). apply filter_In in Hin. destruct Hin as [Hin Hb']. simpl in Hb'. subst b. exact Hin.
        - intros H. apply in_map_iff. exists (e, true). split; auto. apply filter_In. split; auto. }
      assert (Hact_in: forall e b, In (e, b) (combine act_es flags) -> In e es /\ guard e = true).
      { intros e b H. apply in_combine_l in H. unfold act_es in H. apply filter_In in H. destruct H as [H1 H2].
        split; auto. eapply Permutation_in; [apply Hperm | exact H1]. }
      destruct (over_budget (s_cycle s1 + 1) (c_max c)) eqn:Eob.
      * (* cycle limit *)
        apply over_budget_spec in Eob. rewrite A1, Hcyc in Eob.
        split.
        -- eapply rec_ok_noexec; exact F3.
        -- split; [simpl in A4; simpl; lia|]. simpl. repeat split; auto.
           ++ apply Exists_exists. exists (Z.of_nat (List.length h) + 1, e_key hd, true). split; auto.
              rewrite F3. apply in_map_iff. exists (hd, true). split; auto. apply Hrun. left; reflexivity.
           ++ rewrite F3, map_length, combine_length. fold es. fold act_es. lia.
      * (* a rule is selected *)
        assert (Hle: Z.of_nat (List.length h) + 1 <= c_max c).
        { destruct (Z_le_gt_dec (Z.of_nat (List.length h) + 1) (c_max c)) as [L|G]; auto.
          assert (over_budget (s_cycle s1 + 1) (c_max c) = true) by (apply over_budget_spec; rewrite A1, Hcyc; exact G). congruence. }
        destruct (pick_spec tl hd) as [Hpin Hpmax].
        set (runner := pick hd tl) in *.
        assert (Hex: notify_execute_cycle (s_cycle s1 + 1) = Z.of_nat (List.length h) + 1)
          by (rewrite notify_execute_spec, A1, Hcyc; reflexivity).
        rewrite Hex.
        assert (Hexec: forall n k, Some (Z.of_nat (List.length h) + 1, e_key runner) = Some (n, k) ->
                  n = Z.of_nat (List.length h) + 1 /\
                  exists e, In e es /\ guard e = true /\ e_key e = k /\ In (n, k, true) evs /\
                            forall e', In e' es -> In (n, e_key e', true) evs -> e_sal e' <= e_sal e).
        { intros n k H. inversion H; subst n k. split; auto.
          exists runner. apply Hrun in Hpin. destruct (Hact_in _ _ Hpin) as [Hin Hg].
          repeat split; auto.
          - rewrite F3. apply in_map_iff. exists (runner, true). split; auto.
          - intros e' He' Hev. rewrite F3 in Hev. apply in_map_iff in Hev. destruct Hev as ([e'' b] & Heq & Hin'').
            unfold mk_ev in Heq. simpl in Heq. inversion Heq; subst b.
            destruct (Hact_in _ _ Hin'') as [Hin3 _].
            assert (e'' = e') by (eapply key_inj; eauto). subst e''.
            apply Hpmax. apply Hrun. exact Hin''. }
        set (s2 := {| s_user := s_user s1; s_entries := s_entries s1; s_cycle := s_cycle s1 + 1; s_chk := s_chk s1; s_complete := s_complete s1 |}).
        destruct (cancelled c s2) eqn:Ec3.
        -- (* RuleEntry.Execute refuses to start *)
           split.
           ++ unfold rec_ok. simpl. fold es. fold act_es.
              split; [reflexivity|]. split; [exists flags; exact F3|]. split; [exact Hexec|].
              split; [intros E; discriminate|]. split; [intros _; reflexivity|].
              intros _. rewrite F3, map_length, combine_length. lia.
           ++ split; [simpl in A4; simpl; lia|]. simpl. repeat split; auto.
              ** discriminate.
              ** intros _. apply cancelled_seen in Ec3. exact Ec3.
        -- destruct (act (s_user (bump s2)) runner) as [[u fxs] failed] eqn:Eact.
           destruct (fold_apply_fx_spec fxs (with_user (bump s2) u)) as (B1 & B2 & B3 & B4 & B5).
           set (s3 := fold_left apply_fx fxs (with_user (bump s2) u)) in *.
           simpl in B1, B2, B3, B4, B5.
           set (r := {| cr_begin := Z.of_nat (List.length h) + 1; cr_evals := evs; cr_exec := Some (Z.of_nat (List.length h) + 1, e_key runner);
                        cr_started := true; cr_fx := fxs; cr_act_chk := s_chk (bump s2) |}).
           assert (Hrec: rec_ok ord h r).
           { unfold rec_ok. simpl. fold es. fold act_es.
             split; [reflexivity|]. split; [exists flags; exact F3|]. split; [exact Hexec|].
             split; [|split; [intros E; discriminate|intros _; rewrite F3, map_length, combine_length; lia]].
             intros _. split; [discriminate|]. split; [exact Hle|].
             intros kc Hkc. unfold cancelled in Ec3. rewrite Hkc in Ec3. apply Nat.leb_gt in Ec3. simpl in *. lia. }
           assert (Hchk: (s_chk s <= s_chk s3)%nat) by (rewrite B3; simpl in A4; lia).
           destruct failed.
           ++ split; auto. split; auto. simpl. repeat split; auto. discriminate. intros H; discriminate.
           ++ destruct (s_complete s3) eqn:Ecomp.
              ** assert (Hcp: completes r = true) by (rewrite A3, Hcomp in B4; simpl in B4; symmetry; exact B4).
                 destruct (cancelled c s3) eqn:Ecc.
                 --- split; auto. split; [simpl; lia|]. apply cancelled_seen in Ecc. exact Ecc.
                 --- split; auto. split; [simpl; lia|]. simpl. repeat split; auto.
                     intros (kc & Hk & Hlt). unfold cancelled in Ecc. rewrite Hk in Ecc. apply Nat.leb_gt in Ecc. simpl in Hlt. lia.
              ** split; [|split; [exact Hrec|split; [reflexivity|split]]]; auto.
                 --- unfold inv. rewrite app_length. simpl. repeat split; auto.
                     +++ rewrite B5, A2, Hent. unfold es. rewrite map_map. apply map_ext. intros e. rewrite mark_snoc. reflexivity.
                     +++ rewrite B2. simpl. rewrite A1, Hcyc. lia.
                 --- rewrite A3, Hcomp in B4. simpl in B4. symmetry. exact B4.
Qed.



(* ------------------------------------------------------------------ *)
(* whole runs                                                          *)
Variable order : nat -> list entry -> list entry.       (* Go map iteration order of each pass *)
Hypothesis order_perm : forall i l, Permutation (order i l) l.

Definition last_ok (ord : list entry -> list entry) (h : list cycle_rec) (r : cycle_rec) (o : outcome) (n : nat) : Prop :=
  match o with
  | OQuiescent => cr_exec r = None /\ Forall (fun x => ev_flag x = false) (cr_evals r) /\
                  List.length (cr_evals r) = List.length (filter guard (ord (map (mark h) es0))) /\
                  ~ cancel_seen c n
  | OCompleted => cr_started r = true /\ completes r = true /\ ~ cancel_seen c n
  | OCycleLimit => cr_exec r = None /\ Exists (fun x => ev_flag x = true) (cr_evals r) /\ Z.of_nat (List.length h) + 1 > c_max c /\
                   List.length (cr_evals r) = List.length (filter guard (ord (map (mark h) es0)))
  | OCtxErr => cancel_seen c n
  | OCondErr k ctx => cr_exec r = None /\ c_reterr c = true /\ (ctx = true -> cancel_seen c n)
  | OActErr k ctx => cr_exec r <> None /\ cr_started r = negb ctx /\ (ctx = true -> cancel_seen c n)
  | OFuel => False
  end.

Inductive run_ok : nat -> list cycle_rec -> list cycle_rec -> outcome -> nat -> Prop :=
| RO_fuel : forall i h n, run_ok i h [] OFuel n
| RO_none : forall i h n, cancel_seen c n -> run_ok i h [] OCtxErr n
| RO_last : forall i h r o n, rec_ok (order i) h r -> last_ok (order i) h r o n -> run_ok i h [r] o n
| RO_cont : forall i h r rest o n,
    rec_ok (order i) h r -> cr_started r = true -> completes r = false ->
    run_ok (S i) (h ++ [r]) rest o n -> run_ok i h (r :: rest) o n.

Lemma run_loop_ok : forall fuel i h (s : st) sf recs o,
  inv h s -> run_loop fuel c order i s h = (sf, recs, o) ->
  exists rest, recs = (h ++ rest)%list /\ run_ok i h rest o (s_chk sf).
Proof.
  induction fuel as [|fuel IH]; intros i h s sf recs o Hinv H; simpl in H.
  - inversion H; subst. exists []. rewrite app_nil_r. split; auto. constructor.
  - pose proof (cycle_step_spec (order i) h s (order_perm i) Hinv) as Hs.
    destruct (cycle_step c (order i) s) as [s' r|s' [r|] o'].
    + destruct Hs as (Hinv' & Hrec & Hst & Hcp & _).
      apply IH in H; auto. destruct H as (rest & -> & Hok).
      exists (r :: rest). rewrite <- app_assoc. split; auto. apply RO_cont; auto.
    + inversion H; subst. destruct Hs as (Hrec & _ & Hlast).
      exists [r]. split; auto. apply RO_last; auto.
    + inversion H; subst. destruct Hs as (-> & Hseen). exists []. rewrite app_nil_r. split; auto. apply RO_none; auto.
Qed.

Lemma run_loop_fuel : forall fuel i h (s : st) sf recs o,
  inv h s -> Z.of_nat fuel > c_max c - Z.of_nat (List.length h) -> (1 <= fuel)%nat ->
  run_loop fuel c order i s h = (sf, recs, o) -> o <> OFuel.
Proof.
  induction fuel as [|fuel IH]; intros i h s sf recs o Hinv Hf H1 H; [lia|]. simpl in H.
  pose proof (cycle_step_spec (order i) h s (order_perm i) Hinv) as Hs.
  destruct (cycle_step c (order i) s) as [s' r|s' [r|] o'].
  - destruct Hs as (Hinv' & Hrec & Hst & Hcp & _).
    destruct Hrec as (_ & _ & _ & Hstarted & _). destruct (Hstarted Hst) as (_ & Hle & _).
    eapply IH in H; eauto.
    + rewrite app_length. simpl. lia.
    + lia.
  - inversion H; subst. destruct Hs as (_ & _ & Hlast). intros ->. exact Hlast.
  - inversion H; subst. destruct Hs as (-> & _). discriminate.
Qed.

Lemma run_ok_recs : forall i h rest o n, run_ok i h rest o n ->
  forall pre r post, rest = (pre ++ r :: post)%list -> rec_ok (order (i + List.length pre)) (h ++ pre) r.
Proof.
  induction 1 as [i h n|i h n Hs|i h r o n Hr Hl|i h r rest o n Hr Hst Hcp Hrun IH]; intros pre r0 post E.
  - destruct pre; discriminate.
  - destruct pre; discriminate.
  - destruct pre as [|x pre]; simpl in E.
    + inversion E; subst. rewrite Nat.add_0_r, app_nil_r. exact Hr.
    + inversion E. destruct pre; discriminate.
  - destruct pre as [|x pre]; simpl in E.
    + inversion E; subst. rewrite Nat.add_0_r, app_nil_r. exact Hr.
    + inversion E; subst. specialize (IH pre r0 post eq_refl).
      simpl. rewrite Nat.add_succ_r. rewrite <- app_assoc in IH. exact IH.
Qed.

Lemma run_ok_nonlast : forall i h rest o n, run_ok i h rest o n ->
  forall pre r post, rest = (pre ++ r :: post)%list -> post <> [] -> cr_started r = true /\ completes r = false.
Proof.
  induction 1 as [i h n|i h n Hs|i h r o n Hr Hl|i h r rest o n Hr Hst Hcp Hrun IH]; intros pre r0 post E Hp.
  - destruct pre; discriminate.
  - destruct pre; discriminate.
  - destruct pre as [|x pre]; simpl in E; inversion E; subst; try congruence. destruct pre; discriminate.
  - destruct pre as [|x pre]; simpl in E; inversion E; subst; auto. eapply IH; eauto.
Qed.

Lemma run_ok_last : forall i h rest o n, run_ok i h rest o n ->
  forall pre r, rest = (pre ++ [r])%list -> o = OFuel \/ last_ok (order (i + List.length pre)) (h ++ pre) r o n.
Proof.
  induction 1 as [i h n|i h n Hs|i h r o n Hr Hl|i h r rest o n Hr Hst Hcp Hrun IH]; intros pre r0 E.
  - destruct pre; discriminate.
  - destruct pre; discriminate.
  - destruct pre as [|x pre]; simpl in E.
    + inversion E; subst. rewrite Nat.add_0_r, app_nil_r. right; exact Hl.
    + inversion E. destruct pre; discriminate.
  - destruct pre as [|x pre]; simpl in E.
    + inversion E; subst. inversion Hrun; subst; auto.
    + inversion E; subst. destruct (IH pre r0 eq_refl) as [->|Hl]; auto.
      right. simpl. rewrite Nat.add_succ_r. rewrite <- app_assoc in Hl. exact Hl.
Qed.

Lemma run_ok_conderr : forall i h rest o n, run_ok i h rest o n ->
  forall k ctx, o = OCondErr k ctx -> c_reterr c = true.
Proof.
  induction 1 as [i h n|i h n Hs|i h r o n Hr Hl|i h r rest o n Hr Hst Hcp Hrun IH]; intros k ctx E; try discriminate.
  - subst o. simpl in Hl. apply Hl.
  - eapply IH; eauto.
Qed.

Lemma run_ok_started_count : forall i h rest o n, run_ok i h rest o n ->
  Z.of_nat (List.length h) <= c_max c ->
  Z.of_nat (List.length h) + Z.of_nat (List.length (filter cr_started rest)) <= c_max c.
Proof.
  induction 1 as [i h n|i h n Hs|i h r o n Hr Hl|i h r rest o n Hr Hst Hcp Hrun IH]; intros Hh; simpl; try lia.
  - destruct (cr_started r) eqn:E; simpl; try lia.
    destruct Hr as (_ & _ & _ & Hs & _). destruct (Hs E) as (_ & Hle & _). lia.
  - rewrite Hst. simpl.
    destruct Hr as (_ & _ & _ & Hs & _). destruct (Hs Hst) as (_ & Hle & _).
    rewrite app_length in IH. simpl in IH. lia.
Qed.

(* the state from which Execute starts satisfies the invariant for the empty history *)
Lemma init_inv : forall u, inv [] (init_st reset_user u es0).
Proof.
  intros u. unfold inv, init_st. simpl. repeat split; auto.
Qed.

Theorem execute_ok : forall fuel u sf recs o,
  execute fuel c order u es0 = (sf, recs, o) -> run_ok 0 [] recs o (s_chk sf).
Proof.
  intros fuel u sf recs o H. unfold EngineAbs.execute in H.
  apply (run_loop_ok fuel 0%nat [] _ sf recs o (init_inv u)) in H.
  destruct H as (rest & -> & Hok). exact Hok.
Qed.

End Proofs.

(* ------------------------------------------------------------------ *)
(* simulation: two instantiations of the abstract engine whose conditions and
   actions agree on related user states produce the same cycle records and the
   same outcome (used to relate the memoising evaluator to the from-scratch SPEC) *)
Section Simulation.
Variables U1 U2 : Type.
Variable cond1 : U1 -> entry -> U1 * cres.
Variable act1 : U1 -> entry -> U1 * list effect * bool.
Variable cond2 : U2 -> entry -> U2 * cres.
Variable act2 : U2 -> entry -> U2 * list effect * bool.
Variable R : U1 -> U2 -> Prop.
Hypothesis cond_sim : forall u1 u2 e, R u1 u2 ->
  snd (cond1 u1 e) = snd (cond2 u2 e) /\ R (fst (cond1 u1 e)) (fst (cond2 u2 e)).
Hypothesis act_sim : forall u1 u2 e, R u1 u2 ->
  snd (fst (act1 u1 e)) = snd (fst (act2 u2 e)) /\ snd (act1 u1 e) = snd (act2 u2 e) /\
  R (fst (fst (act1 u1 e))) (fst (fst (act2 u2 e))).

Definition RS (s1 : st U1) (s2 : st U2) : Prop :=
  R (s_user s1) (s_user s2) /\ s_entries s1 = s_entries s2 /\ s_cycle s1 = s_cycle s2 /\
  s_chk s1 = s_chk s2 /\ s_complete s1 = s_complete s2.

Lemma cancelled_sim : forall c s1 s2, RS s1 s2 -> cancelled c s1 = cancelled c s2.
Proof. intros c s1 s2 (_ & _ & _ & H & _). unfold cancelled. rewrite H. reflexivity. Qed.

Lemma bump_sim : forall s1 s2, RS s1 s2 -> RS (bump s1) (bump s2).
Proof. intros s1 s2 (A & B & C & D & E). unfold RS; simpl. repeat split; auto. Qed.

Ltac rs_done := split; [first [assumption | apply bump_sim; assumption | apply bump_sim; apply bump_sim; assumption] | repeat split; auto].

Lemma eval_loop_sim : forall c es s1 s2 run evs,
  RS s1 s2 ->
  let '(s1', run1, evs1, o1) := eval_loop U1 cond1 c es s1 run evs in
  let '(s2', run2, evs2, o2) := eval_loop U2 cond2 c es s2 run evs in
  RS s1' s2' /\ run1 = run2 /\ evs1 = evs2 /\ o1 = o2.
Proof.
  intros c es. induction es as [|e es IH]; intros s1 s2 run evs H; simpl.
  - auto.
  - rewrite (cancelled_sim c s1 s2 H).
    destruct (cancelled c s2); [rs_done|].
    destruct (eval_guard (e_retracted e) (e_deleted e)).
    2:{ apply IH. apply bump_sim; auto. }
    pose proof (bump_sim _ _ H) as Hb.
    rewrite (cancelled_sim c (bump s1) (bump s2) Hb).
    destruct (cancelled c (bump s2)).
    { destruct (c_reterr c); [rs_done|].
      destruct H as (_ & _ & C & _). simpl. rewrite C. apply IH. apply bump_sim; auto. }
    pose proof (bump_sim _ _ Hb) as Hbb.
    destruct Hbb as (HR & HE & HC & HK & HCo). simpl in HR.
    destruct (cond_sim _ _ e HR) as [Hres Hr'].
    destruct (cond1 (s_user s1) e) as [u1 r1]. destruct (cond2 (s_user s2) e) as [u2 r2].
    simpl in Hres, Hr'. subst r2.
    assert (Hw: RS (with_user (bump (bump s1)) u1) (with_user (bump (bump s2)) u2)).
    { unfold RS; simpl. destruct H as (_ & B & C & D & E). repeat split; auto. }
    assert (Hcy: s_cycle s1 = s_cycle s2) by apply H.
    simpl. rewrite Hcy.
    destruct r1.
    + apply IH; auto.
    + apply IH; auto.
    + destruct (c_reterr c); [rs_done|]. apply IH; auto.
Qed.

Lemma apply_fx_sim : forall fxs s1 s2, RS s1 s2 -> RS (fold_left apply_fx fxs s1) (fold_left apply_fx fxs s2).
Proof.
  induction fxs as [|fx fxs IH]; intros s1 s2 H; simpl; auto.
  apply IH. destruct H as (A & B & C & D & E). destruct fx; unfold RS; simpl; repeat split; auto. congruence.
Qed.

Definition step_sim (r1 : step_result U1) (r2 : step_result U2) : Prop :=
  match r1, r2 with
  | Continue s1 c1, Continue s2 c2 => RS s1 s2 /\ c1 = c2
  | Stop s1 c1 o1, Stop s2 c2 o2 => RS s1 s2 /\ c1 = c2 /\ o1 = o2
  | _, _ => False
  end.

Lemma cycle_step_sim : forall c ord s1 s2, RS s1 s2 ->
  step_sim (cycle_step U1 cond1 act1 c ord s1) (cycle_step U2 cond2 act2 c ord s2).
Proof.
  intros c ord s1 s2 H. unfold cycle_step.
  rewrite (cancelled_sim c s1 s2 H).
  destruct (cancelled c s2); [simpl; rs_done|].
  pose proof (bump_sim _ _ H) as Hb.
  assert (He: s_entries (bump s1) = s_entries (bump s2)) by apply Hb.
  assert (Hc: s_cycle (bump s1) = s_cycle (bump s2)) by apply Hb.
  rewrite He, Hc.
  pose proof (eval_loop_sim c (ord (s_entries (bump s2))) (bump s1) (bump s2) [] [] Hb) as Hl.
  destruct (eval_loop U1 cond1 c (ord (s_entries (bump s2))) (bump s1) [] []) as [[[s1' run1] evs1] o1].
  destruct (eval_loop U2 cond2 c (ord (s_entries (bump s2))) (bump s2) [] []) as [[[s2' run2] evs2] o2].
  destruct Hl as (Hs' & -> & -> & ->).
  destruct o2 as [o|]; [simpl; rs_done|].
  destruct run2 as [|hd tl].
  - rewrite (cancelled_sim c s1' s2' Hs'). destruct (cancelled c s2'); simpl; rs_done.
  - assert (Hcy: s_cycle s1' = s_cycle s2') by apply Hs'. simpl s_cycle. rewrite Hcy.
    destruct (over_budget (s_cycle s2' + 1) (c_max c)).
    { simpl. destruct Hs' as (A & B & C & D & E). unfold RS; simpl. repeat split; auto. }
    set (t1 := {| s_user := s_user s1'; s_entries := s_entries s1'; s_cycle := s_cycle s2' + 1; s_chk := s_chk s1'; s_complete := s_complete s1' |}).
    set (t2 := {| s_user := s_user s2'; s_entries := s_entries s2'; s_cycle := s_cycle s2' + 1; s_chk := s_chk s2'; s_complete := s_complete s2' |}).
    assert (Ht: RS t1 t2) by (destruct Hs' as (A & B & C & D & E); unfold RS, t1, t2; simpl; repeat split; auto).
    rewrite (cancelled_sim c t1 t2 Ht).
    destruct (cancelled c t2); [simpl; rs_done|].
    pose proof (bump_sim _ _ Ht) as Htb.
    assert (HRu: R (s_user (bump t1)) (s_user (bump t2))) by apply Htb.
    destruct (act_sim _ _ (pick hd tl) HRu) as (Hfx & Hfail & HR').
    destruct (act1 (s_user (bump t1)) (pick hd tl)) as [[u1 fxs1] f1].
    destruct (act2 (s_user (bump t2)) (pick hd tl)) as [[u2 fxs2] f2].
    simpl in Hfx, Hfail, HR'. subst fxs2 f2.
    assert (Hw: RS (with_user (bump t1) u1) (with_user (bump t2) u2)).
    { destruct Htb as (A & B & C & D & E). unfold RS; simpl. repeat split; auto. }
    pose proof (apply_fx_sim fxs1 _ _ Hw) as Hfin.
    assert (Hchk: s_chk (bump t1) = s_chk (bump t2)) by apply Htb.
    rewrite Hchk.
    destruct f1; [simpl; rs_done|].
    assert (Hco: s_complete (fold_left apply_fx fxs1 (with_user (bump t1) u1)) = s_complete (fold_left apply_fx fxs1 (with_user (bump t2) u2))) by apply Hfin.
    rewrite Hco.
    destruct (s_complete (fold_left apply_fx fxs1 (with_user (bump t2) u2))).
    + rewrite (cancelled_sim c _ _ Hfin). destruct (cancelled c _); simpl; rs_done.
    + simpl. split; auto.
Qed.

Lemma run_loop_sim : forall fuel c order i s1 s2 acc, RS s1 s2 ->
  let '(s1', recs1, o1) := run_loop U1 cond1 act1 fuel c order i s1 acc in
  let '(s2', recs2, o2) := run_loop U2 cond2 act2 fuel c order i s2 acc in
  RS s1' s2' /\ recs1 = recs2 /\ o1 = o2.
Proof.
  induction fuel as [|fuel IH]; intros c order i s1 s2 acc H; simpl; auto.
  pose proof (cycle_step_sim c (order i) s1 s2 H) as Hs.
  destruct (cycle_step U1 cond1 act1 c (order i) s1) as [t1 r1|t1 r1 o1];
  destruct (cycle_step U2 cond2 act2 c (order i) s2) as [t2 r2|t2 r2 o2]; simpl in Hs; try contradiction.
  - destruct Hs as [Ht ->]. apply IH; auto.
  - destruct Hs as (Ht & -> & ->). destruct r2; auto.
Qed.

Theorem execute_sim : forall (reset1 : U1 -> U1) (reset2 : U2 -> U2) fuel c order u1 u2 es,
  R (reset1 u1) (reset2 u2) ->
  let '(s1', recs1, o1) := execute U1 cond1 act1 reset1 fuel c order u1 es in
  let '(s2', recs2, o2) := execute U2 cond2 act2 reset2 fuel c order u2 es in
  R (s_user s1') (s_user s2') /\ recs1 = recs2 /\ o1 = o2.
Proof.
  intros reset1 reset2 fuel c order u1 u2 es H. unfold execute.
  pose proof (run_loop_sim fuel c order 0%nat (init_st reset1 u1 es) (init_st reset2 u2 es) []) as Hr.
  assert (Hi: RS (init_st reset1 u1 es) (init_st reset2 u2 es)) by (unfold RS, init_st; simpl; repeat split; auto).
  specialize (Hr Hi).
  destruct (run_loop U1 cond1 act1 fuel c order 0 (init_st reset1 u1 es) []) as [[s1' recs1] o1].
  destruct (run_loop U2 cond2 act2 fuel c order 0 (init_st reset2 u2 es) []) as [[s2' recs2] o2].
  destruct Hr as (Hs & Hrecs & Ho). split; [apply Hs|auto].
Qed.

Lemma fetch_loop_sim : forall reterr es u1 u2 acc,
  R u1 u2 ->
  let '(u1', m1, e1) := fetch_loop U1 cond1 reterr es u1 acc in
  let '(u2', m2, e2) := fetch_loop U2 cond2 reterr es u2 acc in
  R u1' u2' /\ m1 = m2 /\ e1 = e2.
Proof.
  intros reterr es. induction es as [|e es IH]; intros u1 u2 acc H; simpl.
  - auto.
  - destruct (fetch_guard (e_retracted e) (e_deleted e)); [|apply IH; exact H].
    destruct (e_retracted e); [apply IH; exact H|].
    destruct (cond_sim u1 u2 e H) as [A B].
    destruct (cond1 u1 e) as [u1' r1]. destruct (cond2 u2 e) as [u2' r2]. simpl in A, B. subst r2.
    destruct r1; try (apply IH; exact B).
    destruct reterr; [auto|apply IH; exact B].
Qed.

Theorem fetch_sim : forall (reset1 : U1 -> U1) (reset2 : U2 -> U2) reterr order u1 u2 es,
  R (reset1 u1) (reset2 u2) ->
  let '(u1', r1) := fetch U1 cond1 reset1 reterr order u1 es in
  let '(u2', r2) := fetch U2 cond2 reset2 reterr order u2 es in
  R u1' u2' /\ r1 = r2.
Proof.
  intros reset1 reset2 reterr order u1 u2 es H. unfold fetch.
  pose proof (fetch_loop_sim reterr (order (unretract es)) (reset1 u1) (reset2 u2) [] H) as Hs.
  destruct (fetch_loop U1 cond1 reterr (order (unretract es)) (reset1 u1) []) as [[u1' m1] e1].
  destruct (fetch_loop U2 cond2 reterr (order (unretract es)) (reset2 u2) []) as [[u2' m2] e2].
  destruct Hs as (A & -> & ->). destruct e2; auto.
Qed.

End Simulation.
