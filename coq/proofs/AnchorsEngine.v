(* AnchorsEngine.v — spec lemmas on the comparison anchors extracted from
   engine/GruleEngine.go (EngineGen.v).  Everything EngineProofs.v knows about
   the generated definitions goes through these lemmas, so that a harmless
   rewrite (e.g. < into <=: a different tied rule wins) still checks while a
   wrong comparison does not. *)
From Grule Require Import Base EngineGen.
Open Scope Z_scope.

(* the scan may replace the runner only by a rule of at least its salience, and must replace it by a strictly better one *)
Lemma salience_replace_sound : forall a b, salience_replace a b = true -> a <= b.
Proof. unfold salience_replace. intros a b H. lia. Qed.
Lemma salience_replace_complete : forall a b, a < b -> salience_replace a b = true.
Proof. unfold salience_replace. intros a b H. lia. Qed.

(* budget test: exactly cycle > MaxCycle *)
Lemma over_budget_spec : forall c m, over_budget c m = true <-> c > m.
Proof. unfold over_budget. intros. lia. Qed.

Lemma eval_guard_spec : forall r d, eval_guard r d = true <-> r = false /\ d = false.
Proof. unfold eval_guard. intros [|] [|]; simpl; intuition congruence. Qed.

Lemma fetch_guard_spec : forall r d, fetch_guard r d = true <-> d = false.
Proof. unfold fetch_guard. intros [|] [|]; simpl; intuition congruence. Qed.

(* sort order of FetchMatchingRules: "less" may only put a before b when a >= b, and must when a > b *)
Lemma fetch_before_sound : forall a b, fetch_before a b = true -> a >= b.
Proof. unfold fetch_before. intros. lia. Qed.
Lemma fetch_before_complete : forall a b, a > b -> fetch_before a b = true.
Proof. unfold fetch_before. intros. lia. Qed.

(* numbers handed to the listeners *)
Lemma notify_begin_spec : forall c, notify_begin_cycle c = c + 1.
Proof. unfold notify_begin_cycle. intros. lia. Qed.
Lemma notify_evaluate_spec : forall c, notify_evaluate_cycle c = c + 1.
Proof. unfold notify_evaluate_cycle. intros. lia. Qed.
Lemma notify_execute_spec : forall c, notify_execute_cycle c = c.
Proof. unfold notify_execute_cycle. intros. lia. Qed.

Lemma default_cycle_count_spec : default_cycle_count = 5000.
Proof. reflexivity. Qed.
