(* C17Proof.v — statements of the C17 theorems (closed in props/C17.v) and
   their derivation from ParserProofs.v / LexProofs.v. *)
From Grule Require Import Base Syntax Lexer Parser GrlPrint Snapshot LexProofs ParserProofs ParserWf.
Open Scope Z_scope.

(* "grammatical": the text lexes and parses (model of grulev3.g4) into the rule
   list rs, with valid literals and distinct names *)
Definition grammatical (text : string) (rs : list rule) : Prop := parse_grl text = Ok rs.

(* (1) the independent recogniser is the inverse of the printer: every
   well-formed rule list, of any size, is recovered exactly from its text
   (all constants included: integers of the whole int64 range, every byte
   string, every finite binary64 value - printed as an exact hexadecimal float
   literal and decoded by the model of strconv.ParseFloat).
   PARTIAL in two named respects: print_rules is one canonical spelling of the
   tokens (lower-case keywords, decimal integers, hexadecimal floats,
   double-quoted strings; (1') below frees the white space) - other spellings
   (keyword case, comments, octal / hexadecimal integers, decimal floats,
   single quotes) are compared with the implementation by the correspondence;
   the converse (every accepted text is the spelling of a well-formed tree) is
   not proved. *)
Definition C17_roundtrip_partial_statement : Prop :=
  forall rs, wf_rules rs = true -> grammatical (print_rules rs) rs.

Lemma C17_roundtrip_partial_proved : C17_roundtrip_partial_statement.
Proof. exact parse_print_roundtrip. Qed.

(* (2) acceptance at knowledge-base level (builder model): accepted exactly when
   grammatical with names not yet loaded; then every rule of the text is in the
   knowledge base under its name with its declared description (the unquoted
   text), salience, condition and actions, and what was loaded before is still there *)
Definition C17_accept_statement : Prop :=
  forall kb text,
    (forall kb', build kb text = Ok kb' <->
       exists rs, grammatical text rs /\ disjoint_names kb rs = true /\ kb' = (kb ++ rs)%list) /\
    (forall kb' rs, build kb text = Ok kb' -> grammatical text rs ->
       forall r, In r rs -> exists r', kb_find (rname r) kb' = Some r' /\ r' = r /\
          rdesc r' = rdesc r /\ rsal r' = rsal r /\ rwhen r' = rwhen r /\ rthen r' = rthen r) /\
    (forall kb' r, build kb text = Ok kb' -> kb_find (rname r) kb = Some r -> kb_find (rname r) kb' = Some r).

Lemma C17_accept_proved : C17_accept_statement.
Proof.
  intros kb text. split; [|split].
  - intros kb'. apply build_accept_iff.
  - intros kb' rs Hb Hg. apply (build_stores_declared kb text kb' rs Hb Hg).
  - intros kb' r. apply build_keeps_loaded.
Qed.

(* (3) any other text yields an error — never a panic, never silent acceptance —
   and leaves the knowledge base of the model as it was; an accepted text has,
   for every rule, a non-empty action list, a salience in the 32-bit range, and
   distinct names; a name already loaded is rejected; so is a description with a
   malformed escape (the description is unquoted like every string literal) *)
Definition C17_reject_statement : Prop :=
  (forall kb text, (forall kb', build kb text <> Ok kb') -> build kb text = Err /\ kb_after kb text = kb) /\
  (forall kb text, build kb text <> Panic) /\
  (forall text rs, grammatical text rs ->
     Forall (fun r => rthen r <> [] /\ min_i32 <= rsal r <= max_i32) rs /\ nodup_str (rule_names rs) = true) /\
  (forall kb text rs r, grammatical text rs -> In r rs -> mem_str (rname r) (rule_names kb) = true ->
     build kb text = Err) /\
  (forall f n d sal rest,
     prule (pexpr f) (TRule :: TName n :: TStr true d :: TSalience :: TInt sal :: TLBrace :: TWhen :: TThen :: rest) = None) /\
  (forall c s, In (code c) [35; 36; 58; 63; 64; 92; 94; 95; 96; 126] -> lex_one c s = None) /\
  (forall s n, ident_token s = TName n -> keyword_of s = None /\ n = s) /\
  (forall pe n dq raw rest, unquote dq raw = None -> prule pe (TRule :: TName n :: TStr dq raw :: rest) = None).

Lemma C17_reject_proved : C17_reject_statement.
Proof.
  repeat split.
  - apply build_reject; assumption.
  - apply build_reject; assumption.
  - apply build_never_panics.
  - apply (parse_grl_sound text rs H).
  - apply (parse_grl_sound text rs H).
  - intros. eapply build_reject_clash; eauto.
  - apply reject_empty_when.
  - apply lex_one_illegal.
  - apply (ident_token_name s n H).
  - apply (ident_token_name s n H).
  - apply reject_bad_description.
Qed.

(* (4) string constants: the escaping of strconv.Quote (bytes) is undone exactly
   by the listener's unquoteString, for every byte string *)
Definition C17_string_literal_statement : Prop := forall s, unquote true (quote_body s) = Some s.

Lemma C17_string_literal_proved : C17_string_literal_statement.
Proof. exact unquote_quote_body. Qed.

(* (5) expressions alone, all nesting depths and sizes *)
Definition C17_expr_roundtrip_statement : Prop :=
  forall e, wf_expr e = true ->
    match lex (render (etoks e [])) with
    | Some ts => pexpr (List.length ts) ts = Some (e, [])
    | None => False
    end.

Lemma C17_expr_roundtrip_proved : C17_expr_roundtrip_statement.
Proof. exact parse_expr_roundtrip. Qed.

(* (1') the same for every spacing: after each token any non-empty run of blanks,
   tabs, carriage returns and line breaks (partial in the same respects as (1),
   except that the spelling of the white space is arbitrary) *)
Definition C17_roundtrip_spacing_partial_statement : Prop :=
  forall rs seps, wf_rules rs = true -> List.length seps = List.length (rstoks rs) -> forallb ws_ok seps = true ->
    grammatical (render_with (combine (rstoks rs) seps)) rs.

Lemma C17_roundtrip_spacing_partial_proved : C17_roundtrip_spacing_partial_statement.
Proof. exact parse_print_any_spacing. Qed.

(* (6) link to C07: every tree of an accepted text lies in the domain on which
   snapshots are injective (names free of the snapshot delimiters, 64-bit float
   patterns: ParserWf.wf_rule_s, i.e. SnapInj.wf_expr / wf_var / wf_atom on the
   condition and every action); hence two accepted rules whose conditions have
   equal snapshots have equal condition trees *)
Definition C17_snapshot_link_statement : Prop :=
  (forall text rs, grammatical text rs -> Forall wf_rule_s rs) /\
  (forall text1 text2 rs1 rs2 r1 r2, grammatical text1 rs1 -> grammatical text2 rs2 -> In r1 rs1 -> In r2 rs2 ->
     expr_snapshot (rwhen r1) = expr_snapshot (rwhen r2) -> rwhen r1 = rwhen r2).

Lemma C17_snapshot_link_proved : C17_snapshot_link_statement.
Proof. split; [exact parse_grl_wf|exact accepted_conditions_snapshot_inj]. Qed.
