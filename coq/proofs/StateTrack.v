(* StateTrack.v — for an engine whose condition evaluation leaves the user state
   alone (the SPEC engine: every condition is evaluated from scratch on the
   facts), the candidate flags reported in each cycle are the values of the
   conditions on the user state the cycle started with, and the user state moves
   only by the action list of the executed rule.  This ties the flags of the
   cycle records (C03, C06) to "the fact values of that moment" (C01, C02). *)
From Coq Require Import Permutation.
From Grule Require Import Base EngineGen EngineAbs AnchorsEngine EngineProofs.
Open Scope Z_scope.

Section Track.
Variable U : Type.
Variable condk : U -> string -> cres.
Variable actk : U -> string -> U * list effect * bool.
Variable reset_user : U -> U.

Definition tcond (u : U) (e : entry) : U * cres := (u, condk u (e_key e)).
Definition tact (u : U) (e : entry) : U * list effect * bool := actk u (e_key e).

Notation st := (st U).
Notation eval_loop := (eval_loop U tcond).
Notation cycle_step := (cycle_step U tcond tact).
Notation run_loop := (run_loop U tcond tact).
Notation execute := (execute U tcond tact reset_user).

Definition ctrue (r : cres) : bool := match r with CTrue => true | _ => false end.

(* flags never claim more than the condition gives; they are exact when no cancellation interfered *)
Definition flags_sound (u : U) (evs : list (Z * string * bool)) : Prop :=
  Forall (fun x => ev_flag x = true -> condk u (ev_key x) = CTrue) evs.
Definition flags_exact (u : U) (evs : list (Z * string * bool)) : Prop :=
  Forall (fun x => ev_flag x = ctrue (condk u (ev_key x))) evs.

Lemma cancelled_mono : forall c (s s' : st), (s_chk s <= s_chk s')%nat -> cancelled c s' = false -> cancelled c s = false.
Proof.
  unfold cancelled. intros c s s' H. destruct (c_cancel c) as [k|]; auto.
  intros E. apply Nat.leb_gt in E. apply Nat.leb_gt. lia.
Qed.

Lemma eval_loop_track : forall c es s run evs s' run' evs' o,
  eval_loop c es s run evs = (s', run', evs', o) ->
  s_user s' = s_user s /\
  exists news, evs' = (evs ++ news)%list /\ flags_sound (s_user s) news /\
               (cancelled c s' = false -> flags_exact (s_user s) news).
Proof.
  intros c es. induction es as [|e es IH]; intros s run evs s' run' evs' o H.
  - simpl in H. inversion H; subst. split; auto. exists []. rewrite app_nil_r.
    split; auto. split; [constructor|intros _; constructor].
  - pose proof (eval_loop_spec U tcond c (e :: es) s run evs s' run' evs' o H) as (_ & _ & _ & Hchk & _).
    simpl in H.
    destruct (cancelled c s) eqn:Ec.
    { inversion H; subst. split; auto. exists []. rewrite app_nil_r. split; auto. split; [constructor|intros _; constructor]. }
    assert (step: forall (sx : st) runx b,
              eval_loop c es sx runx (evs ++ [(notify_evaluate_cycle (s_cycle sx), e_key e, b)])%list = (s', run', evs', o) ->
              s_user sx = s_user s -> (s_chk s < s_chk sx)%nat ->
              (b = true -> condk (s_user s) (e_key e) = CTrue) ->
              (cancelled c sx = false -> b = ctrue (condk (s_user s) (e_key e))) ->
              s_user s' = s_user s /\
              exists news, evs' = (evs ++ news)%list /\ flags_sound (s_user s) news /\
                           (cancelled c s' = false -> flags_exact (s_user s) news)).
    { intros sx runx b Hx Hu Hlt Hb Hex.
      pose proof (eval_loop_spec U tcond c es sx runx _ s' run' evs' o Hx) as (_ & _ & _ & Hchk' & _).
      apply IH in Hx. destruct Hx as (A & news & B & C & D). rewrite Hu in *.
      split; auto. exists ((notify_evaluate_cycle (s_cycle sx), e_key e, b) :: news).
      split; [rewrite B, <- app_assoc; reflexivity|].
      split.
      - constructor; auto.
      - intros Hc. constructor; [simpl; apply Hex; eapply cancelled_mono; eauto | apply D; exact Hc]. }
    destruct (eval_guard (e_retracted e) (e_deleted e)).
    2:{ apply IH in H. simpl in H. exact H. }
    destruct (cancelled c (bump s)) eqn:Ec2.
    { destruct (c_reterr c).
      - inversion H; subst. split; auto. exists []. rewrite app_nil_r. split; auto. split; [constructor|intros _; constructor].
      - apply (step (bump (bump s)) run false) in H; simpl; auto; try lia; try discriminate.
        intros Hc. exfalso.
        assert (cancelled c (bump s) = false).
        { eapply cancelled_mono; [|exact Hc]. simpl. lia. }
        congruence. }
    unfold tcond in H. simpl in H.
    destruct (condk (s_user s) (e_key e)) eqn:Ek.
    + apply (step (with_user (bump (bump s)) (s_user s)) (run ++ [e])%list true) in H; simpl; auto; lia.
    + apply (step (with_user (bump (bump s)) (s_user s)) run false) in H; simpl; auto; try lia; discriminate.
    + destruct (c_reterr c).
      * inversion H; subst. split; auto. exists []. rewrite app_nil_r. split; auto. split; [constructor|intros _; constructor].
      * apply (step (with_user (bump (bump s)) (s_user s)) run false) in H; simpl; auto; try lia; discriminate.
Qed.

(* the user state after a cycle, read off its record *)
Definition next_user (u : U) (r : cycle_rec) : U :=
  match cr_exec r with
  | Some (_, k) => if cr_started r then fst (fst (actk u k)) else u
  | None => u
  end.

(* what a cycle record says about the state u its cycle started with; `quiet` tells that the run
   ended at this record with the quiescent outcome *)
Definition rec_tracked (c : config) (u : U) (r : cycle_rec) (quiet : Prop) : Prop :=
  flags_sound u (cr_evals r) /\
  ((cr_started r = true \/ quiet) -> flags_exact u (cr_evals r)) /\
  (cr_started r = true -> exists n k, cr_exec r = Some (n, k) /\ cr_fx r = snd (fst (actk u k))).

Lemma fold_apply_user : forall fxs (s : st), s_user (fold_left (@apply_fx U) fxs s) = s_user s.
Proof. induction fxs as [|fx fxs IH]; intros s; simpl; auto. rewrite IH. destruct fx; reflexivity. Qed.

Lemma nocancel : forall c, c_cancel c = None -> forall s : st, cancelled c s = false.
Proof. intros c H s. unfold cancelled. rewrite H. reflexivity. Qed.

Lemma cycle_step_track : forall c ord (s : st),
  match cycle_step c ord s with
  | Continue s' r => s_user s' = next_user (s_user s) r /\ rec_tracked c (s_user s) r (c_cancel c = None) /\ cr_started r = true
  | Stop s' (Some r) o => s_user s' = next_user (s_user s) r /\ rec_tracked c (s_user s) r (o = OQuiescent \/ c_cancel c = None)
  | Stop s' None o => s_user s' = s_user s
  end.
Proof.
  intros c ord s. unfold EngineAbs.cycle_step.
  destruct (cancelled c s) eqn:Ec; [reflexivity|].
  destruct (eval_loop c (ord (s_entries (bump s))) (bump s) [] []) as [[[s1 runnable] evs] early] eqn:El.
  pose proof (eval_loop_track _ _ _ _ _ _ _ _ _ El) as (Hu & news & Hn & Hsound & Hexact).
  simpl in Hn, Hu. subst evs.
  assert (noexec: forall (q : Prop) b, (q -> cancelled c s1 = false) ->
            s_user s1 = next_user (s_user s) {| cr_begin := b; cr_evals := news; cr_exec := None; cr_started := false; cr_fx := []; cr_act_chk := 0 |} /\
            rec_tracked c (s_user s) {| cr_begin := b; cr_evals := news; cr_exec := None; cr_started := false; cr_fx := []; cr_act_chk := 0 |} q).
  { intros q b Hq. split; [exact Hu|]. split; [exact Hsound|]. split.
    - simpl. intros [E|E]; [discriminate|]. apply Hexact. apply Hq. exact E.
    - simpl. intros E; discriminate. }
  destruct early as [o|].
  { apply noexec. intros [->|Hn]; [|apply nocancel; exact Hn].
    (* an early exit is never the quiescent outcome *)
    exfalso. pose proof (eval_loop_early U tcond _ _ _ _ _ _ _ _ _ El) as [[E _]|(k & cx & E & _)]; discriminate. }
  destruct runnable as [|hd tl].
  { destruct (cancelled c s1) eqn:Ec1; simpl; apply noexec; (intros [E|E]; [try discriminate; auto|pose proof (nocancel c E s1); congruence]). }
  cbv zeta.
  match goal with |- context [over_budget ?a ?b] => destruct (over_budget a b) end.
  { apply noexec. intros [E|E]; [discriminate|apply nocancel; exact E]. }
  match goal with |- context [cancelled c ?sx] => destruct (cancelled c sx) eqn:Ec3 end.
  { simpl. split; [exact Hu|]. split; [exact Hsound|]. split; simpl.
    - intros [E|[E|E]]; try discriminate. rewrite (nocancel c E) in Ec3. discriminate.
    - intros E; discriminate. }
  simpl s_user.
  destruct (tact (s_user s1) (pick hd tl)) as [[u fxs] failed] eqn:Ea. unfold tact in Ea.
  assert (Hex: flags_exact (s_user s) news).
  { apply Hexact. revert Ec3. unfold cancelled. simpl. auto. }
  assert (Hrec: forall (q : Prop) b chk,
            rec_tracked c (s_user s) {| cr_begin := b; cr_evals := news;
                                        cr_exec := Some (notify_execute_cycle (s_cycle s1 + 1), e_key (pick hd tl));
                                        cr_started := true; cr_fx := fxs; cr_act_chk := chk |} q).
  { intros q b chk. split; [exact Hsound|]. split; [intros _; exact Hex|]. simpl. intros _.
    eexists _, _. split; [reflexivity|]. rewrite <- Hu, Ea. reflexivity. }
  assert (Hnext: forall b chk, u = next_user (s_user s) {| cr_begin := b; cr_evals := news;
                                        cr_exec := Some (notify_execute_cycle (s_cycle s1 + 1), e_key (pick hd tl));
                                        cr_started := true; cr_fx := fxs; cr_act_chk := chk |}).
  { intros b chk. unfold next_user. simpl. rewrite <- Hu, Ea. reflexivity. }
  destruct failed.
  { split; [|apply Hrec]. rewrite fold_apply_user. simpl. apply Hnext. }
  match goal with |- context [s_complete ?sx] => destruct (s_complete sx) end.
  { match goal with |- context [cancelled c ?sx] => destruct (cancelled c sx) end; simpl;
      (split; [|apply Hrec]); rewrite fold_apply_user; simpl; apply Hnext. }
  split; [|split; [apply Hrec|reflexivity]]. rewrite fold_apply_user. simpl. apply Hnext.
Qed.

(* a run, read as the sequence of user states its cycles started with *)
Inductive tracked (c : config) (o : outcome) : U -> list cycle_rec -> U -> Prop :=
| T_nil : forall u, tracked c o u [] u
| T_cons : forall u r recs u',
    rec_tracked c u r ((recs = [] /\ o = OQuiescent) \/ c_cancel c = None) ->
    tracked c o (next_user u r) recs u' ->
    tracked c o u (r :: recs) u'.

Lemma rec_tracked_weaken : forall c u r (p q : Prop), (q -> p) -> rec_tracked c u r p -> rec_tracked c u r q.
Proof. intros c u r p q H (A & B & C). split; auto. split; auto. intros [E|E]; auto. Qed.

Lemma run_loop_track : forall fuel c order i (s : st) acc sf recs o,
  run_loop fuel c order i s acc = (sf, recs, o) ->
  exists rest, recs = (acc ++ rest)%list /\ tracked c o (s_user s) rest (s_user sf).
Proof.
  induction fuel as [|fuel IH]; intros c order i s acc sf recs o H; simpl in H.
  - inversion H; subst. exists []. rewrite app_nil_r. split; auto. constructor.
  - pose proof (cycle_step_track c (order i) s) as Hs.
    destruct (cycle_step c (order i) s) as [s' r|s' [r|] o'].
    + destruct Hs as (Hu & Hr & Hst).
      apply IH in H. destruct H as (rest & -> & Ht). exists (r :: rest).
      split; [rewrite <- app_assoc; reflexivity|].
      constructor.
      * destruct Hr as (A & B & C). split; [exact A|]. split; [intros _; apply B; left; exact Hst | exact C].
      * rewrite <- Hu. exact Ht.
    + inversion H; subst. destruct Hs as (Hu & Hr). exists [r]. split; auto.
      constructor.
      * eapply rec_tracked_weaken; [|exact Hr]. intros [[_ E]|E]; [left; exact E|right; exact E].
      * rewrite <- Hu. constructor.
    + inversion H; subst. exists []. rewrite app_nil_r. split; auto. rewrite Hs. constructor.
Qed.

(* ---- failures (C14): the error outcomes name the rule that failed, on the state it failed on ---- *)
Lemma eval_loop_fail : forall c es s run evs s' run' evs' k,
  eval_loop c es s run evs = (s', run', evs', Some (OCondErr k false)) ->
  condk (s_user s) k = CErr /\ c_reterr c = true /\ exists e, In e es /\ e_key e = k.
Proof.
  intros c es. induction es as [|e es IH]; intros s run evs s' run' evs' k H; simpl in H.
  - inversion H.
  - destruct (cancelled c s); [inversion H|].
    assert (next: forall sx runx evsx, s_user sx = s_user s ->
              eval_loop c es sx runx evsx = (s', run', evs', Some (OCondErr k false)) ->
              condk (s_user s) k = CErr /\ c_reterr c = true /\ exists e0, In e0 (e :: es) /\ e_key e0 = k).
    { intros sx runx evsx Hu Hx. apply IH in Hx. rewrite Hu in Hx. destruct Hx as (A & B & e0 & C & D).
      split; auto. split; auto. exists e0. split; [right; exact C|exact D]. }
    destruct (eval_guard (e_retracted e) (e_deleted e)).
    2:{ eapply next; [|exact H]. reflexivity. }
    destruct (cancelled c (bump s)).
    { destruct (c_reterr c); [inversion H|]. eapply next; [|exact H]. reflexivity. }
    unfold tcond in H. simpl in H.
    destruct (condk (s_user s) (e_key e)) eqn:Ek.
    + eapply next; [|exact H]. reflexivity.
    + eapply next; [|exact H]. reflexivity.
    + destruct (c_reterr c) eqn:Er.
      * inversion H; subst. split; [exact Ek|]. split; [reflexivity|]. exists e. split; [left; reflexivity|reflexivity].
      * eapply next; [|exact H]. reflexivity.
Qed.

Definition fail_info (c : config) (u : U) (r : cycle_rec) (o : outcome) : Prop :=
  (forall k, o = OActErr k false ->
     exists n, cr_exec r = Some (n, k) /\ cr_started r = true /\ snd (actk u k) = true) /\
  (forall k, o = OCondErr k false -> condk u k = CErr /\ c_reterr c = true).

Lemma cycle_step_fail : forall c ord (s : st),
  match cycle_step c ord s with
  | Continue s' r => exists n k, cr_exec r = Some (n, k) /\ snd (actk (s_user s) k) = false
  | Stop s' (Some r) o => fail_info c (s_user s) r o
  | Stop s' None o => o = OCtxErr
  end.
Proof.
  intros c ord s. unfold EngineAbs.cycle_step.
  destruct (cancelled c s) eqn:Ec; [reflexivity|].
  destruct (eval_loop c (ord (s_entries (bump s))) (bump s) [] []) as [[[s1 runnable] evs] early] eqn:El.
  pose proof (eval_loop_track _ _ _ _ _ _ _ _ _ El) as (Hu & _). simpl in Hu.
  destruct early as [o|].
  { split.
    - intros k ->. exfalso. pose proof (eval_loop_early U tcond _ _ _ _ _ _ _ _ _ El) as [[E _]|(k0 & cx & E & _)]; discriminate.
    - intros k ->. destruct (eval_loop_fail _ _ _ _ _ _ _ _ _ El) as (A & B & _). simpl in A. auto. }
  destruct runnable as [|hd tl].
  { destruct (cancelled c s1); split; intros k E; discriminate. }
  cbv zeta.
  match goal with |- context [over_budget ?a ?b] => destruct (over_budget a b) end.
  { split; intros k E; discriminate. }
  match goal with |- context [cancelled c ?sx] => destruct (cancelled c sx) end.
  { split; intros k E; discriminate. }
  simpl s_user.
  destruct (tact (s_user s1) (pick hd tl)) as [[u fxs] failed] eqn:Ea. unfold tact in Ea. rewrite Hu in Ea.
  destruct failed.
  { split.
    - intros k E. inversion E; subst k. eexists. simpl. split; [reflexivity|]. split; [reflexivity|]. rewrite Ea. reflexivity.
    - intros k E; discriminate. }
  match goal with |- context [s_complete ?sx] => destruct (s_complete sx) end.
  { match goal with |- context [cancelled c ?sx] => destruct (cancelled c sx) end; split; intros k E; discriminate. }
  eexists _, _. simpl. split; [reflexivity|]. rewrite Ea. reflexivity.
Qed.

Lemma run_loop_fail : forall fuel c order i (s : st) acc sf recs o,
  run_loop fuel c order i s acc = (sf, recs, o) ->
  (forall k, o = OActErr k false \/ o = OCondErr k false ->
     exists pre r, recs = (acc ++ pre ++ [r])%list /\ fail_info c (fold_left next_user pre (s_user s)) r o).
Proof.
  induction fuel as [|fuel IH]; intros c order i s acc sf recs o H k Ho; simpl in H.
  - inversion H; subst. destruct Ho; discriminate.
  - pose proof (cycle_step_fail c (order i) s) as Hf.
    pose proof (cycle_step_track c (order i) s) as Ht.
    destruct (cycle_step c (order i) s) as [s' r|s' [r|] o'].
    + destruct Ht as (Hu & _ & _).
      destruct (IH _ _ _ _ _ _ _ _ H k Ho) as (pre & r0 & E & F).
      exists (r :: pre), r0. split; [rewrite E, <- app_assoc; reflexivity|].
      simpl. rewrite <- Hu. exact F.
    + inversion H; subst. exists [], r. split; [reflexivity|exact Hf].
    + inversion H; subst. destruct Ho; discriminate.
Qed.

End Track.
