(* StoreExact.v — C04: an integer stored into an integer location of either family (signed / unsigned, any width)
   arrives bit for bit whenever it is in the range of the destination: no detour through float64, whatever the
   magnitude (above 2^53 included).  set_number is the model of model.SetNumberValue (ast/Variable.go reaches it through
   GoValueNode.SetObjectValueByField / SetArrayValueAt); the correspondence runs it against the engine with magnitudes
   2^53 .. 2^62 + odd (harness: "conversion probe, magnitude above 2^53"). *)
From Coq Require Import ZArith Lia List.
From Grule Require Import Base Values Facts.
Open Scope Z_scope.

Definition int_of_num (v : val) : option Z :=
  match v with VInt _ z | VUint _ z => Some z | _ => None end.
Definition fits_int (k : ikind) (z : Z) : Prop := fst (int_range k) <= z <= snd (int_range k).
Definition fits_uint (k : ukind) (z : Z) : Prop := 0 <= z <= uint_max k.

Lemma wrap64_small : forall z, - two63 <= z < two63 -> wrap64 z = z.
Proof. intros z H. unfold wrap64, two63, two64 in *. rewrite Z.mod_small by lia. lia. Qed.

Lemma wrapu64_small : forall z, 0 <= z < two64 -> wrapu64 z = z.
Proof. intros z H. unfold wrapu64. apply Z.mod_small. exact H. Qed.

Lemma fits_int_i64 : forall k z, fits_int k z -> - two63 <= z < two63.
Proof. intros k z H. unfold fits_int, two63 in *. destruct k; cbn [int_range fst snd] in H; unfold two63 in H; lia. Qed.

Lemma fits_uint_u64 : forall k z, fits_uint k z -> 0 <= z < two64.
Proof. intros k z H. unfold fits_uint, two64 in *. destruct k; cbn [uint_max] in H; unfold two64 in H; lia. Qed.

Lemma wrap_int_small : forall k z, fits_int k z -> wrap_int k z = z.
Proof.
  intros k z H. unfold fits_int in H. unfold wrap_int.
  destruct k; cbn [int_range fst snd] in *; unfold two63 in *; rewrite Z.mod_small by lia; lia.
Qed.

Lemma wrap_uint_small : forall k z, fits_uint k z -> wrap_uint k z = z.
Proof.
  intros k z H. unfold fits_uint in H. unfold wrap_uint.
  destruct k; cbn [uint_max] in *; unfold two64 in *; apply Z.mod_small; lia.
Qed.

Theorem store_int_exact : forall k old src z,
  int_of_num src = Some z -> fits_int k z ->
  store_scalar (FV (VInt k old)) src = Ok (FV (VInt k z)).
Proof.
  intros k old src z Hs Hf. pose proof (fits_int_i64 _ _ Hf) as H64.
  destruct src as [k' z'|k' z'| | | | | | | |]; cbn [int_of_num] in Hs; try discriminate; inversion Hs; subst z';
    cbn [store_scalar is_number andb set_number].
  - rewrite wrap_int_small by exact Hf. reflexivity.
  - rewrite wrap64_small by exact H64. rewrite wrap_int_small by exact Hf. reflexivity.
Qed.

Theorem store_uint_exact : forall k old src z,
  int_of_num src = Some z -> fits_uint k z ->
  store_scalar (FV (VUint k old)) src = Ok (FV (VUint k z)).
Proof.
  intros k old src z Hs Hf. pose proof (fits_uint_u64 _ _ Hf) as H64.
  destruct src as [k' z'|k' z'| | | | | | | |]; cbn [int_of_num] in Hs; try discriminate; inversion Hs; subst z';
    cbn [store_scalar is_number andb set_number].
  - rewrite wrapu64_small by exact H64. rewrite wrap_uint_small by exact Hf. reflexivity.
  - rewrite wrap_uint_small by exact Hf. reflexivity.
Qed.

(* the premises are met by a magnitude no float64 holds exactly: 2^53 + 1 from a uint64 into an int64 and back *)
Example store_exact_2p53 :
  store_scalar (FV (VInt I64 0)) (VUint U64 9007199254740993) = Ok (FV (VInt I64 9007199254740993)) /\
  store_scalar (FV (VUint U64 0)) (VInt I64 9007199254740993) = Ok (FV (VUint U64 9007199254740993)).
Proof. split; vm_compute; reflexivity. Qed.
