(* ParserWf.v — link between C17 and C07: every tree the parser model produces
   from a text satisfies the well-formedness predicates under which snapshots
   are injective (SnapInj.v): names are free of the snapshot delimiters (the
   lexer only makes names of identifier characters), float constants are 64-bit
   patterns.  Hence two accepted rules whose conditions have equal snapshots
   have equal condition trees. *)
From Grule Require Import Base Syntax Lexer Parser Snapshot SnapInj.
Open Scope Z_scope.

(* what the lexer guarantees of a token *)
Definition good (t : token) : Prop :=
  match t with
  | TName s => dfree s = true
  | TFloat (Some b) => 0 <= b < 2 ^ 63
  | _ => True
  end.
Definition goods (ts : list token) : Prop := Forall good ts.

(* ------------------------------------------------------------------------ *)
(* 1. the lexer                                                               *)

Lemma ic_not_delim : forall c, is_ic c = true -> is_delim c = false.
Proof. intros [[] [] [] [] [] [] [] []]; vm_compute; intros H; first [reflexivity|discriminate]. Qed.

Lemma span_ic_dfree : forall s, dfree (fst (span is_ic s)) = true.
Proof.
  induction s as [|c s IH]; [reflexivity|]. cbn [span]. destruct (is_ic c) eqn:E; [|reflexivity].
  destruct (span is_ic s) as [a b]. cbn [fst dfree] in *. rewrite (ic_not_delim c E), IH. reflexivity.
Qed.

Lemma letter_ic : forall c, is_letter c = true -> is_ic c = true.
Proof. intros c H. unfold is_ic. rewrite H. reflexivity. Qed.

Lemma ident_token_good : forall c run, is_letter c = true -> dfree run = true -> good (ident_token (String c run)).
Proof.
  intros c run Hc Hr. unfold ident_token. destruct (keyword_of (String c run)) as [t|] eqn:E.
  - unfold keyword_of in E. cbn [keywords alookup] in E.
    repeat match type of E with (if ?b then _ else _) = _ => destruct b; [inversion E; exact I|] end. discriminate.
  - cbn [good dfree]. rewrite (ic_not_delim c (letter_ic c Hc)), Hr. reflexivity.
Qed.

Lemma fbr_round_nonneg : forall n d e, 0 <= n -> 0 <= d -> 0 <= fbr_round n d e.
Proof.
  intros n d e Hn Hd. unfold fbr_round.
  set (num := if 0 <=? e then n else n * 2 ^ (- e)). set (den := if 0 <=? e then d * 2 ^ e else d).
  assert (Hnum : 0 <= num).
  { unfold num. destruct (0 <=? e); [assumption|]. apply Z.mul_nonneg_nonneg; [assumption|apply Z.pow_nonneg; lia]. }
  assert (Hden : 0 <= den).
  { unfold den. destruct (0 <=? e); [|assumption]. apply Z.mul_nonneg_nonneg; [assumption|apply Z.pow_nonneg; lia]. }
  assert (Hq : 0 <= num / den).
  { destruct (Z.eq_dec den 0) as [->|]; [rewrite Zdiv_0_r; lia|apply Z.div_pos; lia]. }
  cbv zeta. destruct (2 * (num mod den) <? den); [assumption|].
  destruct (den <? 2 * (num mod den)); [lia|]. destruct (Z.even (num / den)); lia.
Qed.

Lemma ratio_bits_range : forall n d b, 0 <= d -> float_bits_of_ratio n d = Some b -> 0 <= b < 2 ^ 63.
Proof.
  intros n d b Hd H. unfold float_bits_of_ratio in H.
  destruct (Z.leb_spec n 0) as [|Hn]; [inversion H; subst; split; [lia|reflexivity]|]. cbv zeta in H.
  destruct (Z.leb_spec (2047 * p52) ((fbr_exp n d + 1074) * p52 + fbr_round n d (fbr_exp n d))) as [|Hlt]; [discriminate|].
  inversion H; subst b; clear H.
  pose proof (fbr_round_nonneg n d (fbr_exp n d) ltac:(lia) Hd) as Hr.
  assert (He : -1074 <= fbr_exp n d) by (unfold fbr_exp; cbv zeta; apply Z.le_max_r).
  assert (Hp : 0 < p52) by reflexivity.
  split; [nia|]. assert (2047 * p52 < 2 ^ 63) by reflexivity. lia.
Qed.

Lemma zero_range : 0 <= 0 < 2 ^ 63. Proof. split; [lia|reflexivity]. Qed.

Lemma dec_float_range : forall mant nf ex b, dec_float_bits mant nf ex = Some b -> 0 <= b < 2 ^ 63.
Proof.
  intros mant nf ex b H. unfold dec_float_bits in H.
  destruct (dec_val mant =? 0); [inversion H; apply zero_range|].
  destruct (400 <? ex - nf); [discriminate|].
  destruct (ex - nf + strlenZ mant <? -400); [inversion H; apply zero_range|].
  destruct (0 <=? ex - nf); apply ratio_bits_range in H; auto; [lia|apply Z.pow_nonneg; lia].
Qed.

Lemma hex_float_range : forall mant nf ex b, hex_float_bits mant nf ex = Some b -> 0 <= b < 2 ^ 63.
Proof.
  intros mant nf ex b H. unfold hex_float_bits in H.
  destruct (hex_str_val mant =? 0); [inversion H; apply zero_range|].
  destruct (1100 <? ex - 4 * nf); [discriminate|].
  destruct (ex - 4 * nf + 4 * strlenZ mant <? -1100); [inversion H; apply zero_range|].
  destruct (0 <=? ex - 4 * nf); apply ratio_bits_range in H; auto; [lia|apply Z.pow_nonneg; lia].
Qed.

Definition good_opt (o : option Z) : Prop := match o with Some b => 0 <= b < 2 ^ 63 | None => True end.

Lemma dec_float_good : forall mant nf ex, good (TFloat (dec_float_bits mant nf ex)).
Proof. intros. cbn [good]. destruct (dec_float_bits mant nf ex) eqn:E; [apply (dec_float_range _ _ _ _ E)|exact I]. Qed.

Lemma hex_float_good : forall mant nf ex, good (TFloat (hex_float_bits mant nf ex)).
Proof. intros. cbn [good]. destruct (hex_float_bits mant nf ex) eqn:E; [apply (hex_float_range _ _ _ _ E)|exact I]. Qed.

Lemma lex_decimal_good : forall ds rest, good (fst (lex_decimal ds rest)).
Proof.
  intros ds rest. unfold lex_decimal.
  repeat match goal with
  | |- context [match ?x with _ => _ end] =>
      match x with
      | dec_float_bits _ _ _ => fail 1
      | _ => destruct x eqn:?
      end
  | |- context [if ?b then _ else _] => destruct b eqn:?
  end; cbn [fst]; try exact I; try apply dec_float_good.
Qed.

Ltac break_match H :=
  repeat match type of H with
  | context [match ?x with _ => _ end] =>
      match x with
      | hex_float_bits _ _ _ => fail 1
      | dec_float_bits _ _ _ => fail 1
      | _ => destruct x eqn:?
      end
  | context [if ?b then _ else _] => destruct b eqn:?
  end.

Ltac break_all :=
  repeat match goal with
  | H : context [match ?x with _ => _ end] |- _ =>
      match x with
      | hex_float_bits _ _ _ => fail 1
      | dec_float_bits _ _ _ => fail 1
      | _ => destruct x eqn:?
      end
  | H : context [if ?b then _ else _] |- _ => destruct b eqn:?
  end.

Lemma lex_hex_good : forall s t r, lex_hex s = Some (t, r) -> good t.
Proof.
  intros s t r H. unfold lex_hex in H.
  break_all; try discriminate;
    repeat match goal with Hq : Some _ = Some _ |- _ => inversion Hq; subst; clear Hq end;
    try exact I; try apply hex_float_good.
Qed.

Lemma lex_one_good : forall c s t rest, lex_one c s = Some (Some t, rest) -> good t.
Proof.
  intros c s t rest H. unfold lex_one in H.
  destruct (is_letter c) eqn:Hl.
  - pose proof (span_ic_dfree s) as Hd. destruct (span is_ic s) as [run r0]. cbn [fst] in Hd.
    break_match H; try discriminate; inversion H; subst; try exact I; apply ident_token_good; assumption.
  - destruct (is_digit c) eqn:Hdg.
    + destruct (if code c =? 48 then match s with String x s1 => if is_x x then lex_hex s1 else None | EmptyString => None end else None)
        as [[t0 r0]|] eqn:Eh.
      * inversion H; subst. destruct (code c =? 48); [|discriminate]. destruct s; [discriminate|].
        destruct (is_x a); [|discriminate]. eapply lex_hex_good; eauto.
      * destruct (span is_digit s) as [ds r1]. pose proof (lex_decimal_good (String c ds) r1) as G.
        destruct (lex_decimal (String c ds) r1) as [t1 r2]. inversion H; subst. exact G.
    + break_match H; try discriminate; inversion H; subst; try exact I; apply dec_float_good.
Qed.

Lemma lex_fuel_good : forall f s ts, lex_fuel f s = Some ts -> goods ts.
Proof.
  induction f as [|f IH]; intros s ts H; [discriminate|]. cbn [lex_fuel] in H.
  destruct s as [|c s']; [inversion H; constructor|].
  destruct (is_space c); [eapply IH; eauto|].
  destruct (lex_one c s') as [[[t|] rest]|] eqn:E; try discriminate.
  - destruct (lex_fuel f rest) as [ts'|] eqn:E2; [|discriminate]. inversion H; subst.
    constructor; [eapply lex_one_good; eauto|eapply IH; eauto].
  - eapply IH; eauto.
Qed.

Lemma lex_good : forall s ts, lex s = Some ts -> goods ts.
Proof. intros s ts H. eapply lex_fuel_good. exact H. Qed.

(* ------------------------------------------------------------------------ *)
(* 2. the parser: good tokens in, well-formed trees and good tokens out       *)

Definition sound {A : Type} (W : A -> Prop) (p : parser A) : Prop :=
  forall ts x rest, goods ts -> p ts = Some (x, rest) -> W x /\ goods rest.

Ltac inv_goods :=
  unfold goods in *;
  repeat match goal with H : Forall good (_ :: _) |- _ => inversion H; subst; clear H end.

Ltac inv_some :=
  repeat match goal with Hq : Some _ = Some _ |- _ => inversion Hq; subst; clear Hq end.

Lemma pconst_sound : sound wf_const pconst.
Proof.
  intros ts c rest Hg H. unfold pconst in H.
  break_all; try discriminate; inv_some; inv_goods; cbn [wf_const good] in *; split; auto;
    try exact I; assert (2 ^ 63 = sign_bit) by reflexivity; assert (16 ^ 16 = 2 * sign_bit) by reflexivity; lia.
Qed.

Section Sound.
Variable pe : parser expr.
Hypothesis Hpe : sound wf_expr pe.

Lemma argloop_sound : forall ts skip l rest, goods ts -> argloop pe ts skip = Some (l, rest) ->
  wf_elist l /\ goods rest.
Proof.
  induction ts as [|t ts IH]; intros skip l rest Hg H; destruct skip; cbn [argloop] in H; try discriminate.
  - destruct (pe (t :: ts)) as [[e r0]|] eqn:E; [|discriminate].
    destruct (Hpe _ _ _ Hg E) as [We Gr].
    destruct r0 as [|t0 r0]; [discriminate|]. destruct t0; try discriminate.
    + destruct (argloop pe ts (consumed ts r0)) as [[l0 r1]|] eqn:E2; [|discriminate]. inv_some.
      assert (Gts : goods ts) by (inv_goods; assumption).
      destruct (IH _ _ _ Gts E2) as [Wl G1]. split; [split; assumption|assumption].
    + inv_some. split; [split; [assumption|exact I]|inv_goods; assumption].
  - apply (IH skip l rest); [inv_goods; assumption|assumption].
Qed.

Lemma pargs_sound : sound wf_elist (pargs pe).
Proof.
  intros ts l rest Hg H. unfold pargs in H.
  destruct ts as [|t ts]; [apply (argloop_sound _ _ _ _ Hg H)|].
  destruct t; try apply (argloop_sound _ _ _ _ Hg H).
  inv_some. split; [exact I|inv_goods; assumption].
Qed.

Lemma goods_tail : forall t ts, goods (t :: ts) -> goods ts.
Proof. intros. inv_goods. assumption. Qed.

Lemma varloop_sound : forall n ts skip v v' rest, (List.length ts <= n)%nat -> goods ts -> wf_var v ->
  varloop pe ts skip v = Some (v', rest) -> wf_var v' /\ goods rest.
Proof.
  induction n as [|n IH]; intros ts skip v v' rest Hn Hg Wv H.
  - destruct ts; [|cbn in Hn; lia]. destruct skip; cbn [varloop] in H; [|discriminate]. inv_some. auto.
  - destruct skip as [|sk].
    + destruct ts as [|t ts1]; [cbn [varloop] in H; inv_some; auto|].
      cbn [List.length] in Hn. cbn [varloop] in H.
      destruct t; try (inv_some; auto; fail).
      * (* "." *)
        destruct ts1 as [|t1 ts2]; [inv_some; auto|]. destruct t1; try (inv_some; auto; fail).
        destruct ts2 as [|t2 ts3]; [|destruct t2]; try (inv_some; auto; fail);
          (eapply (IH _ 0%nat (VMember v s)); [| |split; [exact Wv|inv_goods; assumption]|exact H];
           [cbn [List.length] in *; lia|inv_goods; repeat constructor; assumption]).
      * (* "[" *)
        destruct (pe ts1) as [[sel r0]|] eqn:E; [|discriminate].
        destruct (Hpe _ _ _ (goods_tail _ _ Hg) E) as [Ws _].
        destruct r0 as [|t0 r0]; [discriminate|]. destruct t0; try discriminate.
        eapply (IH ts1 _ (VSel v sel)); [lia|apply (goods_tail _ _ Hg)|split; assumption|exact H].
    + destruct ts as [|t ts1]; [cbn [varloop] in H; discriminate|]. cbn [varloop] in H.
      cbn [List.length] in Hn. eapply (IH ts1); [lia|apply (goods_tail _ _ Hg)|exact Wv|exact H].
Qed.

Lemma atomloop_sound : forall n ts skip a a' rest, (List.length ts <= n)%nat -> goods ts -> wf_atom a ->
  atomloop pe ts skip a = Some (a', rest) -> wf_atom a' /\ goods rest.
Proof.
  induction n as [|n IH]; intros ts skip a a' rest Hn Hg Wa H.
  - destruct ts; [|cbn in Hn; lia]. destruct skip; cbn [atomloop] in H; [|discriminate]. inv_some. auto.
  - destruct skip as [|sk].
    + destruct ts as [|t ts1]; [cbn [atomloop] in H; inv_some; auto|].
      cbn [List.length] in Hn. cbn [atomloop] in H.
      destruct t; try (inv_some; auto; fail).
      * destruct ts1 as [|t1 ts2]; [inv_some; auto|]. destruct t1; try (inv_some; auto; fail).
        assert (Hs : dfree s = true) by (inv_goods; assumption).
        assert (G2 : goods ts2) by (inv_goods; assumption).
        destruct ts2 as [|t2 ts3].
        { eapply (IH _ 0%nat (AMember a s)); [| |split; [exact Wa|exact Hs]|exact H]; [cbn; lia|constructor]. }
        destruct t2;
          try (eapply (IH _ 0%nat (AMember a s)); [| |split; [exact Wa|exact Hs]|exact H];
               [cbn [List.length] in *; lia|exact G2]).
        (* method call *)
        destruct (pargs pe ts3) as [[args r0]|] eqn:E; [|discriminate].
        destruct (pargs_sound _ _ _ (goods_tail _ _ G2) E) as [Wl _].
        eapply (IH ts3 _ (AMethod a s args)); [cbn [List.length] in *; lia|apply (goods_tail _ _ G2)|repeat split; assumption|exact H].
      * destruct (pe ts1) as [[sel r0]|] eqn:E; [|discriminate].
        destruct (Hpe _ _ _ (goods_tail _ _ Hg) E) as [Ws _].
        destruct r0 as [|t0 r0]; [discriminate|]. destruct t0; try discriminate.
        eapply (IH ts1 _ (ASel a sel)); [lia|apply (goods_tail _ _ Hg)|split; assumption|exact H].
    + destruct ts as [|t ts1]; [cbn [atomloop] in H; discriminate|]. cbn [atomloop] in H.
      cbn [List.length] in Hn. eapply (IH ts1); [lia|apply (goods_tail _ _ Hg)|exact Wa|exact H].
Qed.

Lemma patom_base_sound : sound wf_atom (patom_base pe).
Proof.
  intros ts a rest Hg H. unfold patom_base in H.
  assert (Hc : forall ts0, goods ts0 -> match pconst ts0 with Some (c, r) => Some (AConst c, r) | None => None end = Some (a, rest) ->
                wf_atom a /\ goods rest).
  { intros ts0 G0 H0. destruct (pconst ts0) as [[c r]|] eqn:E; [|discriminate]. inv_some.
    destruct (pconst_sound _ _ _ G0 E). auto. }
  destruct ts as [|t ts1]; [apply (Hc _ Hg H)|].
  destruct t; try apply (Hc _ Hg H).
  assert (Hs : dfree s = true) by (inv_goods; assumption).
  assert (G1 : goods ts1) by apply (goods_tail _ _ Hg).
  assert (Hv : match varloop pe ts1 0 (VName s) with Some (v, r) => Some (AVar v, r) | None => None end = Some (a, rest) ->
               wf_atom a /\ goods rest).
  { intros H0. destruct (varloop pe ts1 0 (VName s)) as [[v r]|] eqn:E; [|discriminate]. inv_some.
    apply (varloop_sound _ ts1 0%nat (VName s) v rest (le_n _) G1 Hs E). }
  destruct ts1 as [|t1 ts2]; [apply Hv; exact H|]. destruct t1; try (apply Hv; exact H).
  destruct (pargs pe ts2) as [[args r]|] eqn:E; [|discriminate]. inv_some.
  destruct (pargs_sound _ _ _ (goods_tail _ _ G1) E) as [Wl Gr]. split; [split; assumption|assumption].
Qed.

Lemma patom_sound : sound wf_atom (patom pe).
Proof.
  intros ts. induction ts as [|t ts IH]; intros a rest Hg H.
  - cbn [patom] in H. destruct (patom_base pe []) as [[a0 r0]|] eqn:E; [|discriminate].
    destruct (patom_base_sound _ _ _ Hg E) as [W0 G0].
    apply (atomloop_sound _ _ _ _ _ _ (le_n _) G0 W0 H).
  - assert (Hb : match patom_base pe (t :: ts) with Some (a0, r0) => atomloop pe r0 0 a0 | None => None end = Some (a, rest) ->
                 wf_atom a /\ goods rest).
    { intros H0. destruct (patom_base pe (t :: ts)) as [[a0 r0]|] eqn:E; [|discriminate].
      destruct (patom_base_sound _ _ _ Hg E) as [W0 G0].
      apply (atomloop_sound _ _ _ _ _ _ (le_n _) G0 W0 H0). }
    destruct t; try (apply Hb; exact H).
    cbn [patom] in H. destruct (patom pe ts) as [[a0 r0]|] eqn:E; [|discriminate]. inv_some.
    apply (IH _ _ (goods_tail _ _ Hg) eq_refl).
Qed.

Lemma pprimary_sound : sound wf_expr (pprimary pe).
Proof.
  intros ts e rest Hg H. unfold pprimary in H.
  assert (Ha : forall ts0, goods ts0 -> match patom pe ts0 with Some (a, r) => Some (EAtom a, r) | None => None end = Some (e, rest) ->
               wf_expr e /\ goods rest).
  { intros ts0 G0 H0. destruct (patom pe ts0) as [[a r]|] eqn:E; [|discriminate]. inv_some.
    apply (patom_sound _ _ _ G0 E). }
  assert (Hp : forall ts0 neg, goods ts0 ->
               match pe ts0 with Some (e0, TRParen :: r) => Some (EParen neg e0, r) | _ => None end = Some (e, rest) ->
               wf_expr e /\ goods rest).
  { intros ts0 neg G0 H0. destruct (pe ts0) as [[e0 r]|] eqn:E; [|discriminate].
    destruct (Hpe _ _ _ G0 E) as [W0 Gr]. destruct r as [|t0 r]; [discriminate|]. destruct t0; try discriminate.
    inv_some. split; [exact W0|apply (goods_tail _ _ Gr)]. }
  destruct ts as [|t ts1]; [apply (Ha _ Hg H)|].
  destruct t; try apply (Ha _ Hg H).
  - apply (Hp ts1 false (goods_tail _ _ Hg) H).
  - destruct ts1 as [|t1 ts2]; [apply (Ha _ Hg H)|]. destruct t1; try apply (Ha _ Hg H).
    apply (Hp ts2 true (goods_tail _ _ (goods_tail _ _ Hg)) H).
Qed.

End Sound.

Lemma binloop_sound : forall k operand, sound wf_expr operand ->
  forall ts skip lhs e rest, goods ts -> wf_expr lhs -> binloop k operand ts skip lhs = Some (e, rest) ->
  wf_expr e /\ goods rest.
Proof.
  intros k operand Ho. induction ts as [|t ts IH]; intros skip lhs e rest Hg Wl H; destruct skip; cbn [binloop] in H;
    try discriminate.
  - inv_some. auto.
  - destruct (binop_of t) as [[o lv]|]; [|inv_some; auto].
    destruct (Nat.eqb lv k); [|inv_some; auto].
    destruct (operand ts) as [[rhs r0]|] eqn:E; [|discriminate].
    destruct (Ho _ _ _ (goods_tail _ _ Hg) E) as [Wr _].
    apply (IH (consumed ts r0) (EBin o lhs rhs) e rest (goods_tail _ _ Hg)); [split; assumption|exact H].
  - apply (IH skip lhs e rest (goods_tail _ _ Hg) Wl H).
Qed.

Lemma plevels_sound : forall primary, sound wf_expr primary -> forall k, sound wf_expr (plevels primary k).
Proof.
  intros primary Hp. induction k as [|k IH]; [exact Hp|].
  intros ts e rest Hg H. cbn [plevels] in H. unfold plevel in H.
  destruct (plevels primary k ts) as [[a r0]|] eqn:E; [|discriminate].
  destruct (IH _ _ _ Hg E) as [Wa G0].
  apply (binloop_sound _ _ IH _ _ _ _ _ G0 Wa H).
Qed.

Theorem pexpr_sound : forall f, sound wf_expr (pexpr f).
Proof.
  induction f as [|f IH]; intros ts e rest Hg H; [discriminate|].
  cbn [pexpr] in H. eapply (plevels_sound (pprimary (fun ts' => pexpr f ts'))); [|exact Hg|exact H].
  apply pprimary_sound. exact IH.
Qed.

(* ------------------------------------------------------------------------ *)
(* 3. actions, rules, documents                                               *)

Definition wf_stmt_s (st : stmt) : Prop :=
  match st with SAssign x _ e => wf_var x /\ wf_expr e | SAtom a => wf_atom a end.

Definition wf_rule_s (r : rule) : Prop := wf_expr (rwhen r) /\ Forall wf_stmt_s (rthen r).

Section SoundRules.
Variable pe : parser expr.
Hypothesis Hpe : sound wf_expr pe.

Lemma pstmt_atom_sound : sound wf_stmt_s (pstmt_atom pe).
Proof.
  intros ts st rest Hg H. unfold pstmt_atom in H.
  destruct (patom pe ts) as [[a r0]|] eqn:E; [|discriminate].
  destruct (patom_sound pe Hpe _ _ _ Hg E) as [Wa G0].
  destruct r0 as [|t0 r0]; [discriminate|]. destruct t0; try discriminate. inv_some.
  split; [exact Wa|apply (goods_tail _ _ G0)].
Qed.

Lemma pstmt_sound : sound wf_stmt_s (pstmt pe).
Proof.
  intros ts st rest Hg H. unfold pstmt in H.
  destruct ts as [|t ts1]; [apply (pstmt_atom_sound _ _ _ Hg H)|].
  destruct t; try apply (pstmt_atom_sound _ _ _ Hg H).
  assert (Hs : wf_var (VName s)) by (inv_goods; assumption).
  assert (G1 : goods ts1) by apply (goods_tail _ _ Hg).
  destruct (varloop pe ts1 0 (VName s)) as [[v r0]|] eqn:E; [|apply (pstmt_atom_sound _ _ _ Hg H)].
  destruct (varloop_sound pe Hpe _ ts1 0%nat (VName s) v r0 (le_n _) G1 Hs E) as [Wv G0].
  destruct r0 as [|t0 ts2]; [apply (pstmt_atom_sound _ _ _ Hg H)|].
  destruct (asg_of t0) as [o|]; [|apply (pstmt_atom_sound _ _ _ Hg H)].
  destruct (pe ts2) as [[e r1]|] eqn:E2; [|discriminate].
  destruct (Hpe _ _ _ (goods_tail _ _ G0) E2) as [We G2].
  destruct r1 as [|t1 r1]; [discriminate|]. destruct t1; try discriminate. inv_some.
  split; [split; assumption|apply (goods_tail _ _ G2)].
Qed.

Lemma stmtloop_sound : forall ts skip l rest, goods ts -> stmtloop pe ts skip = Some (l, rest) ->
  Forall wf_stmt_s l /\ goods rest.
Proof.
  induction ts as [|t ts IH]; intros skip l rest Hg H; destruct skip; cbn [stmtloop] in H; try discriminate.
  - assert (Hm : match pstmt pe (t :: ts) with
                 | Some (s, r0) => match stmtloop pe ts (consumed ts r0) with Some (l0, r1) => Some (s :: l0, r1) | None => None end
                 | None => None end = Some (l, rest) -> Forall wf_stmt_s l /\ goods rest).
    { intros H0. destruct (pstmt pe (t :: ts)) as [[s r0]|] eqn:E; [|discriminate].
      destruct (pstmt_sound _ _ _ Hg E) as [Ws _].
      destruct (stmtloop pe ts (consumed ts r0)) as [[l0 r1]|] eqn:E2; [|discriminate]. inv_some.
      destruct (IH _ _ _ (goods_tail _ _ Hg) E2) as [Wl G1]. split; [constructor; assumption|assumption]. }
    destruct t; try (apply Hm; exact H).
    inv_some. split; [constructor|assumption].
  - apply (IH skip l rest (goods_tail _ _ Hg) H).
Qed.

Lemma prule_sound_wf : sound wf_rule_s (prule pe).
Proof.
  intros ts r rest Hg H. unfold prule in H.
  destruct ts as [|t ts]; [discriminate|]. destruct t; try discriminate.
  destruct ts as [|t ts]; [discriminate|]. destruct t; try discriminate.
  assert (G0 : goods ts) by (inv_goods; assumption).
  destruct (pdesc ts) as [[d ts2]|] eqn:Ed; [|discriminate].
  assert (G2 : goods ts2).
  { unfold pdesc in Ed. destruct ts as [|t0 ts0]; [inv_some; assumption|].
    destruct t0; try (inv_some; assumption).
    destruct (unquote dq raw); [|discriminate]. inv_some. apply (goods_tail _ _ G0). }
  destruct (psalience ts2) as [[sal ts3]|] eqn:Es; [|discriminate].
  assert (G3 : goods ts3).
  { unfold psalience in Es. destruct ts2 as [|t0 ts0]; [inv_some; assumption|].
    destruct t0; try (inv_some; assumption).
    destruct ts0 as [|t1 ts1]; [discriminate|]. destruct t1; try discriminate.
    - destruct (in_i32 z); [|discriminate]. inv_some. inv_goods. assumption.
    - destruct ts1 as [|t2 ts4]; [discriminate|]. destruct t2; try discriminate.
      destruct (in_i32 (- z)); [|discriminate]. inv_some. inv_goods. assumption. }
  destruct ts3 as [|t ts3]; [discriminate|]. destruct t; try discriminate.
  destruct ts3 as [|t ts3]; [discriminate|]. destruct t; try discriminate.
  destruct (pe ts3) as [[w ts4]|] eqn:Ew; [|discriminate].
  destruct (Hpe _ _ _ (goods_tail _ _ (goods_tail _ _ G3)) Ew) as [Ww G4].
  destruct ts4 as [|t ts4]; [discriminate|]. destruct t; try discriminate.
  destruct (stmtloop pe ts4 0) as [[l r4]|] eqn:El; [|discriminate].
  destruct (stmtloop_sound _ _ _ _ (goods_tail _ _ G4) El) as [Wl G5].
  destruct l as [|st l]; [discriminate|].
  destruct r4 as [|t r4]; [discriminate|]. destruct t; try discriminate. inv_some.
  split; [split; assumption|apply (goods_tail _ _ G5)].
Qed.

Lemma ruleloop_sound_wf : forall ts skip rs, goods ts -> ruleloop pe ts skip = Some rs -> Forall wf_rule_s rs.
Proof.
  induction ts as [|t ts IH]; intros skip rs Hg H; destruct skip; cbn [ruleloop] in H; try discriminate.
  - inv_some. constructor.
  - destruct (prule pe (t :: ts)) as [[r rest]|] eqn:E; [|discriminate].
    destruct (ruleloop pe ts (consumed ts rest)) as [l|] eqn:E2; [|discriminate]. inv_some.
    constructor; [apply (prule_sound_wf _ _ _ Hg E)|apply (IH _ _ (goods_tail _ _ Hg) E2)].
  - apply (IH skip rs (goods_tail _ _ Hg) H).
Qed.

End SoundRules.

(* every tree the parser model produces is inside the domain of snapshot injectivity *)
Theorem parse_grl_wf : forall text rs, parse_grl text = Ok rs -> Forall wf_rule_s rs.
Proof.
  intros text rs H. unfold parse_grl in H.
  destruct (lex text) as [ts|] eqn:El; [|discriminate].
  destruct (parse_tokens ts) as [rs'|] eqn:Ep; [|discriminate].
  destruct (nodup_str (rule_names rs')); [|discriminate]. inversion H; subst rs'.
  unfold parse_tokens in Ep.
  eapply (ruleloop_sound_wf (pexpr (List.length ts)) (pexpr_sound _)); [|exact Ep].
  apply (lex_good _ _ El).
Qed.

(* C17 + C07: two accepted rules whose conditions have equal snapshots have equal condition trees
   (likewise for their actions, atom by atom) *)
Theorem accepted_conditions_snapshot_inj : forall text1 text2 rs1 rs2 r1 r2,
  parse_grl text1 = Ok rs1 -> parse_grl text2 = Ok rs2 -> In r1 rs1 -> In r2 rs2 ->
  expr_snapshot (rwhen r1) = expr_snapshot (rwhen r2) -> rwhen r1 = rwhen r2.
Proof.
  intros text1 text2 rs1 rs2 r1 r2 H1 H2 I1 I2 Hs.
  pose proof (parse_grl_wf _ _ H1) as W1. pose proof (parse_grl_wf _ _ H2) as W2.
  rewrite Forall_forall in W1, W2. destruct (W1 r1 I1) as [A _]. destruct (W2 r2 I2) as [B _].
  apply snapshot_inj_expr; assumption.
Qed.
