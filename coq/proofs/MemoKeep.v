(* MemoKeep.v — C13: the working memory only grows while side-effect free nodes are evaluated;
   a remembered node is answered from the memory without running anything; an entry is dropped only
   by an assignment / Forget whose text occurs in the node. *)
From Grule Require Import Base Values Syntax CmpGen ArithGen OpsGen Snapshot Printer EngineAbs Facts Eval Fresh MemoProofs.
Open Scope Z_scope.

Lemma const_eqb_refl : forall c, const_eqb c c = true.
Proof. intros [x|z|f|b|]; simpl; auto using String.eqb_refl, Z.eqb_refl. destruct b; reflexivity. Qed.
Lemma op_eqb_refl : forall o, op_eqb o o = true. Proof. intros []; reflexivity. Qed.

Lemma syntax_eqb_refl :
  (forall e, expr_eqb e e = true) /\ (forall a, atom_eqb a a = true) /\ (forall x, var_eqb x x = true) /\ (forall l, elist_eqb l l = true).
Proof.
  apply syntax_mutind; intros; simpl;
    repeat match goal with H : _ = true |- _ => rewrite H; clear H end;
    rewrite ?String.eqb_refl, ?op_eqb_refl, ?const_eqb_refl, ?Bool.eqb_reflx; auto.
Qed.
Lemma atom_eqb_refl : forall a, atom_eqb a a = true. Proof. apply syntax_eqb_refl. Qed.
Lemma expr_eqb_refl : forall e, expr_eqb e e = true. Proof. apply syntax_eqb_refl. Qed.

(* an entry whose key passes a filter on keys survives the filter *)
Lemma lookup_atom_filter : forall (f : atom -> bool) m a, lookup_atom m a <> None -> f a = true ->
  lookup_atom (filter (fun p => f (fst p)) m) a <> None.
Proof.
  intros f m a. induction m as [|[k v] m IH]; simpl; intros H Hf; [exact H|].
  destruct (atom_eqb k a) eqn:E.
  - apply atom_eqb_eq in E. subst k. rewrite Hf. simpl. rewrite atom_eqb_refl. discriminate.
  - destruct (f k); simpl; [rewrite E|]; auto.
Qed.
Lemma lookup_expr_filter : forall (f : expr -> bool) m e, lookup_expr m e <> None -> f e = true ->
  lookup_expr (filter (fun p => f (fst p)) m) e <> None.
Proof.
  intros f m e. induction m as [|[k v] m IH]; simpl; intros H Hf; [exact H|].
  destruct (expr_eqb k e) eqn:E.
  - apply expr_eqb_eq in E. subst k. rewrite Hf. simpl. rewrite expr_eqb_refl. discriminate.
  - destruct (f k); simpl; [rewrite E|]; auto.
Qed.

Section Keep.
Variable allvars : list var.
Variable meth : list (string * fval) -> string -> list val -> res (option val * list (string * fval)).
Variable panics_inside : string -> list val -> bool.
Variable mutating : string -> bool.

Notation eval_expr := (eval_expr allvars meth panics_inside).
Notation eval_atom := (eval_atom allvars meth panics_inside).
Notation eval_var := (eval_var allvars meth panics_inside).
Notation eval_args := (eval_args allvars meth panics_inside).
Notation pure_expr := (pure_expr mutating).
Notation pure_atom := (pure_atom mutating).
Notation pure_var := (pure_var mutating).
Notation pure_elist := (pure_elist mutating).

Definition has_atom (s : estate) (a : atom) : Prop := lookup_atom (es_matom s) a <> None.
Definition has_expr (s : estate) (e : expr) : Prop := lookup_expr (es_mexpr s) e <> None.

(* every remembered node stays remembered *)
Definition keeps (s s' : estate) : Prop :=
  (forall a, has_atom s a -> has_atom s' a) /\ (forall e, has_expr s e -> has_expr s' e).

Lemma keeps_refl : forall s, keeps s s. Proof. split; auto. Qed.
Lemma keeps_trans : forall a b c, keeps a b -> keeps b c -> keeps a c.
Proof. intros a b c [A1 A2] [B1 B2]. split; auto. Qed.
Lemma keeps_memo_atom : forall s a v, keeps s (memo_atom s a v).
Proof.
  intros s a v. split; auto. intros a0 H. unfold has_atom in *. simpl.
  destruct (atom_eqb a a0); [discriminate|exact H].
Qed.
Lemma keeps_memo_expr : forall s e v, keeps s (memo_expr s e v).
Proof.
  intros s e v. split; auto. intros e0 H. unfold has_expr in *. simpl.
  destruct (expr_eqb e e0); [discriminate|exact H].
Qed.
Lemma keeps_same : forall s s', es_matom s' = es_matom s -> es_mexpr s' = es_mexpr s -> keeps s s'.
Proof. intros s s' A B. split; intros x H; unfold has_atom, has_expr in *; congruence. Qed.

Lemma call_receiver_memo : forall s recv f args r s',
  call_receiver meth panics_inside s recv f args = (r, s') -> es_matom s' = es_matom s /\ es_mexpr s' = es_mexpr s.
Proof.
  intros s recv f args r s' H. unfold call_receiver in H.
  destruct (receiver_kind (es_facts s) recv f args) as [res|p fs].
  - inversion H; subst; auto.
  - destruct (meth fs f args) as [[ret fs']| |].
    + simpl in H. destruct (path_set (es_facts s) p (FPtr (Some (FStruct fs')))); inversion H; subst; auto.
    + inversion H; subst; auto.
    + destruct (panics_inside f args); inversion H; subst; auto.
Qed.

Definition K_expr (e : expr) : Prop := pure_expr e = true -> forall s r s', eval_expr e s = (r, s') -> keeps s s'.
Definition K_atom (a : atom) : Prop := pure_atom a = true -> forall s r s', eval_atom a s = (r, s') -> keeps s s'.
Definition K_var (x : var) : Prop := pure_var x = true -> forall s r s', eval_var x s = (r, s') -> keeps s s'.
Definition K_elist (l : elist) : Prop := pure_elist l = true -> forall s r s', eval_args l s = (r, s') -> keeps s s'.

Ltac done_ H := inversion H; subst; eauto using keeps_refl, keeps_trans, keeps_memo_atom, keeps_memo_expr.

Theorem eval_keeps : (forall e, K_expr e) /\ (forall a, K_atom a) /\ (forall x, K_var x) /\ (forall l, K_elist l).
Proof.
  apply syntax_mutind; unfold K_expr, K_atom, K_var, K_elist.
  - (* EAtom *)
    intros a IHa Hp s r s' H. rewrite eval_expr_unfold in H; unfold eval_expr_miss in H.
    destruct (lookup_expr (es_mexpr s) (EAtom a)); [done_ H|].
    destruct (eval_atom a s) as [ra s1] eqn:Ea. pose proof (IHa Hp _ _ _ Ea) as K1.
    destruct ra; done_ H.
  - (* EParen *)
    intros neg e IHe Hp s r s' H. rewrite eval_expr_unfold in H; unfold eval_expr_miss in H.
    destruct (lookup_expr (es_mexpr s) (EParen neg e)); [done_ H|].
    destruct (eval_expr e s) as [re s1] eqn:Ee. simpl in Hp. pose proof (IHe Hp _ _ _ Ee) as K1.
    destruct re; done_ H.
  - (* EBin *)
    intros o l IHl r0 IHr Hp s r s' H. rewrite eval_expr_unfold in H; unfold eval_expr_miss in H.
    simpl in Hp. apply andb_prop in Hp. destruct Hp as [Hpl Hpr].
    destruct (lookup_expr (es_mexpr s) (EBin o l r0)); [done_ H|].
    destruct (eval_expr l s) as [lres s1] eqn:El. pose proof (IHl Hpl _ _ _ El) as K1.
    destruct (bin_left_fail o lres); [done_ H|].
    destruct (bin_shortcut o (es_facts s1) lres); [done_ H|].
    destruct (eval_expr r0 s1) as [rres s2] eqn:Er. pose proof (IHr Hpr _ _ _ Er) as K2.
    destruct (bin_combine o (es_facts s2) lres rres); done_ H.
  - (* AConst *)
    intros c Hp s r s' H. rewrite eval_atom_unfold in H; unfold eval_atom_miss in H.
    destruct (lookup_atom (es_matom s) (AConst c)); done_ H.
  - (* AVar *)
    intros x IHx Hp s r s' H. rewrite eval_atom_unfold in H; unfold eval_atom_miss in H.
    destruct (lookup_atom (es_matom s) (AVar x)); [done_ H|].
    destruct (eval_var x s) as [rx s1] eqn:Ex. simpl in Hp. pose proof (IHx Hp _ _ _ Ex) as K1.
    destruct rx; done_ H.
  - (* AFunc *)
    intros f args IHargs Hp s r s' H. rewrite eval_atom_unfold in H; unfold eval_atom_miss in H.
    simpl in Hp. apply andb_prop in Hp. destruct Hp as [Hnc Hpa].
    destruct (lookup_atom (es_matom s) (AFunc f args)); [done_ H|].
    destruct (eval_args args s) as [ra s1] eqn:Ea. pose proof (IHargs Hpa _ _ _ Ea) as K1.
    destruct ra as [vs| |]; try (done_ H; fail).
    apply negb_true_iff in Hnc.
    assert (Hk: defunc_kind f = DOther) by (unfold control_builtin in Hnc; destruct (defunc_kind f); auto; discriminate).
    rewrite Hk in H.
    assert (Hgen: (defunc_value (es_facts s1) f vs, s1) = (r, s')) by exact H.
    inversion Hgen; subst. exact K1.
  - (* AMethod *)
    intros a IHa f args IHargs Hp s r s' H. rewrite eval_atom_unfold in H; unfold eval_atom_miss in H.
    simpl in Hp. apply andb_prop in Hp. destruct Hp as [Hp Hpargs]. apply andb_prop in Hp. destruct Hp as [Hnm Hpa].
    destruct (lookup_atom (es_matom s) (AMethod a f args)); [done_ H|].
    destruct (eval_atom a s) as [ra s1] eqn:Ea. pose proof (IHa Hpa _ _ _ Ea) as K1.
    destruct ra as [recv| |]; try (done_ H; fail).
    destruct (eval_args args s1) as [rargs s2] eqn:Eargs. pose proof (IHargs Hpargs _ _ _ Eargs) as K2.
    destruct rargs as [vs| |]; try (done_ H; fail).
    destruct (call_receiver meth panics_inside s2 recv f (map (arg_val s2) vs)) as [rc s3] eqn:Ec.
    destruct (call_receiver_memo _ _ _ _ _ _ Ec) as [M1 M2].
    pose proof (keeps_same _ _ M1 M2) as K3.
    destruct rc; done_ H.
  - (* AMember *)
    intros a IHa n Hp s r s' H. rewrite eval_atom_unfold in H; unfold eval_atom_miss in H. simpl in Hp.
    destruct (lookup_atom (es_matom s) (AMember a n)); [done_ H|].
    destruct (eval_atom a s) as [ra s1] eqn:Ea. pose proof (IHa Hp _ _ _ Ea) as K1.
    destruct ra as [recv| |]; try (done_ H; fail).
    destruct (child_field s1 recv n); done_ H.
  - (* ASel *)
    intros a IHa sel IHsel Hp s r s' H. rewrite eval_atom_unfold in H; unfold eval_atom_miss in H.
    simpl in Hp. apply andb_prop in Hp. destruct Hp as [Hpa Hps].
    destruct (lookup_atom (es_matom s) (ASel a sel)); [done_ H|].
    destruct (eval_atom a s) as [ra s1] eqn:Ea. pose proof (IHa Hpa _ _ _ Ea) as K1.
    destruct ra as [recv| |]; try (done_ H; fail).
    destruct (eval_expr sel s1) as [rk s2] eqn:Es. pose proof (IHsel Hps _ _ _ Es) as K2.
    destruct rk; done_ H.
  - (* ANeg *)
    intros a IHa Hp s r s' H. rewrite eval_atom_unfold in H; unfold eval_atom_miss in H. simpl in Hp.
    destruct (lookup_atom (es_matom s) (ANeg a)); [done_ H|].
    destruct (eval_atom a s) as [ra s1] eqn:Ea. pose proof (IHa Hp _ _ _ Ea) as K1.
    destruct ra; done_ H.
  - (* VName *)
    intros n Hp s r s' H. rewrite eval_var_unfold in H.
    destruct (alookup n (es_facts s)); done_ H.
  - (* VMember *)
    intros x IHx n Hp s r s' H. rewrite eval_var_unfold in H. simpl in Hp.
    destruct (eval_var x s) as [rx s1] eqn:Ex. pose proof (IHx Hp _ _ _ Ex) as K1.
    destruct rx; done_ H.
  - (* VSel *)
    intros x IHx sel IHsel Hp s r s' H. rewrite eval_var_unfold in H.
    simpl in Hp. apply andb_prop in Hp. destruct Hp as [Hpx Hps].
    destruct (eval_var x s) as [rx s1] eqn:Ex. pose proof (IHx Hpx _ _ _ Ex) as K1.
    destruct rx as [rv| |]; try (done_ H; fail).
    destruct (eval_expr sel s1) as [rk s2] eqn:Es. pose proof (IHsel Hps _ _ _ Es) as K2.
    destruct rk; done_ H.
  - (* ENil *)
    intros Hp s r s' H. rewrite eval_args_unfold in H. done_ H.
  - (* ECons *)
    intros e IHe l IHl Hp s r s' H. rewrite eval_args_unfold in H.
    simpl in Hp. apply andb_prop in Hp. destruct Hp as [Hpe Hpl].
    destruct (eval_expr e s) as [re s1] eqn:Ee. pose proof (IHe Hpe _ _ _ Ee) as K1.
    destruct re as [v| |]; try (done_ H; fail).
    destruct (eval_args l s1) as [rl s2] eqn:El. pose proof (IHl Hpl _ _ _ El) as K2.
    destruct rl; done_ H.
Qed.

(* ---- a remembered node is answered from the working memory: no evaluation, no method call ---- *)
Theorem memo_hit_atom_no_call : forall a s, has_atom s a -> exists v, eval_atom a s = (Ok v, s).
Proof.
  intros a s H. rewrite eval_atom_unfold. unfold has_atom in H.
  destruct (lookup_atom (es_matom s) a) as [v|]; [eauto|congruence].
Qed.
Theorem memo_hit_expr_no_call : forall e s, has_expr s e -> exists v, eval_expr e s = (Ok v, s).
Proof.
  intros e s H. rewrite eval_expr_unfold. unfold has_expr in H.
  destruct (lookup_expr (es_mexpr s) e) as [v|]; [eauto|congruence].
Qed.

(* ---- a successfully evaluated method call / field read is remembered ---- *)
Theorem method_result_remembered : forall a f l s v s',
  eval_atom (AMethod a f l) s = (Ok v, s') -> has_atom s' (AMethod a f l).
Proof.
  intros a f l s v s' H. rewrite eval_atom_unfold in H; unfold eval_atom_miss in H. unfold has_atom.
  destruct (lookup_atom (es_matom s) (AMethod a f l)) eqn:L.
  { inversion H; subst. congruence. }
  destruct (eval_atom a s) as [[recv| |] s1]; try discriminate.
  destruct (eval_args l s1) as [[vs| |] s2]; try discriminate.
  destruct (call_receiver meth panics_inside s2 recv f (map (arg_val s2) vs)) as [[w| |] s3]; try discriminate.
  inversion H; subst. unfold memo_atom. cbn [es_matom lookup_atom]. rewrite atom_eqb_refl. discriminate.
Qed.
Theorem field_read_remembered : forall x s v s',
  eval_atom (AVar x) s = (Ok v, s') -> has_atom s' (AVar x).
Proof.
  intros x s v s' H. rewrite eval_atom_unfold in H; unfold eval_atom_miss in H. unfold has_atom.
  destruct (lookup_atom (es_matom s) (AVar x)) eqn:L.
  { inversion H; subst. congruence. }
  destruct (eval_var x s) as [[w| |] s1]; try discriminate.
  inversion H; subst. unfold memo_atom. cbn [es_matom lookup_atom]. rewrite atom_eqb_refl. discriminate.
Qed.

(* ---- only an invalidation event concerning the node drops it ---- *)
Theorem reset_variable_keeps_atom : forall s x a,
  has_atom s a -> containsb (atom_snapshot a) (var_snapshot x) = false -> has_atom (reset_variable s x) a.
Proof.
  intros s x a H Hc. unfold has_atom, reset_variable in *. simpl.
  apply (lookup_atom_filter (fun k => negb (containsb (atom_snapshot k) (var_snapshot x)))); auto. rewrite Hc. reflexivity.
Qed.
Theorem reset_variable_keeps_expr : forall s x e,
  has_expr s e -> containsb (expr_snapshot e) (var_snapshot x) = false -> has_expr (reset_variable s x) e.
Proof.
  intros s x e H Hc. unfold has_expr, reset_variable in *. simpl.
  apply (lookup_expr_filter (fun k => negb (containsb (expr_snapshot k) (var_snapshot x)))); auto. rewrite Hc. reflexivity.
Qed.
(* an assignment: resets by the assigned variable and, for an element, by the variables that may denote it *)
Theorem reset_assigned_keeps_atom : forall s x a,
  has_atom s a ->
  (forall v, In v (reset_set allvars x) -> containsb (atom_snapshot a) (var_snapshot v) = false) ->
  has_atom (reset_assigned allvars s x) a.
Proof.
  intros s x a H Hv. unfold reset_assigned, reset_variables. revert s H.
  induction (reset_set allvars x) as [|v vs IH]; intros s H; simpl; [exact H|].
  apply IH.
  - intros w Hw. apply Hv. right. exact Hw.
  - apply reset_variable_keeps_atom; auto. apply Hv. left. reflexivity.
Qed.
(* two different literal selectors never alias: a reader of M["b"] is not reset by an assignment to M["a"] on that account *)
Lemma paths_meet_snoc : forall p q a b, paths_meet (p ++ [a]) (q ++ [b]) = true -> comp_meet a b = true.
Proof.
  induction p as [|x p IH]; intros q a b H; destruct q as [|y q]; simpl in H.
  - apply andb_prop in H. apply H.
  - destruct q; simpl in H; apply andb_prop in H; destruct H as [_ H]; discriminate.
  - destruct p; simpl in H; apply andb_prop in H; destruct H as [_ H]; discriminate.
  - apply andb_prop in H. destruct H as [_ H]. eapply IH; eauto.
Qed.
Lemma literals_do_not_alias : forall c s1 s2, lit_sel s1 = true -> lit_sel s2 = true -> may_alias (VSel c s1) (VSel c s2) = false.
Proof.
  intros c s1 s2 H1 H2. unfold may_alias.
  destruct (var_eqb (VSel c s2) (VSel c s1)) eqn:E; [reflexivity|]. cbn [negb andb].
  apply Bool.not_true_is_false. intro P.
  assert (Hne: s2 <> s1).
  { intro Heq. subst s2. destruct syntax_eqb_refl as (_ & _ & R & _). rewrite R in E. discriminate. }
  destruct s1 as [[[k1|i1|f1|b1|]|?|?|?|?|?|?]|?|?]; try discriminate H1;
  destruct s2 as [[[k2|i2|f2|b2|]|?|?|?|?|?|?]|?|?]; try discriminate H2;
    cbn [apath] in P; apply paths_meet_snoc in P; simpl in P; try discriminate.
  - apply String.eqb_eq in P. subst. apply Hne. reflexivity.
  - apply Z.eqb_eq in P. subst. apply Hne. reflexivity.
Qed.
Theorem reset_name_keeps_atom : forall s n a,
  has_atom s a ->
  (forall x, In x allvars -> var_text x = n -> containsb (atom_snapshot a) (var_snapshot x) = false) ->
  containsb (atom_snapshot a) n = false -> containsb (atom_text a) n = false ->
  has_atom (reset_name allvars s n) a.
Proof.
  intros s n a H Hv Hs Ht. unfold reset_name.
  destruct (find (fun v => String.eqb (var_text v) n) allvars) as [x|] eqn:F.
  - apply find_some in F. destruct F as [Hin Heq]. apply String.eqb_eq in Heq.
    apply reset_variable_keeps_atom; auto.
  - unfold has_atom in *. simpl.
    apply (lookup_atom_filter (fun k => negb (containsb (atom_snapshot k) n || containsb (atom_text k) n))); auto.
    rewrite Hs, Ht. reflexivity.
Qed.

End Keep.
