(* AnchorsCodec.v — the hand-written stream model (coq/model/Codec.v, Catalog.v) against what
   tools/go2coq extracts from ast/Serializer.go, ast/Expression.go and ast/KnowledgeBase.go on
   every run (gen/CodecGen.v).  Every lemma is closed by reflexivity: a changed tag, version
   string, field order or kind in WriteMetaTo / ReadMetaFrom, a reordered or dropped section of
   the catalog frame, a write or read whose error is not returned, or an error turned into a
   nil return break a lemma here before any stream is decoded. *)
From Grule Require Import Base Syntax CodecPrim Codec Catalog CodecGen.
Open Scope Z_scope.

Lemma anchor_version : gen_version = codec_version.
Proof. reflexivity. Qed.

Lemma anchor_node_tags : gen_node_tags =
  [("TypeArgumentList"%string, Z.of_N tag_ArgumentList); ("TypeArrayMapSelector"%string, Z.of_N tag_ArrayMapSelector);
   ("TypeAssignment"%string, Z.of_N tag_Assignment); ("TypeExpression"%string, Z.of_N tag_Expression);
   ("TypeConstant"%string, Z.of_N tag_Constant); ("TypeExpressionAtom"%string, Z.of_N tag_ExpressionAtom);
   ("TypeFunctionCall"%string, Z.of_N tag_FunctionCall); ("TypeRuleEntry"%string, Z.of_N tag_RuleEntry);
   ("TypeThenExpression"%string, Z.of_N tag_ThenExpression); ("TypeThenExpressionList"%string, Z.of_N tag_ThenExpressionList);
   ("TypeThenScope"%string, Z.of_N tag_ThenScope); ("TypeVariable"%string, Z.of_N tag_Variable);
   ("TypeWhenScope"%string, Z.of_N tag_WhenScope)].
Proof. reflexivity. Qed.

(* the ValueType labels continue the iota of the NodeType block *)
Lemma anchor_value_tags : gen_value_tags =
  [("TypeString"%string, vt_String); ("TypeInteger"%string, vt_Integer); ("TypeFloat"%string, vt_Float); ("TypeBoolean"%string, vt_Boolean)].
Proof. reflexivity. Qed.

Lemma anchor_op_codes : gen_op_codes =
  [("OpMul"%string, op_code OMul); ("OpDiv"%string, op_code ODiv); ("OpMod"%string, op_code OMod); ("OpAdd"%string, op_code OAdd);
   ("OpSub"%string, op_code OSub); ("OpBitAnd"%string, op_code OBitAnd); ("OpBitOr"%string, op_code OBitOr); ("OpGT"%string, op_code OGT);
   ("OpLT"%string, op_code OLT); ("OpGTE"%string, op_code OGTE); ("OpLTE"%string, op_code OLTE); ("OpEq"%string, op_code OEq);
   ("OpNEq"%string, op_code ONEq); ("OpAnd"%string, op_code OAnd); ("OpOr"%string, op_code OOr)].
Proof. reflexivity. Qed.

Lemma anchor_op_of_code : forall o, op_of_code (op_code o) = Some o.
Proof. destruct o; reflexivity. Qed.

(* the 13 records in tag order, each with the model's field list *)
Definition model_descs : list (list (string * fkind)) :=
  map (fun t => match meta_desc t with Some d => d | None => [] end) [0; 1; 2; 3; 4; 5; 6; 7; 8; 9; 10; 11; 12]%N.

Lemma anchor_meta_write : map snd gen_meta_write = model_descs /\ map fst gen_meta_write = map fst gen_node_tags.
Proof. split; reflexivity. Qed.

Lemma anchor_meta_read : map snd gen_meta_read = model_descs /\ map fst gen_meta_read = map fst gen_node_tags.
Proof. split; reflexivity. Qed.

(* hence WriteMetaTo and ReadMetaFrom mirror each other field by field *)
Lemma anchor_write_read_mirror : gen_meta_write = gen_meta_read.
Proof. reflexivity. Qed.

(* the reader allocates, for each tag, the record type that writes this tag; all 13 tags are covered *)
Lemma anchor_read_switch :
  forallb (fun p => String.eqb (fst p) (snd p)) gen_read_switch = true /\
  forallb (fun t => existsb (String.eqb (fst t)) (map fst gen_read_switch)) gen_node_tags = true /\
  List.length gen_read_switch = 13%nat.
Proof. repeat split; reflexivity. Qed.

(* the catalog frame: Codec.encode / Codec.decode_rest are written against these sequences *)
Definition expected_catalog_write : list string := [
  "WriteStringToWriter Version"%string;
  "WriteStringToWriter cat.KnowledgeBaseName"%string;
  "WriteStringToWriter cat.KnowledgeBaseVersion"%string;
  "WriteIntToWriter uint64(len(cat.Data))"%string;
  "range cat.Data {"%string;
  "WriteStringToWriter key"%string;
  "WriteIntToWriter uint64(value.GetASTType())"%string;
  "value.WriteMetaTo "%string;
  "}"%string;
  "WriteStringToWriter cat.MemoryName"%string;
  "WriteStringToWriter cat.MemoryVersion"%string;
  "WriteIntToWriter uint64(len(cat.MemoryVariableSnapshotMap))"%string;
  "range cat.MemoryVariableSnapshotMap {"%string;
  "WriteStringToWriter key"%string;
  "WriteStringToWriter value"%string;
  "}"%string;
  "WriteIntToWriter uint64(len(cat.MemoryExpressionSnapshotMap))"%string;
  "range cat.MemoryExpressionSnapshotMap {"%string;
  "WriteStringToWriter key"%string;
  "WriteStringToWriter value"%string;
  "}"%string;
  "WriteIntToWriter uint64(len(cat.MemoryExpressionAtomSnapshotMap))"%string;
  "range cat.MemoryExpressionAtomSnapshotMap {"%string;
  "WriteStringToWriter key"%string;
  "WriteStringToWriter value"%string;
  "}"%string;
  "WriteIntToWriter uint64(len(cat.MemoryExpressionVariableMap))"%string;
  "range cat.MemoryExpressionVariableMap {"%string;
  "WriteStringToWriter key"%string;
  "WriteIntToWriter uint64(len(value))"%string;
  "range value {"%string;
  "WriteStringToWriter j"%string;
  "}"%string;
  "}"%string;
  "WriteIntToWriter uint64(len(cat.MemoryExpressionAtomVariableMap))"%string;
  "range cat.MemoryExpressionAtomVariableMap {"%string;
  "WriteStringToWriter key"%string;
  "WriteIntToWriter uint64(len(value))"%string;
  "range value {"%string;
  "WriteStringToWriter j"%string;
  "}"%string;
  "}"%string].
Definition expected_catalog_read : list string := [
  "ReadStringFromReader str"%string;
  "if str != Version"%string;
  "ReadStringFromReader cat.KnowledgeBaseName"%string;
  "ReadStringFromReader cat.KnowledgeBaseVersion"%string;
  "ReadIntFromReader count"%string;
  "for i < count {"%string;
  "ReadStringFromReader key"%string;
  "ReadIntFromReader metaType"%string;
  "switch NodeType(metaType)"%string;
  "meta.ReadMetaFrom err"%string;
  "store cat.Data[key] = meta"%string;
  "}"%string;
  "ReadStringFromReader cat.MemoryName"%string;
  "ReadStringFromReader cat.MemoryVersion"%string;
  "ReadIntFromReader count"%string;
  "for index < count {"%string;
  "ReadStringFromReader key"%string;
  "ReadStringFromReader cat.MemoryVariableSnapshotMap[key]"%string;
  "store cat.MemoryVariableSnapshotMap[key] = val"%string;
  "}"%string;
  "ReadIntFromReader count"%string;
  "for index < count {"%string;
  "ReadStringFromReader key"%string;
  "ReadStringFromReader cat.MemoryExpressionSnapshotMap[key]"%string;
  "store cat.MemoryExpressionSnapshotMap[key] = val"%string;
  "}"%string;
  "ReadIntFromReader count"%string;
  "for index < count {"%string;
  "ReadStringFromReader key"%string;
  "ReadStringFromReader cat.MemoryExpressionAtomSnapshotMap[key]"%string;
  "store cat.MemoryExpressionAtomSnapshotMap[key] = val"%string;
  "}"%string;
  "ReadIntFromReader count"%string;
  "for index < count {"%string;
  "ReadStringFromReader key"%string;
  "ReadIntFromReader incount"%string;
  "for subIndex < incount {"%string;
  "ReadStringFromReader append content"%string;
  "}"%string;
  "store cat.MemoryExpressionVariableMap[key] = content"%string;
  "}"%string;
  "ReadIntFromReader count"%string;
  "for index < count {"%string;
  "ReadStringFromReader key"%string;
  "ReadIntFromReader incount"%string;
  "for subIndex < incount {"%string;
  "ReadStringFromReader append content"%string;
  "}"%string;
  "store cat.MemoryExpressionAtomVariableMap[key] = content"%string;
  "}"%string].

Lemma anchor_catalog_write : gen_catalog_write = expected_catalog_write.
Proof. reflexivity. Qed.
Lemma anchor_catalog_read : gen_catalog_read = expected_catalog_read.
Proof. reflexivity. Qed.

(* every write's and every read's error is returned by the next statement (the failing-writer
   and the truncation theorems are about a model that propagates every error), and no error
   is turned into a nil return *)
Lemma anchor_errors_checked : gen_unchecked_errors = [].
Proof. reflexivity. Qed.
Lemma anchor_errors_not_swallowed : gen_swallowed_errors = [].
Proof. reflexivity. Qed.

(* ---- allocation (C20): no make takes its size from the stream.  The only make with a computed
   size is the string-constant rebuild of BuildKnowledgeBase, guarded by the number of bytes
   present; byte blocks of a length given by the stream are read through readBytesFromReader
   (io.CopyN into a growing bytes.Buffer, n > MaxInt64 rejected), string slices grow by append
   (anchor_meta_read / anchor_catalog_read accept both spellings of the loops; a make([]string, n)
   or make([]byte, n) with n from the stream lands in gen_length_driven_makes) ---- *)
Lemma anchor_no_length_driven_make : gen_length_driven_makes = [].
Proof. reflexivity. Qed.

Lemma anchor_guarded_makes : gen_guarded_makes =
  ["Catalog.BuildKnowledgeBase: make([]byte, dLen) after if dLen > uint64(buffer.Len()) { return }"%string].
Proof. reflexivity. Qed.

Lemma anchor_read_helper_guards : gen_read_helper_guards = ["n > math.MaxInt64"%string; "err == io.EOF"%string; "err != nil"%string].
Proof. reflexivity. Qed.

(* every raw read: fixed-size buffers through io.ReadFull, stream-sized blocks through the helper only *)
Lemma anchor_raw_reads : gen_raw_reads = [
  "Catalog.BuildKnowledgeBase: buffer.Read(length)"%string;
  "Catalog.BuildKnowledgeBase: buffer.Read(byteArr)"%string;
  "Catalog.BuildKnowledgeBase: buffer.Read(arr)"%string;
  "Catalog.BuildKnowledgeBase: buffer.Read(arr)"%string;
  "Catalog.BuildKnowledgeBase: buffer.Read(arr)"%string;
  "ConstantMeta.ReadMetaFrom: readBytesFromReader(reader, length)"%string;
  "ReadStringFromReader: io.ReadFull(reader, length)"%string;
  "ReadStringFromReader: readBytesFromReader(reader, strLen)"%string;
  "readBytesFromReader: io.CopyN(&buf, reader, int64(n))"%string;
  "ReadIntFromReader: io.ReadFull(r, byteArray)"%string;
  "ReadBoolFromReader: io.ReadFull(r, byteArray)"%string;
  "ReadFloatFromReader: io.ReadFull(r, byteArray)"%string].
Proof. reflexivity. Qed.

(* ---- removed rules (engine commit 01c7ce8): the stream has no Deleted field; BuildKnowledgeBase
   derives the flag from the rule name, and the names it recognises are the names RemoveRuleEntry
   (library and knowledge-base level) makes.  Catalog.is_tombstone_name / entries_of_catalog /
   remove_rule are written against these. ---- *)
Lemma anchor_rule_entry_deleted : gen_rule_entry_deleted = "isTombstoneName(amet.RuleName)"%string.
Proof. reflexivity. Qed.

Lemma anchor_tombstone_prefix : gen_tombstone_prefix = tombstone_prefix.
Proof. reflexivity. Qed.

Lemma anchor_tombstone_shape : gen_tombstone_shape =
  ["len(name) != len(prefix) + 36 || name[:len(prefix)] != prefix"%string; "uuid.Parse(name[len(prefix):])"%string]
  /\ uuid_length = 36%nat.
Proof. split; reflexivity. Qed.

Lemma anchor_remove_formats : gen_remove_formats =
  [(tombstone_prefix ++ "%s <- uuid.New().String()")%string; (tombstone_prefix ++ "%s <- uuid.New().String()")%string].
Proof. reflexivity. Qed.
