(* Site inventory anchor (memo): remembered values are set by Expression/ExpressionAtom.Evaluate only and cleared only by ResetAll (Execute / Fetch preamble), ResetAssigned (assignments: ResetVariable on the assigned variable and on every variable whose access path may denote the same location, Eval.reset_assigned; ResetElement delegates to it) and Reset (Forget/Changed).
   The expected list below is what the hand-written model was written against;
   tools/go2coq regenerates SitesGen.sites_memo from /repo on every run. *)
From Grule Require Import Base SitesGen.
Open Scope string_scope.

Lemma sites_memo_ok : sites_memo = [
  ("ast/BuiltInFunctions.Changed", "call .WorkingMemory Reset/1", 1%nat);
  ("ast/BuiltInFunctions.Forget", "call .WorkingMemory Reset/1", 1%nat);
  ("ast/Expression.Evaluate", "Evaluated=true", 5%nat);
  ("ast/ExpressionAtom.Evaluate", "Evaluated=true", 5%nat);
  ("ast/Variable.Assign", "call ResetAssigned", 4%nat);
  ("ast/WorkingMemory.Reset", "range variableSnapshotMap", 1%nat);
  ("ast/WorkingMemory.Reset", "call ResetVariable", 1%nat);
  ("ast/WorkingMemory.Reset", "range expressionSnapshotMap", 1%nat);
  ("ast/WorkingMemory.Reset", "Evaluated=false", 2%nat);
  ("ast/WorkingMemory.Reset", "range expressionAtomSnapshotMap", 1%nat);
  ("ast/WorkingMemory.ResetVariable", "range local", 2%nat);
  ("ast/WorkingMemory.ResetVariable", "Evaluated=false", 2%nat);
  ("ast/WorkingMemory.ResetAssigned", "call ResetVariable", 2%nat);
  ("ast/WorkingMemory.ResetAssigned", "range variableSnapshotMap", 1%nat);
  ("ast/WorkingMemory.ResetElement", "call ResetAssigned", 1%nat);
  ("ast/WorkingMemory.ResetAll", "range expressionSnapshotMap", 1%nat);
  ("ast/WorkingMemory.ResetAll", "Evaluated=false", 2%nat);
  ("ast/WorkingMemory.ResetAll", "range expressionAtomSnapshotMap", 1%nat);
  ("engine/GruleEngine.ExecuteWithContext", "call ResetAll", 1%nat);
  ("engine/GruleEngine.ExecuteWithContext", "call Reset/0", 1%nat);
  ("engine/GruleEngine.FetchMatchingRules", "call ResetAll", 1%nat);
  ("engine/GruleEngine.FetchMatchingRules", "call Reset/0", 1%nat)].
Proof. reflexivity. Qed.
