(* JsonParse.v — the text the JSON translator produces for a well-formed typed
   rule is accepted by the parser model and denotes exactly [rule_of]. *)
From Grule Require Import Base Syntax Lexer Parser GrlPrint LexProofs ParserProofs JsonRule JsonProofs.
Open Scope Z_scope.

(* ------------------------------------------------------------------------ *)
(* 1. the translator on typed trees, as text                                  *)

Definition jop_sep (o : jop) : string :=
  match o with
  | JEq => " == " | JNe => " != " | JGt => " > " | JGte => " >= " | JLt => " < " | JLte => " <= "
  | JBor => " | " | JBand => " & " | JPlus => " + " | JMinus => " - " | JDiv => " / " | JMul => " * "
  | JMod => " % " | JAnd => " && " | JOr => " || "
  end%string.

Definition is_ne (o : jop) : bool := match o with JNe => true | _ => false end.
Definition nowrap (x : jx) : bool := match x with XOp _ _ => false | _ => true end.
Definition is_objx (x : jx) : bool := match x with XPlain _ | XNum _ | XBool _ => false | _ => true end.

Definition wrap_text (neg : bool) (s : string) : string :=
  ((if neg then "!(" else "(") ++ s ++ ")")%string.

Fixpoint xtext (deep : bool) (x : jx) : string :=
  match x with
  | XPlain a => atom_text_sp a
  | XNum z => show_z z
  | XBool b => bool_text b
  | XObj a => atom_text_sp a
  | XConstS s => quote s
  | XConstN z => show_z z
  | XConstB b => bool_text b
  | XOp o args =>
      if is_compound o then
        let body := str_join (jop_sep o) (elems_text args) in
        if deep then ("(" ++ body ++ ")")%string else body
      else str_join (jop_sep o) (opnds_text (neg_flag o args) args)
  | XCall h args => (head_text h ++ "(" ++ str_join ", " (args_text args) ++ ")")%string
  end
with elems_text (l : jxs) : list string :=
  match l with XNil => [] | XCons x l' => xtext true x :: elems_text l' end
with opnds_text (neg : bool) (l : jxs) : list string :=
  match l with
  | XNil => []
  | XCons x l' => (match x with
                   | XOp _ _ => wrap_text neg (xtext false x)
                   | XNum _ => xtext false x
                   | _ => if neg then wrap_text true (xtext false x) else xtext false x
                   end) :: opnds_text neg l'
  end
with args_text (l : jxs) : list string :=
  match l with XNil => [] | XCons x l' => xtext false x :: args_text l' end.

(* nesting of and / or directly inside and / or (the translator's depth counter) *)
Fixpoint cnest (x : jx) : nat :=
  match x with
  | XOp o args => if is_compound o then S (cnest_l args) else O
  | _ => O
  end
with cnest_l (l : jxs) : nat :=
  match l with XNil => O | XCons x l' => Nat.max (cnest x) (cnest_l l') end.

Fixpoint all_obj (l : jxs) : bool :=
  match l with XNil => true | XCons x l' => is_objx x && all_obj l' end.

Definition wf_head (h : chead) : bool :=
  match h with
  | HFun f => wf_ident f
  | HMeth recv m => wf_atom recv && negb (is_aneg recv) && wf_ident m
  end.

Definition first_is_xop (l : jxs) : bool := match l with XCons (XOp _ _) _ => true | _ => false end.

(* well-formed typed trees: what the theorem quantifies over.  Every join operator
   has two or more operands, "not" one or more (its lone operand is negated), and / or
   two or more objects - the translator rejects anything else; plain atoms are
   well-formed, numbers fit 64 bits, and / or are nested at most 1000 deep (the
   translator's own limit is 1024). *)
Fixpoint wfj (x : jx) : bool :=
  match x with
  | XPlain a => wf_atom a
  | XNum z => in_i64 z
  | XBool _ => true
  | XObj a => wf_atom a
  | XConstS _ => true
  | XConstN z => in_i64 z
  | XConstB _ => true
  | XOp o args =>
      wfjs args && Nat.leb (cnest (XOp o args)) 1000 &&
      (if is_compound o then Nat.leb 2 (jxs_len args) && all_obj args
       else match o with
            | JNe => Nat.leb 1 (jxs_len args)
            | _ => Nat.leb 2 (jxs_len args)
            end)
  | XCall h args => wf_head h && wfjs args
  end
with wfjs (l : jxs) : bool :=
  match l with XNil => true | XCons x l' => wfj x && wfjs l' end.

(* ------------------------------------------------------------------------ *)
(* 2. the raw translator computes that text                                   *)

Lemma bex_join : forall o v d, is_compound o = false ->
  bex (JObj [(jop_key o, v)]) d =
  if 1024 <? d then Err else
  match v with
  | JArr l => match l with
              | [] => Err
              | _ :: _ =>
                  if Nat.eqb (List.length l) 1 && negb (is_ne o) then Err else
                  match map_res (operand_text bex false (is_ne o && Nat.eqb (List.length l) 1)) l with
                  | Ok es => Ok (str_join (jop_sep o) es, false)
                  | Err => Err | Panic => Panic
                  end
              end
  | _ => Err
  end.
Proof. intros o v d H. destruct o; try discriminate; reflexivity. Qed.

Lemma match_nonnil : forall {A B : Type} (l : list A) (e b : B), l <> [] ->
  match l with [] => e | _ :: _ => b end = b.
Proof. intros A B [|x l] e b H; [contradiction|reflexivity]. Qed.

Lemma bex_comp : forall o v d, is_compound o = true ->
  bex (JObj [(jop_key o, v)]) d =
  if 1024 <? d then Err else
  match v with
  | JArr l =>
      if (List.length l <? 2)%nat then Err else
      match map_res (fun x => match x with
                              | JObj _ => match bex x (d + 1) with Ok (e, _) => Ok e | Err => Err | Panic => Panic end
                              | _ => Err
                              end) l with
      | Ok es => let body := str_join (jop_sep o) es in
                 if 0 <? d then Ok (("(" ++ body ++ ")")%string, false) else Ok (body, false)
      | Err => Err | Panic => Panic
      end
  | _ => Err
  end.
Proof. intros o v d H. destruct o; try discriminate; reflexivity. Qed.

Lemma bex_call : forall f args d,
  bex (JObj [("call"%string, JArr (JStr f :: args))]) d =
  if 1024 <? d then Err else
  match map_res (call_operand_text bex) args with
  | Ok es => Ok ((f ++ "(" ++ str_join ", " es ++ ")")%string, true)
  | Err => Err | Panic => Panic
  end.
Proof. reflexivity. Qed.

Lemma xs_json_length : forall l, List.length (xs_json l) = jxs_len l.
Proof. induction l; cbn [xs_json List.length jxs_len]; congruence. Qed.

Lemma render_nonempty : forall t ts, String.eqb (render (t :: ts)) "" = false.
Proof.
  intros t ts. cbn [render]. destruct (token_text t ++ String (chr 32) (render ts))%string eqn:E; [|reflexivity].
  destruct (token_text t); discriminate.
Qed.

Lemma atom_text_nonempty : forall a, String.eqb (atom_text_sp a) "" = false.
Proof.
  intros a. unfold atom_text_sp. destruct (atoks_head a []) as (t & xs & -> & _). apply render_nonempty.
Qed.

Definition fits (d : Z) (n : nat) : Prop := 0 <= d /\ d + Z.of_nat n <= 1024.

Lemma bex_typed :
  (forall x, wfj x = true -> is_objx x = true -> forall d, fits d (cnest x) ->
     bex (x_json x) d = Ok (xtext (0 <? d) x, nowrap x)) /\
  (forall l, wfjs l = true ->
     (all_obj l = true -> forall d, fits d (S (cnest_l l)) ->
        map_res (fun x => match x with
                          | JObj _ => match bex x (d + 1) with Ok (e, _) => Ok e | Err => Err | Panic => Panic end
                          | _ => Err
                          end) (xs_json l) = Ok (elems_text l)) /\
     (forall neg, map_res (operand_text bex false neg) (xs_json l) = Ok (opnds_text neg l)) /\
     map_res (call_operand_text bex) (xs_json l) = Ok (args_text l)).
Proof.
  apply jx_mutind; intros; cbn [is_objx] in *; try discriminate.
  - (* obj *) destruct H1 as [H1 H2]. cbn [x_json xtext nowrap cnest] in *. cbn [bex].
    destruct (Z.ltb_spec 1024 d); [lia|]. reflexivity.
  - destruct H1 as [H1 H2]. cbn [x_json xtext nowrap cnest] in *. cbn [bex].
    destruct (Z.ltb_spec 1024 d); [lia|]. reflexivity.
  - destruct H1 as [H1 H2]. cbn [x_json xtext nowrap cnest] in *. cbn [bex].
    destruct (Z.ltb_spec 1024 d); [lia|]. reflexivity.
  - destruct H1 as [H1 H2]. cbn [x_json xtext nowrap cnest] in *. cbn [bex].
    destruct (Z.ltb_spec 1024 d); [lia|]. reflexivity.
  - (* operator *)
    cbn [wfj] in H0. apply andb_true_iff in H0 as [H0 Hshape]. apply andb_true_iff in H0 as [Hl Hn].
    destruct (H Hl) as (He & Hop & _). destruct H2 as [D1 D2].
    cbn [x_json xtext nowrap].
    destruct (is_compound o) eqn:Ec.
    + rewrite bex_comp by assumption. destruct (Z.ltb_spec 1024 d); [lia|].
      apply andb_true_iff in Hshape as [Hlen Hobj]. apply Nat.leb_le in Hlen.
      rewrite xs_json_length. destruct (Nat.ltb_spec (jxs_len args) 2); [lia|].
      cbn [cnest] in D2. rewrite Ec in D2.
      rewrite (He Hobj d) by (split; lia). cbv zeta. destruct (0 <? d); reflexivity.
    + rewrite bex_join by assumption. destruct (Z.ltb_spec 1024 d); [lia|].
      assert (Hne : xs_json args <> []).
      { destruct args; [|discriminate]. destruct o; cbn in Hshape; discriminate. }
      assert (Hflag : is_ne o && Nat.eqb (jxs_len args) 1 = neg_flag o args).
      { destruct o; try reflexivity. destruct args as [|? [|? ?]]; reflexivity. }
      assert (Hlone : Nat.eqb (jxs_len args) 1 && negb (is_ne o) = false).
      { destruct o; try discriminate; cbn [is_ne negb]; try apply andb_false_r;
          rewrite andb_true_r; apply Nat.leb_le in Hshape; apply Nat.eqb_neq; lia. }
      rewrite (match_nonnil _ _ _ Hne), xs_json_length, Hlone, Hflag, Hop. reflexivity.
  - (* call *)
    cbn [wfj] in H0. apply andb_true_iff in H0 as [Hh Hl]. destruct (H Hl) as (_ & _ & Ha). destruct H2 as [D1 D2].
    cbn [x_json xtext nowrap]. rewrite bex_call. destruct (Z.ltb_spec 1024 d); [lia|]. rewrite Ha. reflexivity.
  - (* nil *)
    repeat split; reflexivity.
  - (* cons *)
    cbn [wfjs] in H1. apply andb_true_iff in H1 as [Hx Hl]. destruct (H0 Hl) as (He & Hop & Ha).
    split; [|split].
    + intros Hobj d D. cbn [all_obj] in Hobj. apply andb_true_iff in Hobj as [Ox Ol].
      cbn [xs_json elems_text cnest_l map_res] in *. destruct D as [D1 D2].
      assert (Hb : bex (x_json x) (d + 1) = Ok (xtext true x, nowrap x)).
      { assert (E : (0 <? d + 1) = true) by (apply Z.ltb_lt; lia).
        pose proof (H Hx Ox (d + 1)) as Hb. rewrite E in Hb. apply Hb. split; lia. }
      destruct x; try discriminate; cbn [x_json] in *; rewrite Hb; rewrite (He Ol d) by (split; lia); reflexivity.
    + intros neg. cbn [xs_json opnds_text map_res]. rewrite (Hop neg).
      assert (Hb : is_objx x = true -> bex (x_json x) 0 = Ok (xtext false x, nowrap x)).
      { intros Ho. apply (H Hx Ho 0). destruct x; try (split; cbn; lia).
        cbn [wfj] in Hx. apply andb_true_iff in Hx as [Hx _]. apply andb_true_iff in Hx as [_ Hn].
        apply Nat.leb_le in Hn. split; lia. }
      destruct x; cbn [x_json operand_text is_objx] in *; try reflexivity;
        rewrite (Hb eq_refl); cbn [nowrap orb xtext]; unfold wrap_text; try destruct neg; reflexivity.
    + cbn [xs_json args_text map_res]. rewrite Ha.
      assert (Hb : is_objx x = true -> bex (x_json x) 0 = Ok (xtext false x, nowrap x)).
      { intros Ho. apply (H Hx Ho 0). destruct x; try (split; cbn; lia).
        cbn [wfj] in Hx. apply andb_true_iff in Hx as [Hx _]. apply andb_true_iff in Hx as [_ Hn].
        apply Nat.leb_le in Hn. split; lia. }
      destruct x; cbn [x_json call_operand_text is_objx] in *; try reflexivity;
        try (rewrite (Hb eq_refl); reflexivity).
      cbn [xtext]. rewrite atom_text_nonempty. reflexivity.
Qed.

(* ------------------------------------------------------------------------ *)
(* 3. that text lexes to the tokens of the expected tree                      *)

(* text, followed by a delimiter, lexes to toks followed by what the rest lexes to *)
Definition XT (text : string) (toks : list token -> list token) : Prop :=
  forall x rest ts, dl x = true -> Lx (String x rest) ts -> Lx (text ++ String x rest) (toks ts).

Lemma XT_render : forall ts0, forallb tok_ok ts0 = true -> XT (render ts0) (fun k => ts0 ++ k)%list.
Proof. intros ts0 H x rest ts Hx HL. apply Lx_render; assumption. Qed.

Lemma XT_ext : forall text f g, (forall k, f k = g k) -> XT text f -> XT text g.
Proof. intros text f g E H x rest ts Hx HL. rewrite <- E. apply H; assumption. Qed.

Lemma XT_tok : forall t, tok_ok t = true -> XT (token_text t) (fun k => t :: k).
Proof. intros t Ht x rest ts Hx HL. apply Lx_tok_dl; assumption. Qed.

Lemma XT_atom : forall a, wf_atom a = true -> XT (atom_text_sp a) (atoks a).
Proof.
  intros a H. unfold atom_text_sp. eapply XT_ext; [|apply XT_render].
  - intros k. symmetry. apply atoks_app.
  - destruct toks_ok as (_ & Ha & _). apply Ha; auto.
Qed.

Lemma show_dec_first : forall z, 0 <= z -> exists c ds, show_dec z = String c ds /\ code c <> 61.
Proof.
  intros z Hz. destruct (show_dec_spec z Hz) as (c & ds & E & C1 & _). exists c, ds. split; [assumption|].
  unfold is_digit in C1. apply andb_true_iff in C1 as [A B]. apply Z.leb_le in A, B. lia.
Qed.

Lemma XT_int : forall z, in_i64 z = true -> XT (show_z z) (const_toks (CInt z)).
Proof.
  intros z Hz x rest ts Hx HL. unfold show_z. cbn [const_toks]. destruct (Z.ltb_spec z 0).
  - assert (Hp : 0 <= - z) by lia.
    destruct (show_dec_first (- z) Hp) as (c & ds & E & Hc).
    pose proof (Lx_tok_dl (TInt (- z)) x rest ts) as HT. cbn [tok_ok token_text] in HT.
    specialize (HT ltac:(apply Z.leb_le; lia) Hx HL). rewrite E in *. cbn [append] in *.
    apply (Lx_tok TMinus c (ds ++ String x rest) (TInt (- z) :: ts) eq_refl); [|exact HT].
    cbn [sep_ok]. apply negb_true_iff. apply Z.eqb_neq. exact Hc.
  - apply (Lx_tok_dl (TInt z)); auto. cbn [tok_ok]. apply Z.leb_le. lia.
Qed.

Lemma XT_bool : forall b, XT (bool_text b) (const_toks (CBool b)).
Proof. intros [|]; [apply (XT_tok TTrue)|apply (XT_tok TFalse)]; reflexivity. Qed.

Lemma XT_quote : forall s, XT (quote s) (const_toks (CStr s)).
Proof.
  intros s. apply (XT_tok (TStr true (quote_body s))). cbn [tok_ok]. apply desc_ok_quote_body.
Qed.

Lemma jop_sep_spec : forall o, jop_sep o =
  String (chr 32) (token_text (op_token (jop_op o)) ++ String (chr 32) EmptyString).
Proof. destruct o; reflexivity. Qed.

Lemma XT_bin : forall o ta fa tb fb, XT ta fa -> XT tb fb ->
  XT (ta ++ jop_sep o ++ tb) (fun k => fa (op_token (jop_op o) :: fb k)).
Proof.
  intros o ta fa tb fb Ha Hb x rest ts Hx HL.
  rewrite jop_sep_spec. rewrite !str_app_assoc. cbn [append]. rewrite str_app_assoc. cbn [append].
  apply Ha; [reflexivity|]. apply Lx_ws; [reflexivity|].
  apply Lx_tok_dl; [destruct o; reflexivity|reflexivity|]. apply Lx_ws; [reflexivity|].
  apply Hb; assumption.
Qed.

Lemma XT_wrap : forall neg ta fa, XT ta fa ->
  XT (wrap_text neg ta) (fun k => if neg then TNot :: TLParen :: fa (TRParen :: k) else TLParen :: fa (TRParen :: k)).
Proof.
  intros neg ta fa Ha x rest ts Hx HL. unfold wrap_text.
  assert (Hin : Lx (ta ++ String (chr 41) (String x rest)) (fa (TRParen :: ts))).
  { apply Ha; [reflexivity|]. apply (Lx_tok TRParen x rest ts eq_refl eq_refl HL). }
  destruct ta as [|c ta'] eqn:Eta.
  - (* an empty text cannot lex to anything useful, but the statement still holds *)
    cbn [append] in *. destruct neg; cbn [append].
    + apply (Lx_tok TNot (chr 40) _ _ eq_refl eq_refl). apply (Lx_tok TLParen (chr 41) _ _ eq_refl eq_refl). exact Hin.
    + apply (Lx_tok TLParen (chr 41) _ _ eq_refl eq_refl). exact Hin.
  - rewrite <- Eta in *. destruct neg; rewrite !str_app_assoc; cbn [append]; rewrite Eta in *; cbn [append] in *.
    + apply (Lx_tok TNot (chr 40) _ _ eq_refl eq_refl). apply (Lx_tok TLParen c _ _ eq_refl eq_refl). exact Hin.
    + apply (Lx_tok TLParen c _ _ eq_refl eq_refl). exact Hin.
Qed.

Definition XTs (texts : list string) (es : list expr) : Prop :=
  Forall2 (fun t e => XT t (etoks e)) texts es.

Lemma str_join_cons2 : forall sep a b l,
  str_join sep (a :: b :: l) = str_join sep ((a ++ sep ++ b)%string :: l).
Proof.
  intros sep a b [|c l].
  - reflexivity.
  - cbn [str_join]. rewrite !str_app_assoc. reflexivity.
Qed.

Lemma XT_fold : forall o texts es acc_t acc_e, XT acc_t (etoks acc_e) -> XTs texts es ->
  XT (str_join (jop_sep o) (acc_t :: texts)) (etoks (fold_bin (jop_op o) acc_e es)).
Proof.
  intros o texts es acc_t acc_e Hacc H. revert acc_t acc_e Hacc.
  induction H as [|t e texts es Hte _ IH]; intros acc_t acc_e Hacc.
  - exact Hacc.
  - rewrite str_join_cons2. cbn [fold_bin]. apply IH.
    eapply XT_ext; [|apply (XT_bin o _ _ _ _ Hacc Hte)]. intros k. reflexivity.
Qed.

Lemma XT_join : forall o texts es, XTs texts es -> es <> [] ->
  XT (str_join (jop_sep o) texts) (etoks (join_exprs (jop_op o) es)).
Proof.
  intros o texts es H Hne. destruct H as [|t e texts es Hte H]; [contradiction|].
  cbn [join_exprs]. apply XT_fold; assumption.
Qed.

(* call arguments: e1, e2, ... followed by ")" *)
Lemma XT_args : forall texts l, XTs texts (elist_to_list l) ->
  forall x rest ts, Lx (String x rest) ts ->
  Lx (str_join ", " texts ++ String (chr 41) (String x rest)) (ltoks l (TRParen :: ts)).
Proof.
  intros texts l H. remember (elist_to_list l) as es eqn:El. revert l El.
  induction H as [|t e texts es Hte Hrest IH]; intros l El x rest ts HL.
  - destruct l; [|discriminate]. cbn [str_join append ltoks].
    apply (Lx_tok TRParen x rest ts eq_refl eq_refl HL).
  - destruct l as [|e' l']; [discriminate|]. cbn [elist_to_list] in El. injection El as E1 E2. subst e'.
    destruct Hrest as [|t2 e2 texts2 es2 Hte2 Hrest2].
    + destruct l'; [|discriminate]. cbn [str_join ltoks].
      apply Hte; [reflexivity|]. apply (Lx_tok TRParen x rest ts eq_refl eq_refl HL).
    + destruct l' as [|e2' l'']; [discriminate|].
      change (str_join ", " (t :: t2 :: texts2)) with (t ++ ", " ++ str_join ", " (t2 :: texts2))%string.
      change (ltoks (ECons e (ECons e2' l'')) (TRParen :: ts)) with (etoks e (TComma :: ltoks (ECons e2' l'') (TRParen :: ts))).
      rewrite !str_app_assoc. cbn [append].
      apply Hte; [reflexivity|].
      apply (Lx_tok TComma (chr 32) _ _ eq_refl eq_refl). apply Lx_ws; [reflexivity|].
      apply (IH (ECons e2' l'') E2 x rest ts HL).
Qed.

Lemma head_toks_ok : forall h, wf_head h = true ->
  forallb tok_ok (match h with HFun f => [TName f] | HMeth recv m => atoks recv [TDot; TName m] end) = true.
Proof.
  intros [f|recv m] H; cbn [wf_head] in H.
  - cbn [forallb tok_ok]. rewrite H. reflexivity.
  - apply andb_true_iff in H as [H Hm]. apply andb_true_iff in H as [Hr _].
    destruct toks_ok as (_ & Ha & _). apply Ha; auto. cbn [forallb tok_ok]. rewrite Hm. reflexivity.
Qed.

Lemma call_atom_toks : forall h args k,
  atoks (call_atom h args) k =
  ((match h with HFun f => [TName f] | HMeth recv m => atoks recv [TDot; TName m] end) ++
   TLParen :: ltoks args (TRParen :: k))%list.
Proof.
  intros [f|recv m] args k; cbn [call_atom atoks].
  - reflexivity.
  - rewrite atoks_app, (atoks_app recv [TDot; TName m]), <- app_assoc. reflexivity.
Qed.

Lemma XT_call : forall h texts args, wf_head h = true -> XTs texts (elist_to_list args) ->
  XT (head_text h ++ "(" ++ str_join ", " texts ++ ")") (atoks (call_atom h args)).
Proof.
  intros h texts args Hh Ha x rest ts Hx HL.
  rewrite call_atom_toks.
  assert (Et : head_text h = render (match h with HFun f => [TName f] | HMeth recv m => atoks recv [TDot; TName m] end))
    by (destruct h; reflexivity).
  rewrite Et. rewrite !str_app_assoc. cbn [append].
  apply Lx_render; [apply head_toks_ok; assumption|].
  assert (Hin : Lx (str_join ", " texts ++ String (chr 41) (String x rest)) (ltoks args (TRParen :: ts))).
  { apply (XT_args texts args); assumption. }
  change (chr 41) with ")"%char in Hin.
  destruct (str_join ", " texts ++ String ")"%char (String x rest))%string as [|c s] eqn:E.
  - destruct (str_join ", " texts); discriminate.
  - apply (Lx_tok TLParen c s _ eq_refl eq_refl). exact Hin.
Qed.

Lemma xs_args_list : forall l, elist_to_list (xs_args l) = jxs_map (x_top false) l.
Proof. induction l; cbn [xs_args elist_to_list jxs_map]; congruence. Qed.

Definition opnd_expr (neg : bool) (x : jx) : expr :=
  match x with XOp _ _ => EParen neg (x_top false x) | _ => x_top false x end.

Lemma xtext_lex :
  (forall x, wfj x = true -> forall deep, XT (xtext deep x) (etoks (x_top deep x))) /\
  (forall l, wfjs l = true ->
     XTs (elems_text l) (xs_elems l) /\
     (forall neg, XTs (opnds_text neg l) (xs_opnds neg l)) /\
     XTs (args_text l) (elist_to_list (xs_args l))).
Proof.
  apply jx_mutind; intros; cbn [xtext x_top etoks wfj] in *.
  - apply XT_atom. assumption.
  - apply XT_int. assumption.
  - apply XT_bool.
  - apply XT_atom. assumption.
  - apply XT_quote.
  - apply XT_int. assumption.
  - apply XT_bool.
  - (* operator *)
    apply andb_true_iff in H0 as [H0 Hshape]. apply andb_true_iff in H0 as [Hl _].
    destruct (H Hl) as (He & Hop & _).
    destruct (is_compound o) eqn:Ec.
    + apply andb_true_iff in Hshape as [Hlen _]. apply Nat.leb_le in Hlen.
      assert (Hne : xs_elems args <> []) by (destruct args; [cbn in Hlen; lia|discriminate]).
      pose proof (XT_join o _ _ He Hne) as J.
      destruct deep; [|exact J].
      eapply XT_ext; [|apply (XT_wrap false _ _ J)]. intros k. reflexivity.
    + assert (Hne : xs_opnds (neg_flag o args) args <> []).
      { destruct args; [|discriminate]. destruct o; cbn in Hshape; discriminate. }
      apply XT_join; auto.
  - (* call *)
    apply andb_true_iff in H0 as [Hh Hl]. destruct (H Hl) as (_ & _ & Ha).
    apply XT_call; assumption.
  - repeat split; constructor.
  - cbn [wfjs] in H1. apply andb_true_iff in H1 as [Hx Hl]. destruct (H0 Hl) as (He & Hop & Ha).
    repeat split.
    + cbn [elems_text xs_elems]. constructor; [apply H; assumption|assumption].
    + intros neg. cbn [opnds_text xs_opnds]. constructor; [|apply Hop].
      assert (Hw : forall ng, XT (wrap_text ng (xtext false x)) (etoks (EParen ng (x_top false x)))).
      { intros ng. eapply XT_ext; [|apply (XT_wrap ng _ _ (H Hx false))]. intros k. destruct ng; reflexivity. }
      destruct x; try (apply H; assumption); try (destruct neg; [apply Hw|apply H; assumption]).
      apply Hw.
    + cbn [args_text xs_args elist_to_list]. constructor; [apply H; assumption|assumption].
Qed.

(* ------------------------------------------------------------------------ *)
(* 4. actions and the rule frame                                              *)

Definition wf_jst (t : jst) : bool :=
  match t with
  | TPlain s semi => semi && wf_stmt s
  | TSet x _ rhs => wf_var x && wfj rhs
  | TCall h args => wf_head h && wfjs args
  end.

Definition wf_jcond (w : jcond) : bool :=
  match w with WPlain e => wf_expr e | WTree x => wfj x && is_objx x end.

(* the typed rules the theorem quantifies over *)
Definition wf_trule (r : trule) : bool :=
  wf_ident (tname r) && in_i32 (tsal r) && wf_jcond (twhen r) && forallb wf_jst (tthen r) &&
  negb (match tthen r with [] => true | _ => false end).

(* text of one action, without the final ";" *)
Definition st_text (t : jst) : string :=
  match t with
  | TPlain s _ => render (removelast (stoks s []))
  | TSet x _ rhs => (render (vtoks x []) ++ " = " ++ xtext false rhs)%string
  | TCall h args => (head_text h ++ "(" ++ str_join ", " (args_text args) ++ ")")%string
  end.

Lemma render_app : forall a b, render (a ++ b)%list = (render a ++ render b)%string.
Proof. induction a; intros; cbn [app render append]; [reflexivity|]. rewrite IHa, str_app_assoc. reflexivity. Qed.

Lemma drop_last_snoc : forall s c, drop_last (s ++ String c EmptyString) = s.
Proof.
  induction s as [|d s IH]; intros c; [reflexivity|]. cbn [append drop_last].
  destruct (s ++ String c EmptyString)%string eqn:E; [destruct s; discriminate|]. rewrite <- E, IH. reflexivity.
Qed.

Lemma get_last : forall s c, String.get (String.length s) (s ++ String c EmptyString) = Some c.
Proof. induction s; intros; cbn; [reflexivity|apply IHs]. Qed.

Lemma has_suffix_semi_snoc : forall s, has_suffix_semi (s ++ String (chr 59) EmptyString) = true.
Proof.
  intros s. unfold has_suffix_semi. rewrite str_app_length. cbn [String.length]. rewrite Nat.add_1_r.
  rewrite get_last. reflexivity.
Qed.

Lemma stoks_semi : forall s, exists ts, stoks s [] = (ts ++ [TSemi])%list.
Proof.
  intros [x o e|a]; cbn [stoks].
  - exists (vtoks x (asg_token o :: etoks e [])). rewrite vtoks_app, (vtoks_app x (_ :: etoks e [])), <- app_assoc.
    cbn [app]. rewrite etoks_app. rewrite (etoks_app e []) at 2. rewrite app_nil_r. reflexivity.
  - exists (atoks a []). rewrite atoks_app. reflexivity.
Qed.

Lemma plain_stmt_text : forall s,
  drop_last (render (stoks s [])) = (render (removelast (stoks s [])) ++ ";")%string.
Proof.
  intros s. destruct (stoks_semi s) as (ts & E). rewrite E, removelast_last, render_app.
  cbn [render]. change (token_text TSemi ++ String (chr 32) EmptyString)%string with (";" ++ String (chr 32) EmptyString)%string.
  rewrite <- str_app_assoc. apply drop_last_snoc.
Qed.

Lemma bex_set : forall l r d,
  bex (JObj [("set"%string, JArr [l; r])]) d =
  if 1024 <? d then Err else
  match operand_text bex true false l with
  | Ok ls => match operand_text bex true false r with
             | Ok rs => Ok ((ls ++ " = " ++ rs)%string, true)
             | Err => Err | Panic => Panic
             end
  | Err => Err | Panic => Panic
  end.
Proof. reflexivity. Qed.

Lemma fits0 : forall x, wfj x = true -> fits 0 (cnest x).
Proof.
  intros x H. destruct x; try (split; cbn; lia).
  cbn [wfj] in H. apply andb_true_iff in H as [H _]. apply andb_true_iff in H as [_ Hn].
  apply Nat.leb_le in Hn. split; lia.
Qed.

Lemma operand_nowrap_typed : forall x, wfj x = true ->
  operand_text bex true false (x_json x) = Ok (xtext false x).
Proof.
  intros x H. pose proof (proj1 bex_typed x H) as Hb.
  destruct x; cbn [x_json operand_text is_objx] in *; try reflexivity;
    rewrite (Hb eq_refl 0 (fits0 _ H)); cbn [nowrap orb]; rewrite ?orb_true_r; reflexivity.
Qed.

Lemma then_item_typed : forall t, wf_jst t = true -> then_item_text (st_json t) = Ok (st_text t ++ ";")%string.
Proof.
  intros [s semi|x as_obj rhs|h args] H; cbn [wf_jst] in H.
  - apply andb_true_iff in H as [-> _]. cbn [st_json then_item_text st_text].
    rewrite plain_stmt_text. change ";"%string with (String (chr 59) EmptyString).
    rewrite has_suffix_semi_snoc. reflexivity.
  - apply andb_true_iff in H as [Hx Hr]. cbn [st_json then_item_text st_text]. rewrite bex_set.
    change (1024 <? 0) with false. cbn iota.
    assert (Hl : operand_text bex true false
                   (if as_obj then JObj [("obj"%string, JStr (render (vtoks x [])))] else JStr (render (vtoks x [])))
                 = Ok (render (vtoks x []))) by (destruct as_obj; reflexivity).
    rewrite Hl, (operand_nowrap_typed rhs Hr). reflexivity.
  - apply andb_true_iff in H as [Hh Ha]. cbn [st_json then_item_text st_text]. rewrite bex_call.
    change (1024 <? 0) with false. cbn iota.
    destruct (proj2 bex_typed args Ha) as (_ & _ & Hargs). rewrite Hargs. reflexivity.
Qed.

Lemma then_items_typed : forall l, forallb wf_jst l = true ->
  map_res then_item_text (map st_json l) = Ok (map (fun t => st_text t ++ ";")%string l).
Proof.
  induction l as [|t l IH]; intros H; [reflexivity|]. cbn [forallb] in H. apply andb_true_iff in H as [Ht Hl].
  cbn [map map_res]. rewrite (then_item_typed t Ht), (IH Hl). reflexivity.
Qed.

Definition cond_text (w : jcond) : string :=
  match w with WPlain e => render (etoks e []) | WTree x => xtext false x end.

Lemma when_typed : forall w, wf_jcond w = true -> when_text (cond_json w) = Ok (cond_text w).
Proof.
  intros [e|x] H; [reflexivity|]. cbn [wf_jcond] in H. apply andb_true_iff in H as [Hw Ho].
  cbn [cond_json cond_text]. pose proof (proj1 bex_typed x Hw Ho 0 (fits0 x Hw)) as Hb.
  destruct x; try discriminate; cbn [x_json when_text] in *; rewrite Hb; reflexivity.
Qed.

Definition rule_text (r : trule) : string :=
  ("rule " ++ tname r ++ " " ++ quote (tdesc r) ++ " salience " ++ show_z (tsal r) ++ " {" ++ nl ++
   "    when" ++ nl ++ "        " ++ cond_text (twhen r) ++ nl ++ "    then" ++ nl ++
   str_concat (map (fun t => "        " ++ (st_text t ++ ";") ++ nl) (tthen r)) ++ "}" ++ nl)%string.

Lemma wf_ident_nonempty : forall s, wf_ident s = true -> String.eqb s "" = false.
Proof. intros [|c s] H; [discriminate|reflexivity]. Qed.

Lemma cond_json_not_null : forall w, wf_jcond w = true ->
  match cond_json w with JNull => False | _ => True end.
Proof. intros [e|x] H; [exact I|]. cbn [wf_jcond] in H. apply andb_true_iff in H as [_ Ho]. destruct x; try discriminate; exact I. Qed.

(* the translator accepts every well-formed typed rule and emits rule_text *)
Theorem translate_typed : forall r, wf_trule r = true -> translate (rule_json r) = Ok (rule_text r).
Proof.
  intros r H. unfold wf_trule in H. repeat (apply andb_true_iff in H as [H ?]).
  unfold translate. cbn [rule_json jname jdesc jsal jwhen jthen].
  rewrite (wf_ident_nonempty _ H).
  pose proof (cond_json_not_null _ H2) as Hnn.
  rewrite (when_typed _ H2), (then_items_typed _ H1).
  unfold rule_text. rewrite map_map.
  destruct (cond_json (twhen r)); try reflexivity. contradiction.
Qed.

(* ------------------------------------------------------------------------ *)
(* 5. the rule text lexes to the tokens of rule_of                            *)

Definition nlc : ascii := chr 10.

Lemma Lx_semi_nl : forall rest ts, Lx rest ts -> Lx (String (chr 59) (String nlc rest)) (TSemi :: ts).
Proof.
  intros rest ts H. apply (Lx_tok TSemi nlc rest ts eq_refl eq_refl). apply Lx_ws; [reflexivity|exact H].
Qed.

Lemma forallb_app_l : forall {A} (f : A -> bool) a b, forallb f (a ++ b)%list = true -> forallb f a = true.
Proof. intros A f a b H. rewrite forallb_app in H. apply andb_true_iff in H. tauto. Qed.

Lemma st_lex : forall t, wf_jst t = true -> forall rest ts, Lx rest ts ->
  Lx ((st_text t ++ ";") ++ String nlc rest) (stoks (st_of t) ts).
Proof.
  intros [s semi|x as_obj rhs|h args] H rest ts HL; cbn [wf_jst] in H; cbn [st_text st_of].
  - apply andb_true_iff in H as [_ Hs].
    destruct (stoks_semi s) as (ts0 & E).
    rewrite (stoks_app s ts), E, removelast_last, <- app_assoc. cbn [app].
    rewrite str_app_assoc. cbn [append].
    apply Lx_render.
    + pose proof (stoks_ok s [] Hs eq_refl) as Hok. rewrite E in Hok. apply (forallb_app_l _ _ _ Hok).
    + apply Lx_semi_nl. exact HL.
  - apply andb_true_iff in H as [Hx Hr]. cbn [stoks].
    rewrite (vtoks_app x (asg_token AsSet :: etoks (x_top false rhs) (TSemi :: ts))). rewrite !str_app_assoc. cbn [append].
    apply Lx_render.
    + destruct toks_ok as (_ & _ & Hv & _). apply Hv; auto.
    + apply Lx_ws; [reflexivity|]. apply (Lx_tok TAssign (chr 32) _ _ eq_refl eq_refl).
      apply Lx_ws; [reflexivity|].
      change (String ";" (String nlc rest)) with (String (chr 59) (String nlc rest)).
      apply (proj1 xtext_lex rhs Hr false); [reflexivity|]. apply Lx_semi_nl. exact HL.
  - apply andb_true_iff in H as [Hh Ha]. cbn [stoks].
    replace (((head_text h ++ "(" ++ str_join ", " (args_text args) ++ ")") ++ ";") ++ String nlc rest)%string
      with ((head_text h ++ "(" ++ str_join ", " (args_text args) ++ ")") ++ String (chr 59) (String nlc rest))%string
      by (rewrite !str_app_assoc; reflexivity).
    apply (XT_call h (args_text args) (xs_args args) Hh); [|reflexivity|apply Lx_semi_nl; exact HL].
    destruct (proj2 xtext_lex args Ha) as (_ & _ & Hx). exact Hx.
Qed.

Lemma stmts_lex : forall l, forallb wf_jst l = true -> forall rest ts, Lx rest ts ->
  Lx (str_concat (map (fun t => "        " ++ (st_text t ++ ";") ++ nl)%string l) ++ rest)
     (sstoks (map st_of l) ts).
Proof.
  induction l as [|t l IH]; intros H rest ts HL; [exact HL|].
  cbn [forallb] in H. apply andb_true_iff in H as [Ht Hl].
  cbn [map str_concat sstoks]. rewrite !str_app_assoc. cbn [append].
  do 8 (apply Lx_ws; [reflexivity|]).
  unfold nl. cbn [append].
  pose proof (st_lex t Ht _ _ (IH Hl rest ts HL)) as P.
  rewrite str_app_assoc in P. cbn [append] in P. exact P.
Qed.

Lemma cond_lex : forall w, wf_jcond w = true -> XT (cond_text w) (etoks (cond_of w)).
Proof.
  intros [e|x] H; cbn [wf_jcond cond_text cond_of] in *.
  - eapply XT_ext; [|apply XT_render].
    + intros k. symmetry. apply etoks_app.
    + destruct toks_ok as (He & _). apply He; auto.
  - apply andb_true_iff in H as [Hw _]. apply (proj1 xtext_lex x Hw false).
Qed.

Lemma sal_lex : forall z, in_i32 z = true -> XT (show_z z) (sal_toks z).
Proof.
  intros z H. apply (XT_int z). unfold in_i32, in_i64, min_i32, max_i32, min_i64, max_i64 in *.
  apply andb_true_iff in H as [A B]. apply Z.leb_le in A, B. apply andb_true_iff. split; apply Z.leb_le; lia.
Qed.

Theorem rule_text_lex : forall r, wf_trule r = true -> lex (rule_text r) = Some (rtoks (rule_of r) []).
Proof.
  intros r H. apply Lx_lex. unfold wf_trule in H. repeat (apply andb_true_iff in H as [H ?]).
  unfold rule_text, rtoks, rule_of. cbn [rname rdesc rsal rwhen rthen].
  (* rule NAME "desc" salience N { *)
  apply (Lx_tok_dl TRule (chr 32) _ _ eq_refl eq_refl). apply Lx_ws; [reflexivity|].
  rewrite ?str_app_assoc.
  apply (Lx_tok_dl (TName (tname r)) (chr 32)); [exact H|reflexivity|]. apply Lx_ws; [reflexivity|].
  change (quote (tdesc r)) with (token_text (TStr true (quote_body (tdesc r)))).
  rewrite ?str_app_assoc.
  apply (Lx_tok_dl (TStr true (quote_body (tdesc r))) (chr 32)); [apply desc_ok_quote_body|reflexivity|].
  apply Lx_ws; [reflexivity|].
  apply (Lx_tok_dl TSalience (chr 32) _ _ eq_refl eq_refl). apply Lx_ws; [reflexivity|].
  rewrite ?str_app_assoc.
  apply (sal_lex _ H3); [reflexivity|]. apply Lx_ws; [reflexivity|].
  apply (Lx_tok_dl TLBrace nlc _ _ eq_refl eq_refl). apply Lx_ws; [reflexivity|].
  (* when *)
  do 4 (apply Lx_ws; [reflexivity|]).
  apply (Lx_tok_dl TWhen nlc _ _ eq_refl eq_refl). apply Lx_ws; [reflexivity|].
  do 8 (apply Lx_ws; [reflexivity|]).
  rewrite ?str_app_assoc.
  apply (cond_lex _ H2); [reflexivity|]. apply Lx_ws; [reflexivity|].
  (* then *)
  do 4 (apply Lx_ws; [reflexivity|]).
  apply (Lx_tok_dl TThen nlc _ _ eq_refl eq_refl). apply Lx_ws; [reflexivity|].
  rewrite ?str_app_assoc.
  apply (stmts_lex _ H1).
  apply (Lx_tok_dl TRBrace nlc _ _ eq_refl eq_refl). apply Lx_ws; [reflexivity|]. apply Lx_nil.
Qed.

(* ------------------------------------------------------------------------ *)
(* 6. the expected tree is well-formed, hence recovered by the parser         *)

Lemma fold_bin_wf : forall o l acc, wf_expr acc = true -> (elevel acc <= op_level o)%nat ->
  Forall (fun e => wf_expr e = true /\ (elevel e < op_level o)%nat) l ->
  wf_expr (fold_bin o acc l) = true /\ (elevel (fold_bin o acc l) <= op_level o)%nat.
Proof.
  induction l as [|e l IH]; intros acc Hacc Hl H; [split; assumption|].
  inversion H as [|? ? [He Hel] Hrest]; subst. cbn [fold_bin]. apply IH; [|cbn [elevel]; lia|assumption].
  cbn [wf_expr]. rewrite Hacc, He. cbn [andb]. apply andb_true_iff. split; [apply Nat.leb_le|apply Nat.ltb_lt]; assumption.
Qed.

Lemma join_wf : forall o es, es <> [] -> (1 <= op_level o)%nat ->
  Forall (fun e => wf_expr e = true /\ (elevel e < op_level o)%nat) es ->
  wf_expr (join_exprs o es) = true /\ (elevel (join_exprs o es) <= op_level o)%nat.
Proof.
  intros o [|e es] Hne Hpos H; [contradiction|]. inversion H as [|? ? [He Hel] Hrest]; subst.
  cbn [join_exprs]. apply fold_bin_wf; [assumption|lia|assumption].
Qed.

Lemma call_atom_wf : forall h args, wf_head h = true -> wf_args args = true -> wf_atom (call_atom h args) = true.
Proof.
  intros [f|recv m] args Hh Ha; cbn [wf_head call_atom wf_atom] in *.
  - rewrite Hh, Ha. reflexivity.
  - apply andb_true_iff in Hh as [Hh Hm]. apply andb_true_iff in Hh as [Hr Hn]. rewrite Hn, Hr, Hm, Ha. reflexivity.
Qed.

Definition lvl3 (e : expr) : Prop := wf_expr e = true /\ (elevel e <= 3)%nat.
Definition lvl0 (e : expr) : Prop := wf_expr e = true /\ elevel e = O.

Lemma jop_level : forall o, is_compound o = false -> (1 <= op_level (jop_op o) <= 3)%nat.
Proof. destruct o; cbn; intros; try discriminate; lia. Qed.

Lemma x_top_wf :
  (forall x, wfj x = true -> (forall deep, wf_expr (x_top deep x) = true) /\ lvl3 (x_top true x)) /\
  (forall l, wfjs l = true ->
     Forall lvl3 (xs_elems l) /\ (forall neg, Forall lvl0 (xs_opnds neg l)) /\ wf_args (xs_args l) = true).
Proof.
  apply jx_mutind; intros; cbn [x_top wfj] in *;
    try (split; [intros deep|split]; cbn [wf_expr wf_atom wf_const elevel]; auto; lia).
  - (* operator *)
    apply andb_true_iff in H0 as [H0 Hshape]. apply andb_true_iff in H0 as [Hl _].
    destruct (H Hl) as (He & Hop & _).
    destruct (is_compound o) eqn:Ec.
    + apply andb_true_iff in Hshape as [Hlen _]. apply Nat.leb_le in Hlen.
      assert (Hne : xs_elems args <> []) by (destruct args; [cbn in Hlen; lia|discriminate]).
      assert (J : wf_expr (join_exprs (jop_op o) (xs_elems args)) = true).
      { apply join_wf; [assumption|destruct o; cbn; lia|].
        eapply Forall_impl; [|exact He]. intros e [W L]. split; [assumption|].
        destruct o; try discriminate; cbn; lia. }
      split; [intros [|]; cbn [wf_expr]; exact J|]. split; [cbn [wf_expr]; exact J|cbn [elevel]; lia].
    + assert (Hne : xs_opnds (neg_flag o args) args <> []).
      { destruct args; [|discriminate]. destruct o; cbn in Hshape; discriminate. }
      pose proof (jop_level o Ec) as Hlv.
      assert (J : wf_expr (join_exprs (jop_op o) (xs_opnds (neg_flag o args) args)) = true /\
                  (elevel (join_exprs (jop_op o) (xs_opnds (neg_flag o args) args)) <= op_level (jop_op o))%nat).
      { apply join_wf; [assumption|lia|].
        eapply Forall_impl; [|apply Hop]. intros e [W L]. split; [assumption|lia]. }
      destruct J as [J1 J2]. split; [intros deep; exact J1|]. split; [exact J1|lia].
  - (* call *)
    apply andb_true_iff in H0 as [Hh Hl]. destruct (H Hl) as (_ & _ & Ha).
    pose proof (call_atom_wf h _ Hh Ha) as W.
    split; [intros deep; cbn [wf_expr]; exact W|]. split; [cbn [wf_expr]; exact W|cbn [elevel]; lia].
  - repeat split; constructor.
  - cbn [wfjs] in H1. apply andb_true_iff in H1 as [Hx Hl]. destruct (H Hx) as [Hw H3].
    destruct (H0 Hl) as (He & Hop & Ha). repeat split.
    + cbn [xs_elems]. constructor; assumption.
    + intros neg. cbn [xs_opnds]. constructor; [|apply Hop].
      destruct x; try destruct neg; split; try reflexivity; apply Hw.
    + cbn [xs_args wf_args]. rewrite (Hw false), Ha. reflexivity.
Qed.

Lemma st_of_wf : forall t, wf_jst t = true -> wf_stmt (st_of t) = true.
Proof.
  intros [s semi|x as_obj rhs|h args] H; cbn [wf_jst st_of wf_stmt] in *.
  - apply andb_true_iff in H. tauto.
  - apply andb_true_iff in H as [Hx Hr]. rewrite Hx. apply (proj1 (proj1 x_top_wf rhs Hr) false).
  - apply andb_true_iff in H as [Hh Ha]. apply call_atom_wf; [assumption|].
    apply (proj2 x_top_wf args Ha).
Qed.

Lemma rule_of_wf : forall r, wf_trule r = true -> wf_rule (rule_of r) = true.
Proof.
  intros r H. unfold wf_trule in H. repeat (apply andb_true_iff in H as [H ?]).
  unfold wf_rule, rule_of. cbn [rname rdesc rsal rwhen rthen].
  rewrite H, H3. cbn [andb].
  assert (Hc : wf_expr (cond_of (twhen r)) = true).
  { destruct (twhen r) as [e|x]; cbn [wf_jcond cond_of] in *; [assumption|].
    apply andb_true_iff in H2 as [Hw _]. apply (proj1 (proj1 x_top_wf x Hw) false). }
  rewrite Hc. cbn [andb].
  assert (Hs : forallb wf_stmt (map st_of (tthen r)) = true).
  { clear - H1. induction (tthen r) as [|t l IH]; [reflexivity|]. cbn [forallb map] in *.
    apply andb_true_iff in H1 as [Ht Hl]. rewrite (st_of_wf t Ht), (IH Hl). reflexivity. }
  rewrite Hs. cbn [andb]. destruct (tthen r); [discriminate|reflexivity].
Qed.

(* the translated text is accepted and denotes exactly rule_of *)
Theorem json_rule_parses : forall r, wf_trule r = true ->
  translate (rule_json r) = Ok (rule_text r) /\ parse_grl (rule_text r) = Ok [rule_of r].
Proof.
  intros r H. split; [apply translate_typed; assumption|].
  unfold parse_grl. rewrite (rule_text_lex r H).
  change (rtoks (rule_of r) []) with (rstoks [rule_of r]).
  rewrite parse_tokens_rstoks by (cbn [forallb]; rewrite (rule_of_wf r H); reflexivity).
  reflexivity.
Qed.
