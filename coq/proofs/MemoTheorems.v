(* MemoTheorems.v — statements of C04, C07, C08, C13, C14 over the memoising engine model. *)
From Coq Require Import Permutation.
From Grule Require Import Base Values Syntax Snapshot Printer EngineGen EngineAbs Facts Eval Fresh Engine
     AnchorsEngine EngineProofs EngineTheorems FactsProofs ActionTheorems SnapInj MemoProofs MemoKeep StateTrack Refinement RefineTheorems.
Open Scope Z_scope.

(* ---- the action list of the SPEC: strictly in textual order, each statement on the facts left by the one before;
        the first failure stops the list and keeps what was done ---- *)
Section SpecLists.
Variable meth : list (string * fval) -> string -> list val -> res (option val * list (string * fval)).

Lemma spec_stmts_cons_ok : forall fx st l acc fx1 fxs1,
  spec_stmt meth fx st = SOk fx1 fxs1 -> spec_stmts meth fx (st :: l) acc = spec_stmts meth fx1 l (acc ++ fxs1)%list.
Proof. intros. simpl. rewrite H. reflexivity. Qed.

Lemma spec_stmts_failure_keeps_prefix : forall l fx acc fx' acc',
  spec_stmts meth fx l acc = (fx', acc', true) ->
  exists done st rest, l = (done ++ st :: rest)%list /\
    spec_stmts meth fx done acc = (fx', acc', false) /\ spec_stmt meth fx' st = SFail.
Proof.
  induction l as [|st l IH]; intros fx acc fx' acc' H; simpl in H; [discriminate|].
  destruct (spec_stmt meth fx st) as [fx1 fxs1|] eqn:E.
  - destruct (IH _ _ _ _ H) as (done & st' & rest & -> & A & B).
    exists (st :: done), st', rest. split; [reflexivity|]. split; [simpl; rewrite E; exact A|exact B].
  - inversion H; subst. exists [], st, l. auto.
Qed.

(* an assignment that succeeds: the right-hand side is computed on the current facts, combined with the current
   value of the target for the compound forms, and stored by write_target — whose exactness is write_target_exact *)
Lemma spec_assign_inv : forall fx x o e fx' fxs,
  spec_stmt meth fx (SAssign x o e) = SOk fx' fxs ->
  fxs = [] /\
  exists rv nv t,
    fresh_expr meth fx e = Ok rv /\
    match asg_op o with
    | None => nv = scalar_of fx rv
    | Some f => exists cur, fresh_var meth fx x = Ok cur /\ f (scalar_of fx cur) (scalar_of fx rv) = Ok nv
    end /\
    fresh_target meth fx x = Ok t /\ write_target fx t nv = Ok fx'.
Proof.
  intros fx x o e fx' fxs H. unfold spec_stmt in H.
  destruct (fresh_expr meth fx e) as [rv| |] eqn:Ee; try discriminate.
  destruct (asg_op o) as [f|] eqn:Eo.
  - destruct (fresh_var meth fx x) as [cur| |] eqn:Ev; try discriminate.
    destruct (f (scalar_of fx cur) (scalar_of fx rv)) as [nv| |] eqn:Ef; try discriminate.
    destruct (fresh_target meth fx x) as [t| |] eqn:Et; try discriminate.
    destruct (write_target fx t nv) as [fx2| |] eqn:Ew; try discriminate.
    inversion H; subst. split; [reflexivity|]. exists rv, nv, t. repeat split; auto. exists cur. auto.
  - destruct (fresh_target meth fx x) as [t| |] eqn:Et; try discriminate.
    destruct (write_target fx t (scalar_of fx rv)) as [fx2| |] eqn:Ew; try discriminate.
    inversion H; subst. split; [reflexivity|]. exists rv, (scalar_of fx rv), t. repeat split; auto.
Qed.
End SpecLists.

Section MT.
Variable rules : list rule.
Variable meth : list (string * fval) -> string -> list val -> res (option val * list (string * fval)).
Variable panics_inside : string -> list val -> bool.
Variable mutating : string -> bool.
Hypothesis meth_pure : forall fs f args ret fs', mutating f = false -> meth fs f args = Ok (ret, fs') -> fs' = fs.
Hypothesis Hrules : rules_ok rules mutating.
Hypothesis Hdep : dependency_hypothesis rules meth mutating.

Notation Rel := (R rules meth mutating).
Notation icond := (rule_cond (vars_rules rules) meth panics_inside rules).
Notation iact := (rule_act (vars_rules rules) meth panics_inside rules).

(* ------------------------------------------------------------------ C04 *)
(* executing a rule's action list with the working memory, from any sound memory, is the SPEC list:
   same final facts, same control effects, same failure flag *)
Definition C04_statement : Prop :=
  (* (a) the engine's action execution is the in-order from-scratch execution *)
  (forall u fx e r, Rel u fx -> find (fun r => String.eqb (rname r) (e_key e)) rules = Some r ->
     let '(u', fxs, failed) := iact u e in
     let '(fx', fxs', failed') := spec_stmts meth fx (rthen r) [] in
     es_facts u' = fx' /\ fxs = fxs' /\ failed = failed' /\ Rel u' fx') /\
  (* (b) in that execution every successful assignment computes its value on the facts of that moment … *)
  (forall fx x o e fx' fxs, spec_stmt meth fx (SAssign x o e) = SOk fx' fxs ->
     exists rv nv t,
       fresh_expr meth fx e = Ok rv /\
       match asg_op o with
       | None => nv = scalar_of fx rv
       | Some f => exists cur, fresh_var meth fx x = Ok cur /\ f (scalar_of fx cur) (scalar_of fx rv) = Ok nv
       end /\
       fresh_target meth fx x = Ok t /\ write_target fx t nv = Ok fx') /\
  (* (c) … and stores exactly that value (converted to the destination kind) at exactly the addressed location,
         leaving every location on a diverging path unchanged *)
  (forall fx t nv fx', write_target fx t nv = Ok fx' ->
     exists q stored, target_path t = Some q /\ stored_value fx t nv stored /\ path_get fx' q = Ok stored /\
       forall q', paths_diverge q q' = true -> path_get fx' q' = path_get fx q').

Theorem C04_proved : C04_statement.
Proof.
  split; [|split].
  - intros u fx e r HR Hf.
    pose proof (act_refines rules meth panics_inside mutating meth_pure Hrules Hdep u fx e HR) as (A & B & C).
    unfold spec_act in *. rewrite Hf in *.
    destruct (iact u e) as [[u' fxs] failed]. destruct (spec_stmts meth fx (rthen r) []) as [[fx' fxs'] failed'].
    simpl in *. split; [apply C|]. split; [exact A|]. split; [exact B|exact C].
  - intros fx x o e fx' fxs H. destruct (spec_assign_inv meth _ _ _ _ _ _ H) as (_ & rv & nv & t & A). exists rv, nv, t. exact A.
  - exact write_target_exact.
Qed.

(* ------------------------------------------------------------------ C07 *)
(* sharing is by snapshot; equal snapshots mean equal trees (so a shared node means the same thing), and what a rule
   decides and does inside any knowledge base is what its own text decides and does on the facts *)
Definition C07_statement : Prop :=
  (forall e1 e2, wf_expr e1 -> wf_expr e2 -> expr_snapshot e1 = expr_snapshot e2 -> e1 = e2) /\
  (forall a1 a2, wf_atom a1 -> wf_atom a2 -> atom_snapshot a1 = atom_snapshot a2 -> a1 = a2) /\
  (forall v1 v2, wf_var v1 -> wf_var v2 -> var_snapshot v1 = var_snapshot v2 -> v1 = v2) /\
  (forall u fx e r, Rel u fx -> find (fun r => String.eqb (rname r) (e_key e)) rules = Some r ->
     snd (icond u e) = holds meth fx (rwhen r) /\
     (let '(u', fxs, failed) := iact u e in
      let '(fx', fxs', failed') := spec_stmts meth fx (rthen r) [] in
      es_facts u' = fx' /\ fxs = fxs' /\ failed = failed')).

Theorem C07_proved : C07_statement.
Proof.
  split; [exact snapshot_inj_expr|]. split; [exact snapshot_inj_atom|]. split; [exact snapshot_inj_var|].
  intros u fx e r HR Hf. split.
  - pose proof (cond_refines rules meth panics_inside mutating meth_pure Hrules u fx e HR) as [A _].
    unfold spec_cond in A. rewrite Hf in A. exact A.
  - destruct C04_proved as [A _]. specialize (A u fx e r HR Hf).
    destruct (iact u e) as [[u' fxs] failed]. destruct (spec_stmts meth fx (rthen r) []) as [[fx' fxs'] failed'].
    destruct A as (A1 & A2 & A3 & _). auto.
Qed.

(* ------------------------------------------------------------------ C13 *)
Notation ieval_atom := (eval_atom (vars_rules rules) meth panics_inside).
Notation ieval_expr := (eval_expr (vars_rules rules) meth panics_inside).

Definition C13_statement : Prop :=
  (* a successful method call or field read is remembered *)
  (forall a f l s v s', ieval_atom (AMethod a f l) s = (Ok v, s') -> has_atom s' (AMethod a f l)) /\
  (forall x s v s', ieval_atom (AVar x) s = (Ok v, s') -> has_atom s' (AVar x)) /\
  (* a remembered node is answered from the memory: the state - facts, call counters, memory - is untouched *)
  (forall a s, has_atom s a -> exists v, ieval_atom a s = (Ok v, s)) /\
  (forall e s, has_expr s e -> exists v, ieval_expr e s = (Ok v, s)) /\
  (* evaluating any side-effect free node of any rule never drops a remembered node *)
  (forall e s r s', pure_expr mutating e = true -> ieval_expr e s = (r, s') -> keeps s s') /\
  (* an assignment drops only nodes whose snapshot contains the snapshot of the assigned variable or - for a slice element
     or map entry - of an element variable of the same container whose selector may denote the same element; two
     different literal selectors never do *)
  (forall s x a, has_atom s a ->
     (forall v, In v (reset_set (vars_rules rules) x) -> containsb (atom_snapshot a) (var_snapshot v) = false) ->
     has_atom (reset_assigned (vars_rules rules) s x) a) /\
  (forall c s1 s2, lit_sel s1 = true -> lit_sel s2 = true -> may_alias (VSel c s1) (VSel c s2) = false) /\
  (* Forget / Changed drop only nodes that name the argument *)
  (forall s n a, has_atom s a ->
     (forall x, In x (vars_rules rules) -> var_text x = n -> containsb (atom_snapshot a) (var_snapshot x) = false) ->
     containsb (atom_snapshot a) n = false -> containsb (atom_text a) n = false ->
     has_atom (reset_name (vars_rules rules) s n) a).

Theorem C13_proved : C13_statement.
Proof.
  split; [apply method_result_remembered|]. split; [apply field_read_remembered|].
  split; [apply memo_hit_atom_no_call|]. split; [apply memo_hit_expr_no_call|].
  split; [|split; [apply reset_assigned_keeps_atom|split; [apply literals_do_not_alias|apply reset_name_keeps_atom]]].
  intros e s r s' Hp H. destruct (eval_keeps (vars_rules rules) meth panics_inside mutating) as (A & _). exact (A e Hp s r s' H).
Qed.

(* ------------------------------------------------------------------ C08 *)
(* a call on an instance whose working memory remembers anything (sound or not) and whose entries carry any
   Retracted flags behaves like the call on a fresh instance of the same rules *)
Definition C08_statement : Prop :=
  (forall fuel c order (u : estate) es es',
     es_fx u = [] ->
     map (fun e => (e_key e, e_name e, e_sal e, e_deleted e)) es = map (fun e => (e_key e, e_name e, e_sal e, e_deleted e)) es' ->
     let '(s1, recs1, o1) := execute estate icond iact reset_all fuel c order u es in
     let '(s2, recs2, o2) := execute estate icond iact reset_all fuel c order (init_estate (es_facts u)) es' in
     recs1 = recs2 /\ o1 = o2 /\ es_facts (s_user s1) = es_facts (s_user s2)) /\
  (forall reterr order (u : estate) es es',
     es_fx u = [] ->
     map (fun e => (e_key e, e_name e, e_sal e, e_deleted e)) es = map (fun e => (e_key e, e_name e, e_sal e, e_deleted e)) es' ->
     snd (fetch estate icond reset_all reterr order u es) =
     snd (fetch estate icond reset_all reterr order (init_estate (es_facts u)) es')) /\
  (forall reterr order (u : estate) es, es_fx u = [] ->
     es_facts (fst (fetch estate icond reset_all reterr order u es)) = es_facts u).

Theorem C08_proved : C08_statement.
Proof.
  split; [|split].
  - exact (reuse_is_fresh rules meth panics_inside mutating meth_pure Hrules Hdep).
  - exact (fetch_reuse_is_fresh rules meth panics_inside mutating meth_pure Hrules).
  - exact (fetch_leaves_facts rules meth panics_inside mutating meth_pure Hrules).
Qed.

(* ------------------------------------------------------------------ C14 *)
Variable es : list entry.
Hypothesis keys_nodup : NoDup (map e_key es).
Variable c : config.
Hypothesis max_nonneg : 0 <= c_max c.
Variable order : nat -> list entry -> list entry.
Hypothesis order_perm : forall i l, Permutation (order i l) l.

Notation wfs := (when_from_scratch rules meth).
Notation tfs := (then_from_scratch rules meth).

Definition C14_statement : Prop :=
  (* a condition that fails (or is not a boolean) leaves the facts alone and the working memory sound;
     its verdict is that of the from-scratch evaluation *)
  (forall u fx e, Rel u fx -> Rel (fst (icond u e)) fx /\ snd (icond u e) = snd (spec_cond meth rules fx e)) /\
  (forall fuel (u : estate) sf recs o,
     es_fx u = [] ->
     execute estate icond iact reset_all fuel c order u es = (sf, recs, o) ->
     (* without the flag a failing condition only makes its rule a non-candidate: Execute never returns a condition error *)
     (c_reterr c = false -> forall k ctx, o <> OCondErr k ctx) /\
     (* with the flag the error names a rule whose condition fails on the facts of that cycle *)
     (forall k, o = OCondErr k false ->
        exists pre r, recs = (pre ++ [r])%list /\ cr_exec r = None /\ wfs (facts_after rules meth (es_facts u) pre) k = CErr) /\
     (* an action failure names the rule that was executing, is the last thing that happens, and keeps the effects
        of the statements already completed *)
     (forall k, o = OActErr k false ->
        exists pre r n, recs = (pre ++ [r])%list /\ cr_exec r = Some (n, k) /\ cr_started r = true /\
          let fx := facts_after rules meth (es_facts u) pre in
          snd (tfs fx k) = true /\ es_facts (s_user sf) = fst (fst (tfs fx k)))) /\
  (* "keeps the effects": a failing list has run a prefix completely and nothing of the rest *)
  (forall l fx acc fx' acc', spec_stmts meth fx l acc = (fx', acc', true) ->
     exists done st rest, l = (done ++ st :: rest)%list /\
       spec_stmts meth fx done acc = (fx', acc', false) /\ spec_stmt meth fx' st = SFail).

Theorem C14_proved : C14_statement.
Proof.
  split; [|split].
  - intros u fx e HR. destruct (cond_refines rules meth panics_inside mutating meth_pure Hrules u fx e HR) as [A B].
    split; [|exact A]. unfold spec_cond in B. destruct (find _ rules); exact B.
  - intros fuel u sf recs o Hfx H.
    pose proof (execute_ok estate _ _ reset_all es keys_nodup c order order_perm _ _ _ _ _ H) as Hok.
    pose proof (impl_fail rules meth panics_inside mutating meth_pure Hrules Hdep es c order fuel u sf recs o Hfx H) as Hfail.
    pose proof (impl_tracked rules meth panics_inside mutating meth_pure Hrules Hdep es c order fuel u sf recs o Hfx H) as [Hfin _].
    split; [|split].
    + intros Hr k ctx E. pose proof (run_ok_conderr es c order _ _ _ _ _ Hok k ctx E). congruence.
    + intros k E. destruct (Hfail k (or_intror E)) as (pre & r & Er & F1 & F2).
      destruct (F2 k E) as [A _].
      exists pre, r. split; [exact Er|]. split; [|exact A].
      destruct (run_ok_last es c order _ _ _ _ _ Hok pre r Er) as [Hf|Hl]; [congruence|].
      rewrite E in Hl. simpl in Hl. apply Hl.
    + intros k E. destruct (Hfail k (or_introl E)) as (pre & r & Er & F1 & F2).
      destruct (F1 k E) as (n & A & B & C).
      exists pre, r, n. split; [exact Er|]. split; [exact A|]. split; [exact B|]. split; [exact C|].
      rewrite Hfin, Er. unfold facts_after. rewrite fold_left_app. simpl. unfold next_user. rewrite A, B. reflexivity.
  - exact (spec_stmts_failure_keeps_prefix meth).
Qed.

End MT.

(* ------------------------------------------------------------------ C11, tied to the from-scratch conditions *)
Section FetchSemantic.
Variable rules : list rule.
Variable meth : list (string * fval) -> string -> list val -> res (option val * list (string * fval)).
Variable panics_inside : string -> list val -> bool.
Variable mutating : string -> bool.
Hypothesis meth_pure : forall fs f args ret fs', mutating f = false -> meth fs f args = Ok (ret, fs') -> fs' = fs.
Hypothesis Hrules : rules_ok rules mutating.

Notation icond := (rule_cond (vars_rules rules) meth panics_inside rules).
Notation wfs := (when_from_scratch rules meth).

Lemma thread_spec : forall fx es,
  fst (thread facts (spec_cond meth rules) es fx) = map (fun e => (e, wfs fx (e_key e))) es.
Proof.
  intros fx es. induction es as [|e es IH]; simpl; auto.
  unfold spec_cond at 1. unfold when_from_scratch at 1.
  destruct (find (fun r => String.eqb (rname r) (e_key e)) rules) as [r|];
    (destruct (thread facts (spec_cond meth rules) es fx) as [l u2] eqn:Et; simpl in *; rewrite IH; reflexivity).
Qed.

(* FetchMatchingRules with the working memory, from any memory contents: exactly the non-removed rules whose condition,
   evaluated from scratch on the given facts, is true - each once, by non-increasing salience *)
Definition C11_semantic_statement : Prop :=
  forall reterr (ord : list entry -> list entry) (u : estate) es u' result,
  es_fx u = [] -> (forall l, Permutation (ord l) l) -> NoDup (map e_key es) ->
  fetch estate icond reset_all reterr ord u es = (u', result) ->
  match result with
  | Ok l =>
      (forall e, In e l <-> (In e (unretract es) /\ e_deleted e = false /\ wfs (es_facts u) (e_key e) = CTrue)) /\
      NoDup (map e_key l) /\ Sorted.StronglySorted ge_sal l /\
      (reterr = true -> forall e, In e es -> e_deleted e = false -> wfs (es_facts u) (e_key e) <> CErr)
  | Err => reterr = true /\ exists e, In e es /\ e_deleted e = false /\ wfs (es_facts u) (e_key e) = CErr
  | Panic => False
  end.

Theorem C11_semantic_proved : C11_semantic_statement.
Proof.
  intros reterr ord u es u' result Hfx Hperm Hnd H.
  pose proof (fetch_refines_spec_from rules meth panics_inside mutating meth_pure Hrules reterr ord u es Hfx) as Href.
  rewrite H in Href.
  destruct (fetch facts (spec_cond meth rules) (fun f => f) reterr ord (es_facts u) es) as [f2 r2] eqn:Es.
  destruct Href as [-> _].
  pose proof (C11_proved facts (spec_cond meth rules) (fun f => f) reterr ord (es_facts u) es f2 r2 Hperm Hnd Es) as HC.
  cbv zeta in HC. rewrite thread_spec in HC.
  set (examined := filter fguard (ord (unretract es))) in *.
  assert (Hex: forall e, In e examined <-> In e (unretract es) /\ e_deleted e = false).
  { intros e. unfold examined. rewrite filter_In. split.
    - intros [A B]. split; [eapply Permutation_in; [apply Hperm|exact A]|].
      unfold fguard in B. apply fetch_guard_spec in B. exact B.
    - intros [A B]. split; [eapply Permutation_in; [apply Permutation_sym; apply Hperm|exact A]|].
      unfold fguard. apply fetch_guard_spec. exact B. }
  destruct r2 as [l| |]; [| |exact HC].
  - destruct HC as (Hp & Hnd' & Hdel & Hs & Herr). split; [|split; [exact Hnd'|split; [exact Hs|]]].
    + intros e. split.
      * intros Hin. apply (Permutation_in _ Hp) in Hin. apply in_map_iff in Hin. destruct Hin as ([e0 c0] & <- & Hf).
        apply filter_In in Hf. destruct Hf as [Hf Ht]. apply in_map_iff in Hf. destruct Hf as (e1 & E1 & Hin1). inversion E1; subst.
        simpl in *. apply Hex in Hin1. destruct Hin1 as [A B]. split; [exact A|split; [exact B|]].
        destruct (wfs (es_facts u) (e_key e0)); try discriminate; reflexivity.
      * intros (A & B & C). apply (Permutation_in _ (Permutation_sym Hp)). apply in_map_iff. exists (e, CTrue). split; [reflexivity|].
        apply filter_In. split; [|reflexivity]. apply in_map_iff. exists e. split; [rewrite C; reflexivity|]. apply Hex. auto.
    + intros Hr e Hin Hd Hc. specialize (Herr Hr). rewrite forallb_forall in Herr.
      set (e' := {| e_key := e_key e; e_name := e_name e; e_sal := e_sal e; e_retracted := false; e_deleted := e_deleted e |}).
      assert (Hin': In e' examined).
      { apply Hex. split; [|exact Hd]. unfold unretract. apply in_map_iff. exists e. auto. }
      specialize (Herr (e', wfs (es_facts u) (e_key e))).
      assert (H0: In (e', wfs (es_facts u) (e_key e)) (map (fun e0 => (e0, wfs (es_facts u) (e_key e0))) examined)).
      { apply in_map_iff. exists e'. auto. }
      specialize (Herr H0). simpl in Herr. rewrite Hc in Herr. discriminate.
  - destruct HC as [Hr He]. split; [exact Hr|]. apply existsb_exists in He. destruct He as ([e0 c0] & Hin & Hc).
    apply in_map_iff in Hin. destruct Hin as (e1 & E1 & Hin1). inversion E1; subst. apply Hex in Hin1. destruct Hin1 as [A B].
    unfold unretract in A. apply in_map_iff in A. destruct A as (e2 & E2 & Hin2). exists e2. subst e0. simpl in *.
    split; [exact Hin2|]. split; [exact B|]. destruct (wfs (es_facts u) (e_key e2)); try discriminate; reflexivity.
Qed.
End FetchSemantic.
