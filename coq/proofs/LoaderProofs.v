(* LoaderProofs.v — C20: resource bounds of the loader MODELS.

   GRL text        Lexer.lex / Parser.parse_grl / Parser.build are total Coq functions
                   (termination by construction).  Proved here: the fuel of the lexer and
                   the nesting fuel of the parser never run out (the answer is the same for
                   every larger fuel: "None" always means a genuine lexical / syntax error),
                   the number of tokens is at most the number of input characters, the
                   number of syntax-tree nodes is at most the number of tokens.
   JSON rule text  JsonRule.translate (over the decoded JSON value; encoding/json is outside
                   the model) is structurally recursive - no fuel - never answers Panic and
                   its output is at most 16 * (size of the value) + 112 characters.
   JSON fact text  a small model of the value tree NewJSONValueNode wraps: total,
                   node for node.

   Nothing here speaks about the generated ANTLR parser, encoding/json, the Go runtime,
   time or resident memory: those are exercised by the sandboxed runs of the harness. *)
From Grule Require Import Base Syntax Lexer Parser GrlPrint LexProofs ParserProofs JsonRule.
Open Scope Z_scope.

Local Notation slen := String.length.

(* ------------------------------------------------------------------------ *)
(* 1. lexer: every step consumes input                                        *)

Lemma span_len : forall p s a b, span p s = (a, b) -> (slen s = slen a + slen b)%nat.
Proof.
  induction s as [|c s IH]; intros a b H; cbn [span] in H.
  - inversion H; reflexivity.
  - destruct (p c).
    + destruct (span p s) as [a' b'] eqn:E. inversion H; subst. cbn [String.length]. rewrite (IH _ _ eq_refl). lia.
    + inversion H; subst. reflexivity.
Qed.

Lemma lex_exponent_len : forall s z r, lex_exponent s = Some (z, r) -> (slen r < slen s)%nat.
Proof.
  intros s z r H. unfold lex_exponent in H. destruct s as [|c s1]; [discriminate|].
  destruct (is_sign c).
  - destruct (span is_digit s1) as [ds rest] eqn:E. apply span_len in E.
    destruct ds; [discriminate|]. inversion H; subst. cbn [String.length] in *. lia.
  - destruct (span is_digit (String c s1)) as [ds rest] eqn:E. apply span_len in E.
    destruct ds; [discriminate|]. inversion H; subst. cbn [String.length] in *. lia.
Qed.

Lemma opt_dec_exponent_len : forall s z r, opt_dec_exponent s = (z, r) -> (slen r <= slen s)%nat.
Proof.
  intros s z r H. unfold opt_dec_exponent in H. destruct s as [|c s1]; [inversion H; subst; lia|].
  destruct (is_e c); [|inversion H; subst; lia].
  destruct (lex_exponent s1) as [[z' r']|] eqn:E; inversion H; subst; [|lia].
  apply lex_exponent_len in E. cbn [String.length]. lia.
Qed.

Lemma lex_decimal_len : forall c0 ds0 rest t r, lex_decimal (String c0 ds0) rest = (t, r) -> (slen r <= slen ds0 + slen rest)%nat.
Proof.
  intros c0 ds0 rest t r H. unfold lex_decimal in H.
  set (plain := if code c0 =? 48 then match span is_octdigit ds0 with
                                      | (EmptyString, _) => (TInt 0, (ds0 ++ rest)%string)
                                      | (os, more) => (TInt (oct_val os), (more ++ rest)%string)
                                      end
                else (TInt (dec_val (String c0 ds0)), rest)) in *.
  assert (P : (slen (snd plain) <= slen ds0 + slen rest)%nat).
  { subst plain. destruct (code c0 =? 48); [|cbn; lia].
    destruct (span is_octdigit ds0) as [os more] eqn:E. apply span_len in E.
    destruct os; cbn [snd String.length]; rewrite str_app_length; cbn [String.length] in *; lia. }
  destruct (negb _); [rewrite H in P; exact P|].
  destruct rest as [|c r1]; [rewrite H in P; exact P|].
  destruct (code c =? 46).
  - destruct (span is_digit r1) as [fs r2] eqn:E. apply span_len in E.
    destruct fs; [rewrite H in P; exact P|].
    destruct (opt_dec_exponent r2) as [ex r3] eqn:E2. apply opt_dec_exponent_len in E2.
    inversion H; subst. cbn [String.length] in *. lia.
  - destruct (is_e c); [|rewrite H in P; exact P].
    destruct (lex_exponent r1) as [[ex r2]|] eqn:E; [|rewrite H in P; exact P].
    apply lex_exponent_len in E. inversion H; subst. cbn [String.length]. lia.
Qed.

Lemma lex_hex_len : forall s t r, lex_hex s = Some (t, r) -> (slen r <= slen s)%nat.
Proof.
  intros s t r H. unfold lex_hex in H.
  destruct (span is_hexdigit s) as [h1 r1] eqn:E1. pose proof (span_len _ _ _ _ E1) as L1.
  assert (WE : forall mant nfrac rr t' r', match rr with
            | String c r' => if is_p c then match lex_exponent r' with
                                             | Some (ex, r'') => Some (TFloat (hex_float_bits mant nfrac ex), r'')
                                             | None => None end else None
            | EmptyString => None end = Some (t', r') -> (slen r' <= slen rr)%nat).
  { intros mant nfrac rr t' r' HH. destruct rr as [|c rr']; [discriminate|]. destruct (is_p c); [|discriminate].
    destruct (lex_exponent rr') as [[ex r'']|] eqn:E; [|discriminate]. apply lex_exponent_len in E.
    inversion HH; subst. cbn [String.length]. lia. }
  assert (AI : forall t' r', match h1 with EmptyString => None | _ => Some (TInt (hex_str_val h1), r1) end = Some (t', r') -> (slen r' <= slen s)%nat).
  { intros t' r' HH. destruct h1; [discriminate|]. inversion HH; subst. lia. }
  destruct r1 as [|c r2]; [eapply AI; exact H|].
  destruct (code c =? 46).
  - destruct (span is_hexdigit r2) as [h2 r3] eqn:E2. pose proof (span_len _ _ _ _ E2) as L2.
    cbn [String.length] in L1.
    destruct h1, h2; try (eapply AI; exact H);
    match type of H with
    | match ?w with Some _ => _ | None => _ end = _ =>
        destruct w as [[t' r']|] eqn:EW; [apply WE in EW; inversion H; subst; lia|eapply AI; exact H]
    end.
  - destruct h1; [discriminate|].
    match type of H with
    | match ?w with Some _ => _ | None => _ end = _ =>
        destruct w as [[t' r']|] eqn:EW; [apply WE with (rr := String c r2) in EW; inversion H; subst; lia|eapply AI; exact H]
    end.
Qed.

Lemma lex_string_body_len : forall q s b r, lex_string_body q s = Some (b, r) -> (slen r < slen s)%nat.
Proof.
  intros q s. remember (slen s) as n eqn:N. revert s N.
  induction n as [n IH] using lt_wf_ind. intros s N b r H.
  destruct s as [|c s1]; [discriminate|]. cbn [lex_string_body] in H. cbn [String.length] in N.
  destruct (code c =? 92).
  - destruct s1 as [|d s2]; [discriminate|].
    destruct (lex_string_body q s2) as [[b' r']|] eqn:E; [|discriminate].
    cbn [String.length] in N. eapply (IH (slen s2)) in E; [|lia|reflexivity].
    inversion H; subst. cbn [String.length]. lia.
  - destruct (Ascii.eqb c q).
    + destruct s1 as [|d s2]; [inversion H; subst; cbn; lia|].
      destruct (Ascii.eqb d q).
      * destruct (lex_string_body q s2) as [[b' r']|] eqn:E; [|discriminate].
        cbn [String.length] in N. eapply (IH (slen s2)) in E; [|lia|reflexivity].
        inversion H; subst. cbn [String.length]. lia.
      * inversion H; subst. cbn [String.length]. lia.
    + destruct (lex_string_body q s1) as [[b' r']|] eqn:E; [|discriminate].
      eapply (IH (slen s1)) in E; [|lia|reflexivity]. inversion H; subst. cbn [String.length]. lia.
Qed.

Lemma skip_block_comment_len : forall s r, skip_block_comment s = Some r -> (slen r < slen s)%nat.
Proof.
  induction s as [|c s1 IH]; intros r H; [discriminate|]. cbn [skip_block_comment] in H.
  destruct (code c =? 42).
  - destruct s1 as [|d s2]; [discriminate|]. destruct (code d =? 47).
    + inversion H; subst. cbn [String.length]. lia.
    + apply IH in H. cbn [String.length] in *. lia.
  - apply IH in H. cbn [String.length]. lia.
Qed.

Lemma skip_line_len : forall s, (slen (skip_line s) <= slen s)%nat.
Proof.
  induction s as [|c s IH]; [cbn; lia|]. cbn [skip_line].
  destruct (_ || _); cbn [String.length]; lia.
Qed.

Lemma tl_str_len : forall s, (slen (tl_str s) <= slen s)%nat.
Proof. destruct s; cbn; lia. Qed.

(* one lexical element: what is left is no longer than what followed its first character *)
Lemma lex_one_len : forall c s ot r, lex_one c s = Some (ot, r) -> (slen r <= slen s)%nat.
Proof.
  intros c s ot r H. unfold lex_one in H.
  pose proof (tl_str_len s) as TL.
  assert (TWO : forall (t2 t1 : token) (ot' : option token) (r' : string), (if next_is 61 s then Some (Some t2, tl_str s) else Some (Some t1, s)) = Some (ot', r') -> (slen r' <= slen s)%nat).
  { intros t2 t1 ot' r' HH. destruct (next_is 61 s); inversion HH; subst; lia. }
  destruct (is_letter c).
  { destruct (span is_ic s) as [run rest] eqn:E. pose proof (span_len _ _ _ _ E) as L.
    destruct run.
    - destruct rest as [|sg r1]; [inversion H; subst; lia|].
      destruct ((is_e c || is_p c) && is_sign sg).
      + destruct (span is_digit r1) as [ds r2] eqn:E2. pose proof (span_len _ _ _ _ E2) as L2.
        destruct ds; inversion H; subst; cbn [String.length] in *; lia.
      + inversion H; subst. lia.
    - inversion H; subst. lia. }
  destruct (is_digit c).
  { match type of H with match ?hx with Some _ => _ | None => _ end = _ => destruct hx as [[t r0]|] eqn:EH end.
    - inversion H; subst. destruct (code c =? 48); [|discriminate]. destruct s as [|x s1]; [discriminate|].
      destruct (is_x x); [|discriminate]. apply lex_hex_len in EH. cbn [String.length]. lia.
    - destruct (span is_digit s) as [ds rest] eqn:E. pose proof (span_len _ _ _ _ E) as L.
      destruct (lex_decimal (String c ds) rest) as [t r0] eqn:ED. apply lex_decimal_len in ED.
      inversion H; subst. lia. }
  destruct (code c =? 46).
  { destruct (span is_digit s) as [fs r2] eqn:E. pose proof (span_len _ _ _ _ E) as L.
    destruct fs; [inversion H; subst; lia|].
    destruct (opt_dec_exponent r2) as [ex r3] eqn:E2. apply opt_dec_exponent_len in E2.
    inversion H; subst. lia. }
  destruct ((code c =? 34) || (code c =? 39)).
  { destruct (lex_string_body c s) as [[b r0]|] eqn:E; [|discriminate].
    apply lex_string_body_len in E. inversion H; subst. lia. }
  destruct (code c =? 47).
  { destruct (next_is 42 s).
    - destruct (skip_block_comment (tl_str s)) as [r0|] eqn:E.
      + apply skip_block_comment_len in E. inversion H; subst. lia.
      + inversion H; subst. lia.
    - destruct (next_is 47 s).
      + inversion H; subst. pose proof (skip_line_len (tl_str s)). lia.
      + eapply TWO; exact H. }
  repeat match type of H with
  | (if ?b then _ else _) = _ => destruct b
  end;
  try (eapply TWO; exact H); try discriminate; try (inversion H; subst; lia).
Qed.

(* the fuel never runs out: every fuel above the length of the input gives the same answer *)
Lemma lex_fuel_any : forall f1 f2 s, (slen s < f1)%nat -> (slen s < f2)%nat -> lex_fuel f1 s = lex_fuel f2 s.
Proof.
  induction f1 as [|f1 IH]; intros f2 s H1 H2; [lia|]. destruct f2 as [|f2]; [lia|].
  cbn [lex_fuel]. destruct s as [|c s']; [reflexivity|]. cbn [String.length] in *.
  destruct (is_space c).
  - apply IH; lia.
  - destruct (lex_one c s') as [[[t|] rest]|] eqn:E; [| |reflexivity];
      pose proof (lex_one_len _ _ _ _ E) as L; rewrite (IH f2 rest) by lia; reflexivity.
Qed.

Theorem lex_fuel_sufficient : forall s f, (slen s < f)%nat -> lex_fuel f s = lex s.
Proof. intros s f H. unfold lex. apply lex_fuel_any; lia. Qed.

(* the number of tokens is at most the number of characters *)
Lemma lex_fuel_count : forall f s ts, lex_fuel f s = Some ts -> (List.length ts <= slen s)%nat.
Proof.
  induction f as [|f IH]; intros s ts H; [discriminate|]. cbn [lex_fuel] in H.
  destruct s as [|c s']; [inversion H; cbn; lia|]. cbn [String.length].
  destruct (is_space c).
  - apply IH in H. lia.
  - destruct (lex_one c s') as [[[t|] rest]|] eqn:E; [| |discriminate]; pose proof (lex_one_len _ _ _ _ E) as L.
    + destruct (lex_fuel f rest) as [ts'|] eqn:E2; [|discriminate]. apply IH in E2. inversion H; subst. cbn [List.length]. lia.
    + apply IH in H. lia.
Qed.

Theorem lex_token_count : forall s ts, lex s = Some ts -> (List.length ts <= slen s)%nat.
Proof. intros s ts H. eapply lex_fuel_count; exact H. Qed.

(* ------------------------------------------------------------------------ *)
(* 2. parser: the syntax tree has at most as many nodes as there are tokens   *)

(* nodes of the tree; the wrappers EAtom / AVar and the cells of argument lists are not counted
   here ([nodes_le_size] below bounds the count that includes them) *)
Fixpoint size_e (e : expr) : nat :=
  match e with
  | EAtom a => size_a a
  | EParen _ e' => S (size_e e')
  | EBin _ l r => S (size_e l + size_e r)
  end
with size_a (a : atom) : nat :=
  match a with
  | AConst _ => 1
  | AVar v => size_v v
  | AFunc _ args => S (size_l args)
  | AMethod a' _ args => S (size_a a' + size_l args)
  | AMember a' _ => S (size_a a')
  | ASel a' sel => S (size_a a' + size_e sel)
  | ANeg a' => S (size_a a')
  end
with size_v (v : var) : nat :=
  match v with
  | VName _ => 1
  | VMember v' _ => S (size_v v')
  | VSel v' sel => S (size_v v' + size_e sel)
  end
with size_l (l : elist) : nat :=
  match l with ENil => 0 | ECons e l' => (size_e e + size_l l')%nat end.

Definition size_s (s : stmt) : nat :=
  match s with SAssign x _ e => S (size_v x + size_e e) | SAtom a => S (size_a a) end.
Fixpoint size_ss (l : list stmt) : nat := match l with [] => 0 | s :: l' => (size_s s + size_ss l')%nat end.
Definition size_r (r : rule) : nat := S (size_e (rwhen r) + size_ss (rthen r)).
Fixpoint size_rs (l : list rule) : nat := match l with [] => 0 | r :: l' => (size_r r + size_rs l')%nat end.

Local Notation len := (@List.length token).

Definition sizedE (p : parser expr) : Prop :=
  forall ts e rest, p ts = Some (e, rest) -> (size_e e + len rest <= len ts)%nat.

Lemma size_v_pos : forall v, (1 <= size_v v)%nat.
Proof. destruct v; cbn; lia. Qed.

Lemma size_a_pos : forall a, (1 <= size_a a)%nat.
Proof. destruct a; cbn; try lia. apply size_v_pos. Qed.

Lemma size_e_pos : forall e, (1 <= size_e e)%nat.
Proof. destruct e; cbn; try lia. apply size_a_pos. Qed.

Lemma size_s_pos : forall s, (1 <= size_s s)%nat.
Proof. destruct s; cbn; lia. Qed.

Lemma binloop_sized : forall k operand, sizedE operand ->
  forall ts skip lhs e rest, binloop k operand ts skip lhs = Some (e, rest) ->
  (size_e e + len rest + skip <= size_e lhs + len ts)%nat.
Proof.
  intros k operand Hop. induction ts as [|t ts IH]; intros skip lhs e rest H.
  - destruct skip; [|discriminate]. inversion H; subst. cbn. lia.
  - destruct skip as [|sk].
    + cbn [binloop] in H. destruct (binop_of t) as [[o lv]|].
      * destruct (Nat.eqb lv k).
        -- destruct (operand ts) as [[rhs rest0]|] eqn:E; [|discriminate].
           apply Hop in E. apply IH in H. unfold consumed in H. cbn [size_e List.length] in *. lia.
        -- inversion H; subst. cbn [List.length]. lia.
      * inversion H; subst. cbn [List.length]. lia.
    + cbn [binloop] in H. apply IH in H. cbn [List.length]. lia.
Qed.

Lemma plevel_sized : forall k operand, sizedE operand -> sizedE (plevel k operand).
Proof.
  intros k operand Hop ts e rest H. unfold plevel in H.
  destruct (operand ts) as [[a rest0]|] eqn:E; [|discriminate].
  apply Hop in E. eapply binloop_sized in H; [|exact Hop]. lia.
Qed.

Lemma plevels_sized : forall primary k, sizedE primary -> sizedE (plevels primary k).
Proof. intros primary k Hp. induction k as [|k IH]; [exact Hp|]. cbn [plevels]. apply plevel_sized. exact IH. Qed.

Ltac crunch H := repeat match type of H with
  | (match ?x with Some _ => _ | None => _ end) = _ => destruct x; try discriminate
  | (if ?b then _ else _) = _ => destruct b; try discriminate
  end.

Lemma pconst_sized : forall ts c rest, pconst ts = Some (c, rest) -> (1 + len rest <= len ts)%nat.
Proof.
  intros ts c rest H. unfold pconst in H.
  destruct ts as [|t ts]; [discriminate|]. destruct t; try discriminate; crunch H;
    try (inversion H; subst; cbn; lia).
  destruct ts as [|t ts]; [discriminate|]. destruct t; try discriminate; crunch H; inversion H; subst; cbn; lia.
Qed.

Section Sized.
  Variable pe : parser expr.
  Hypothesis Hpe : sizedE pe.

  Lemma argloop_sized : forall ts skip l rest, argloop pe ts skip = Some (l, rest) ->
    (size_l l + len rest + skip + 1 <= len ts)%nat.
  Proof.
    induction ts as [|t ts IH]; intros skip l rest H.
    - destruct skip; discriminate.
    - destruct skip as [|sk].
      + cbn [argloop] in H. destruct (pe (t :: ts)) as [[e r0]|] eqn:E; [|discriminate].
        apply Hpe in E. destruct r0 as [|t0 r0]; [discriminate|]. destruct t0; try discriminate.
        * destruct (argloop pe ts (consumed ts r0)) as [[l' r']|] eqn:E2; [|discriminate].
          apply IH in E2. inversion H; subst. unfold consumed in E2. cbn [size_l List.length] in *. lia.
        * inversion H; subst. cbn [size_l List.length] in *. lia.
      + cbn [argloop] in H. apply IH in H. cbn [List.length]. lia.
  Qed.

  Lemma pargs_sized : forall ts l rest, pargs pe ts = Some (l, rest) -> (size_l l + len rest + 1 <= len ts)%nat.
  Proof.
    intros ts l rest H. unfold pargs in H.
    destruct ts as [|t ts]; [apply argloop_sized in H; lia|].
    destruct t; try (apply argloop_sized in H; lia).
    inversion H; subst. cbn. lia.
  Qed.

  Lemma varloop_sized : forall n ts, len ts = n -> forall skip v v' rest, varloop pe ts skip v = Some (v', rest) ->
    (size_v v' + len rest + skip <= size_v v + len ts)%nat.
  Proof.
    induction n as [n IH] using lt_wf_ind. intros ts N skip v v' rest H.
    destruct skip as [|sk].
    - destruct ts as [|t ts1]; [cbn in H; inversion H; subst; lia|].
      cbn [List.length] in N.
      destruct t; try (cbn in H; inversion H; subst; lia).
      + (* TDot *)
        cbn [varloop] in H.
        destruct ts1 as [|t1 ts2]; [inversion H; subst; lia|].
        destruct t1; try (inversion H; subst; lia).
        cbn [List.length] in N.
        assert (G : forall vv rr, varloop pe ts2 0 (VMember v s) = Some (vv, rr) -> (size_v vv + len rr <= size_v v + S (S (len ts2)))%nat).
        { intros vv rr HH. eapply (IH (len ts2)) in HH; [|lia|reflexivity]. cbn [size_v] in HH. lia. }
        destruct ts2 as [|t2 ts3]; [apply G in H; cbn [List.length] in *; lia|].
        destruct t2; try (apply G in H; cbn [List.length] in *; lia).
        inversion H; subst. cbn [List.length]. lia.
      + (* TLBrack *)
        cbn [varloop] in H.
        destruct (pe ts1) as [[sel r0]|] eqn:E; [|discriminate]. apply Hpe in E.
        destruct r0 as [|t0 r0]; [discriminate|]. destruct t0; try discriminate.
        eapply (IH (len ts1)) in H; [|lia|reflexivity].
        unfold consumed in H. cbn [size_v List.length] in *. lia.
    - destruct ts as [|t ts1]; [discriminate|]. cbn [varloop] in H. cbn [List.length] in N.
      eapply (IH (len ts1)) in H; [|lia|reflexivity]. cbn [List.length]. lia.
  Qed.

  Lemma atomloop_sized : forall n ts, len ts = n -> forall skip a a' rest, atomloop pe ts skip a = Some (a', rest) ->
    (size_a a' + len rest + skip <= size_a a + len ts)%nat.
  Proof.
    induction n as [n IH] using lt_wf_ind. intros ts N skip a a' rest H.
    destruct skip as [|sk].
    - destruct ts as [|t ts1]; [cbn in H; inversion H; subst; lia|].
      cbn [List.length] in N.
      destruct t; try (cbn in H; inversion H; subst; lia).
      + (* TDot *)
        cbn [atomloop] in H.
        destruct ts1 as [|t1 ts2]; [inversion H; subst; lia|].
        destruct t1; try (inversion H; subst; lia).
        cbn [List.length] in N.
        assert (G : forall aa rr, atomloop pe ts2 0 (AMember a s) = Some (aa, rr) -> (size_a aa + len rr <= size_a a + S (S (len ts2)))%nat).
        { intros aa rr HH. eapply (IH (len ts2)) in HH; [|lia|reflexivity]. cbn [size_a] in HH. lia. }
        destruct ts2 as [|t2 ts3]; [apply G in H; cbn [List.length] in *; lia|].
        destruct t2; try (apply G in H; cbn [List.length] in *; lia).
        destruct (pargs pe ts3) as [[args r0]|] eqn:E; [|discriminate]. apply pargs_sized in E.
        cbn [List.length] in N.
        eapply (IH (len ts3)) in H; [|lia|reflexivity].
        unfold consumed in H. cbn [size_a List.length] in *. lia.
      + (* TLBrack *)
        cbn [atomloop] in H.
        destruct (pe ts1) as [[sel r0]|] eqn:E; [|discriminate]. apply Hpe in E.
        destruct r0 as [|t0 r0]; [discriminate|]. destruct t0; try discriminate.
        eapply (IH (len ts1)) in H; [|lia|reflexivity].
        unfold consumed in H. cbn [size_a List.length] in *. lia.
    - destruct ts as [|t ts1]; [discriminate|]. cbn [atomloop] in H. cbn [List.length] in N.
      eapply (IH (len ts1)) in H; [|lia|reflexivity]. cbn [List.length]. lia.
  Qed.

  Lemma patom_base_sized : forall ts a rest, patom_base pe ts = Some (a, rest) -> (size_a a + len rest <= len ts)%nat.
  Proof.
    intros ts a rest H. unfold patom_base in H.
    assert (C : forall ts0 a0 r0, match pconst ts0 with Some (c, rest0) => Some (AConst c, rest0) | None => None end = Some (a0, r0) ->
                (size_a a0 + len r0 <= len ts0)%nat).
    { intros ts0 a0 r0 HH. destruct (pconst ts0) as [[c rest0]|] eqn:E; [|discriminate].
      apply pconst_sized in E. inversion HH; subst. cbn [size_a]. lia. }
    destruct ts as [|t ts1]; [apply C in H; exact H|].
    destruct t; try (apply C in H; exact H).
    assert (V : forall a0 r0, match varloop pe ts1 0 (VName s) with Some (v, rest0) => Some (AVar v, rest0) | None => None end = Some (a0, r0) ->
                (size_a a0 + len r0 <= S (len ts1))%nat).
    { intros a0 r0 HH. destruct (varloop pe ts1 0 (VName s)) as [[v rest0]|] eqn:E; [|discriminate].
      eapply varloop_sized in E; [|reflexivity]. inversion HH; subst. cbn [size_a size_v] in *. lia. }
    destruct ts1 as [|t1 ts2]; [apply V in H; cbn [List.length] in *; lia|].
    destruct t1; try (apply V in H; cbn [List.length] in *; lia).
    destruct (pargs pe ts2) as [[args r0]|] eqn:E; [|discriminate]. apply pargs_sized in E.
    inversion H; subst. cbn [size_a List.length]. lia.
  Qed.

  Lemma patom_sized : forall ts a rest, patom pe ts = Some (a, rest) -> (size_a a + len rest <= len ts)%nat.
  Proof.
    induction ts as [|t ts IH]; intros a rest H.
    - cbn in H. discriminate.
    - assert (B : forall a0 r0, match patom_base pe (t :: ts) with Some (a1, rest1) => atomloop pe rest1 0 a1 | None => None end = Some (a0, r0) ->
                  (size_a a0 + len r0 <= len (t :: ts))%nat).
      { intros a0 r0 HH. destruct (patom_base pe (t :: ts)) as [[a1 rest1]|] eqn:E; [|discriminate].
        apply patom_base_sized in E. eapply atomloop_sized in HH; [|reflexivity]. lia. }
      destruct t; try (apply B; exact H).
      cbn [patom] in H. destruct (patom pe ts) as [[a1 r1]|] eqn:E; [|discriminate].
      specialize (IH a1 r1 eq_refl). inversion H; subst. cbn [size_a List.length]. lia.
  Qed.

  Lemma pprimary_sized : sizedE (pprimary pe).
  Proof.
    intros ts e rest H. unfold pprimary in H.
    assert (A : forall ts0 e0 r0, match patom pe ts0 with Some (a, rest0) => Some (EAtom a, rest0) | None => None end = Some (e0, r0) ->
                (size_e e0 + len r0 <= len ts0)%nat).
    { intros ts0 e0 r0 HH. destruct (patom pe ts0) as [[a rest0]|] eqn:E; [|discriminate].
      apply patom_sized in E. inversion HH; subst. cbn [size_e]. lia. }
    destruct ts as [|t ts1]; [apply A in H; exact H|].
    destruct t; try (apply A in H; exact H).
    - (* TLParen *)
      destruct (pe ts1) as [[e1 r1]|] eqn:E; [|discriminate]. apply Hpe in E.
      destruct r1 as [|t1 r1]; [discriminate|]. destruct t1; try discriminate.
      inversion H; subst. cbn [size_e List.length] in *. lia.
    - (* TNot *)
      destruct ts1 as [|t1 ts2]; [apply A in H; exact H|].
      destruct t1; try (apply A in H; exact H).
      destruct (pe ts2) as [[e1 r1]|] eqn:E; [|discriminate]. apply Hpe in E.
      destruct r1 as [|t1 r1]; [discriminate|]. destruct t1; try discriminate.
      inversion H; subst. cbn [size_e List.length] in *. lia.
  Qed.

  Lemma pstmt_atom_sized : forall ts s rest, pstmt_atom pe ts = Some (s, rest) -> (size_s s + len rest <= len ts)%nat.
  Proof.
    intros ts s rest H. unfold pstmt_atom in H.
    destruct (patom pe ts) as [[a r0]|] eqn:E; [|discriminate]. apply patom_sized in E.
    destruct r0 as [|t0 r0]; [discriminate|]. destruct t0; try discriminate.
    inversion H; subst. cbn [size_s List.length] in *. lia.
  Qed.

  Lemma pstmt_sized : forall ts s rest, pstmt pe ts = Some (s, rest) -> (size_s s + len rest <= len ts)%nat.
  Proof.
    intros ts s rest H. unfold pstmt in H.
    destruct ts as [|t ts1]; [apply pstmt_atom_sized in H; exact H|].
    destruct t; try (apply pstmt_atom_sized in H; exact H).
    destruct (varloop pe ts1 0 (VName s0)) as [[v r0]|] eqn:E; [|apply pstmt_atom_sized in H; exact H].
    eapply varloop_sized in E; [|reflexivity].
    destruct r0 as [|t0 ts2]; [apply pstmt_atom_sized in H; exact H|].
    destruct (asg_of t0); [|apply pstmt_atom_sized in H; exact H].
    destruct (pe ts2) as [[e r1]|] eqn:E2; [|discriminate]. apply Hpe in E2.
    destruct r1 as [|t1 r1]; [discriminate|]. destruct t1; try discriminate.
    inversion H; subst. cbn [size_s size_v List.length] in *. lia.
  Qed.

  Lemma stmtloop_sized : forall ts skip l rest, stmtloop pe ts skip = Some (l, rest) ->
    (size_ss l + len rest + skip <= len ts)%nat.
  Proof.
    induction ts as [|t ts IH]; intros skip l rest H.
    - destruct skip; discriminate.
    - destruct skip as [|sk].
      + cbn [stmtloop] in H.
        assert (G : match pstmt pe (t :: ts) with
                    | Some (s, rest0) => match stmtloop pe ts (consumed ts rest0) with Some (l0, r) => Some (s :: l0, r) | None => None end
                    | None => None end = Some (l, rest) -> (size_ss l + len rest + 0 <= len (t :: ts))%nat).
        { intros HH. destruct (pstmt pe (t :: ts)) as [[s rest0]|] eqn:E; [|discriminate].
          apply pstmt_sized in E.
          destruct (stmtloop pe ts (consumed ts rest0)) as [[l0 r]|] eqn:E2; [|discriminate].
          apply IH in E2. inversion HH; subst. unfold consumed in E2. cbn [size_ss List.length] in *.
          pose proof (size_s_pos s). lia. }
        destruct t; try (apply G; exact H).
        inversion H; subst. cbn [size_ss List.length]. lia.
      + cbn [stmtloop] in H. apply IH in H. cbn [List.length]. lia.
  Qed.
End Sized.

Lemma pexpr_sized : forall f, sizedE (pexpr f).
Proof.
  induction f as [|f IH]; [intros ts e rest H; discriminate|].
  intros ts e rest H. cbn [pexpr] in H.
  eapply (plevels_sized (pprimary (fun ts' => pexpr f ts')) 5); [|exact H].
  apply pprimary_sized. exact IH.
Qed.

Lemma pdesc_len : forall ts d r, pdesc ts = Some (d, r) -> (len r <= len ts)%nat.
Proof.
  intros ts d r H. unfold pdesc in H. destruct ts as [|t ts]; [inversion H; subst; lia|].
  destruct t; try (inversion H; subst; cbn [List.length]; lia).
  destruct (unquote dq raw); [|discriminate]. inversion H; subst. cbn [List.length]. lia.
Qed.

Lemma psalience_len : forall ts z r, psalience ts = Some (z, r) -> (len r <= len ts)%nat.
Proof.
  intros ts z r H. unfold psalience in H. destruct ts as [|t ts]; [inversion H; subst; lia|].
  destruct t; try (inversion H; subst; cbn [List.length]; lia).
  destruct ts as [|t ts]; [discriminate|]. destruct t; try discriminate; crunch H.
  - inversion H; subst. cbn [List.length]. lia.
  - destruct ts as [|t ts]; [discriminate|]. destruct t; try discriminate; crunch H.
    inversion H; subst. cbn [List.length]. lia.
Qed.

Section SizedRules.
  Variable pe : parser expr.
  Hypothesis Hpe : sizedE pe.

  Lemma prule_sized : forall ts r rest, prule pe ts = Some (r, rest) -> (size_r r + len rest <= len ts)%nat.
  Proof.
    intros ts r rest H. unfold prule in H.
    destruct ts as [|t ts]; [discriminate|]. destruct t; try discriminate.
    destruct ts as [|t ts]; [discriminate|]. destruct t; try discriminate.
    destruct (pdesc ts) as [[d ts2]|] eqn:Ed; [|discriminate]. apply pdesc_len in Ed.
    destruct (psalience ts2) as [[sal ts3]|] eqn:Es; [|discriminate]. apply psalience_len in Es.
    destruct ts3 as [|t ts3]; [discriminate|]. destruct t; try discriminate.
    destruct ts3 as [|t ts3]; [discriminate|]. destruct t; try discriminate.
    destruct (pe ts3) as [[w ts4]|] eqn:Ew; [|discriminate]. apply Hpe in Ew.
    destruct ts4 as [|t ts4]; [discriminate|]. destruct t; try discriminate.
    destruct (stmtloop pe ts4 0) as [[l r4]|] eqn:El; [|discriminate]. apply (stmtloop_sized pe Hpe) in El.
    destruct l as [|st l]; [discriminate|].
    destruct r4 as [|t r4]; [discriminate|]. destruct t; try discriminate.
    inversion H; subst. unfold size_r. cbn [rwhen rthen List.length] in *. lia.
  Qed.

  Lemma ruleloop_sized : forall ts skip rs, ruleloop pe ts skip = Some rs -> (size_rs rs + skip <= len ts)%nat.
  Proof.
    induction ts as [|t ts IH]; intros skip rs H.
    - destruct skip; [|discriminate]. inversion H; subst. cbn. lia.
    - destruct skip as [|sk].
      + cbn [ruleloop] in H. destruct (prule pe (t :: ts)) as [[r rest]|] eqn:E; [|discriminate].
        apply prule_sized in E.
        destruct (ruleloop pe ts (consumed ts rest)) as [l|] eqn:E2; [|discriminate].
        apply IH in E2. inversion H; subst. unfold consumed in E2. cbn [size_rs List.length] in *.
        assert (1 <= size_r r)%nat by (unfold size_r; lia). lia.
      + cbn [ruleloop] in H. apply IH in H. cbn [List.length]. lia.
  Qed.
End SizedRules.

Theorem parse_tokens_size : forall ts rs, parse_tokens ts = Some rs -> (size_rs rs <= len ts)%nat.
Proof.
  intros ts rs H. unfold parse_tokens in H.
  apply (ruleloop_sized _ (pexpr_sized (len ts))) in H. lia.
Qed.

(* the tree of a grammatical text has at most as many nodes as the text has characters *)
Theorem parse_grl_size : forall text rs, parse_grl text = Ok rs -> (size_rs rs <= slen text)%nat.
Proof.
  intros text rs H. unfold parse_grl in H.
  destruct (lex text) as [ts|] eqn:L; [|discriminate].
  destruct (parse_tokens ts) as [rs'|] eqn:P; [|discriminate].
  destruct (nodup_str (rule_names rs')); [|discriminate]. inversion H; subst.
  apply lex_token_count in L. apply parse_tokens_size in P. lia.
Qed.

(* the count that includes the wrappers EAtom / AVar: at most three per counted node *)
Fixpoint nodes_e (e : expr) : nat :=
  match e with
  | EAtom a => S (nodes_a a)
  | EParen _ e' => S (nodes_e e')
  | EBin _ l r => S (nodes_e l + nodes_e r)
  end
with nodes_a (a : atom) : nat :=
  match a with
  | AConst _ => 1
  | AVar v => S (nodes_v v)
  | AFunc _ args => S (nodes_l args)
  | AMethod a' _ args => S (nodes_a a' + nodes_l args)
  | AMember a' _ => S (nodes_a a')
  | ASel a' sel => S (nodes_a a' + nodes_e sel)
  | ANeg a' => S (nodes_a a')
  end
with nodes_v (v : var) : nat :=
  match v with
  | VName _ => 1
  | VMember v' _ => S (nodes_v v')
  | VSel v' sel => S (nodes_v v' + nodes_e sel)
  end
with nodes_l (l : elist) : nat :=
  match l with ENil => 0 | ECons e l' => (nodes_e e + nodes_l l')%nat end.

Lemma nodes_le_size :
  (forall e, (nodes_e e <= 3 * size_e e)%nat) /\
  (forall a, (nodes_a a + 1 <= 3 * size_a a)%nat) /\
  (forall v, (nodes_v v + 2 <= 3 * size_v v)%nat) /\
  (forall l, (nodes_l l <= 3 * size_l l)%nat).
Proof. apply syntax_mutind; intros; cbn [nodes_e nodes_a nodes_v nodes_l size_e size_a size_v size_l]; lia. Qed.

(* ------------------------------------------------------------------------ *)
(* 3. parser: the nesting fuel never runs out                                  *)

(* two expression parsers that agree on every token list shorter than n / of length at most n *)
Definition agree_lt (n : nat) (p q : parser expr) : Prop := forall ts, (len ts < n)%nat -> p ts = q ts.
Definition agree_le (n : nat) (p q : parser expr) : Prop := forall ts, (len ts <= n)%nat -> p ts = q ts.

Lemma binloop_agree : forall k op op', sizedE op ->
  forall ts skip lhs, agree_le (len ts) op op' -> binloop k op ts skip lhs = binloop k op' ts skip lhs.
Proof.
  intros k op op' Hop. induction ts as [|t ts IH]; intros skip lhs A.
  - destruct skip; reflexivity.
  - assert (A' : agree_le (len ts) op op') by (intros x Hx; apply A; cbn [List.length]; lia).
    destruct skip as [|sk]; cbn [binloop]; [|apply IH; exact A'].
    destruct (binop_of t) as [[o lv]|]; [|reflexivity].
    destruct (Nat.eqb lv k); [|reflexivity].
    rewrite <- (A ts) by (cbn [List.length]; lia).
    destruct (op ts) as [[rhs rest]|]; [|reflexivity]. apply IH. exact A'.
Qed.

Lemma plevel_agree : forall k op op' n, sizedE op -> agree_le n op op' -> agree_le n (plevel k op) (plevel k op').
Proof.
  intros k op op' n Hop A ts Hn. unfold plevel. rewrite <- (A ts Hn).
  destruct (op ts) as [[a rest]|] eqn:E; [|reflexivity].
  apply Hop in E. apply binloop_agree; [exact Hop|]. intros x Hx. apply A. lia.
Qed.

Lemma plevels_agree : forall p p' k n, sizedE p -> agree_le n p p' -> agree_le n (plevels p k) (plevels p' k).
Proof.
  intros p p' k n Hp A. induction k as [|k IH]; [exact A|]. cbn [plevels].
  apply plevel_agree; [apply plevels_sized; exact Hp|exact IH].
Qed.

Section Agree.
  Variables pe pe' : parser expr.
  Hypothesis Hpe : sizedE pe.

  Lemma argloop_agree : forall ts skip, agree_le (len ts) pe pe' -> argloop pe ts skip = argloop pe' ts skip.
  Proof.
    induction ts as [|t ts IH]; intros skip A.
    - destruct skip; reflexivity.
    - assert (A' : agree_le (len ts) pe pe') by (intros x Hx; apply A; cbn [List.length]; lia).
      destruct skip as [|sk]; cbn [argloop]; [|apply IH; exact A'].
      rewrite <- (A (t :: ts)) by lia.
      destruct (pe (t :: ts)) as [[e r0]|]; [|reflexivity].
      destruct r0 as [|t0 r0]; [reflexivity|]. destruct t0; try reflexivity.
      rewrite IH by exact A'. reflexivity.
  Qed.

  Lemma pargs_agree : forall ts, agree_le (len ts) pe pe' -> pargs pe ts = pargs pe' ts.
  Proof.
    intros ts A. unfold pargs. destruct ts as [|t ts]; [apply argloop_agree; exact A|].
    destruct t; try (apply argloop_agree; exact A). reflexivity.
  Qed.

  Lemma varloop_agree : forall n ts, len ts = n -> forall skip v, agree_lt (len ts) pe pe' ->
    varloop pe ts skip v = varloop pe' ts skip v.
  Proof.
    induction n as [n IH] using lt_wf_ind. intros ts N skip v A.
    destruct ts as [|t ts1]; [destruct skip; reflexivity|]. cbn [List.length] in N.
    assert (A1 : agree_lt (len ts1) pe pe') by (intros x Hx; apply A; cbn [List.length]; lia).
    destruct skip as [|sk]; [|cbn [varloop]; apply (IH (len ts1)); [lia|reflexivity|exact A1]].
    destruct t; try reflexivity.
    - (* TDot *)
      cbn [varloop]. destruct ts1 as [|t1 ts2]; [reflexivity|]. destruct t1; try reflexivity.
      cbn [List.length] in N.
      assert (G : varloop pe ts2 0 (VMember v s) = varloop pe' ts2 0 (VMember v s)).
      { apply (IH (len ts2)); [lia|reflexivity|]. intros x Hx. apply A. cbn [List.length]. lia. }
      destruct ts2 as [|t2 ts3]; [exact G|]. destruct t2; try exact G. reflexivity.
    - (* TLBrack *)
      cbn [varloop]. rewrite <- (A ts1) by (cbn [List.length]; lia).
      destruct (pe ts1) as [[sel r0]|]; [|reflexivity].
      destruct r0 as [|t0 r0]; [reflexivity|]. destruct t0; try reflexivity.
      apply (IH (len ts1)); [lia|reflexivity|exact A1].
  Qed.

  Lemma atomloop_agree : forall n ts, len ts = n -> forall skip a, agree_lt (len ts) pe pe' ->
    atomloop pe ts skip a = atomloop pe' ts skip a.
  Proof.
    induction n as [n IH] using lt_wf_ind. intros ts N skip a A.
    destruct ts as [|t ts1]; [destruct skip; reflexivity|]. cbn [List.length] in N.
    assert (A1 : agree_lt (len ts1) pe pe') by (intros x Hx; apply A; cbn [List.length]; lia).
    destruct skip as [|sk]; [|cbn [atomloop]; apply (IH (len ts1)); [lia|reflexivity|exact A1]].
    destruct t; try reflexivity.
    - (* TDot *)
      cbn [atomloop]. destruct ts1 as [|t1 ts2]; [reflexivity|]. destruct t1; try reflexivity.
      cbn [List.length] in N.
      assert (G : atomloop pe ts2 0 (AMember a s) = atomloop pe' ts2 0 (AMember a s)).
      { apply (IH (len ts2)); [lia|reflexivity|]. intros x Hx. apply A. cbn [List.length]. lia. }
      destruct ts2 as [|t2 ts3]; [exact G|]. destruct t2; try exact G.
      cbn [List.length] in N.
      rewrite <- (pargs_agree ts3) by (intros x Hx; apply A; cbn [List.length]; lia).
      destruct (pargs pe ts3) as [[args r0]|]; [|reflexivity].
      apply (IH (len ts3)); [lia|reflexivity|]. intros x Hx. apply A. cbn [List.length]. lia.
    - (* TLBrack *)
      cbn [atomloop]. rewrite <- (A ts1) by (cbn [List.length]; lia).
      destruct (pe ts1) as [[sel r0]|]; [|reflexivity].
      destruct r0 as [|t0 r0]; [reflexivity|]. destruct t0; try reflexivity.
      apply (IH (len ts1)); [lia|reflexivity|exact A1].
  Qed.

  Lemma patom_base_agree : forall ts, agree_lt (len ts) pe pe' -> patom_base pe ts = patom_base pe' ts.
  Proof.
    intros ts A. unfold patom_base. destruct ts as [|t ts1]; [reflexivity|]. destruct t; try reflexivity.
    assert (V : varloop pe ts1 0 (VName s) = varloop pe' ts1 0 (VName s)).
    { apply (varloop_agree (len ts1)); [reflexivity|]. intros x Hx. apply A. cbn [List.length]. lia. }
    destruct ts1 as [|t1 ts2]; [rewrite V; reflexivity|]. destruct t1; try (rewrite V; reflexivity).
    rewrite <- (pargs_agree ts2) by (intros x Hx; apply A; cbn [List.length]; lia). reflexivity.
  Qed.

  Lemma patom_agree : forall ts, agree_lt (len ts) pe pe' -> patom pe ts = patom pe' ts.
  Proof.
    induction ts as [|t ts IH]; intros A; [reflexivity|].
    assert (B : match patom_base pe (t :: ts) with Some (a1, rest1) => atomloop pe rest1 0 a1 | None => None end =
                match patom_base pe' (t :: ts) with Some (a1, rest1) => atomloop pe' rest1 0 a1 | None => None end).
    { rewrite <- (patom_base_agree (t :: ts) A).
      destruct (patom_base pe (t :: ts)) as [[a1 rest1]|] eqn:E; [|reflexivity].
      apply (patom_base_sized pe Hpe) in E. pose proof (size_a_pos a1).
      apply (atomloop_agree (len rest1)); [reflexivity|]. intros x Hx. apply A. lia. }
    destruct t; try exact B.
    cbn [patom]. rewrite IH by (intros x Hx; apply A; cbn [List.length]; lia). reflexivity.
  Qed.

  Lemma pprimary_agree : forall ts, agree_lt (len ts) pe pe' -> pprimary pe ts = pprimary pe' ts.
  Proof.
    intros ts A. unfold pprimary. pose proof (patom_agree ts A) as PA.
    destruct ts as [|t ts1]; [rewrite PA; reflexivity|].
    destruct t; try (rewrite PA; reflexivity).
    - rewrite <- (A ts1) by (cbn [List.length]; lia). reflexivity.
    - destruct ts1 as [|t1 ts2]; [rewrite PA; reflexivity|].
      destruct t1; try (rewrite PA; reflexivity).
      rewrite <- (A ts2) by (cbn [List.length]; lia). reflexivity.
  Qed.

  Lemma pstmt_atom_agree : forall ts, agree_lt (len ts) pe pe' -> pstmt_atom pe ts = pstmt_atom pe' ts.
  Proof. intros ts A. unfold pstmt_atom. rewrite (patom_agree ts A). reflexivity. Qed.

  Lemma pstmt_agree : forall ts, agree_lt (len ts) pe pe' -> pstmt pe ts = pstmt pe' ts.
  Proof.
    intros ts A. unfold pstmt. pose proof (pstmt_atom_agree ts A) as PA.
    destruct ts as [|t ts1]; [exact PA|]. destruct t; try exact PA.
    rewrite <- (varloop_agree (len ts1) ts1 eq_refl 0%nat (VName s)) by (intros x Hx; apply A; cbn [List.length]; lia).
    destruct (varloop pe ts1 0 (VName s)) as [[v r0]|] eqn:E; [|exact PA].
    eapply (varloop_sized pe Hpe) in E; [|reflexivity].
    destruct r0 as [|t0 ts2]; [exact PA|]. destruct (asg_of t0); [|exact PA].
    rewrite <- (A ts2); [reflexivity|]. pose proof (size_v_pos v). cbn [size_v List.length] in *. lia.
  Qed.

  Lemma stmtloop_agree : forall ts skip, agree_lt (len ts) pe pe' -> stmtloop pe ts skip = stmtloop pe' ts skip.
  Proof.
    induction ts as [|t ts IH]; intros skip A.
    - destruct skip; reflexivity.
    - assert (A' : agree_lt (len ts) pe pe') by (intros x Hx; apply A; cbn [List.length]; lia).
      destruct skip as [|sk]; cbn [stmtloop]; [|apply IH; exact A'].
      rewrite <- (pstmt_agree (t :: ts) A).
      assert (G : match pstmt pe (t :: ts) with
                  | Some (s, rest) => match stmtloop pe ts (consumed ts rest) with Some (l, r) => Some (s :: l, r) | None => None end
                  | None => None end =
                  match pstmt pe (t :: ts) with
                  | Some (s, rest) => match stmtloop pe' ts (consumed ts rest) with Some (l, r) => Some (s :: l, r) | None => None end
                  | None => None end).
      { destruct (pstmt pe (t :: ts)) as [[s rest]|]; [|reflexivity]. rewrite IH by exact A'. reflexivity. }
      destruct t; try exact G. reflexivity.
  Qed.

  Lemma prule_agree : forall ts, agree_lt (len ts) pe pe' -> prule pe ts = prule pe' ts.
  Proof.
    intros ts A. unfold prule.
    destruct ts as [|t ts]; [reflexivity|]. destruct t; try reflexivity.
    destruct ts as [|t ts]; [reflexivity|]. destruct t; try reflexivity.
    destruct (pdesc ts) as [[d ts2]|] eqn:Ed; [|reflexivity]. apply pdesc_len in Ed.
    destruct (psalience ts2) as [[sal ts3]|] eqn:Es; [|reflexivity]. apply psalience_len in Es.
    destruct ts3 as [|t ts3]; [reflexivity|]. destruct t; try reflexivity.
    destruct ts3 as [|t ts3]; [reflexivity|]. destruct t; try reflexivity.
    cbn [List.length] in *.
    rewrite <- (A ts3) by lia.
    destruct (pe ts3) as [[w ts4]|] eqn:Ew; [|reflexivity]. apply Hpe in Ew.
    destruct ts4 as [|t ts4]; [reflexivity|]. destruct t; try reflexivity.
    rewrite <- (stmtloop_agree ts4 0%nat); [reflexivity|].
    intros x Hx. apply A. cbn [List.length] in *. lia.
  Qed.

  Lemma ruleloop_agree : forall ts skip, agree_lt (len ts) pe pe' -> ruleloop pe ts skip = ruleloop pe' ts skip.
  Proof.
    induction ts as [|t ts IH]; intros skip A.
    - destruct skip; reflexivity.
    - assert (A' : agree_lt (len ts) pe pe') by (intros x Hx; apply A; cbn [List.length]; lia).
      destruct skip as [|sk]; cbn [ruleloop]; [|apply IH; exact A'].
      rewrite <- (prule_agree (t :: ts) A).
      destruct (prule pe (t :: ts)) as [[r rest]|]; [|reflexivity]. rewrite IH by exact A'. reflexivity.
  Qed.
End Agree.

(* one more unit of fuel changes nothing on a token list shorter than the fuel *)
Lemma pexpr_step : forall f, agree_lt f (pexpr f) (pexpr (S f)).
Proof.
  induction f as [|f IH]; [intros ts H; lia|].
  intros ts H. cbn [pexpr].
  apply (plevels_agree (pprimary (fun ts' => pexpr f ts')) (pprimary (fun ts' => pexpr (S f) ts')) 5 (len ts)); [| |lia].
  - apply pprimary_sized. apply pexpr_sized.
  - intros ts1 H1. apply pprimary_agree; [apply pexpr_sized|].
    intros ts2 H2. apply IH. lia.
Qed.

Lemma pexpr_fuel_any : forall d f ts, (len ts < f)%nat -> pexpr f ts = pexpr (d + f) ts.
Proof.
  induction d as [|d IH]; intros f ts H; [reflexivity|].
  rewrite (IH f ts H). cbn [Nat.add]. apply pexpr_step. lia.
Qed.

(* [parse_tokens] gives the parser a nesting fuel equal to the number of tokens; every larger fuel gives the
   same answer, so "None" is never the out-of-fuel answer *)
Theorem parse_fuel_sufficient : forall ts f, (len ts <= f)%nat -> ruleloop (pexpr f) ts 0 = parse_tokens ts.
Proof.
  intros ts f H. unfold parse_tokens. symmetry.
  apply ruleloop_agree; [apply pexpr_sized|].
  intros x Hx. replace f with ((f - len ts) + len ts)%nat by lia. apply pexpr_fuel_any. exact Hx.
Qed.

(* ------------------------------------------------------------------------ *)
(* 4. JSON rule translator model: no fuel, never Panic, output linear in the value *)

Fixpoint jsize (j : jval) : nat :=
  match j with
  | JStr s => S (slen s)
  | JNum z => S (slen (show_z z))
  | JBool _ => 6
  | JNull => 1
  | JArr l => S ((fix go (l : list jval) : nat := match l with [] => O | x :: l' => (jsize x + go l')%nat end) l)
  | JObj kvs => S ((fix go (kvs : list (string * jval)) : nat :=
                      match kvs with [] => O | (k, v) :: r => (S (slen k) + jsize v + go r)%nat end) kvs)
  end.

Fixpoint jsizes (l : list jval) : nat := match l with [] => O | x :: l' => (jsize x + jsizes l')%nat end.

Lemma jsize_arr : forall l, jsize (JArr l) = S (jsizes l).
Proof.
  intros l. induction l as [|x l IH]; [reflexivity|].
  change (jsize (JArr (x :: l))) with (S (jsize x + pred (jsize (JArr l))))%nat. rewrite IH. reflexivity.
Qed.

Lemma jsize_obj1 : forall k v, jsize (JObj [(k, v)]) = (S (S (slen k) + jsize v + 0))%nat.
Proof. reflexivity. Qed.

Lemma jsize_pos : forall j, (1 <= jsize j)%nat.
Proof. destruct j; cbn [jsize]; lia. Qed.

(* total length of a list of texts, c extra characters each *)
Fixpoint tlen (c : nat) (es : list string) : nat := match es with [] => O | e :: es' => (slen e + c + tlen c es')%nat end.

Lemma str_join_len : forall sep es, (slen (str_join sep es) <= tlen (slen sep) es)%nat.
Proof.
  intros sep. induction es as [|e es IH]; [cbn; lia|].
  destruct es as [|e2 es]; [cbn; lia|].
  change (str_join sep (e :: e2 :: es)) with (e ++ sep ++ str_join sep (e2 :: es))%string.
  rewrite !str_app_length. cbn [tlen] in *. lia.
Qed.

Lemma tlen_mono : forall c c' es, (c <= c')%nat -> (tlen c es <= tlen c' es)%nat.
Proof. intros c c' es H. induction es as [|e es IH]; cbn [tlen]; lia. Qed.

Lemma quote_char_upper : forall c k, (slen (quote_char c k) <= slen k + 4)%nat.
Proof.
  intros c k. unfold quote_char.
  repeat match goal with |- context [if ?b then _ else _] => destruct b end; cbn [String.length]; lia.
Qed.

Lemma quote_body_upper : forall s, (slen (quote_body s) <= 4 * slen s)%nat.
Proof.
  induction s as [|c s IH]; [cbn; lia|]. cbn [quote_body String.length].
  pose proof (quote_char_upper c (quote_body s)). lia.
Qed.

Lemma quote_upper : forall s, (slen (quote s) <= 4 * slen s + 2)%nat.
Proof.
  intros s. unfold quote. cbn [String.length]. rewrite str_app_length. cbn [String.length].
  pose proof (quote_body_upper s). lia.
Qed.

Lemma bool_text_len : forall b, (slen (bool_text b) <= 5)%nat.
Proof. destruct b; cbn; lia. Qed.

(* map_res with a per-element bound *)
Lemma map_res_tlen : forall (f : jval -> res string) c l es,
  (forall x e, In x l -> f x = Ok e -> (slen e + c <= 16 * jsize x)%nat) ->
  map_res f l = Ok es -> (tlen c es <= 16 * jsizes l)%nat.
Proof.
  intros f c. induction l as [|x l IH]; intros es B H.
  - cbn in H. inversion H; subst. cbn. lia.
  - cbn [map_res] in H. destruct (f x) as [e| |] eqn:E; try discriminate.
    change ((fix go (l0 : list jval) : res (list string) :=
               match l0 with
               | [] => Ok []
               | x0 :: l' => match f x0 with
                             | Ok a => match go l' with Ok r => Ok (a :: r) | Err => Err | Panic => Panic end
                             | Err => Err
                             | Panic => Panic
                             end
               end) l) with (map_res f l) in H.
    destruct (map_res f l) as [r| |] eqn:E2; try discriminate. inversion H; subst.
    cbn [tlen jsizes]. specialize (IH r (fun x0 e0 I => B x0 e0 (or_intror I)) eq_refl).
    specialize (B x e (or_introl eq_refl) E). lia.
Qed.

Lemma map_res_no_panic : forall (A : Type) (f : jval -> res A) l,
  (forall x, In x l -> f x <> Panic) -> map_res f l <> Panic.
Proof.
  intros A f. induction l as [|x l IH]; intros B; [cbn; discriminate|].
  cbn [map_res]. destruct (f x) as [e| |] eqn:E; [|discriminate|exfalso; exact (B x (or_introl eq_refl) E)].
  change ((fix go (l0 : list jval) : res (list A) :=
             match l0 with
             | [] => Ok []
             | x0 :: l' => match f x0 with
                           | Ok a => match go l' with Ok r => Ok (a :: r) | Err => Err | Panic => Panic end
                           | Err => Err
                           | Panic => Panic
                           end
             end) l) with (map_res f l).
  specialize (IH (fun x0 I => B x0 (or_intror I))).
  destruct (map_res f l); [discriminate|discriminate|exfalso; apply IH; reflexivity].
Qed.

Lemma in_jsizes : forall x l, In x l -> (jsize x <= jsizes l)%nat.
Proof. intros x. induction l as [|y l IH]; intros H; [destruct H|]. cbn [jsizes]. destruct H as [->|H]; [lia|specialize (IH H); lia]. Qed.

(* what is claimed of buildExpressionEx on a value of size at most n *)
Definition bex_ok (j : jval) : Prop :=
  forall d, bex j d <> Panic /\ (forall e nw, bex j d = Ok (e, nw) -> (slen e + 12 <= 16 * jsize j)%nat).

Lemma operand_text_ok : forall noWrap neg x, bex_ok x ->
  operand_text bex noWrap neg x <> Panic /\
  (forall e, operand_text bex noWrap neg x = Ok e -> (slen e + 7 <= 16 * jsize x)%nat).
Proof.
  intros noWrap neg x Hx. unfold operand_text. destruct x as [s|z|b| |l|kvs]; cbn [jsize].
  - split; [discriminate|]. intros e H. inversion H; subst.
    destruct neg; [cbn [append String.length]; rewrite str_app_length; cbn [String.length]|]; lia.
  - split; [discriminate|]. intros e H. inversion H; subst. lia.
  - split; [discriminate|]. intros e H. inversion H; subst. pose proof (bool_text_len b).
    destruct neg; [cbn [append String.length]; rewrite str_app_length; cbn [String.length]|]; lia.
  - split; [discriminate|]. intros e H. discriminate.
  - split; [discriminate|]. intros e H. discriminate.
  - destruct (Hx 0) as [NP B]. destruct (bex (JObj kvs) 0) as [[e0 nw]| |] eqn:E; [|split; [discriminate|intros; discriminate]|exfalso; apply NP; reflexivity].
    specialize (B e0 nw eq_refl). cbn [jsize] in B.
    split.
    + destruct neg; [discriminate|]. destruct (nw || noWrap); discriminate.
    + intros e H. destruct neg.
      * inversion H; subst. cbn [append String.length]. rewrite str_app_length. cbn [String.length]. lia.
      * destruct (nw || noWrap); inversion H; subst; [lia|].
        cbn [append String.length]. rewrite str_app_length. cbn [String.length]. lia.
Qed.

Lemma call_operand_text_ok : forall x, bex_ok x ->
  call_operand_text bex x <> Panic /\
  (forall e, call_operand_text bex x = Ok e -> (slen e + 7 <= 16 * jsize x)%nat).
Proof.
  intros x Hx. unfold call_operand_text. destruct x as [s|z|b| |l|kvs]; cbn [jsize].
  - split; [destruct (String.eqb s ""); discriminate|]. intros e H. destruct (String.eqb s ""); [discriminate|]. inversion H; subst. lia.
  - split; [discriminate|]. intros e H. inversion H; subst. lia.
  - split; [discriminate|]. intros e H. inversion H; subst. pose proof (bool_text_len b). lia.
  - split; [discriminate|]. intros e H. discriminate.
  - split; [discriminate|]. intros e H. discriminate.
  - destruct (Hx 0) as [NP B]. destruct (bex (JObj kvs) 0) as [[e0 nw]| |] eqn:E; [|split; [discriminate|intros; discriminate]|exfalso; apply NP; reflexivity].
    specialize (B e0 nw eq_refl). cbn [jsize] in B.
    split; [discriminate|]. intros e H. inversion H; subst. lia.
Qed.

Definition bex_elem (depth : Z) (x : jval) : res string :=
  match x with
  | JObj _ => match bex x (depth + 1) with Ok (e, _) => Ok e | Err => Err | Panic => Panic end
  | _ => Err
  end.

Lemma bex_unfold : forall key value depth,
  bex (JObj [(key, value)]) depth =
  if 1024 <? depth then Err else
  if (String.eqb key "and" || String.eqb key "or")%bool then
    match value with
    | JArr l =>
        if (List.length l <? 2)%nat then Err else
        match map_res (bex_elem depth) l with
        | Ok es =>
            let body := str_join (if String.eqb key "and" then " && " else " || ")%string es in
            if 0 <? depth then Ok (("(" ++ body ++ ")")%string, false) else Ok (body, false)
        | Err => Err
        | Panic => Panic
        end
    | _ => Err
    end
  else
  match alookup key join_ops with
  | Some optext =>
      match value with
      | JArr [] => Err
      | JArr l =>
          let lone := Nat.eqb (List.length l) 1 in
          if lone && negb (String.eqb optext " != ") then Err else
          match map_res (operand_text bex false (String.eqb optext " != " && lone)) l with
          | Ok es => Ok (str_join optext es, false)
          | Err => Err
          | Panic => Panic
          end
      | _ => Err
      end
  | None =>
      if String.eqb key "set" then
        match value with
        | JArr [l; r] =>
            match operand_text bex true false l with
            | Ok ls => match operand_text bex true false r with
                       | Ok rs => Ok ((ls ++ " = " ++ rs)%string, true)
                       | Err => Err | Panic => Panic
                       end
            | Err => Err | Panic => Panic
            end
        | _ => Err
        end
      else if String.eqb key "call" then
        match value with
        | JArr (JStr f :: args) =>
            match map_res (call_operand_text bex) args with
            | Ok es => Ok ((f ++ "(" ++ str_join ", " es ++ ")")%string, true)
            | Err => Err | Panic => Panic
            end
        | _ => Err
        end
      else if String.eqb key "obj" then
        match value with JStr s => Ok (s, true) | _ => Err end
      else if String.eqb key "const" then
        match value with
        | JStr s => Ok (quote s, true)
        | JNum z => Ok (show_z z, true)
        | JBool b => Ok (bool_text b, true)
        | _ => Err
        end
      else Err
  end.
Proof. intros. reflexivity. Qed.

Lemma join_ops_len : forall key optext, alookup key join_ops = Some optext -> (slen optext <= 4)%nat.
Proof.
  intros key optext H. unfold join_ops in H. cbn [alookup] in H.
  repeat match type of H with
  | (if ?b then _ else _) = _ => destruct b; [inversion H; subst; cbn; lia|]
  end.
  discriminate.
Qed.

Lemma bex_all : forall n j, (jsize j <= n)%nat -> bex_ok j.
Proof.
  induction n as [n IH] using lt_wf_ind. intros j Hn.
  assert (TRIV : forall d, (if 1024 <? d then @Err (string * bool) else Err) <> Panic /\
                 (forall e nw, (if 1024 <? d then @Err (string * bool) else Err) = Ok (e, nw) -> (slen e + 12 <= 16 * jsize j)%nat)).
  { intros d. destruct (1024 <? d); split; try discriminate; intros; discriminate. }
  destruct j as [s|z|b| |l|kvs]; try (intros d; exact (TRIV d)).
  destruct kvs as [|[key value] kvs]; [intros d; exact (TRIV d)|].
  destruct kvs as [|kv2 kvs]; [|intros d; exact (TRIV d)].
  clear TRIV. rewrite jsize_obj1 in Hn.
  assert (IHx : forall x, (jsize x < jsize value)%nat -> bex_ok x) by (intros x Hx; apply (IH (jsize x)); lia).
  intros d. rewrite bex_unfold. rewrite jsize_obj1.
  destruct (1024 <? d); [split; [discriminate|intros; discriminate]|].
  destruct (String.eqb key "and" || String.eqb key "or")%bool.
  { (* buildCompoundOperator *)
    destruct value as [s|z|b| |l|kvs]; try (split; [discriminate|intros; discriminate]).
    rewrite jsize_arr in *.
    destruct (List.length l <? 2)%nat; [split; [discriminate|intros; discriminate]|].
    assert (EL : forall x, In x l -> bex_elem d x <> Panic /\ (forall e, bex_elem d x = Ok e -> (slen e + 7 <= 16 * jsize x)%nat)).
    { intros x I. pose proof (in_jsizes _ _ I) as Lx. unfold bex_elem.
      destruct x as [s|z|b| |l0|kvs]; try (split; [discriminate|intros; discriminate]).
      destruct (IHx (JObj kvs) ltac:(lia) (d + 1)) as [NP B].
      destruct (bex (JObj kvs) (d + 1)) as [[e0 nw]| |]; [|split; [discriminate|intros; discriminate]|exfalso; apply NP; reflexivity].
      split; [discriminate|]. intros e H. inversion H; subst. specialize (B e nw eq_refl). lia. }
    pose proof (map_res_no_panic _ (bex_elem d) l (fun x I => proj1 (EL x I))) as NP.
    destruct (map_res (bex_elem d) l) as [es| |] eqn:E; [|split; [discriminate|intros; discriminate]|exfalso; apply NP; reflexivity].
    pose proof (map_res_tlen (bex_elem d) 7 l es (fun x e I => proj2 (EL x I) e) E) as T.
    assert (J : forall sep, (slen sep <= 7)%nat -> (slen (str_join sep es) <= 16 * jsizes l)%nat).
    { intros sep Hs. pose proof (str_join_len sep es). pose proof (tlen_mono (slen sep) 7 es Hs). lia. }
    split; [cbv zeta; destruct (0 <? d); discriminate|].
    intros e nw H. cbv zeta in H.
    assert (S4 : (slen (if String.eqb key "and" then " && " else " || ")%string <= 7)%nat) by (destruct (String.eqb key "and"); cbn; lia).
    specialize (J _ S4).
    destruct (0 <? d); inversion H; subst; [cbn [append String.length]; rewrite str_app_length; cbn [String.length]|]; lia. }
  destruct (alookup key join_ops) as [optext|] eqn:EO.
  { (* joinOperator *)
    apply join_ops_len in EO.
    destruct value as [s|z|b| |l|kvs]; try (split; [discriminate|intros; discriminate]).
    rewrite jsize_arr in *.
    destruct l as [|x0 l0]; [split; [discriminate|intros; discriminate]|].
    set (l := x0 :: l0) in *. cbv zeta.
    destruct (Nat.eqb (List.length l) 1 && negb (String.eqb optext " != ")); [split; [discriminate|intros; discriminate]|].
    set (f := operand_text bex false (String.eqb optext " != " && Nat.eqb (List.length l) 1)).
    assert (EL : forall x, In x l -> f x <> Panic /\ (forall e, f x = Ok e -> (slen e + 7 <= 16 * jsize x)%nat)).
    { intros x I. pose proof (in_jsizes _ _ I) as Lx. apply operand_text_ok. apply IHx. lia. }
    pose proof (map_res_no_panic _ f l (fun x I => proj1 (EL x I))) as NP.
    destruct (map_res f l) as [es| |] eqn:E; [|split; [discriminate|intros; discriminate]|exfalso; apply NP; reflexivity].
    pose proof (map_res_tlen f 7 l es (fun x e I => proj2 (EL x I) e) E) as T.
    pose proof (str_join_len optext es) as SJ. pose proof (tlen_mono (slen optext) 7 es ltac:(lia)) as TM.
    split; [discriminate|]. intros e nw HH. inversion HH; subst. lia. }
  destruct (String.eqb key "set").
  { destruct value as [s|z|b| |l|kvs]; try (split; [discriminate|intros; discriminate]).
    destruct l as [|xl l]; [split; [discriminate|intros; discriminate]|].
    destruct l as [|xr l]; [split; [discriminate|intros; discriminate]|].
    destruct l as [|x3 l]; [|split; [discriminate|intros; discriminate]].
    rewrite jsize_arr in *. cbn [jsizes] in *.
    destruct (operand_text_ok true false xl (IHx xl ltac:(lia))) as [NPl Bl].
    destruct (operand_text_ok true false xr (IHx xr ltac:(lia))) as [NPr Br].
    destruct (operand_text bex true false xl) as [ls| |]; [|split; [discriminate|intros; discriminate]|exfalso; apply NPl; reflexivity].
    destruct (operand_text bex true false xr) as [rs| |]; [|split; [discriminate|intros; discriminate]|exfalso; apply NPr; reflexivity].
    specialize (Bl ls eq_refl). specialize (Br rs eq_refl).
    split; [discriminate|]. intros e nw H. inversion H; subst. rewrite !str_app_length. cbn [String.length]. lia. }
  destruct (String.eqb key "call").
  { destruct value as [s|z|b| |l|kvs]; try (split; [discriminate|intros; discriminate]).
    destruct l as [|xf args]; [split; [discriminate|intros; discriminate]|].
    destruct xf as [fn|z|b| |l0|kvs]; try (split; [discriminate|intros; discriminate]).
    rewrite jsize_arr in *. cbn [jsizes jsize] in *.
    set (f := call_operand_text bex).
    assert (EL : forall x, In x args -> f x <> Panic /\ (forall e, f x = Ok e -> (slen e + 7 <= 16 * jsize x)%nat)).
    { intros x I. pose proof (in_jsizes _ _ I) as Lx. apply call_operand_text_ok. apply IHx. lia. }
    pose proof (map_res_no_panic _ f args (fun x I => proj1 (EL x I))) as NP.
    destruct (map_res f args) as [es| |] eqn:E; [|split; [discriminate|intros; discriminate]|exfalso; apply NP; reflexivity].
    pose proof (map_res_tlen f 7 args es (fun x e I => proj2 (EL x I) e) E) as T.
    pose proof (str_join_len ", " es) as SJ. pose proof (tlen_mono (slen ", ") 7 es ltac:(cbn; lia)) as TM.
    split; [discriminate|]. intros e nw HH. inversion HH; subst.
    rewrite !str_app_length. cbn [String.length append]. rewrite str_app_length. cbn [String.length]. lia. }
  destruct (String.eqb key "obj").
  { destruct value as [s|z|b| |l|kvs]; try (split; [discriminate|intros; discriminate]).
    split; [discriminate|]. intros e nw H. inversion H; subst. cbn [jsize]. lia. }
  destruct (String.eqb key "const").
  { destruct value as [s|z|b| |l|kvs]; try (split; [discriminate|intros; discriminate]);
      (split; [discriminate|]); intros e nw H; inversion H; subst; cbn [jsize].
    - pose proof (quote_upper s). lia.
    - lia.
    - pose proof (bool_text_len b). lia. }
  split; [discriminate|intros; discriminate].
Qed.

Theorem bex_never_panics : forall j d, bex j d <> Panic.
Proof. intros j d. exact (proj1 (bex_all (jsize j) j (le_n _) d)). Qed.

Theorem bex_output_linear : forall j d e nw, bex j d = Ok (e, nw) -> (slen e + 12 <= 16 * jsize j)%nat.
Proof. intros j d e nw H. exact (proj2 (bex_all (jsize j) j (le_n _) d) e nw H). Qed.

Definition jrule_size (r : jrule) : nat :=
  (slen (jname r) + slen (jdesc r) + slen (show_z (jsal r)) + jsize (jwhen r) + jsize (jthen r))%nat.

Lemma when_text_ok : forall w, when_text w <> Panic /\ (forall t, when_text w = Ok t -> (slen t <= 16 * jsize w)%nat).
Proof.
  intros w. unfold when_text. destruct w as [s|z|b| |l|kvs]; try (split; [discriminate|intros; discriminate]).
  - split; [discriminate|]. intros t H. inversion H; subst. cbn [jsize]. lia.
  - pose proof (bex_never_panics (JObj kvs) 0) as NP. pose proof (bex_output_linear (JObj kvs) 0) as B.
    destruct (bex (JObj kvs) 0) as [[e nw]| |]; [|split; [discriminate|intros; discriminate]|exfalso; apply NP; reflexivity].
    split; [discriminate|]. intros t H. inversion H; subst. specialize (B t nw eq_refl). lia.
Qed.

Lemma then_item_text_ok : forall x, then_item_text x <> Panic /\
  (forall t, then_item_text x = Ok t -> (slen t + 9 <= 16 * jsize x)%nat).
Proof.
  intros x. unfold then_item_text. destruct x as [s|z|b| |l|kvs]; try (split; [discriminate|intros; discriminate]).
  - split; [discriminate|]. intros t H. inversion H; subst. cbn [jsize].
    destruct (has_suffix_semi s); [lia|]. rewrite str_app_length. cbn [String.length]. lia.
  - pose proof (bex_never_panics (JObj kvs) 0) as NP. pose proof (bex_output_linear (JObj kvs) 0) as B.
    destruct (bex (JObj kvs) 0) as [[e nw]| |]; [|split; [discriminate|intros; discriminate]|exfalso; apply NP; reflexivity].
    split; [discriminate|]. intros t H. inversion H; subst. specialize (B e nw eq_refl).
    rewrite str_app_length. cbn [String.length]. lia.
Qed.

Lemma then_lines_len : forall ts, slen (str_concat (map (fun t => ("        " ++ t ++ nl)%string) ts)) = tlen 9 ts.
Proof.
  induction ts as [|t ts IH]; [reflexivity|]. cbn [map str_concat tlen]. rewrite str_app_length, IH.
  cbn [append String.length]. rewrite str_app_length. unfold nl. cbn [String.length]. lia.
Qed.

Theorem translate_never_panics : forall r, translate r <> Panic.
Proof.
  intros r. unfold translate. destruct (String.eqb (jname r) ""); [discriminate|].
  assert (G : match jthen r with
              | JArr items => match when_text (jwhen r) with
                              | Ok w => match map_res then_item_text items with
                                        | Ok ts => Ok ("rule " ++ jname r ++ " " ++ quote (jdesc r) ++ " salience " ++ show_z (jsal r) ++ " {" ++ nl ++
                                                       "    when" ++ nl ++ "        " ++ w ++ nl ++ "    then" ++ nl ++
                                                       str_concat (map (fun t => "        " ++ t ++ nl) ts) ++ "}" ++ nl)%string
                                        | Err => Err | Panic => Panic end
                              | Err => Err | Panic => Panic end
              | _ => Err end <> Panic).
  { destruct (jthen r) as [s|z|b| |items|kvs]; try discriminate.
    destruct (when_text_ok (jwhen r)) as [NPw _]. destruct (when_text (jwhen r)); [|discriminate|exfalso; apply NPw; reflexivity].
    pose proof (map_res_no_panic _ then_item_text items (fun x _ => proj1 (then_item_text_ok x))) as NP.
    destruct (map_res then_item_text items); [discriminate|discriminate|exfalso; apply NP; reflexivity]. }
  destruct (jwhen r); try exact G. discriminate.
Qed.

Theorem translate_output_linear : forall r t, translate r = Ok t -> (slen t <= 16 * jrule_size r + 64)%nat.
Proof.
  intros r t H. unfold translate in H. destruct (String.eqb (jname r) ""); [discriminate|].
  assert (G : match jthen r with
              | JArr items => match when_text (jwhen r) with
                              | Ok w => match map_res then_item_text items with
                                        | Ok ts => Ok ("rule " ++ jname r ++ " " ++ quote (jdesc r) ++ " salience " ++ show_z (jsal r) ++ " {" ++ nl ++
                                                       "    when" ++ nl ++ "        " ++ w ++ nl ++ "    then" ++ nl ++
                                                       str_concat (map (fun t => "        " ++ t ++ nl) ts) ++ "}" ++ nl)%string
                                        | Err => Err | Panic => Panic end
                              | Err => Err | Panic => Panic end
              | _ => Err end = Ok t -> (slen t <= 16 * jrule_size r + 64)%nat).
  { clear H. intros H. unfold jrule_size.
    destruct (jthen r) as [s|z|b| |items|kvs]; try discriminate.
    destruct (when_text_ok (jwhen r)) as [_ Bw]. destruct (when_text (jwhen r)) as [w| |]; try discriminate.
    specialize (Bw w eq_refl).
    destruct (map_res then_item_text items) as [ts| |] eqn:E; try discriminate.
    pose proof (map_res_tlen then_item_text 9 items ts (fun x e _ => proj2 (then_item_text_ok x) e) E) as T.
    inversion H; subst. rewrite jsize_arr.
    repeat (rewrite str_app_length || (cbn [append String.length])).
    rewrite then_lines_len. unfold nl. cbn [String.length].
    pose proof (quote_body_upper (jdesc r)). lia. }
  destruct (jwhen r); try (apply G; exact H). discriminate.
Qed.

(* ------------------------------------------------------------------------ *)
(* 5. JSON fact text: the value tree behind a JSONValueNode                   *)

(* encoding/json.Unmarshal into interface{} yields nil / bool / float64 / string / []interface{} /
   map[string]interface{}; NewJSONValueNode wraps the root.  The model keeps a map as its member list
   (last duplicate key wins in Go; the model keeps the members as decoded). *)
Inductive fnode :=
| FNil
| FBool (b : bool)
| FNum (z : Z)
| FStr (s : string)
| FSlice (l : list fnode)
| FMap (kvs : list (string * fnode)).

Fixpoint fact_of_json (j : jval) : fnode :=
  match j with
  | JNull => FNil
  | JBool b => FBool b
  | JNum z => FNum z
  | JStr s => FStr s
  | JArr l => FSlice (map fact_of_json l)
  | JObj kvs => FMap ((fix go (kvs : list (string * jval)) : list (string * fnode) :=
                         match kvs with [] => [] | (k, v) :: r => (k, fact_of_json v) :: go r end) kvs)
  end.

Fixpoint fsize (f : fnode) : nat :=
  match f with
  | FStr s => S (slen s)
  | FNum z => S (slen (show_z z))
  | FBool _ => 6
  | FNil => 1
  | FSlice l => S ((fix go (l : list fnode) : nat := match l with [] => O | x :: l' => (fsize x + go l')%nat end) l)
  | FMap kvs => S ((fix go (kvs : list (string * fnode)) : nat :=
                      match kvs with [] => O | (k, v) :: r => (S (slen k) + fsize v + go r)%nat end) kvs)
  end.

(* DataContext.AddJSON on a decoded value: the context gains the key; never a panic *)
Definition add_json (ctx : list (string * fnode)) (key : string) (j : jval) : res (list (string * fnode)) :=
  Ok (aupdate key (fact_of_json j) ctx).

Fixpoint jsizes_kv (kvs : list (string * jval)) : nat :=
  match kvs with [] => O | (k, v) :: r => (S (slen k) + jsize v + jsizes_kv r)%nat end.

Lemma jsize_obj : forall kvs, jsize (JObj kvs) = S (jsizes_kv kvs).
Proof.
  intros kvs. induction kvs as [|[k v] kvs IH]; [reflexivity|].
  change (jsize (JObj ((k, v) :: kvs))) with (S (S (slen k) + jsize v + pred (jsize (JObj kvs))))%nat. rewrite IH. reflexivity.
Qed.

Lemma in_jsizes_kv : forall k v kvs, In (k, v) kvs -> (jsize v < jsizes_kv kvs)%nat.
Proof.
  intros k v. induction kvs as [|[k0 v0] kvs IH]; intros I; [destruct I|]. cbn [jsizes_kv].
  destruct I as [E|I]; [inversion E; subst; lia|specialize (IH I); lia].
Qed.

Lemma fact_size_n : forall n j, (jsize j <= n)%nat -> fsize (fact_of_json j) = jsize j.
Proof.
  induction n as [n IH] using lt_wf_ind. intros j Hn.
  destruct j as [s|z|b| |l|kvs]; try reflexivity.
  - rewrite jsize_arr in Hn. cbn [fact_of_json fsize jsize]. f_equal.
    assert (A : forall x, In x l -> fsize (fact_of_json x) = jsize x).
    { intros x I. pose proof (in_jsizes _ _ I). apply (IH (jsize x)); lia. }
    clear Hn. induction l as [|x l IHl]; [reflexivity|]. cbn [map].
    rewrite (A x (or_introl eq_refl)). rewrite IHl; [reflexivity|]. intros y I. apply A. right. exact I.
  - rewrite jsize_obj in Hn. cbn [fact_of_json fsize jsize]. f_equal.
    assert (A : forall k v, In (k, v) kvs -> fsize (fact_of_json v) = jsize v).
    { intros k v I. pose proof (in_jsizes_kv _ _ _ I). apply (IH (jsize v)); lia. }
    clear Hn. induction kvs as [|[k v] kvs IHk]; [reflexivity|].
    rewrite (A k v (or_introl eq_refl)). rewrite IHk; [reflexivity|]. intros k' v' I. apply (A k' v'). right. exact I.
Qed.

Theorem fact_size_preserved : forall j, fsize (fact_of_json j) = jsize j.
Proof. intros j. apply (fact_size_n (jsize j)). lia. Qed.

Theorem add_json_total : forall ctx key j, exists ctx', add_json ctx key j = Ok ctx' /\ alookup key ctx' = Some (fact_of_json j).
Proof.
  intros ctx key j. eexists. split; [reflexivity|].
  induction ctx as [|[k v] ctx IH]; cbn [aupdate alookup].
  - rewrite String.eqb_refl. reflexivity.
  - destruct (String.eqb key k) eqn:E; cbn [alookup]; [rewrite String.eqb_refl; reflexivity|rewrite E; exact IH].
Qed.

(* ------------------------------------------------------------------------ *)
(* 6. the text the listener stores (finding D23, model side)                  *)

(* antlr/GruleParserV3Listener.go stores in every node it builds the text of the node's whole
   sub-tree (x.GrlText = ctx.GetText()).  [stored_e] counts, for a tree, the tokens of all those
   texts (a lower bound of the characters, every token having at least one): each node
   contributes the size of its own sub-tree.  The total is not linear in the size of the tree. *)
Fixpoint stored_e (e : expr) : nat :=
  match e with
  | EAtom a => stored_a a
  | EParen _ e' => (size_e e + stored_e e')%nat
  | EBin _ l r => (size_e e + stored_e l + stored_e r)%nat
  end
with stored_a (a : atom) : nat :=
  match a with
  | AConst _ => 1
  | AVar v => stored_v v
  | AFunc _ args => (size_a a + stored_l args)%nat
  | AMethod a' _ args => (size_a a + stored_a a' + stored_l args)%nat
  | AMember a' _ => (size_a a + stored_a a')%nat
  | ASel a' sel => (size_a a + stored_a a' + stored_e sel)%nat
  | ANeg a' => (size_a a + stored_a a')%nat
  end
with stored_v (v : var) : nat :=
  match v with
  | VName _ => 1
  | VMember v' _ => (size_v v + stored_v v')%nat
  | VSel v' sel => (size_v v + stored_v v' + stored_e sel)%nat
  end
with stored_l (l : elist) : nat :=
  match l with ENil => 0 | ECons e l' => (stored_e e + stored_l l')%nat end.

(* n pairs of parentheses around `true` *)
Fixpoint nest (n : nat) : expr :=
  match n with O => EAtom (AConst (CBool true)) | S n' => EParen false (nest n') end.

Lemma nest_size : forall n, size_e (nest n) = S n.
Proof. induction n as [|n IH]; [reflexivity|]. cbn [nest size_e]. rewrite IH. reflexivity. Qed.

Lemma nest_stored : forall n, (2 * stored_e (nest n) = (n + 1) * (n + 2))%nat.
Proof.
  induction n as [|n IH]; [reflexivity|].
  cbn [nest stored_e]. change (size_e (EParen false (nest n))) with (S (size_e (nest n))). rewrite nest_size. nia.
Qed.

Lemma nest_wf : forall n, wf_expr (nest n) = true.
Proof. induction n as [|n IH]; [reflexivity|]. cbn [nest wf_expr]. exact IH. Qed.

Theorem stored_text_not_linear : forall K K' : nat, exists e, wf_expr e = true /\ (K * size_e e + K' < stored_e e)%nat.
Proof.
  intros K K'. exists (nest (2 * K + 2 * K')). split; [apply nest_wf|].
  pose proof (nest_stored (2 * K + 2 * K')) as S. rewrite nest_size. nia.
Qed.

(* the same for whole documents, against the length of the text *)
Definition stored_conditions (rs : list rule) : nat := fold_right (fun r acc => (stored_e (rwhen r) + acc)%nat) O rs.

Definition nest_rule (n : nat) : rule :=
  {| rname := "R"; rdesc := "d"; rsal := 0; rwhen := nest n; rthen := [SAtom (AFunc "Complete" ENil)] |}.

Lemma nest_render : forall n k, slen (render (etoks (nest n) k)) = (4 * n + 5 + slen (render k))%nat.
Proof.
  induction n as [|n IH]; intros k.
  - reflexivity.
  - cbn [nest etoks render]. rewrite str_app_length. cbn [String.length token_text]. rewrite IH.
    cbn [render]. rewrite str_app_length. cbn [String.length token_text]. lia.
Qed.

Lemma nest_rule_text : forall n, slen (print_rules [nest_rule n]) = (4 * n + 56)%nat.
Proof.
  intros n. unfold print_rules, nest_rule. cbn [rstoks]. unfold rtoks, sal_toks, stoks.
  cbn [rname rdesc rsal rwhen rthen sstoks atoks ltoks].
  change (0 <? 0) with false. cbv iota. change (quote_body "d") with "d"%string.
  do 7 (cbn [render]; rewrite str_app_length; cbn [String.length token_text]).
  rewrite str_app_length. cbn [String.length]. rewrite nest_render.
  change (slen (str1 34)) with 1%nat. change (slen (show_dec 0)) with 1%nat.
  change (slen (render (TThen :: stoks (SAtom (AFunc "Complete" ENil)) [TRBrace]))) with 22%nat. lia.
Qed.

Lemma nest_rule_wf : forall n, wf_rules [nest_rule n] = true.
Proof.
  intros n. unfold wf_rules, wf_rule, nest_rule. cbn [forallb rname rdesc rsal rwhen rthen]. rewrite nest_wf. reflexivity.
Qed.

Theorem stored_text_not_linear_in_input : forall K K' : nat,
  exists text rs, parse_grl text = Ok rs /\ (K * slen text + K' < stored_conditions rs)%nat.
Proof.
  intros K K'. set (n := (8 * K + 2 * K' + 56)%nat).
  exists (print_rules [nest_rule n]), [nest_rule n]. split.
  - apply parse_print_roundtrip. apply nest_rule_wf.
  - rewrite nest_rule_text. unfold stored_conditions, nest_rule. cbn [fold_right rwhen].
    pose proof (nest_stored n) as S. subst n. nia.
Qed.

(* ------------------------------------------------------------------------ *)
(* 7. the C20 statements about the loader models (closed in props/C20.v)      *)

(* GRL text.  Outcome: a knowledge base or an error, never a panic; termination is by construction (Coq
   functions), and the two fuels are shown never to run out; size: tokens <= characters, tree nodes <= tokens. *)
Definition C20_grl_model_statement : Prop :=
  (forall kb text, build kb text <> Panic) /\
  (forall s f, (slen s < f)%nat -> lex_fuel f s = lex s) /\
  (forall ts f, (List.length ts <= f)%nat -> ruleloop (pexpr f) ts 0 = parse_tokens ts) /\
  (forall s ts, lex s = Some ts -> (List.length ts <= slen s)%nat) /\
  (forall text rs, parse_grl text = Ok rs -> (size_rs rs <= slen text)%nat).

Theorem C20_grl_model_proved : C20_grl_model_statement.
Proof.
  repeat split.
  - apply build_never_panics.
  - apply lex_fuel_sufficient.
  - apply parse_fuel_sufficient.
  - apply lex_token_count.
  - apply parse_grl_size.
Qed.

(* ... but the memory clause fails for what the listener stores in the tree (GrlText of every node): no bound
   K * length + K' holds (finding D23; the implementation shows the same growth in retained heap) *)
Definition C20_grl_stored_text_refuted_statement : Prop :=
  forall K K' : nat, exists text rs, parse_grl text = Ok rs /\ (K * slen text + K' < stored_conditions rs)%nat.

Theorem C20_grl_stored_text_refuted_proved : C20_grl_stored_text_refuted_statement.
Proof. exact stored_text_not_linear_in_input. Qed.

(* JSON rule text, after encoding/json: the translator answers a text or an error, never a panic, for values of
   any nesting depth (structural recursion; the 1024-level error of buildExpressionEx is an ordinary error),
   its text is linear in the value, and the builder model on that text does not panic either *)
Definition C20_jsonrule_model_statement : Prop :=
  (forall r, translate r <> Panic) /\
  (forall r t, translate r = Ok t -> (slen t <= 16 * jrule_size r + 64)%nat) /\
  (forall r t kb, translate r = Ok t -> build kb t <> Panic).

Theorem C20_jsonrule_model_proved : C20_jsonrule_model_statement.
Proof.
  repeat split.
  - apply translate_never_panics.
  - apply translate_output_linear.
  - intros r t kb _. apply build_never_panics.
Qed.

(* JSON fact text, after encoding/json: the fact tree has exactly the size of the decoded value, adding it
   to a data context always succeeds *)
Definition C20_jsonfact_model_statement : Prop :=
  (forall j, fsize (fact_of_json j) = jsize j) /\
  (forall ctx key j, exists ctx', add_json ctx key j = Ok ctx' /\ alookup key ctx' = Some (fact_of_json j)).

Theorem C20_jsonfact_model_proved : C20_jsonfact_model_statement.
Proof. split; [apply fact_size_preserved|apply add_json_total]. Qed.
