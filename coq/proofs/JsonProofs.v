(* JsonProofs.v — the GRL tree the JSON translator emits has, on every fact
   state, the value of the JSON operator tree with operands grouped exactly as
   they are nested (brackets are semantically transparent; a lone operand of
   "not" is logically negated, two or more are compared with !=). *)
From Grule Require Import Base Values Syntax Lexer Parser GrlPrint EngineAbs Facts Eval Fresh JsonRule.
Open Scope Z_scope.

Fixpoint any_xop (l : jxs) : bool :=
  match l with XNil => false | XCons (XOp _ _) _ => true | XCons _ l' => any_xop l' end.

Fixpoint jxs_len (l : jxs) : nat := match l with XNil => O | XCons _ l' => S (jxs_len l') end.

Section Sem.
Variable meth : list (string * fval) -> string -> list val -> res (option val * list (string * fval)).
Notation fe := (fresh_expr meth).

Lemma paren_transparent : forall fx e, fe fx (EParen false e) = fe fx e.
Proof. intros. rewrite (fresh_expr_unfold meth fx (EParen false e)). destruct (fe fx e); reflexivity. Qed.

Lemma paren_neg_cong : forall fx e1 e2, fe fx e1 = fe fx e2 -> fe fx (EParen true e1) = fe fx (EParen true e2).
Proof.
  intros. rewrite (fresh_expr_unfold meth fx (EParen true e1)), (fresh_expr_unfold meth fx (EParen true e2)), H.
  reflexivity.
Qed.

Lemma bin_cong : forall fx o l1 r1 l2 r2, fe fx l1 = fe fx l2 -> fe fx r1 = fe fx r2 ->
  fe fx (EBin o l1 r1) = fe fx (EBin o l2 r2).
Proof.
  intros. rewrite (fresh_expr_unfold meth fx (EBin o l1 r1)), (fresh_expr_unfold meth fx (EBin o l2 r2)), H, H0.
  reflexivity.
Qed.

Lemma fold_bin_cong : forall fx o l1 l2 a1 a2, fe fx a1 = fe fx a2 -> map (fe fx) l1 = map (fe fx) l2 ->
  fe fx (fold_bin o a1 l1) = fe fx (fold_bin o a2 l2).
Proof.
  induction l1 as [|e1 l1 IH]; intros [|e2 l2] a1 a2 Ha Hl; try discriminate; cbn [fold_bin].
  - assumption.
  - cbn [map] in Hl. inversion Hl. apply IH; [apply bin_cong|]; assumption.
Qed.

Lemma join_cong : forall fx o l1 l2, map (fe fx) l1 = map (fe fx) l2 ->
  fe fx (join_exprs o l1) = fe fx (join_exprs o l2).
Proof.
  intros fx o [|e1 l1] [|e2 l2] H; try discriminate; [reflexivity|]. cbn [join_exprs]. cbn [map] in H.
  inversion H. apply fold_bin_cong; assumption.
Qed.

Lemma atom_args_cong : forall fx h a1 a2, fresh_args meth fx a1 = fresh_args meth fx a2 ->
  fe fx (EAtom (call_atom h a1)) = fe fx (EAtom (call_atom h a2)).
Proof.
  intros fx h a1 a2 H. rewrite !(fresh_expr_unfold meth fx (EAtom _)).
  destruct h; cbn [call_atom]; rewrite !(fresh_atom_unfold meth fx (_ _ _)); try rewrite !(fresh_atom_unfold meth fx (AMethod _ _ _)); rewrite H; reflexivity.
Qed.

(* negating a number leaves it as it is (Eval.negate only touches booleans): the translator
   does not bracket a lone number operand of "not", the meaning is the same *)
Lemma neg_num_transparent : forall fx z,
  fe fx (EParen true (EAtom (const_atom_n z))) = fe fx (EAtom (const_atom_n z)).
Proof.
  intros. rewrite (fresh_expr_unfold meth fx (EParen true _)), (fresh_expr_unfold meth fx (EAtom _)).
  unfold const_atom_n. rewrite (fresh_atom_unfold meth fx (AConst _)). reflexivity.
Qed.

Definition sem_x (x : jx) : Prop :=
  forall deep fx, fe fx (x_top deep x) = fe fx (jtree x).

Definition sem_l (l : jxs) : Prop :=
  (forall fx, map (fe fx) (xs_elems l) = map (fe fx) (jtrees l)) /\
  (forall fx, map (fe fx) (xs_opnds false l) = map (fe fx) (jtrees l)) /\
  (forall fx, map (fe fx) (xs_opnds true l) = map (fe fx) (map (EParen true) (jtrees l))) /\
  (forall fx, fresh_args meth fx (xs_args l) = fresh_args meth fx (jargs l)).

Lemma json_sem_mut : (forall x, sem_x x) /\ (forall l, sem_l l).
Proof.
  apply jx_mutind; unfold sem_x, sem_l; intros; cbn [x_top jtree] in *; try reflexivity.
  - (* operator *)
    destruct H as (He & Hop & Hneg & _).
    destruct (is_compound o) eqn:Ec.
    + assert (J : fe fx (join_exprs (jop_op o) (xs_elems args)) = fe fx (jtree (XOp o args))).
      { cbn [jtree]. destruct o; try discriminate; apply join_cong; apply He. }
      destruct deep; [rewrite paren_transparent|]; exact J.
    + destruct o; try discriminate; cbn [jtree neg_flag];
        try (apply join_cong; apply Hop).
      (* not *)
      destruct args as [|y rest]; [reflexivity|].
      destruct rest as [|z l].
      * (* a lone operand: negated *)
        specialize (Hneg fx). cbn [jtrees map] in Hneg.
        destruct (xs_opnds true (XCons y XNil)) as [|e0 [|e1 es]] eqn:E; try discriminate.
        cbn [map] in Hneg. cbn [join_exprs fold_bin]. congruence.
      * (* two or more operands: the != operator *)
        apply join_cong. apply Hop.
  - (* call *)
    destruct H as (_ & _ & _ & Ha). apply atom_args_cong. apply Ha.
  - (* nil *)
    repeat split; reflexivity.
  - (* cons *)
    destruct H0 as (He & Hop & Hneg & Ha).
    repeat split.
    + intros fx. cbn [xs_elems jtrees map]. rewrite (H true fx), He. reflexivity.
    + intros fx. cbn [xs_opnds jtrees map]. rewrite (Hop fx). f_equal.
      destruct x; try apply (H false fx). rewrite paren_transparent. apply (H false fx).
    + intros fx. cbn [xs_opnds jtrees map]. rewrite (Hneg fx). f_equal.
      destruct x; try (apply paren_neg_cong; apply (H false fx)).
      cbn [x_top jtree]. symmetry. apply neg_num_transparent.
    + intros fx. cbn [xs_args jargs]. rewrite (fresh_args_unfold meth fx (ECons _ (xs_args l))),
        (fresh_args_unfold meth fx (ECons _ (jargs l))), (H false fx), Ha. reflexivity.
Qed.

(* the condition of the translated rule has the value of the JSON operator tree, on every fact state *)
Theorem json_sem : forall x fx, fe fx (x_top false x) = fe fx (jtree x).
Proof. intros x fx. apply (proj1 json_sem_mut x false fx). Qed.

Theorem json_cond_sem : forall w fx, fe fx (cond_of w) = fe fx (cond_tree w).
Proof. intros [e|x] fx; [reflexivity|]. apply json_sem. Qed.

End Sem.
