(* JsonProofs.v — the GRL tree the JSON translator emits has, on every fact
   state, the value of the JSON operator tree with operands grouped exactly as
   they are nested (brackets are semantically transparent; a one-operand "not"
   over an operator object is logical negation). *)
From Grule Require Import Base Values Syntax Lexer Parser GrlPrint EngineAbs Facts Eval Fresh JsonRule.
Open Scope Z_scope.

Fixpoint any_xop (l : jxs) : bool :=
  match l with XNil => false | XCons (XOp _ _) _ => true | XCons _ l' => any_xop l' end.

Fixpoint jxs_len (l : jxs) : nat := match l with XNil => O | XCons _ l' => S (jxs_len l') end.

(* outside the region of finding D13: a "not" with two or more operands has no operator object among them *)
Fixpoint sem_ok (x : jx) : bool :=
  match x with
  | XOp o args =>
      sem_oks args &&
      match o with
      | JNe => Nat.leb (jxs_len args) 1 || negb (any_xop args)
      | _ => true
      end
  | XCall _ args => sem_oks args
  | _ => true
  end
with sem_oks (l : jxs) : bool :=
  match l with XNil => true | XCons x l' => sem_ok x && sem_oks l' end.

Section Sem.
Variable meth : list (string * fval) -> string -> list val -> res (option val * list (string * fval)).
Notation fe := (fresh_expr meth).

Lemma paren_transparent : forall fx e, fe fx (EParen false e) = fe fx e.
Proof. intros. rewrite (fresh_expr_unfold meth fx (EParen false e)). destruct (fe fx e); reflexivity. Qed.

Lemma paren_neg_cong : forall fx e1 e2, fe fx e1 = fe fx e2 -> fe fx (EParen true e1) = fe fx (EParen true e2).
Proof.
  intros. rewrite (fresh_expr_unfold meth fx (EParen true e1)), (fresh_expr_unfold meth fx (EParen true e2)), H.
  reflexivity.
Qed.

Lemma bin_cong : forall fx o l1 r1 l2 r2, fe fx l1 = fe fx l2 -> fe fx r1 = fe fx r2 ->
  fe fx (EBin o l1 r1) = fe fx (EBin o l2 r2).
Proof.
  intros. rewrite (fresh_expr_unfold meth fx (EBin o l1 r1)), (fresh_expr_unfold meth fx (EBin o l2 r2)), H, H0.
  reflexivity.
Qed.

Lemma fold_bin_cong : forall fx o l1 l2 a1 a2, fe fx a1 = fe fx a2 -> map (fe fx) l1 = map (fe fx) l2 ->
  fe fx (fold_bin o a1 l1) = fe fx (fold_bin o a2 l2).
Proof.
  induction l1 as [|e1 l1 IH]; intros [|e2 l2] a1 a2 Ha Hl; try discriminate; cbn [fold_bin].
  - assumption.
  - cbn [map] in Hl. inversion Hl. apply IH; [apply bin_cong|]; assumption.
Qed.

Lemma join_cong : forall fx o l1 l2, map (fe fx) l1 = map (fe fx) l2 ->
  fe fx (join_exprs o l1) = fe fx (join_exprs o l2).
Proof.
  intros fx o [|e1 l1] [|e2 l2] H; try discriminate; [reflexivity|]. cbn [join_exprs]. cbn [map] in H.
  inversion H. apply fold_bin_cong; assumption.
Qed.

Lemma atom_args_cong : forall fx h a1 a2, fresh_args meth fx a1 = fresh_args meth fx a2 ->
  fe fx (EAtom (call_atom h a1)) = fe fx (EAtom (call_atom h a2)).
Proof.
  intros fx h a1 a2 H. rewrite !(fresh_expr_unfold meth fx (EAtom _)).
  destruct h; cbn [call_atom]; rewrite !(fresh_atom_unfold meth fx (_ _ _)); try rewrite !(fresh_atom_unfold meth fx (AMethod _ _ _)); rewrite H; reflexivity.
Qed.

Definition sem_x (x : jx) : Prop :=
  sem_ok x = true -> forall deep fx, fe fx (x_top deep x) = fe fx (jtree x).

Definition sem_l (l : jxs) : Prop :=
  sem_oks l = true ->
  (forall fx, map (fe fx) (xs_elems l) = map (fe fx) (jtrees l)) /\
  (forall neg fx, neg = false \/ any_xop l = false -> map (fe fx) (xs_opnds neg l) = map (fe fx) (jtrees l)) /\
  (forall fx, fresh_args meth fx (xs_args l) = fresh_args meth fx (jargs l)).

Lemma json_sem_mut : (forall x, sem_x x) /\ (forall l, sem_l l).
Proof.
  apply jx_mutind; unfold sem_x, sem_l; intros; cbn [x_top jtree sem_ok sem_oks] in *; try reflexivity.
  - (* operator *)
    apply andb_true_iff in H0 as [Hl Ho]. destruct (H Hl) as (He & Hop & _).
    destruct (is_compound o) eqn:Ec.
    + assert (J : fe fx (join_exprs (jop_op o) (xs_elems args)) = fe fx (jtree (XOp o args))).
      { cbn [jtree]. destruct o; try discriminate; apply join_cong; apply He. }
      destruct deep; [rewrite paren_transparent|]; exact J.
    + destruct o; try discriminate; cbn [jtree];
        try (apply join_cong; apply Hop; left; reflexivity).
      (* not *)
      destruct args as [|y rest]; [reflexivity|].
      assert (Hgen : Nat.leb (jxs_len (XCons y rest)) 1 || negb (any_xop (XCons y rest)) = true -> any_xop (XCons y rest) = false \/ rest = XNil).
      { intros Hh. destruct rest; [right; reflexivity|]. left. cbn [jxs_len Nat.leb orb] in Hh. apply negb_true_iff in Hh. exact Hh. }
      destruct y; try (apply join_cong; apply Hop; right;
                       destruct (Hgen Ho) as [Hg|Hg]; [exact Hg|rewrite Hg; reflexivity]).
      destruct rest as [|z l].
      * cbn [xs_opnds join_exprs fold_bin]. apply paren_neg_cong.
        specialize (Hop false fx (or_introl eq_refl)). cbn [xs_opnds jtrees map] in Hop.
        inversion Hop as [Hy]. rewrite paren_transparent in Hy. exact Hy.
      * destruct (Hgen Ho) as [Hg|Hg]; [cbn [any_xop] in Hg; discriminate|discriminate].
  - (* call *)
    destruct (H H0) as (_ & _ & Ha). apply atom_args_cong. apply Ha.
  - (* nil *)
    repeat split; reflexivity.
  - (* cons *)
    apply andb_true_iff in H1 as [Hx Hl]. specialize (H Hx). destruct (H0 Hl) as (He & Hop & Ha).
    repeat split.
    + intros fx. cbn [xs_elems jtrees map]. rewrite (H true fx), He. reflexivity.
    + intros neg fx Hn. cbn [xs_opnds jtrees map].
      assert (Hn' : neg = false \/ any_xop l = false).
      { destruct Hn as [Hn|Hn]; [left; assumption|]. right. destruct x; cbn [any_xop] in Hn; try assumption. discriminate. }
      rewrite (Hop neg fx Hn'). f_equal.
      destruct x; try apply (H false fx).
      destruct Hn as [->|Hn]; [|cbn [any_xop] in Hn; discriminate].
      rewrite paren_transparent. apply (H false fx).
    + intros fx. cbn [xs_args jargs]. rewrite (fresh_args_unfold meth fx (ECons _ (xs_args l))),
        (fresh_args_unfold meth fx (ECons _ (jargs l))), (H false fx), Ha. reflexivity.
Qed.

(* the condition of the translated rule has the value of the JSON operator tree, on every fact state *)
Theorem json_sem : forall x, sem_ok x = true -> forall fx, fe fx (x_top false x) = fe fx (jtree x).
Proof. intros x H fx. apply (proj1 json_sem_mut x H false fx). Qed.

Theorem json_cond_sem : forall w, match w with WPlain _ => true | WTree x => sem_ok x end = true ->
  forall fx, fe fx (cond_of w) = fe fx (cond_tree w).
Proof. intros [e|x] H fx; [reflexivity|]. apply json_sem. exact H. Qed.

End Sem.
