(* CatalogProofs.v — catalog -> trees is a left inverse of trees -> catalog:
     kb_of_catalog (catalog_of_kb name version rs) = Ok rs
   for every rule list whose names / constants are representable (rules_ok).
   coq/model/Catalog.v.  The AstIDs of catalog_of_kb are paths; the proof only uses that
   the keys of a subtree's metas all start with the subtree's path and that sibling
   slots start with different letters. *)
From Coq Require Import ZifyN ZifyNat.
From Grule Require Import Base Syntax CodecPrim Codec Catalog CodecProofs.
Local Open Scope string_scope.
Local Open Scope list_scope.

(* ------------------------------------------------------------------------- *)
(* 1. prefixes                                                                *)

Lemma prefixb_app : forall p a b, prefixb (p ++ a) (p ++ b) = prefixb a b.
Proof. induction p; intros; cbn [append prefixb]; auto. rewrite Ascii.eqb_refl. apply IHp. Qed.

Lemma prefixb_refl_app : forall p s, prefixb p (p ++ s) = true.
Proof. induction p; intros; cbn [append prefixb]; auto. rewrite Ascii.eqb_refl. apply IHp. Qed.

Lemma prefixb_refl : forall p, prefixb p p = true.
Proof. induction p; cbn [prefixb]; auto. rewrite Ascii.eqb_refl. exact IHp. Qed.

Lemma prefixb_weaken : forall p s k, prefixb (p ++ s) k = true -> prefixb p k = true.
Proof.
  induction p; intros s k H; cbn [append prefixb] in *; auto.
  destruct k; [discriminate|]. destruct (Ascii.eqb a a0); [eauto | discriminate].
Qed.

(* two prefixes of one string are comparable *)
Lemma prefixb_comparable : forall x y k, prefixb x k = true -> prefixb y k = true ->
  prefixb x y = true \/ prefixb y x = true.
Proof.
  induction x; intros y k Hx Hy; [left; reflexivity|].
  destruct y; [right; reflexivity|].
  cbn [prefixb] in *. destruct k; [discriminate|].
  destruct (Ascii.eqb_spec a a1); [|discriminate]. destruct (Ascii.eqb_spec a0 a1); [|discriminate]. subst.
  rewrite Ascii.eqb_refl. eauto.
Qed.

Lemma prefixb_longer_false : forall p c s, prefixb (p ++ String c s) p = false.
Proof. induction p; intros; cbn [append prefixb]; auto. rewrite Ascii.eqb_refl. apply IHp. Qed.

Lemma nonempty_app : forall p c s, nonempty (p ++ String c s) = true.
Proof. destruct p; reflexivity. Qed.

(* ------------------------------------------------------------------------- *)
(* 2. association lists whose keys live under a path                          *)

Definition keys_under {A} (p : string) (l : list (string * A)) : Prop :=
  forall k m, In (k, m) l -> prefixb p k = true.
Definition misses {A} (q : string) (l : list (string * A)) : Prop :=
  forall k, prefixb q k = true -> alookup k l = None.
(* lookups of keys under p: the context behaves like l *)
Definition agrees {A} (ctx : list (string * A)) (p : string) (l : list (string * A)) : Prop :=
  forall k, prefixb p k = true -> alookup k ctx = alookup k l.

Lemma alookup_in : forall A k (l : list (string * A)) m, alookup k l = Some m -> In (k, m) l.
Proof.
  induction l as [|[k' v] l]; cbn [alookup]; intros m H; [discriminate|].
  destruct (String.eqb_spec k k'); [inversion H; subst; left; reflexivity | right; auto].
Qed.

Lemma alookup_app : forall A k (l1 l2 : list (string * A)),
  alookup k (l1 ++ l2) = match alookup k l1 with Some v => Some v | None => alookup k l2 end.
Proof.
  induction l1 as [|[k' v] l1]; intros; cbn [app alookup]; auto.
  destruct (String.eqb k k'); auto.
Qed.

Lemma keys_under_nil : forall A p, @keys_under A p [].
Proof. intros A p k m H. inversion H. Qed.

Lemma keys_under_cons : forall A p k (m : A) l, prefixb p k = true -> keys_under p l -> keys_under p ((k, m) :: l).
Proof. intros A p k m l H Hl k' m' [E|E]; [inversion E; subst; auto | eauto]. Qed.

Lemma keys_under_app : forall A p (l1 l2 : list (string * A)), keys_under p l1 -> keys_under p l2 -> keys_under p (l1 ++ l2).
Proof. intros A p l1 l2 H1 H2 k m H. apply in_app_or in H. destruct H; eauto. Qed.

Lemma keys_under_weaken : forall A p s (l : list (string * A)), keys_under (p ++ s) l -> keys_under p l.
Proof. intros A p s l H k m Hin. eapply prefixb_weaken. eauto. Qed.

Lemma misses_nil : forall A q, @misses A q [].
Proof. intros A q k H. reflexivity. Qed.

Lemma misses_cons : forall A q k (m : A) l, prefixb q k = false -> misses q l -> misses q ((k, m) :: l).
Proof.
  intros A q k m l H Hl k' Hk'. cbn [alookup]. destruct (String.eqb_spec k' k); [subst; congruence | auto].
Qed.

Lemma misses_app : forall A q (l1 l2 : list (string * A)), misses q l1 -> misses q l2 -> misses q (l1 ++ l2).
Proof. intros A q l1 l2 H1 H2 k Hk. rewrite alookup_app, H1, H2; auto. Qed.

(* keys under p ++ b are never under p ++ a when a and b are incomparable *)
Lemma misses_disjoint : forall A p a b (l : list (string * A)),
  prefixb a b = false -> prefixb b a = false -> keys_under (p ++ b) l -> misses (p ++ a) l.
Proof.
  intros A p a b l Hab Hba Hl k Hk.
  destruct (alookup k l) as [m|] eqn:E; [|reflexivity].
  apply alookup_in in E. apply Hl in E.
  destruct (prefixb_comparable _ _ _ Hk E) as [H|H]; rewrite prefixb_app in H; congruence.
Qed.

Lemma agrees_head : forall A ctx p (m : A) l, agrees ctx p ((p, m) :: l) -> alookup p ctx = Some m.
Proof. intros A ctx p m l H. rewrite (H p (prefixb_refl p)). cbn [alookup]. rewrite String.eqb_refl. reflexivity. Qed.

(* a block inside l whose surroundings have no key under q *)
Lemma agrees_sub : forall A (ctx : list (string * A)) p q before block after,
  agrees ctx p (before ++ block ++ after) ->
  (forall k, prefixb q k = true -> prefixb p k = true) ->
  misses q before -> misses q after -> agrees ctx q block.
Proof.
  intros A ctx p q before block after H Hpq Hb Ha k Hk.
  rewrite (H k (Hpq k Hk)). rewrite !alookup_app, (Hb k Hk), (Ha k Hk).
  destruct (alookup k block); reflexivity.
Qed.

(* ------------------------------------------------------------------------- *)
(* 3. the metas of a subtree have their keys under the subtree's path         *)

Ltac ku :=
  repeat first
    [ apply keys_under_nil
    | apply keys_under_cons; [first [apply prefixb_refl | apply prefixb_refl_app] | ]
    | apply keys_under_app
    | eapply keys_under_weaken; match goal with H : forall p, keys_under p _ |- _ => apply H end ].

Lemma cat_keys :
  (forall e p, keys_under p (cat_expr p e)) /\
  (forall a p, keys_under p (cat_atom p a)) /\
  (forall v p, keys_under p (cat_var p v)) /\
  (forall l p, keys_under p (cat_args p l)).
Proof.
  apply syntax_mutind; intros; cbn [cat_expr cat_atom cat_var cat_args]; ku.
Qed.

Definition cat_expr_keys := proj1 cat_keys.
Definition cat_atom_keys := proj1 (proj2 cat_keys).
Definition cat_var_keys := proj1 (proj2 (proj2 cat_keys)).
Definition cat_args_keys := proj2 (proj2 (proj2 cat_keys)).

Ltac ku2 :=
  repeat first
    [ apply keys_under_nil
    | apply keys_under_cons; [first [apply prefixb_refl | apply prefixb_refl_app] | ]
    | apply keys_under_app
    | eapply keys_under_weaken; first [apply cat_expr_keys | apply cat_atom_keys | apply cat_var_keys | apply cat_args_keys] ].

Lemma cat_stmt_keys : forall s p, keys_under p (cat_stmt p s).
Proof.
  destruct s; intros; cbn [cat_stmt].
  - destruct (asg_flags o) as [[[[a pl] mi] d] mu]. ku2.
  - ku2.
Qed.

Lemma cat_stmts_keys : forall l p, keys_under p (cat_stmts p l).
Proof.
  induction l; intros; cbn [cat_stmts]; [apply keys_under_nil|].
  apply keys_under_app.
  - eapply keys_under_weaken. apply cat_stmt_keys.
  - eapply keys_under_weaken. apply IHl.
Qed.

Lemma cat_rule_keys : forall r p, keys_under p (cat_rule p r).
Proof.
  intros. unfold cat_rule. ku2. eapply keys_under_weaken. apply cat_stmts_keys.
Qed.

Lemma cat_rules_keys : forall l p, keys_under p (cat_rules p l).
Proof.
  induction l; intros; cbn [cat_rules]; [apply keys_under_nil|].
  apply keys_under_app.
  - eapply keys_under_weaken. apply cat_rule_keys.
  - eapply keys_under_weaken. apply IHl.
Qed.

(* ------------------------------------------------------------------------- *)
(* 4. sizes: the number of metas bounds the depth                             *)

Fixpoint size_expr (e : expr) : nat :=
  match e with
  | EAtom a => S (size_atom a)
  | EParen _ e' => S (size_expr e')
  | EBin _ l r => S (size_expr l + size_expr r)
  end
with size_atom (a : atom) : nat :=
  match a with
  | AConst _ => 2
  | AVar v => S (size_var v)
  | AFunc _ args => 3 + size_args args
  | AMethod a' _ args => 3 + size_atom a' + size_args args
  | AMember a' _ => S (size_atom a')
  | ASel a' sel => 2 + size_atom a' + size_expr sel
  | ANeg a' => S (size_atom a')
  end
with size_var (v : var) : nat :=
  match v with
  | VName _ => 1
  | VMember v' _ => S (size_var v')
  | VSel v' sel => 2 + size_var v' + size_expr sel
  end
with size_args (l : elist) : nat :=
  match l with ENil => 0 | ECons e l' => size_expr e + size_args l' end.

Lemma cat_sizes :
  (forall e p, List.length (cat_expr p e) = size_expr e) /\
  (forall a p, List.length (cat_atom p a) = size_atom a) /\
  (forall v p, List.length (cat_var p v) = size_var v) /\
  (forall l p, List.length (cat_args p l) = size_args l).
Proof.
  apply syntax_mutind; intros; cbn [cat_expr cat_atom cat_var cat_args size_expr size_atom size_var size_args List.length];
    rewrite ?app_length; repeat match goal with H : forall p, _ = _ |- _ => rewrite H; clear H end; lia.
Qed.

(* ------------------------------------------------------------------------- *)
(* 5. unfolding equations of the mutual fixpoint                              *)

Lemma unfold_expr_S : forall data f id,
  unfold_expr data (S f) id =
  match find data id with
  | Some (MExpression _ l r s a o n) =>
      if nonempty a then do x <- unfold_atom data f a; Ok (EAtom x)
      else if nonempty s then do e <- unfold_expr data f s; Ok (EParen n e)
      else if nonempty l && nonempty r then
        match op_of_code o with
        | Some o' => do x <- unfold_expr data f l; do y <- unfold_expr data f r; Ok (EBin o' x y)
        | None => Err
        end
      else Err
  | _ => Err
  end.
Proof. reflexivity. Qed.

Lemma unfold_var_S : forall data f id,
  unfold_var data (S f) id =
  match find data id with
  | Some (MVariable _ name v s) =>
      if nonempty name && negb (nonempty v) then Ok (VName name)
      else if nonempty v && nonempty name then do x <- unfold_var data f v; Ok (VMember x name)
      else if nonempty v && nonempty s then
        match find data s with
        | Some (MArrayMapSelector _ e) =>
            do x <- unfold_var data f v; do sel <- unfold_expr data f e; Ok (VSel x sel)
        | _ => Err
        end
      else Err
  | _ => Err
  end.
Proof. reflexivity. Qed.

(* ------------------------------------------------------------------------- *)
(* 6. constants                                                               *)

Lemma const_roundtrip : forall c, const_ok c = true ->
  const_of_meta (const_vtype c) (const_vbytes c) (is_cnil c) = Ok c.
Proof.
  destruct c; cbn [const_ok const_vtype const_vbytes is_cnil]; intros H; unfold const_of_meta.
  - cbn [Z.eqb vt_String Pos.eqb]. rewrite <- (app_nil_r (enc_bytes _)). rewrite RT_bytes.
    + rewrite string_of_list_ascii_of_string. reflexivity.
    + unfold bytes_ok. rewrite length_list_ascii. exact H.
  - cbn [Z.eqb vt_String vt_Integer Pos.eqb]. rewrite <- (app_nil_r (enc_u64 _)). rewrite RT_u64.
    + rewrite int_u64_roundtrip by exact H. reflexivity.
    + apply N.ltb_lt. apply u64_of_int_lt.
  - cbn [Z.eqb vt_String vt_Integer vt_Float Pos.eqb]. rewrite <- (app_nil_r (enc_u64 _)).
    apply andb_true_iff in H. destruct H as [H1 H2]. apply Z.leb_le in H1. apply Z.ltb_lt in H2.
    rewrite RT_u64.
    + rewrite Z2N.id by exact H1. reflexivity.
    + apply N.ltb_lt. lia.
  - destruct b; reflexivity.
  - reflexivity.
Qed.

Lemma unfold_atom_S : forall data f id,
  unfold_atom data (S f) id =

        match find data id with
        | Some (MExpressionAtom _ vn c fc v n a s) =>
            if nonempty c then
              match find data c with
              | Some (MConstant _ t b isnil) => do k <- const_of_meta t b isnil; Ok (AConst k)
              | _ => Err
              end
            else if nonempty v then do x <- unfold_var data f v; Ok (AVar x)
            else if negb (nonempty a) then
              if nonempty fc then
                match find data fc with
                | Some (MFunctionCall _ fname al) =>
                    match find data al with
                    | Some (MArgumentList _ ids) =>
                        do args <- unfold_ids (unfold_expr data f) ids;
                        Ok (AFunc fname args)
                    | _ => Err
                    end
                | _ => Err
                end
              else Err
            else (* a nested atom *)
              if negb (nonempty fc) && negb (nonempty vn) && negb (nonempty s) then
                if n then do x <- unfold_atom data f a; Ok (ANeg x) else Err
              else if nonempty fc then
                match find data fc with
                | Some (MFunctionCall _ fname al) =>
                    match find data al with
                    | Some (MArgumentList _ ids) =>
                        do x <- unfold_atom data f a;
                        do args <- unfold_ids (unfold_expr data f) ids;
                        Ok (AMethod x fname args)
                    | _ => Err
                    end
                | _ => Err
                end
              else if nonempty vn then do x <- unfold_atom data f a; Ok (AMember x vn)
              else
                match find data s with
                | Some (MArrayMapSelector _ e) =>
                    do x <- unfold_atom data f a; do sel <- unfold_expr data f e; Ok (ASel x sel)
                | _ => Err
                end
        | _ => Err
        end.
Proof. reflexivity. Qed.

(* ------------------------------------------------------------------------- *)
(* 7. looking up the metas of a node in a context that agrees with its block  *)

Lemma eqb_app : forall p a b, String.eqb (p ++ a) (p ++ b) = String.eqb a b.
Proof. induction p; intros; cbn [append String.eqb]; auto. rewrite Ascii.eqb_refl. apply IHp. Qed.

Lemma eqb_longer : forall p c s, String.eqb (p ++ String c s) p = false.
Proof. induction p; intros; cbn [append String.eqb]; auto. rewrite Ascii.eqb_refl. apply IHp. Qed.

Lemma find_under : forall ctx p s l, agrees ctx p l -> find ctx (p ++ s) = alookup (p ++ s) l.
Proof. intros. unfold find. apply H. apply prefixb_refl_app. Qed.

Lemma find_self : forall ctx p m l, agrees ctx p ((p, m) :: l) -> find ctx p = Some m.
Proof. intros. unfold find. eapply agrees_head; eauto. Qed.

(* closed comparisons of slot letters *)
Ltac slots :=
  rewrite ?eqb_longer, ?eqb_app, ?String.eqb_refl, ?prefixb_longer_false, ?prefixb_app;
  cbv [String.eqb Ascii.eqb Bool.eqb prefixb].

(* find ctx (p ++ "x") when the context agrees with a block that lists the entry *)
Ltac lookup H :=
  rewrite (find_under _ _ _ _ H); cbn [alookup]; slots.

Ltac miss_tac :=
  repeat first
    [ apply misses_nil
    | apply misses_cons; [ slots; reflexivity | ]
    | apply misses_app
    | eapply misses_disjoint; cycle 2;
        [ first [apply cat_expr_keys | apply cat_atom_keys | apply cat_var_keys | apply cat_args_keys]
        | reflexivity | reflexivity ] ].

(* agreement for the block of a child slot *)
Ltac sub_agree H before after :=
  eapply (agrees_sub _ _ _ _ before _ after);
  [ exact H | intros ? Hpre; eapply prefixb_weaken; exact Hpre | miss_tac | miss_tac ].

(* narrowing an agreement to the block of one child slot *)
Lemma agrees_narrow : forall A (ctx : list (string * A)) p s l, agrees ctx p l -> agrees ctx (p ++ s) l.
Proof. intros A ctx p s l H k Hk. apply H. eapply prefixb_weaken; eauto. Qed.

Lemma agrees_drop_head : forall A (ctx : list (string * A)) q k m l,
  agrees ctx q ((k, m) :: l) -> prefixb q k = false -> agrees ctx q l.
Proof.
  intros A ctx q k m l H Hq k' Hk'. rewrite (H k' Hk'). cbn [alookup].
  destruct (String.eqb_spec k' k); [subst; congruence | reflexivity].
Qed.

Lemma agrees_drop_left : forall A (ctx : list (string * A)) q l1 l2,
  agrees ctx q (l1 ++ l2) -> misses q l1 -> agrees ctx q l2.
Proof. intros A ctx q l1 l2 H Hm k Hk. rewrite (H k Hk), alookup_app, (Hm k Hk). reflexivity. Qed.

Lemma agrees_drop_right : forall A (ctx : list (string * A)) q l1 l2,
  agrees ctx q (l1 ++ l2) -> misses q l2 -> agrees ctx q l1.
Proof.
  intros A ctx q l1 l2 H Hm k Hk. rewrite (H k Hk), alookup_app, (Hm k Hk).
  destruct (alookup k l1); reflexivity.
Qed.

Ltac peel_head H := apply agrees_drop_head in H; [ | slots; reflexivity ].
Ltac peel_left H := apply agrees_drop_left in H; [ | miss_tac ].
Ltac peel_right H := apply agrees_drop_right in H; [ | miss_tac ].

(* ------------------------------------------------------------------------- *)
(* 8. unfolding the metas of a tree gives the tree back                       *)

Ltac need_fuel fuel :=
  destruct fuel as [|fuel]; [ cbn [size_expr size_atom size_var] in *; lia | ].

Lemma unfold_cat :
  (forall e p ctx fuel, expr_ok e = true -> agrees ctx p (cat_expr p e) -> (size_expr e <= fuel)%nat ->
     unfold_expr ctx fuel p = Ok e) /\
  (forall a p ctx fuel, atom_ok a = true -> agrees ctx p (cat_atom p a) -> (size_atom a <= fuel)%nat ->
     unfold_atom ctx fuel p = Ok a) /\
  (forall v p ctx fuel, var_ok v = true -> agrees ctx p (cat_var p v) -> (size_var v <= fuel)%nat ->
     unfold_var ctx fuel p = Ok v) /\
  (forall l p ctx fuel, args_ok l = true -> agrees ctx p (cat_args p l) -> (size_args l <= fuel)%nat ->
     unfold_ids (unfold_expr ctx fuel) (ids_args p l) = Ok l).
Proof.
  apply syntax_mutind.
  - (* EAtom *)
    intros a IH p ctx fuel Hok H Hf. need_fuel fuel. cbn [expr_ok size_expr cat_expr] in *.
    rewrite unfold_expr_S, (find_self _ _ _ _ H). rewrite nonempty_app.
    pose proof (agrees_narrow _ _ _ "a" _ H) as H1. peel_head H1.
    rewrite (IH _ _ fuel Hok H1) by lia. reflexivity.
  - (* EParen *)
    intros neg e IH p ctx fuel Hok H Hf. need_fuel fuel. cbn [expr_ok size_expr cat_expr] in *.
    rewrite unfold_expr_S, (find_self _ _ _ _ H). cbn [nonempty]. rewrite nonempty_app.
    pose proof (agrees_narrow _ _ _ "s" _ H) as H1. peel_head H1.
    rewrite (IH _ _ fuel Hok H1) by lia. reflexivity.
  - (* EBin *)
    intros o l IHl r IHr p ctx fuel Hok H Hf. need_fuel fuel. cbn [expr_ok size_expr cat_expr] in *.
    apply andb_true_iff in Hok. destruct Hok as [Hl Hr].
    rewrite unfold_expr_S, (find_self _ _ _ _ H). cbn [nonempty]. rewrite !nonempty_app. cbn [andb].
    replace (op_of_code (op_code o)) with (Some o) by (destruct o; reflexivity).
    pose proof (agrees_narrow _ _ _ "l" _ H) as H1. peel_head H1. peel_right H1.
    pose proof (agrees_narrow _ _ _ "r" _ H) as H2. peel_head H2. peel_left H2.
    rewrite (IHl _ _ fuel Hl H1) by lia. cbn [rbind].
    rewrite (IHr _ _ fuel Hr H2) by lia. reflexivity.
  - (* AConst *)
    intros c p ctx fuel Hok H Hf. need_fuel fuel. cbn [atom_ok size_atom cat_atom] in *.
    rewrite unfold_atom_S, (find_self _ _ _ _ H). rewrite nonempty_app.
    lookup H. rewrite const_roundtrip by exact Hok. reflexivity.
  - (* AVar *)
    intros v IH p ctx fuel Hok H Hf. need_fuel fuel. cbn [atom_ok size_atom cat_atom] in *.
    rewrite unfold_atom_S, (find_self _ _ _ _ H). cbn [nonempty]. rewrite nonempty_app.
    pose proof (agrees_narrow _ _ _ "v" _ H) as H1. peel_head H1.
    rewrite (IH _ _ fuel Hok H1) by lia. reflexivity.
  - (* AFunc *)
    intros f args IH p ctx fuel Hok H Hf. need_fuel fuel. cbn [atom_ok size_atom cat_atom] in *.
    rewrite unfold_atom_S, (find_self _ _ _ _ H). cbn [nonempty negb]. rewrite nonempty_app.
    lookup H. lookup H.
    pose proof (agrees_narrow _ _ _ "k" _ H) as H1. peel_head H1. peel_head H1. peel_head H1.
    rewrite (IH _ _ fuel Hok H1) by lia. reflexivity.
  - (* AMethod *)
    intros a IHa f args IH p ctx fuel Hok H Hf. need_fuel fuel. cbn [atom_ok size_atom cat_atom] in *.
    apply andb_true_iff in Hok. destruct Hok as [Hoka Hokl].
    rewrite unfold_atom_S, (find_self _ _ _ _ H). cbn [nonempty negb]. rewrite !nonempty_app. cbn [negb andb].
    lookup H. lookup H.
    pose proof (agrees_narrow _ _ _ "x" _ H) as H1. peel_head H1. peel_head H1. peel_head H1. peel_right H1.
    pose proof (agrees_narrow _ _ _ "k" _ H) as H2. peel_head H2. peel_head H2. peel_head H2. peel_left H2.
    rewrite (IHa _ _ fuel Hoka H1) by lia. cbn [rbind].
    rewrite (IH _ _ fuel Hokl H2) by lia. reflexivity.
  - (* AMember *)
    intros a IHa n p ctx fuel Hok H Hf. need_fuel fuel. cbn [atom_ok size_atom cat_atom] in *.
    apply andb_true_iff in Hok. destruct Hok as [Hoka Hn].
    rewrite unfold_atom_S, (find_self _ _ _ _ H). cbn [nonempty negb]. rewrite !nonempty_app, Hn. cbn [negb andb].
    pose proof (agrees_narrow _ _ _ "x" _ H) as H1. peel_head H1.
    rewrite (IHa _ _ fuel Hoka H1) by lia. reflexivity.
  - (* ASel *)
    intros a IHa sel IHs p ctx fuel Hok H Hf. need_fuel fuel. cbn [atom_ok size_atom cat_atom] in *.
    apply andb_true_iff in Hok. destruct Hok as [Hoka Hoks].
    rewrite unfold_atom_S, (find_self _ _ _ _ H). cbn [nonempty negb]. rewrite !nonempty_app. cbn [negb andb].
    lookup H.
    pose proof (agrees_narrow _ _ _ "x" _ H) as H1. peel_head H1. peel_head H1. peel_right H1.
    pose proof (agrees_narrow _ _ _ "i" _ H) as H2. peel_head H2. peel_head H2. peel_left H2.
    rewrite (IHa _ _ fuel Hoka H1) by lia. cbn [rbind].
    rewrite (IHs _ _ fuel Hoks H2) by lia. reflexivity.
  - (* ANeg *)
    intros a IHa p ctx fuel Hok H Hf. need_fuel fuel. cbn [atom_ok size_atom cat_atom] in *.
    rewrite unfold_atom_S, (find_self _ _ _ _ H). cbn [nonempty negb]. rewrite !nonempty_app. cbn [negb andb].
    pose proof (agrees_narrow _ _ _ "x" _ H) as H1. peel_head H1.
    rewrite (IHa _ _ fuel Hok H1) by lia. reflexivity.
  - (* VName *)
    intros n p ctx fuel Hok H Hf. need_fuel fuel. cbn [var_ok size_var cat_var] in *.
    rewrite unfold_var_S, (find_self _ _ _ _ H). rewrite Hok. reflexivity.
  - (* VMember *)
    intros v IHv n p ctx fuel Hok H Hf. need_fuel fuel. cbn [var_ok size_var cat_var] in *.
    apply andb_true_iff in Hok. destruct Hok as [Hokv Hn].
    rewrite unfold_var_S, (find_self _ _ _ _ H). rewrite Hn, !nonempty_app. cbn [negb andb].
    pose proof (agrees_narrow _ _ _ "v" _ H) as H1. peel_head H1.
    rewrite (IHv _ _ fuel Hokv H1) by lia. reflexivity.
  - (* VSel *)
    intros v IHv sel IHs p ctx fuel Hok H Hf. need_fuel fuel. cbn [var_ok size_var cat_var] in *.
    apply andb_true_iff in Hok. destruct Hok as [Hokv Hoks].
    rewrite unfold_var_S, (find_self _ _ _ _ H). cbn [nonempty]. rewrite !nonempty_app. cbn [negb andb].
    lookup H.
    pose proof (agrees_narrow _ _ _ "v" _ H) as H1. peel_head H1. peel_head H1. peel_right H1.
    pose proof (agrees_narrow _ _ _ "i" _ H) as H2. peel_head H2. peel_head H2. peel_left H2.
    rewrite (IHv _ _ fuel Hokv H1) by lia. cbn [rbind].
    rewrite (IHs _ _ fuel Hoks H2) by lia. reflexivity.
  - (* ENil *)
    intros. reflexivity.
  - (* ECons *)
    intros e IHe l IHl p ctx fuel Hok H Hf. cbn [args_ok size_args cat_args ids_args unfold_ids] in *.
    apply andb_true_iff in Hok. destruct Hok as [Hoke Hokl].
    pose proof (agrees_narrow _ _ _ "h" _ H) as H1. peel_right H1.
    pose proof (agrees_narrow _ _ _ "t" _ H) as H2. peel_left H2.
    rewrite (IHe _ _ fuel Hoke H1) by lia. cbn [rbind].
    rewrite (IHl _ _ fuel Hokl H2) by lia. reflexivity.
Qed.

Definition unfold_expr_cat := proj1 unfold_cat.
Definition unfold_atom_cat := proj1 (proj2 unfold_cat).
Definition unfold_var_cat := proj1 (proj2 (proj2 unfold_cat)).

Definition cat_expr_size := proj1 cat_sizes.
Definition cat_atom_size := proj1 (proj2 cat_sizes).
Definition cat_var_size := proj1 (proj2 (proj2 cat_sizes)).

(* ------------------------------------------------------------------------- *)
(* 9. statements, rules, knowledge base                                       *)

Lemma asg_flags_inv : forall o, match asg_flags o with (a, pl, mi, d, mu) => asg_of_flags a pl mi d mu end = Some o.
Proof. destruct o; reflexivity. Qed.

Lemma unfold_stmt_cat : forall s p ctx fuel, stmt_ok s = true -> agrees ctx p (cat_stmt p s) ->
  (List.length (cat_stmt p s) <= fuel)%nat -> unfold_stmt ctx fuel p = Ok s.
Proof.
  destruct s as [x o e | a]; intros p ctx fuel Hok H Hf; unfold unfold_stmt; cbn [stmt_ok cat_stmt] in *.
  - apply andb_true_iff in Hok. destruct Hok as [Hx He].
    pose proof (asg_flags_inv o) as Ho.
    destruct (asg_flags o) as [[[[a pl] mi] d] mu].
    cbn [List.length] in Hf. rewrite app_length, cat_var_size, cat_expr_size in Hf.
    rewrite (find_self _ _ _ _ H). rewrite nonempty_app.
    lookup H. rewrite Ho.
    pose proof (agrees_narrow _ _ _ "v" _ H) as H1. peel_head H1. peel_head H1. peel_right H1.
    pose proof (agrees_narrow _ _ _ "e" _ H) as H2. peel_head H2. peel_head H2. peel_left H2.
    rewrite (unfold_var_cat _ _ _ fuel Hx H1) by lia. cbn [rbind].
    rewrite (unfold_expr_cat _ _ _ fuel He H2) by lia. reflexivity.
  - cbn [List.length] in Hf. rewrite cat_atom_size in Hf.
    rewrite (find_self _ _ _ _ H). cbn [nonempty]. rewrite nonempty_app.
    pose proof (agrees_narrow _ _ _ "x" _ H) as H1. peel_head H1.
    rewrite (unfold_atom_cat _ _ _ fuel Hok H1) by lia. reflexivity.
Qed.

Ltac miss_stmt :=
  repeat first
    [ apply misses_nil
    | eapply misses_disjoint; cycle 2;
        [ first [apply cat_expr_keys | apply cat_stmt_keys | apply cat_stmts_keys | apply cat_rule_keys | apply cat_rules_keys]
        | reflexivity | reflexivity ]
    | apply misses_cons; [ slots; reflexivity | ]
    | apply misses_app ].

Lemma unfold_stmts_cat : forall l p ctx fuel, forallb stmt_ok l = true -> agrees ctx p (cat_stmts p l) ->
  (List.length (cat_stmts p l) <= fuel)%nat -> unfold_stmts ctx fuel (ids_list p l) = Ok l.
Proof.
  induction l as [|s l IH]; intros p ctx fuel Hok H Hf; cbn [forallb cat_stmts ids_list unfold_stmts] in *; [reflexivity|].
  apply andb_true_iff in Hok. destruct Hok as [Hs Hl]. rewrite app_length in Hf.
  pose proof (agrees_narrow _ _ _ "h" _ H) as H1. apply agrees_drop_right in H1; [|miss_stmt].
  pose proof (agrees_narrow _ _ _ "t" _ H) as H2. apply agrees_drop_left in H2; [|miss_stmt].
  rewrite (unfold_stmt_cat _ _ _ fuel Hs H1) by lia. cbn [rbind].
  rewrite (IH _ _ fuel Hl H2) by lia. reflexivity.
Qed.

Lemma unfold_rule_cat : forall r p ctx fuel m rest, rule_ok r = true ->
  cat_rule p r = (p, m) :: rest -> agrees ctx p (cat_rule p r) ->
  (List.length (cat_rule p r) <= fuel)%nat -> unfold_rule ctx fuel m = Ok r.
Proof.
  intros r p ctx fuel m rest Hok E H Hf. unfold cat_rule in *. inversion E; subst; clear E.
  unfold rule_ok in Hok. apply andb_true_iff in Hok. destruct Hok as [Hw Ht].
  cbn [List.length] in Hf. rewrite app_length, cat_expr_size in Hf.
  unfold unfold_rule.
  lookup H. lookup H. lookup H.
  pose proof (agrees_narrow _ _ _ "e" _ H) as H1. do 4 (apply agrees_drop_head in H1; [|slots; reflexivity]).
  apply agrees_drop_right in H1; [|miss_stmt].
  pose proof (agrees_narrow _ _ _ "m" _ H) as H2. do 4 (apply agrees_drop_head in H2; [|slots; reflexivity]).
  apply agrees_drop_left in H2; [|miss_stmt].
  rewrite (unfold_expr_cat _ _ _ fuel Hw H1) by lia. cbn [rbind].
  rewrite (unfold_stmts_cat _ _ _ fuel Ht H2) by lia. cbn [rbind].
  destruct r; reflexivity.
Qed.

(* only the first meta of a rule's block is a RuleEntry *)
Definition is_rule_entry (m : meta) : bool := match m with MRuleEntry _ _ _ _ _ _ => true | _ => false end.
Definition no_rules (l : list (string * meta)) : Prop := Forall (fun e => is_rule_entry (snd e) = false) l.

Lemma no_rules_app : forall l1 l2, no_rules l1 -> no_rules l2 -> no_rules (l1 ++ l2).
Proof. intros. apply Forall_app. split; assumption. Qed.

Lemma no_rules_nil : no_rules [].
Proof. apply Forall_nil. Qed.
Lemma no_rules_cons : forall e l, is_rule_entry (snd e) = false -> no_rules l -> no_rules (e :: l).
Proof. intros. apply Forall_cons; assumption. Qed.

Ltac nr :=
  repeat first [ apply no_rules_nil | apply no_rules_cons; [reflexivity|] | apply no_rules_app
               | match goal with H : forall p, no_rules _ |- _ => apply H end ].

Lemma cat_no_rules :
  (forall e p, no_rules (cat_expr p e)) /\ (forall a p, no_rules (cat_atom p a)) /\
  (forall v p, no_rules (cat_var p v)) /\ (forall l p, no_rules (cat_args p l)).
Proof. apply syntax_mutind; intros; cbn [cat_expr cat_atom cat_var cat_args]; nr. Qed.

Lemma cat_stmts_no_rules : forall l p, no_rules (cat_stmts p l).
Proof.
  induction l as [|s l IH]; intros; cbn [cat_stmts]; [apply Forall_nil|].
  apply no_rules_app; [|apply IH].
  destruct cat_no_rules as [He [Ha [Hv _]]].
  destruct s as [x o e|a]; cbn [cat_stmt].
  - destruct (asg_flags o) as [[[[a pl] mi] d] mu].
    apply Forall_cons; [reflexivity|]. apply Forall_cons; [reflexivity|]. apply no_rules_app; [apply Hv | apply He].
  - apply Forall_cons; [reflexivity|]. apply Ha.
Qed.

Lemma unfold_rules_skip : forall ctx fuel l1 l2, no_rules l1 -> unfold_rules ctx fuel (l1 ++ l2) = unfold_rules ctx fuel l2.
Proof.
  induction l1 as [|[k m] l1 IH]; intros l2 H; [reflexivity|].
  inversion H; subst. cbn [app unfold_rules]. cbn [snd] in H2.
  destruct m; try discriminate; apply IH; assumption.
Qed.

Lemma unfold_rules_cat : forall rs p ctx fuel, rules_ok rs = true -> agrees ctx p (cat_rules p rs) ->
  (List.length (cat_rules p rs) <= fuel)%nat -> unfold_rules ctx fuel (cat_rules p rs) = Ok rs.
Proof.
  induction rs as [|r rs IH]; intros p ctx fuel Hok H Hf; cbn [rules_ok forallb cat_rules] in *; [reflexivity|].
  apply andb_true_iff in Hok. destruct Hok as [Hr Hrs]. rewrite app_length in Hf.
  pose proof (agrees_narrow _ _ _ "h" _ H) as H1. apply agrees_drop_right in H1; [|miss_stmt].
  pose proof (agrees_narrow _ _ _ "t" _ H) as H2. apply agrees_drop_left in H2; [|miss_stmt].
  remember (cat_rule (p ++ "h") r) as blk eqn:Eb.
  assert (Eb' := Eb). unfold cat_rule in Eb'.
  destruct blk as [|[k m] rest]; [discriminate|].
  inversion Eb'; subst k m. clear Eb'.
  cbn [app unfold_rules].
  rewrite (unfold_rule_cat r (p ++ "h") ctx fuel _ rest Hr (eq_sym Eb)); [| rewrite <- Eb; exact H1 | rewrite <- Eb; lia].
  cbn [rbind].
  rewrite unfold_rules_skip.
  2:{ destruct cat_no_rules as [He _]. apply no_rules_app; [apply He | apply cat_stmts_no_rules]. }
  rewrite (IH _ _ fuel Hrs H2) by lia. reflexivity.
Qed.

(* catalog -> rules is a left inverse of rules -> catalog *)
Theorem kb_of_catalog_of_kb : forall name version rs, rules_ok rs = true ->
  kb_of_catalog (catalog_of_kb name version rs) = Ok rs.
Proof.
  intros name version rs H. unfold kb_of_catalog, catalog_of_kb. cbn [c_data].
  apply unfold_rules_cat; [exact H | intros k _; reflexivity | lia].
Qed.

(* through the stream: store, load, rebuild *)
Theorem kb_roundtrip_through_stream : forall name version rs,
  rules_ok rs = true -> wf_catalog (catalog_of_kb name version rs) = true ->
  match decode (encode (catalog_of_kb name version rs)) with
  | Ok c => c_name c = name /\ c_version c = version /\ kb_of_catalog c = Ok rs
  | _ => False
  end.
Proof.
  intros name version rs Hok Hwf. rewrite codec_roundtrip by exact Hwf.
  split; [reflexivity|]. split; [reflexivity|]. apply kb_of_catalog_of_kb. exact Hok.
Qed.

Definition C12_kb_roundtrip_statement : Prop :=
  forall name version rs, rules_ok rs = true ->
    kb_of_catalog (catalog_of_kb name version rs) = Ok rs /\
    (wf_catalog (catalog_of_kb name version rs) = true ->
       match decode (encode (catalog_of_kb name version rs)) with
       | Ok c => c_name c = name /\ c_version c = version /\ kb_of_catalog c = Ok rs
       | _ => False
       end).
Theorem C12_kb_roundtrip_proved : C12_kb_roundtrip_statement.
Proof.
  intros name version rs H. split. apply kb_of_catalog_of_kb; auto. intros. apply kb_roundtrip_through_stream; auto.
Qed.

(* a rule set with every constructor of the syntax satisfies the side conditions *)
Definition example_rule : rule := {| rname := "R1"; rdesc := "every node kind"; rsal := (-7)%Z;
  rwhen := EBin OAnd (EBin OLT (EAtom (AMember (AMethod (AVar (VName "F")) "GetIn" ENil) "X")) (EAtom (AConst (CInt 3))))
             (EParen true (EBin OGTE (EAtom (ASel (AMethod (AVar (VName "F")) "GetArr" ENil) (EAtom (AConst (CInt 1)))))
                (EAtom (AFunc "Max" (ECons (EAtom (AConst (CFloat 4607182418800017408)))
                   (ECons (EAtom (AVar (VSel (VMember (VName "F") "M") (EAtom (AConst (CStr "a")))))) ENil))))));
  rthen := [SAssign (VMember (VName "F") "X") AsAdd (EAtom (AConst (CBool true)));
            SAtom (AFunc "Retract" (ECons (EAtom (AConst CNil)) ENil));
            SAtom (ANeg (AVar (VName "B")))] |}.

Example example_rules_ok :
  rules_ok [example_rule; example_rule] = true /\ wf_catalog (catalog_of_kb "K" "1" [example_rule; example_rule]) = true.
Proof. vm_compute. split; reflexivity. Qed.

(* ------------------------------------------------------------------------- *)
(* 10. a stream made by the model, handed to the real loader by the harness
   (tools/harness/c12vector.go holds the same hex text)                       *)
Definition vec_rule : rule := {| rname := "Vec"; rdesc := "model made"; rsal := (-3)%Z;
  rwhen := EBin OAnd (EBin OLT (EAtom (AMember (AMethod (AVar (VName "F")) "GetIn" ENil) "X")) (EAtom (AConst (CInt 3))))
             (EParen true (EBin OGTE (EAtom (ASel (AMethod (AVar (VName "F")) "GetArr" ENil) (EAtom (AConst (CInt 1)))))
                (EAtom (AFunc "Max" (ECons (EAtom (AConst (CFloat 4607182418800017408)))
                   (ECons (EAtom (AVar (VSel (VMember (VName "F") "M") (EAtom (AConst (CStr "a")))))) ENil))))));
  rthen := [SAssign (VMember (VName "F") "I64") AsAdd (EAtom (AConst (CInt 1)));
            SAtom (AFunc "Retract" (ECons (EAtom (AConst (CStr "Vec"))) ENil))] |}.

Definition hex_digit_of (n : N) : ascii := if (n <? 10)%N then ascii_of_N (48 + n) else ascii_of_N (87 + n).
Fixpoint hex_of_bytes (l : list byte) : string :=
  match l with
  | [] => EmptyString
  | b :: t => let n := N_of_ascii b in String (hex_digit_of (n / 16)) (String (hex_digit_of (n mod 16)) (hex_of_bytes t))
  end.

Definition model_vector_hex : list string := [
  "0300000000000000312e3807000000000000004d6f64656c4b420100000000000000373b000000000000000100000000";
  "0000006807000000000000000100000000000000680000000000000000e60100000000000052284e3a56656320444543";
  "3a226d6f64656c206d616465222053414c3a2d3320573a5753284528454c284528454c28452845412841284128412856";
  "284e3a4629292d3e46286e3a476574496e2c414c282929292d3e4d563a58292929293c45522845284541284128432869";
  "6e7436342d3e332929292929292926264552284528534528214528454c28452845412841284128412856284e3a462929";
  "2d3e46286e3a4765744172722c414c282929294128412856284e3a4629292d3e46286e3a4765744172722c414c282929";
  "292d5b5d3e4d415328452845412841284328696e7436342d3e312929292929292929293e3d4552284528454128412846";
  "286e3a4d61782c414c28452845412841284328666c6f617436342d3e3366663030303030303030303030303029292929";
  "2c4528454128412856284f3a56284f3a56284e3a46292d3e4d292d3e4d415328452845412841284328737472696e672d";
  "3e3122612229292929292929292929292929292929292929292920543a54532854454c2854452841532856284f3a5628";
  "4e3a46292d3e493634292b3d452845412841284328696e7436342d3e312929292929292c544528412846286e3a526574";
  "726163742c414c28452845412841284328737472696e672d3e332256656322292929292929292929297d290300000000";
  "0000005665630a000000000000006d6f64656c206d616465fdffffffffffffff02000000000000006877020000000000";
  "0000686e020000000000000068770c00000000000000020000000000000068774100000000000000462e476574496e28";
  "292e583c3326262128462e47657441727228295b315d3e3d4d6178283066336666303030303030303030303030302c46";
  "2e4d5b2261225d292953010000000000005753284528454c284528454c28452845412841284128412856284e3a462929";
  "2d3e46286e3a476574496e2c414c282929292d3e4d563a58292929293c455228452845412841284328696e7436342d3e";
  "332929292929292926264552284528534528214528454c28452845412841284128412856284e3a4629292d3e46286e3a";
  "4765744172722c414c282929294128412856284e3a4629292d3e46286e3a4765744172722c414c282929292d5b5d3e4d";
  "415328452845412841284328696e7436342d3e312929292929292929293e3d4552284528454128412846286e3a4d6178";
  "2c414c28452845412841284328666c6f617436342d3e33666630303030303030303030303030292929292c4528454128";
  "412856284f3a56284f3a56284e3a46292d3e4d292d3e4d415328452845412841284328737472696e672d3e3122612229";
  "2929292929292929292929292929292929292929020000000000000068650200000000000000686e0a00000000000000";
  "0200000000000000686e00000000000000006c0000000000000054532854454c2854452841532856284f3a56284e3a46";
  "292d3e493634292b3d452845412841284328696e7436342d3e312929292929292c544528412846286e3a526574726163";
  "742c414c28452845412841284328737472696e672d3e332256656322292929292929292929290200000000000000686f";
  "0200000000000000686f09000000000000000200000000000000686f0000000000000000680000000000000054454c28";
  "54452841532856284f3a56284e3a46292d3e493634292b3d452845412841284328696e7436342d3e312929292929292c";
  "544528412846286e3a526574726163742c414c28452845412841284328737472696e672d3e3322566563222929292929";
  "2929292902000000000000000300000000000000686d680400000000000000686d746802000000000000006865030000";
  "0000000000020000000000000068654100000000000000462e476574496e28292e583c3326262128462e476574417272";
  "28295b315d3e3d4d6178283066336666303030303030303030303030302c462e4d5b2261225d29294f01000000000000";
  "4528454c284528454c28452845412841284128412856284e3a4629292d3e46286e3a476574496e2c414c282929292d3e";
  "4d563a58292929293c455228452845412841284328696e7436342d3e3329292929292929262645522845285345282145";
  "28454c28452845412841284128412856284e3a4629292d3e46286e3a4765744172722c414c282929294128412856284e";
  "3a4629292d3e46286e3a4765744172722c414c282929292d5b5d3e4d415328452845412841284328696e7436342d3e31";
  "2929292929292929293e3d4552284528454128412846286e3a4d61782c414c28452845412841284328666c6f61743634";
  "2d3e33666630303030303030303030303030292929292c4528454128412856284f3a56284f3a56284e3a46292d3e4d29";
  "2d3e4d415328452845412841284328737472696e672d3e31226122292929292929292929292929292929292929292903";
  "0000000000000068656c0300000000000000686572000000000000000000000000000000000d00000000000000000300";
  "00000000000068656c0300000000000000030000000000000068656c0d00000000000000462e476574496e28292e583c";
  "334e000000000000004528454c28452845412841284128412856284e3a4629292d3e46286e3a476574496e2c414c2829";
  "29292d3e4d563a58292929293c455228452845412841284328696e7436342d3e33292929292929040000000000000068";
  "656c6c040000000000000068656c72000000000000000000000000000000000800000000000000000400000000000000";
  "68656c6c0300000000000000040000000000000068656c6c0b00000000000000462e476574496e28292e582d00000000";
  "000000452845412841284128412856284e3a4629292d3e46286e3a476574496e2c414c282929292d3e4d563a58292929";
  "000000000000000000000000000000000000000000000000050000000000000068656c6c610000000000000000000500";
  "00000000000068656c6c610500000000000000050000000000000068656c6c610b00000000000000462e476574496e28";
  "292e58260000000000000041284128412856284e3a4629292d3e46286e3a476574496e2c414c282929292d3e4d563a58";
  "2901000000000000005800000000000000000000000000000000000000000000000000060000000000000068656c6c61";
  "780000000000000000060000000000000068656c6c61780500000000000000060000000000000068656c6c6178090000";
  "0000000000462e476574496e28291d000000000000004128412856284e3a4629292d3e46286e3a476574496e2c414c28";
  "29292900000000000000000000000000000000070000000000000068656c6c6178660000000000000000000700000000";
  "00000068656c6c6178780000000000000000070000000000000068656c6c617866060000000000000007000000000000";
  "0068656c6c6178660700000000000000476574496e28290f0000000000000046286e3a476574496e2c414c2829290500";
  "000000000000476574496e070000000000000068656c6c617867070000000000000068656c6c61786700000000000000";
  "00070000000000000068656c6c61786700000000000000000400000000000000414c2829000000000000000007000000";
  "0000000068656c6c6178780500000000000000070000000000000068656c6c6178780100000000000000460900000000";
  "000000412856284e3a462929000000000000000000000000000000000000000000000000080000000000000068656c6c";
  "617878760000000000000000000000000000000000080000000000000068656c6c617878760b00000000000000080000";
  "000000000068656c6c61787876010000000000000046060000000000000056284e3a4629010000000000000046000000";
  "00000000000000000000000000040000000000000068656c720300000000000000040000000000000068656c72010000";
  "0000000000331500000000000000452845412841284328696e7436342d3e332929292900000000000000000000000000";
  "0000000000000000000000050000000000000068656c7261000000000000000000050000000000000068656c72610500";
  "000000000000050000000000000068656c72610100000000000000330e0000000000000041284328696e7436342d3e33";
  "29290000000000000000060000000000000068656c726163000000000000000000000000000000000000000000000000";
  "000000000000000000060000000000000068656c7261630400000000000000060000000000000068656c726163010000";
  "0000000000330b000000000000004328696e7436342d3e33290e00000000000000080000000000000003000000000000";
  "000003000000000000006865720300000000000000030000000000000068657232000000000000002128462e47657441";
  "727228295b315d3e3d4d6178283066336666303030303030303030303030302c462e4d5b2261225d2929f40000000000";
  "00004528534528214528454c28452845412841284128412856284e3a4629292d3e46286e3a4765744172722c414c2829";
  "29294128412856284e3a4629292d3e46286e3a4765744172722c414c282929292d5b5d3e4d4153284528454128412843";
  "28696e7436342d3e312929292929292929293e3d4552284528454128412846286e3a4d61782c414c2845284541284128";
  "4328666c6f617436342d3e33666630303030303030303030303030292929292c4528454128412856284f3a56284f3a56";
  "284e3a46292d3e4d292d3e4d415328452845412841284328737472696e672d3e31226122292929292929292929292929";
  "292929292929000000000000000000000000000000000400000000000000686572730000000000000000000000000000";
  "00000104000000000000006865727303000000000000000400000000000000686572732f00000000000000462e476574";
  "41727228295b315d3e3d4d6178283066336666303030303030303030303030302c462e4d5b2261225d29ec0000000000";
  "00004528454c28452845412841284128412856284e3a4629292d3e46286e3a4765744172722c414c2829292941284128";
  "56284e3a4629292d3e46286e3a4765744172722c414c282929292d5b5d3e4d415328452845412841284328696e743634";
  "2d3e312929292929292929293e3d4552284528454128412846286e3a4d61782c414c28452845412841284328666c6f61";
  "7436342d3e33666630303030303030303030303030292929292c4528454128412856284f3a56284f3a56284e3a46292d";
  "3e4d292d3e4d415328452845412841284328737472696e672d3e31226122292929292929292929292929292929290500";
  "000000000000686572736c05000000000000006865727372000000000000000000000000000000000900000000000000";
  "000500000000000000686572736c03000000000000000500000000000000686572736c0d00000000000000462e476574";
  "41727228295b315d6400000000000000452845412841284128412856284e3a4629292d3e46286e3a4765744172722c41";
  "4c282929294128412856284e3a4629292d3e46286e3a4765744172722c414c282929292d5b5d3e4d4153284528454128";
  "41284328696e7436342d3e31292929292929292900000000000000000000000000000000000000000000000006000000";
  "00000000686572736c610000000000000000000600000000000000686572736c61050000000000000006000000000000";
  "00686572736c610d00000000000000462e47657441727228295b315d5d0000000000000041284128412856284e3a4629";
  "292d3e46286e3a4765744172722c414c282929294128412856284e3a4629292d3e46286e3a4765744172722c414c2829";
  "29292d5b5d3e4d415328452845412841284328696e7436342d3e31292929292929000000000000000000000000000000";
  "0000000000000000000000000000000000000700000000000000686572736c61780700000000000000686572736c6173";
  "0700000000000000686572736c617301000000000000000700000000000000686572736c617303000000000000005b31";
  "5d1a000000000000004d415328452845412841284328696e7436342d3e3129292929290700000000000000686572736c";
  "61690700000000000000686572736c617805000000000000000700000000000000686572736c61780a00000000000000";
  "462e47657441727228291e000000000000004128412856284e3a4629292d3e46286e3a4765744172722c414c28292929";
  "000000000000000000000000000000000800000000000000686572736c61786600000000000000000008000000000000";
  "00686572736c61787800000000000000000800000000000000686572736c617866060000000000000008000000000000";
  "00686572736c61786608000000000000004765744172722829100000000000000046286e3a4765744172722c414c2829";
  "2906000000000000004765744172720800000000000000686572736c6178670800000000000000686572736c61786700";
  "000000000000000800000000000000686572736c61786700000000000000000400000000000000414c28290000000000";
  "0000000800000000000000686572736c61787805000000000000000800000000000000686572736c6178780100000000";
  "000000460900000000000000412856284e3a462929000000000000000000000000000000000000000000000000090000";
  "0000000000686572736c6178787600000000000000000000000000000000000900000000000000686572736c61787876";
  "0b000000000000000900000000000000686572736c61787876010000000000000046060000000000000056284e3a4629";
  "010000000000000046000000000000000000000000000000000700000000000000686572736c61690300000000000000";
  "0700000000000000686572736c61690100000000000000311500000000000000452845412841284328696e7436342d3e";
  "31292929290000000000000000000000000000000000000000000000000800000000000000686572736c616961000000";
  "0000000000000800000000000000686572736c61696105000000000000000800000000000000686572736c6169610100";
  "000000000000310e0000000000000041284328696e7436342d3e31292900000000000000000900000000000000686572";
  "736c61696163000000000000000000000000000000000000000000000000000000000000000000090000000000000068";
  "6572736c6169616304000000000000000900000000000000686572736c616961630100000000000000310b0000000000";
  "00004328696e7436342d3e31290e00000000000000080000000000000001000000000000000005000000000000006865";
  "72737203000000000000000500000000000000686572737220000000000000004d617828306633666630303030303030";
  "3030303030302c462e4d5b2261225d297b000000000000004528454128412846286e3a4d61782c414c28452845412841";
  "284328666c6f617436342d3e33666630303030303030303030303030292929292c4528454128412856284f3a56284f3a";
  "56284e3a46292d3e4d292d3e4d415328452845412841284328737472696e672d3e312261222929292929292929292929";
  "292929000000000000000000000000000000000000000000000000060000000000000068657273726100000000000000";
  "000006000000000000006865727372610500000000000000060000000000000068657273726120000000000000004d61";
  "78283066336666303030303030303030303030302c462e4d5b2261225d297400000000000000412846286e3a4d61782c";
  "414c28452845412841284328666c6f617436342d3e33666630303030303030303030303030292929292c452845412841";
  "2856284f3a56284f3a56284e3a46292d3e4d292d3e4d415328452845412841284328737472696e672d3e312261222929";
  "292929292929292929290000000000000000000000000000000007000000000000006865727372616600000000000000";
  "000000000000000000000000000000000000070000000000000068657273726166060000000000000007000000000000";
  "006865727372616620000000000000004d6178283066336666303030303030303030303030302c462e4d5b2261225d29";
  "710000000000000046286e3a4d61782c414c28452845412841284328666c6f617436342d3e3366663030303030303030";
  "3030303030292929292c4528454128412856284f3a56284f3a56284e3a46292d3e4d292d3e4d41532845284541284128";
  "4328737472696e672d3e31226122292929292929292929292903000000000000004d6178070000000000000068657273";
  "72616707000000000000006865727372616700000000000000000700000000000000686572737261671b000000000000";
  "003066336666303030303030303030303030302c462e4d5b2261225d6800000000000000414c28452845412841284328";
  "666c6f617436342d3e33666630303030303030303030303030292929292c4528454128412856284f3a56284f3a56284e";
  "3a46292d3e4d292d3e4d415328452845412841284328737472696e672d3e312261222929292929292929292902000000";
  "0000000008000000000000006865727372616b6809000000000000006865727372616b74680800000000000000686572";
  "7372616b68030000000000000008000000000000006865727372616b6812000000000000003066336666303030303030";
  "303030303030302600000000000000452845412841284328666c6f617436342d3e336666303030303030303030303030";
  "302929292900000000000000000000000000000000000000000000000009000000000000006865727372616b68610000";
  "0000000000000009000000000000006865727372616b6861050000000000000009000000000000006865727372616b68";
  "6112000000000000003066336666303030303030303030303030301f0000000000000041284328666c6f617436342d3e";
  "33666630303030303030303030303030292900000000000000000a000000000000006865727372616b68616300000000";
  "00000000000000000000000000000000000000000000000000000000000a000000000000006865727372616b68616304";
  "000000000000000a000000000000006865727372616b6861631200000000000000306633666630303030303030303030";
  "3030301c000000000000004328666c6f617436342d3e33666630303030303030303030303030290f0000000000000008";
  "00000000000000000000000000f03f0009000000000000006865727372616b7468030000000000000009000000000000";
  "006865727372616b74680800000000000000462e4d5b2261225d3d000000000000004528454128412856284f3a56284f";
  "3a56284e3a46292d3e4d292d3e4d415328452845412841284328737472696e672d3e3122612229292929292929292900";
  "00000000000000000000000000000000000000000000000a000000000000006865727372616b74686100000000000000";
  "00000a000000000000006865727372616b74686105000000000000000a000000000000006865727372616b7468610800";
  "000000000000462e4d5b2261225d3600000000000000412856284f3a56284f3a56284e3a46292d3e4d292d3e4d415328";
  "452845412841284328737472696e672d3e31226122292929292929290000000000000000000000000000000000000000";
  "000000000b000000000000006865727372616b7468617600000000000000000000000000000000000b00000000000000";
  "6865727372616b746861760b000000000000000b000000000000006865727372616b746861760800000000000000462e";
  "4d5b2261225d330000000000000056284f3a56284f3a56284e3a46292d3e4d292d3e4d41532845284541284128432873";
  "7472696e672d3e3122612229292929292900000000000000000c000000000000006865727372616b74686176760c0000";
  "00000000006865727372616b74686176730c000000000000006865727372616b746861767301000000000000000c0000";
  "00000000006865727372616b746861767305000000000000005b2261225d1e000000000000004d415328452845412841";
  "284328737472696e672d3e3122612229292929290c000000000000006865727372616b74686176690c00000000000000";
  "6865727372616b74686176760b000000000000000c000000000000006865727372616b74686176760300000000000000";
  "462e4d0e0000000000000056284f3a56284e3a46292d3e4d2901000000000000004d0d00000000000000686572737261";
  "6b74686176767600000000000000000d000000000000006865727372616b7468617676760b000000000000000d000000";
  "000000006865727372616b746861767676010000000000000046060000000000000056284e3a46290100000000000000";
  "46000000000000000000000000000000000c000000000000006865727372616b746861766903000000000000000c0000";
  "00000000006865727372616b746861766903000000000000002261221900000000000000452845412841284328737472";
  "696e672d3e31226122292929290000000000000000000000000000000000000000000000000d00000000000000686572";
  "7372616b7468617669610000000000000000000d000000000000006865727372616b7468617669610500000000000000";
  "0d000000000000006865727372616b746861766961030000000000000022612212000000000000004128432873747269";
  "6e672d3e31226122292900000000000000000e000000000000006865727372616b746861766961630000000000000000";
  "000000000000000000000000000000000000000000000000000e000000000000006865727372616b7468617669616304";
  "000000000000000e000000000000006865727372616b7468617669616303000000000000002261220f00000000000000";
  "4328737472696e672d3e31226122290d0000000000000009000000000000000100000000000000610003000000000000";
  "00686d6808000000000000000300000000000000686d6800000000000000002f0000000000000054452841532856284f";
  "3a56284e3a46292d3e493634292b3d452845412841284328696e7436342d3e312929292929290400000000000000686d";
  "687100000000000000000400000000000000686d687102000000000000000400000000000000686d6871080000000000";
  "0000462e4936342b3d3100000000000000000400000000000000686d68760400000000000000686d6865000100000004";
  "00000000000000686d68760b000000000000000400000000000000686d68760500000000000000462e49363410000000";
  "0000000056284f3a56284e3a46292d3e4936342903000000000000004936340500000000000000686d68767600000000";
  "000000000500000000000000686d6876760b000000000000000500000000000000686d68767601000000000000004606";
  "0000000000000056284e3a4629010000000000000046000000000000000000000000000000000400000000000000686d";
  "686503000000000000000400000000000000686d68650100000000000000311500000000000000452845412841284328";
  "696e7436342d3e31292929290000000000000000000000000000000000000000000000000500000000000000686d6865";
  "610000000000000000000500000000000000686d68656105000000000000000500000000000000686d68656101000000";
  "00000000310e0000000000000041284328696e7436342d3e31292900000000000000000600000000000000686d686561";
  "630000000000000000000000000000000000000000000000000000000000000000000600000000000000686d68656163";
  "04000000000000000600000000000000686d686561630100000000000000310b000000000000004328696e7436342d3e";
  "31290e0000000000000008000000000000000100000000000000000400000000000000686d7468080000000000000004";
  "00000000000000686d746800000000000000003300000000000000544528412846286e3a526574726163742c414c2845";
  "2845412841284328737472696e672d3e332256656322292929292929292900000000000000000500000000000000686d";
  "7468780500000000000000686d74687805000000000000000500000000000000686d7468780e00000000000000526574";
  "72616374282256656322292f00000000000000412846286e3a526574726163742c414c28452845412841284328737472";
  "696e672d3e33225665632229292929292929000000000000000000000000000000000600000000000000686d74687866";
  "000000000000000000000000000000000000000000000000000600000000000000686d74687866060000000000000006";
  "00000000000000686d746878660e0000000000000052657472616374282256656322292c0000000000000046286e3a52";
  "6574726163742c414c28452845412841284328737472696e672d3e332256656322292929292929070000000000000052";
  "6574726163740600000000000000686d746878670600000000000000686d746878670000000000000000060000000000";
  "0000686d74687867050000000000000022566563221f00000000000000414c28452845412841284328737472696e672d";
  "3e332256656322292929292901000000000000000700000000000000686d7468786b680700000000000000686d746878";
  "6b6803000000000000000700000000000000686d7468786b68050000000000000022566563221b000000000000004528";
  "45412841284328737472696e672d3e332256656322292929290000000000000000000000000000000000000000000000";
  "000800000000000000686d7468786b68610000000000000000000800000000000000686d7468786b6861050000000000";
  "00000800000000000000686d7468786b686105000000000000002256656322140000000000000041284328737472696e";
  "672d3e332256656322292900000000000000000900000000000000686d7468786b686163000000000000000000000000";
  "0000000000000000000000000000000000000000000900000000000000686d7468786b68616304000000000000000900";
  "000000000000686d7468786b6861630500000000000000225665632211000000000000004328737472696e672d3e3322";
  "56656322290d000000000000000b0000000000000003000000000000005665630007000000000000004d6f64656c4b42";
  "010000000000000037000000000000000000000000000000000000000000000000000000000000000000000000000000";
  "00"].

Example model_vector :
  hex_of_bytes (encode (catalog_of_kb "ModelKB" "7" [vec_rule])) = String.concat "" model_vector_hex /\
  rules_ok [vec_rule] = true.
Proof. vm_compute. split; reflexivity. Qed.

(* ------------------------------------------------------------------------- *)
(* 11. removed rules stay removed (engine commit 01c7ce8)                     *)

Lemma strip_prefix_app : forall p s, strip_prefix p (p ++ s)%string = Some s.
Proof. induction p; intros; cbn [append strip_prefix]; auto. rewrite Ascii.eqb_refl. apply IHp. Qed.

Lemma strip_prefix_some : forall p s r, strip_prefix p s = Some r -> s = (p ++ r)%string.
Proof.
  induction p; intros s r H; cbn [strip_prefix append] in *.
  - inversion H. reflexivity.
  - destruct s; [discriminate|]. destruct (Ascii.eqb_spec a a0); [|discriminate]. subst. f_equal. auto.
Qed.

(* the name RemoveRuleEntry gives a removed rule is recognised *)
Lemma tombstone_of_uuid : forall u, is_uuid u = true -> is_tombstone_name (tombstone_prefix ++ u)%string = true.
Proof. intros u H. unfold is_tombstone_name. rewrite strip_prefix_app. exact H. Qed.

Lemma no_dash_app : forall a b, no_dash (a ++ b)%string = true -> no_dash b = true.
Proof.
  induction a; intros b H; cbn [append no_dash] in *; auto.
  apply andb_true_iff in H. destruct H. auto.
Qed.

Lemma uuid_chars_no_dash : forall s k, uuid_chars k s = true -> no_dash s = true -> (k <= 8)%nat ->
  (String.length s + k <= 8)%nat.
Proof.
  induction s as [|c s IH].
  - intros k Hu Hn Hk. exact Hk.
  - intros k Hu Hn Hk. cbn [String.length]. cbn [uuid_chars no_dash] in Hu, Hn.
    apply andb_true_iff in Hu. destruct Hu as [Hc Hu]. apply andb_true_iff in Hn. destruct Hn as [Hd Hn].
    destruct (Nat.eqb k 8) eqn:E8.
    + cbn [orb] in Hc. rewrite Hc in Hd. discriminate.
    + assert (Hs : (S k <= 8)%nat).
      { destruct (Nat.le_gt_cases (S k) 8) as [Hle|Hgt]; [exact Hle|]. exfalso. apply Nat.eqb_neq in E8. apply E8. apply Nat.le_antisymm; [exact Hk | apply Nat.succ_le_mono; exact Hgt]. }
      specialize (IH (S k) Hu Hn Hs). rewrite Nat.add_succ_r in IH. exact IH.
Qed.

(* a name without '-' (every rule name of the grammar) is never a tombstone: built rules load as active *)
Lemma no_dash_not_tombstone : forall name, no_dash name = true -> is_tombstone_name name = false.
Proof.
  intros name H. unfold is_tombstone_name.
  destruct (strip_prefix tombstone_prefix name) as [rest|] eqn:E; [|reflexivity].
  apply strip_prefix_some in E. subst name. apply no_dash_app in H.
  unfold is_uuid. destruct (Nat.eqb_spec (String.length rest) uuid_length) as [Hl|]; [|reflexivity].
  destruct (uuid_chars 0 rest) eqn:Hu; [|reflexivity]. exfalso.
  pose proof (uuid_chars_no_dash rest 0 Hu H). unfold uuid_length in Hl. lia.
Qed.

Lemma entries_rebuild : forall es, entries_consistent es = true ->
  map (fun r => {| ke_rule := r; ke_deleted := is_tombstone_name (rname r) |}) (map ke_rule es) = es.
Proof.
  induction es as [|[r d] es IH]; intros H; cbn [map entries_consistent forallb] in *; [reflexivity|].
  apply andb_true_iff in H. destruct H as [He Hes]. unfold entry_consistent in He. cbn [ke_rule ke_deleted] in *.
  apply Bool.eqb_prop in He. rewrite <- He, IH by exact Hes. reflexivity.
Qed.

(* store, load: the same rules with the same flags *)
Theorem entries_of_catalog_of_entries : forall name version es,
  rules_ok (map ke_rule es) = true -> entries_consistent es = true ->
  entries_of_catalog (catalog_of_entries name version es) = Ok es.
Proof.
  intros name version es Hok Hc. unfold entries_of_catalog, catalog_of_entries.
  rewrite kb_of_catalog_of_kb by exact Hok. cbn [rbind]. rewrite entries_rebuild by exact Hc. reflexivity.
Qed.

(* removal keeps the invariant, so a knowledge base with removed rules round-trips as well *)
Lemma remove_rule_consistent : forall u name es, is_uuid u = true -> entries_consistent es = true ->
  entries_consistent (remove_rule u name es) = true.
Proof.
  intros u name es Hu. induction es as [|e es IH]; intros H; cbn [remove_rule entries_consistent forallb] in *; [reflexivity|].
  apply andb_true_iff in H. destruct H as [He Hes].
  destruct (String.eqb (rname (ke_rule e)) name).
  - cbn [forallb]. apply andb_true_iff. split; [|exact Hes].
    unfold entry_consistent. cbn [ke_rule ke_deleted rename_rule rname]. rewrite tombstone_of_uuid by exact Hu. reflexivity.
  - cbn [forallb]. apply andb_true_iff. split; [exact He | apply IH; exact Hes].
Qed.

Lemma remove_rule_ok : forall u name es, rules_ok (map ke_rule (remove_rule u name es)) = rules_ok (map ke_rule es).
Proof.
  intros u name. induction es as [|e es IH]; cbn [remove_rule map]; [reflexivity|].
  destruct (String.eqb (rname (ke_rule e)) name); cbn [map rules_ok forallb ke_rule].
  - reflexivity.
  - unfold rules_ok in IH. rewrite IH. reflexivity.
Qed.

Definition C12_removed_preserved_statement : Prop :=
  forall name version es, rules_ok (map ke_rule es) = true -> entries_consistent es = true ->
    (* the loaded knowledge base has the same rules with the same removed / active flags … *)
    entries_of_catalog (catalog_of_entries name version es) = Ok es /\
    (* … also through the stream, and therefore after any number of store / load generations *)
    (wf_catalog (catalog_of_entries name version es) = true ->
       match decode (encode (catalog_of_entries name version es)) with
       | Ok c => entries_of_catalog c = Ok es
       | _ => False
       end) /\
    (* removing a rule (fresh uuid u) gives a knowledge base that is again of this kind *)
    (forall u rule_name, is_uuid u = true ->
       entries_consistent (remove_rule u rule_name es) = true /\
       rules_ok (map ke_rule (remove_rule u rule_name es)) = true).
Theorem C12_removed_preserved_proved : C12_removed_preserved_statement.
Proof.
  intros name version es Hok Hc. split; [apply entries_of_catalog_of_entries; assumption|]. split.
  - intros Hwf. rewrite codec_roundtrip by exact Hwf. apply entries_of_catalog_of_entries; assumption.
  - intros u rn Hu. split; [apply remove_rule_consistent; assumption | rewrite remove_rule_ok; exact Hok].
Qed.

(* two rules, one removed under a uuid: stored, loaded, stored, loaded - flags [active; removed] *)
Definition example_entries : list kb_entry :=
  remove_rule "59c5857e-0237-4bb9-9d7f-e3651503ab8c" "Gone"
    [ {| ke_rule := example_rule; ke_deleted := false |};
      {| ke_rule := rename_rule "Gone" example_rule; ke_deleted := false |} ].

Example example_removed_roundtrip :
  entries_consistent example_entries = true /\
  map ke_deleted example_entries = [false; true] /\
  (do c <- decode (encode (catalog_of_entries "K" "1" example_entries));
   do es <- entries_of_catalog c;
   do c2 <- decode (encode (catalog_of_entries "K" "1" es));
   do es2 <- entries_of_catalog c2;
   Ok (map (fun e => (rname (ke_rule e), ke_deleted e)) es2)) =
  Ok [("R1", false); ("Deleted_59c5857e-0237-4bb9-9d7f-e3651503ab8c", true)].
Proof. vm_compute. repeat split; reflexivity. Qed.
