(* SnapContain.v — a node's snapshot contains the snapshot of every variable node below it
   (the easy direction of the invalidation index: whatever reads x through its own text is reset
   by an assignment to x). *)
From Grule Require Import Base Syntax OpsGen Snapshot Engine.
Open Scope string_scope.

(* ---- strings.Contains ---- *)
Lemma prefixb_app_self : forall t c, prefixb t (t ++ c) = true.
Proof. induction t as [|a t IH]; intros c; simpl; auto. rewrite Ascii.eqb_refl. apply IH. Qed.

Lemma containsb_here : forall t c, containsb (t ++ c) t = true.
Proof. intros t c. destruct (t ++ c) eqn:E; simpl; rewrite <- E, prefixb_app_self; reflexivity. Qed.

Lemma containsb_skip : forall a s t, containsb s t = true -> containsb (a ++ s) t = true.
Proof.
  induction a as [|ch a IH]; intros s t H; simpl; auto.
  destruct (prefixb t (String ch (a ++ s))); auto.
Qed.

Lemma containsb_extend : forall s c t, containsb s t = true -> containsb (s ++ c) t = true.
Proof.
  induction s as [|ch s IH]; intros c t H.
  - simpl in H. destruct (prefixb t "") eqn:P; try discriminate.
    destruct t; simpl in P; try discriminate. destruct c; reflexivity.
  - simpl in H. destruct (prefixb t (String ch s)) eqn:P.
    + assert (Hp: prefixb t (String ch s ++ c) = true).
      { clear H IH. revert P. generalize (String ch s) as u. induction t as [|a t IHt]; intros u P; simpl in *; auto.
        destruct u as [|b u]; try discriminate. simpl. destruct (Ascii.eqb a b); try discriminate. apply IHt. exact P. }
      simpl. simpl in Hp. rewrite Hp. reflexivity.
    + simpl. destruct (prefixb t (String ch (s ++ c))); auto.
Qed.

Lemma containsb_infix : forall a t c, containsb (a ++ t ++ c) t = true.
Proof. intros. apply containsb_skip. apply containsb_here. Qed.

Lemma containsb_inside : forall a s c t, containsb s t = true -> containsb (a ++ s ++ c) t = true.
Proof. intros. apply containsb_skip. apply containsb_extend. assumption. Qed.

Lemma append_assoc : forall a b c : string, (a ++ b) ++ c = a ++ b ++ c.
Proof. induction a as [|ch a IH]; intros; simpl; congruence. Qed.

(* ---- the continuation form is concatenation ---- *)
Lemma hexn_k : forall n b k, hexn n b k = hexn n b "" ++ k.
Proof.
  induction n as [|n IH]; intros b k; cbn [hexn]; [reflexivity|].
  rewrite (IH (b / 16)%Z (String (hex_digit (b mod 16)) k)), (IH (b / 16)%Z (String (hex_digit (b mod 16)) "")).
  rewrite append_assoc. reflexivity.
Qed.

Lemma snap_const_k : forall c k, snap_const c k = snap_const c "" ++ k.
Proof.
  intros [s|z|b|[]|] k; cbn [snap_const].
  - repeat (rewrite ?append_assoc; cbn [append]). reflexivity.
  - rewrite !append_assoc. reflexivity.
  - rewrite (hexn_k 16 b (String ")" k)), (hexn_k 16 b (String ")" "")). rewrite !append_assoc. reflexivity.
  - rewrite append_assoc. reflexivity.
  - rewrite append_assoc. reflexivity.
  - rewrite append_assoc. reflexivity.
Qed.

Ltac assoc := repeat (rewrite ?append_assoc; cbn [append]).

Lemma snap_k :
  (forall e k, snap_expr e k = snap_expr e "" ++ k) /\
  (forall a k, snap_atom a k = snap_atom a "" ++ k) /\
  (forall v k, snap_var v k = snap_var v "" ++ k) /\
  (forall l k, snap_tail l k = snap_tail l "" ++ k).
Proof.
  apply syntax_mutind.
  - intros a IH k. cbn [snap_expr]. rewrite (IH ("))" ++ k)), (IH ("))" ++ "")). assoc. reflexivity.
  - intros n e IH k. destruct n; cbn [snap_expr]; rewrite (IH ("))" ++ k)), (IH ("))" ++ "")); assoc; reflexivity.
  - intros o l IHl r IHr k. cbn [snap_expr].
    rewrite (IHl (String ")" (op_snapshot o ++ "ER(" ++ snap_expr r ("))" ++ k)))),
            (IHl (String ")" (op_snapshot o ++ "ER(" ++ snap_expr r ("))" ++ "")))).
    rewrite (IHr ("))" ++ k)), (IHr ("))" ++ "")). assoc. reflexivity.
  - intros c k. cbn [snap_atom]. rewrite (snap_const_k c (String ")" k)), (snap_const_k c (String ")" "")). assoc. reflexivity.
  - intros v IH k. cbn [snap_atom]. rewrite (IH (String ")" k)), (IH (String ")" "")). assoc. reflexivity.
  - intros f l IH k. cbn [snap_atom]. destruct l as [|e l'].
    + assoc. reflexivity.
    + (* the IH on (ECons e l') is about snap_tail: "," e tail *)
      pose proof (IH (")))" ++ k)) as H1. pose proof (IH (")))" ++ "")) as H2. cbn [snap_tail] in H1, H2.
      injection H1 as H1. injection H2 as H2. cbn [append] in *.
      rewrite H1, H2. assoc. reflexivity.
  - intros a IHa f l IHl k. cbn [snap_atom]. destruct l as [|e l'].
    + rewrite (IHa ("->F(n:" ++ f ++ String "," ("AL(" ++ ")))" ++ k))), (IHa ("->F(n:" ++ f ++ String "," ("AL(" ++ ")))" ++ ""))).
      assoc. reflexivity.
    + pose proof (IHl (")))" ++ k)) as H1. pose proof (IHl (")))" ++ "")) as H2. cbn [snap_tail] in H1, H2.
      injection H1 as H1. injection H2 as H2. cbn [append] in *.
      rewrite H1, H2. rewrite !(IHa (String "-" _)). assoc. reflexivity.
  - intros a IH n k. cbn [snap_atom]. rewrite (IH ("->MV:" ++ n ++ String ")" k)), (IH ("->MV:" ++ n ++ String ")" "")). assoc. reflexivity.
  - intros a IHa e IHe k. cbn [snap_atom].
    rewrite (IHa (snap_atom a ("-[]>MAS(" ++ snap_expr e ("))" ++ k)))), (IHa (snap_atom a ("-[]>MAS(" ++ snap_expr e ("))" ++ "")))).
    rewrite (IHa ("-[]>MAS(" ++ snap_expr e ("))" ++ k))), (IHa ("-[]>MAS(" ++ snap_expr e ("))" ++ ""))).
    rewrite (IHe ("))" ++ k)), (IHe ("))" ++ "")). assoc. reflexivity.
  - intros a IH k. cbn [snap_atom]. rewrite (IH (String ")" k)), (IH (String ")" "")). assoc. reflexivity.
  - intros n k. cbn [snap_var]. assoc. reflexivity.
  - intros v IH n k. cbn [snap_var]. rewrite (IH ("->" ++ n ++ String ")" k)), (IH ("->" ++ n ++ String ")" "")). assoc. reflexivity.
  - intros v IHv e IHe k. cbn [snap_var].
    rewrite (IHv ("->MAS(" ++ snap_expr e ("))" ++ k))), (IHv ("->MAS(" ++ snap_expr e ("))" ++ ""))).
    rewrite (IHe ("))" ++ k)), (IHe ("))" ++ "")). assoc. reflexivity.
  - intros k. reflexivity.
  - intros e IHe l IHl k. cbn [snap_tail]. rewrite (IHe (snap_tail l k)), (IHe (snap_tail l "")), (IHl k). assoc. reflexivity.
Qed.

Lemma snap_expr_k : forall e k, snap_expr e k = snap_expr e "" ++ k. Proof. apply snap_k. Qed.
Lemma snap_atom_k : forall a k, snap_atom a k = snap_atom a "" ++ k. Proof. apply snap_k. Qed.
Lemma snap_var_k : forall v k, snap_var v k = snap_var v "" ++ k. Proof. apply snap_k. Qed.
Lemma snap_tail_k : forall l k, snap_tail l k = snap_tail l "" ++ k. Proof. apply snap_k. Qed.

(* ---- every variable node below a node is inside its snapshot ---- *)
Section Contain.
Variable x : var.
Let sx := var_snapshot x.

Definition C_expr (e : expr) : Prop := In x (vars_expr e) -> forall k, containsb (snap_expr e k) sx = true.
Definition C_atom (a : atom) : Prop := In x (vars_atom a) -> forall k, containsb (snap_atom a k) sx = true.
Definition C_var (v : var) : Prop := In x (vars_var v) -> forall k, containsb (snap_var v k) sx = true.
Definition C_elist (l : elist) : Prop :=
  In x (vars_elist l) -> (forall k, containsb (snap_tail l k) sx = true) /\ (forall k, containsb (snap_args l k) sx = true).

Ltac skip_prefix := repeat (apply containsb_skip || (cbn [append]; apply (containsb_skip (String _ "")))).

Lemma var_self : forall v k, v = x -> containsb (snap_var v k) sx = true.
Proof. intros v k ->. rewrite snap_var_k. apply containsb_here. Qed.

Theorem vars_contained : (forall e, C_expr e) /\ (forall a, C_atom a) /\ (forall v, C_var v) /\ (forall l, C_elist l).
Proof.
  apply syntax_mutind; unfold C_expr, C_atom, C_var, C_elist.
  - intros a IH H k. cbn [snap_expr vars_expr] in *. apply containsb_skip. apply IH; exact H.
  - intros n e IH H k. cbn [vars_expr] in H. destruct n; cbn [snap_expr]; apply containsb_skip; apply IH; exact H.
  - intros o l IHl r IHr H k. cbn [snap_expr vars_expr] in *. apply in_app_or in H. apply containsb_skip.
    destruct H as [H|H].
    + apply IHl; exact H.
    + rewrite snap_expr_k. apply containsb_skip.
      apply (containsb_skip (String ")" "")). apply containsb_skip. apply containsb_skip. apply IHr; exact H.
  - intros c H. inversion H.
  - intros v IH H k. cbn [snap_atom vars_atom] in *. apply containsb_skip. apply IH; exact H.
  - intros f l IH H k. cbn [snap_atom vars_atom] in *. apply containsb_skip. apply containsb_skip.
    apply (containsb_skip (String "," "")). apply containsb_skip.
    destruct l as [|e l']; [inversion H|]. destruct (IH H) as [_ B]. apply (B (")))" ++ k)).
  - intros a IHa f l IHl H k. cbn [snap_atom vars_atom] in *. apply in_app_or in H. apply containsb_skip.
    destruct H as [H|H].
    + apply IHa; exact H.
    + rewrite snap_atom_k. apply containsb_skip. apply containsb_skip. apply containsb_skip.
      apply (containsb_skip (String "," "")). apply containsb_skip.
      destruct l as [|e l']; [inversion H|]. destruct (IHl H) as [_ B]. apply (B (")))" ++ k)).
  - intros a IH n H k. cbn [snap_atom vars_atom] in *. apply containsb_skip. apply IH; exact H.
  - intros a IHa e IHe H k. cbn [snap_atom vars_atom] in *. apply in_app_or in H. apply containsb_skip.
    destruct H as [H|H].
    + apply IHa; exact H.
    + rewrite snap_atom_k. apply containsb_skip. rewrite snap_atom_k. apply containsb_skip.
      apply containsb_skip. apply IHe; exact H.
  - intros a IH H k. cbn [snap_atom vars_atom] in *. apply containsb_skip. apply IH; exact H.
  - intros n H k. cbn [vars_var] in H. destruct H as [H|[]]. apply var_self. exact H.
  - intros v IH n H k. cbn [vars_var] in H. destruct H as [H|H]; [apply var_self; exact H|].
    cbn [snap_var]. apply containsb_skip. apply IH; exact H.
  - intros v IHv e IHe H k. cbn [vars_var] in H. destruct H as [H|H]; [apply var_self; exact H|].
    apply in_app_or in H. cbn [snap_var]. apply containsb_skip. destruct H as [H|H].
    + apply IHv; exact H.
    + rewrite snap_var_k. apply containsb_skip. apply containsb_skip. apply IHe; exact H.
  - intros H. inversion H.
  - intros e IHe l IHl H. cbn [vars_elist] in H. apply in_app_or in H. split; intros k.
    + cbn [snap_tail]. apply (containsb_skip (String "," "")). destruct H as [H|H].
      * apply IHe; exact H.
      * rewrite snap_expr_k. apply containsb_skip. destruct (IHl H) as [A _]. apply A.
    + cbn [snap_args]. destruct H as [H|H].
      * apply IHe; exact H.
      * rewrite snap_expr_k. apply containsb_skip. destruct (IHl H) as [A _]. apply A.
Qed.
End Contain.

Theorem expr_contains_its_vars : forall e x, In x (vars_expr e) -> containsb (expr_snapshot e) (var_snapshot x) = true.
Proof. intros e x H. destruct (vars_contained x) as (A & _). apply (A e H ""). Qed.
Theorem atom_contains_its_vars : forall a x, In x (vars_atom a) -> containsb (atom_snapshot a) (var_snapshot x) = true.
Proof. intros a x H. destruct (vars_contained x) as (_ & A & _). apply (A a H ""). Qed.
