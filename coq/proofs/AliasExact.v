(* AliasExact.v — on flat variables (names, members, literal selectors) the alias relation of WorkingMemory.ResetAssigned
   (Eval.may_alias, by access paths) is exact: two flat variables may alias if and only if they denote the same location,
   a member and a literal string key of the same name counting as one step.  So on flat rule sets an assignment forgets
   what was read through the assigned location (in any spelling) and below it, and nothing else (C13, "no
   over-invalidation"; the other direction - nothing stale survives - is the dependency hypothesis, Frame.v). *)
From Coq Require Import Lia.
From Grule Require Import Base Values Syntax Snapshot Printer Facts Eval Fresh MemoProofs MemoKeep Frame.
Open Scope Z_scope.

Definition norm_step (st : step) : pcomp :=
  match st with SField f => PField f | SKey k => PField k | SIndex i => PIndex i end.
Definition norm_path (p : path) : list pcomp := PName (p_root p) :: map norm_step (p_steps p).

Lemma apath_flat : forall x, flat_var x = true -> apath x = norm_path (spath x).
Proof.
  induction x as [n|x IH f|x IH sel]; intros Hf; cbn [flat_var] in Hf.
  - reflexivity.
  - cbn [apath spath]. rewrite (IH Hf). unfold norm_path, path_snoc. simpl. rewrite map_app. reflexivity.
  - apply andb_prop in Hf. destruct Hf as [Hx Hs].
    destruct sel as [[[k|i|fl|b|]|?|?|?|?|?|?]|?|?]; cbn [sel_step] in Hs; try discriminate;
      cbn [apath spath sel_step]; rewrite (IH Hx); unfold norm_path, path_snoc; simpl; rewrite map_app; reflexivity.
Qed.

Definition no_any (p : list pcomp) : Prop := Forall (fun c => c <> PAny) p.
Lemma norm_path_no_any : forall p, no_any (norm_path p).
Proof.
  intros p. unfold no_any, norm_path. constructor; [discriminate|].
  induction (p_steps p) as [|st l IH]; simpl; constructor; auto. destruct st; discriminate.
Qed.

Lemma paths_meet_exact : forall p q, no_any p -> no_any q -> (paths_meet p q = true <-> p = q).
Proof.
  induction p as [|a p IH]; intros q Hp Hq; destruct q as [|b q]; simpl; split; intros H; try discriminate; auto.
  - inversion Hp as [|? ? Ha Hp']; inversion Hq as [|? ? Hb Hq']; subst.
    apply andb_prop in H. destruct H as [H1 H2]. apply (IH q Hp' Hq') in H2. subst q. f_equal.
    destruct a, b; simpl in H1; try discriminate; try contradiction;
      try (apply String.eqb_eq in H1; subst; reflexivity); try (apply Z.eqb_eq in H1; subst; reflexivity).
  - inversion H; subst. inversion Hp as [|? ? Ha Hp']; subst.
    apply andb_true_intro. split; [|apply (IH q Hp' Hp'); reflexivity].
    destruct b; simpl; try contradiction; try apply String.eqb_refl; try apply Z.eqb_refl.
Qed.

(* two flat variables may alias exactly when they are different spellings of one location *)
Theorem alias_exact_on_flat : forall x y, flat_var x = true -> flat_var y = true ->
  (may_alias x y = true <-> (var_eqb y x = false /\ norm_path (spath x) = norm_path (spath y))).
Proof.
  intros x y Hx Hy. unfold may_alias. rewrite (apath_flat x Hx), (apath_flat y Hy).
  pose proof (paths_meet_exact _ _ (norm_path_no_any (spath x)) (norm_path_no_any (spath y))) as E.
  destruct (var_eqb y x); simpl; split.
  - discriminate.
  - intros [H _]. discriminate.
  - intros H. split; [reflexivity|]. apply E. exact H.
  - intros [_ H]. apply E. exact H.
Qed.

(* spellings exist: the member and the literal key of one location *)
Example two_spellings_one_location :
  may_alias (VMember (VMember (VName "J") "o") "k") (VSel (VMember (VName "J") "o") (EAtom (AConst (CStr "k")))) = true /\
  may_alias (VSel (VMember (VName "F") "Arr") (EAtom (AConst (CInt 0)))) (VSel (VMember (VName "F") "Arr") (EAtom (AConst (CInt 1)))) = false /\
  may_alias (VMember (VSel (VMember (VName "J") "oa") (EAtom (AVar (VName "I")))) "q") (VMember (VSel (VMember (VName "J") "oa") (EAtom (AConst (CInt 0)))) "q") = true.
Proof. vm_compute. repeat split; reflexivity. Qed.
