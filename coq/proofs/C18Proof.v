(* C18Proof.v — statements of the C18 theorems (closed in props/C18.v). *)
From Grule Require Import Base Values Syntax Lexer Parser GrlPrint EngineAbs Facts Eval Fresh Methods
  LexProofs ParserProofs JsonRule JsonProofs JsonParse.
Open Scope Z_scope.

(* ---- the statement of the property over typed JSON rules.  The decidable side
   condition wf_trule (JsonParse.v) demands nothing but
   - the shape every accepted rule has anyway: a name that is an identifier, a
     non-empty action list, "when" an operator object or a plain string, join
     operators with two or more operands ("not": one or more), and / or over two
     or more objects (the translator or the builder reject everything else:
     C18_malformed, C17_reject);
   - the spelling of plain strings: a plain-string operand is the canonical text of
     a well-formed atom, a plain-string condition that of a well-formed expression,
     a plain-string action that of a well-formed statement ending in ";";
   - the numeric ranges: salience within 32 bits, integer constants within 64;
   - and / or nested at most 1000 deep (the translator's own limit is 1024). ---- *)
Definition C18_main_statement : Prop :=
  forall r, wf_trule r = true ->
    exists text g, translate (rule_json r) = Ok text /\ parse_grl text = Ok [g] /\
      rname g = tname r /\ rdesc g = tdesc r /\ rsal g = tsal r /\
      (forall meth fx, fresh_expr meth fx (rwhen g) = fresh_expr meth fx (cond_tree (twhen r))) /\
      rthen g = map st_of (tthen r).

Lemma C18_main_proved : C18_main_statement.
Proof.
  intros r H. destruct (json_rule_parses r H) as [Ht Hp].
  exists (rule_text r), (rule_of r). repeat split; try assumption.
  intros meth fx. cbn [rule_of rwhen]. apply json_cond_sem.
Qed.

Example side_condition_nontrivial :
  wf_trule {| tname := "Discount"; tdesc := "ten percent for big orders"; tsal := 10;
              twhen := WTree (XOp JAnd (XCons
                         (XOp JGt (XCons (XOp JMul (XCons (XPlain (AVar (VMember (VName "F") "A")))
                                                     (XCons (XOp JMinus (XCons (XOp JPlus (XCons (XObj (AVar (VMember (VName "F") "B"))) (XCons (XConstN 2) XNil)))
                                                                         (XCons (XOp JPlus (XCons (XNum 3) (XCons (XCall (HMeth (AVar (VName "F")) "GetI64") XNil) XNil))) XNil))) XNil)))
                                        (XCons (XConstN 100) XNil)))
                         (XCons (XOp JNe (XCons (XOp JEq (XCons (XPlain (AVar (VMember (VName "F") "S"))) (XCons (XConstS "say ""hi""") XNil))) XNil))
                          (XCons (XOp JOr (XCons (XObj (AVar (VMember (VName "F") "B1"))) (XCons (XConstB false) XNil))) XNil))));
              tthen := [TSet (VMember (VName "F") "Total") true (XOp JMul (XCons (XPlain (AVar (VMember (VName "F") "Total"))) (XCons (XNum 9) XNil)));
                        TCall (HFun "Retract") (XCons (XConstS "Discount") XNil);
                        TPlain (SAssign (VMember (VName "F") "N") AsAdd (EAtom (AConst (CInt 1)))) true] |} = true.
Proof. vm_compute. reflexivity. Qed.

(* ---- malformed input is rejected (what is proved of it) ---- *)
Definition known_key (k : string) : bool :=
  mem_str k ["and"; "or"; "eq"; "not"; "gt"; "gte"; "lt"; "lte"; "bor"; "band"; "plus"; "minus"; "div"; "mul"; "mod";
             "set"; "call"; "obj"; "const"]%string.

Definition C18_malformed_statement : Prop :=
  (forall r, jname r = ""%string -> translate r = Err) /\
  (forall r, jwhen r = JNull -> translate r = Err) /\
  (forall r, (forall l, jthen r <> JArr l) -> translate r = Err) /\
  (forall d, bex (JObj []) d = Err) /\
  (forall a b l d, bex (JObj (a :: b :: l)) d = Err) /\
  (forall k v d, known_key k = false -> bex (JObj [(k, v)]) d = Err) /\
  (forall o d, bex (JObj [(jop_key o, JArr [])]) d = Err) /\
  (forall o x d, is_compound o = false -> o <> JNe -> bex (JObj [(jop_key o, JArr [x])]) d = Err) /\
  (forall o x d, is_compound o = true -> bex (JObj [(jop_key o, JArr [x])]) d = Err) /\
  (forall d, bex (JObj [("set"%string, JArr [])]) d = Err) /\
  (forall x d, bex (JObj [("set"%string, JArr [x])]) d = Err) /\
  (forall x y z l d, bex (JObj [("set"%string, JArr (x :: y :: z :: l))]) d = Err) /\
  (forall d, bex (JObj [("call"%string, JArr [])]) d = Err).

Lemma C18_malformed_proved : C18_malformed_statement.
Proof.
  repeat split.
  - intros r H. unfold translate. rewrite H. reflexivity.
  - intros r H. unfold translate. rewrite H. destruct (String.eqb (jname r) ""); reflexivity.
  - intros r H. unfold translate. destruct (String.eqb (jname r) ""); [reflexivity|].
    destruct (jwhen r); try reflexivity; destruct (jthen r); try reflexivity; exfalso; eapply H; reflexivity.
  - intros d. cbn [bex]. destruct (1024 <? d); reflexivity.
  - intros a b l d. cbn [bex]. destruct (1024 <? d); destruct a; reflexivity.
  - intros k v d H. unfold known_key in H. cbn [mem_str] in H.
    repeat (apply orb_false_iff in H as [?E H]).
    cbn [bex]. destruct (1024 <? d); [reflexivity|].
    rewrite E, E0. cbn [orb]. cbn [join_ops alookup]. rewrite E1, E2, E3, E4, E5, E6, E7, E8, E9, E10, E11, E12, E13.
    rewrite E14, E15, E16, E17. reflexivity.
  - intros o d. destruct o; cbn [bex]; destruct (1024 <? d); reflexivity.
  - intros o x d Hc Hn. destruct o; try discriminate; try congruence; cbn [bex]; destruct (1024 <? d); reflexivity.
  - intros o x d H. destruct o; try discriminate; cbn [bex]; destruct (1024 <? d); reflexivity.
  - intros d. cbn [bex]. destruct (1024 <? d); reflexivity.
  - intros x d. cbn [bex]. destruct (1024 <? d); reflexivity.
  - intros x y z l d. cbn [bex]. destruct (1024 <? d); reflexivity.
  - intros d. cbn [bex]. destruct (1024 <? d); reflexivity.
Qed.

(* string constants round-trip exactly, whatever bytes they contain *)
Definition C18_string_statement : Prop :=
  (forall s, unquote true (quote_body s) = Some s) /\
  (forall s d, 0 <= d <= 1024 -> bex (JObj [("const"%string, JStr s)]) d = Ok (quote s, true)).

Lemma C18_string_proved : C18_string_statement.
Proof.
  split; [exact unquote_quote_body|]. intros s d H. cbn [bex]. destruct (Z.ltb_spec 1024 d); [lia|reflexivity].
Qed.
