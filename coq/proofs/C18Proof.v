(* C18Proof.v — statements of the C18 theorems (closed in props/C18.v). *)
From Grule Require Import Base Values Syntax Lexer Parser GrlPrint EngineAbs Facts Eval Fresh Methods
  LexProofs ParserProofs JsonRule JsonProofs JsonParse.
Open Scope Z_scope.

Lemma wfj_sem_ok : (forall x, wfj x = true -> sem_ok x = true) /\ (forall l, wfjs l = true -> sem_oks l = true).
Proof.
  apply jx_mutind; intros; cbn [wfj wfjs sem_ok sem_oks] in *; try reflexivity.
  - apply andb_true_iff in H0 as [H0 Hs]. apply andb_true_iff in H0 as [Hl _]. rewrite (H Hl). cbn [andb].
    destruct o; try reflexivity. cbn [is_compound] in Hs.
    apply orb_true_iff in Hs as [Hs|Hs]; apply andb_true_iff in Hs as [A B].
    + apply Nat.eqb_eq in A. rewrite A. reflexivity.
    + rewrite B. apply orb_true_r.
  - apply andb_true_iff in H0 as [_ Hl]. auto.
  - apply andb_true_iff in H1 as [Hx Hl]. rewrite (H Hx), (H0 Hl). reflexivity.
Qed.

(* ------------------------------------------------------------------------ *)
(* the statement the property asks for, over typed JSON rules *)

Definition same_rule (meth : list (string * fval) -> string -> list val -> res (option val * list (string * fval)))
  (r : trule) (g : rule) : Prop :=
  rname g = tname r /\ rdesc g = tdesc r /\ rsal g = tsal r /\
  (forall fx, fresh_expr meth fx (rwhen g) = fresh_expr meth fx (cond_tree (twhen r))) /\
  rthen g = map st_of (tthen r).

(* FULL: every typed JSON rule the translator accepts denotes the same rule *)
Definition C18_statement : Prop :=
  forall r text, translate (rule_json r) = Ok text ->
    exists g, parse_grl text = Ok [g] /\ same_rule fact_meth r g.

(* malformed rules are rejected: in particular a binary operator with one operand *)
Definition C18_arity_statement : Prop :=
  forall r o x, is_compound o = false -> is_objx x = false ->
    twhen r = WTree (XOp o (XCons x XNil)) -> translate (rule_json r) = Err.

(* ---- the witnesses of the findings ---- *)
Definition call_complete : jst := TCall (HFun "Complete") XNil.
Definition one_eq_one : jx := XOp JEq (XCons (XNum 1) (XCons (XNum 1) XNil)).

(* D12: the description arrives escaped *)
Definition d12_rule : trule :=
  {| tname := "R"; tdesc := "say ""hi"""; tsal := 0; twhen := WTree one_eq_one; tthen := [call_complete] |}.
(* D13: a two-operand "not" over an operator object *)
Definition d13_rule : trule :=
  {| tname := "R"; tdesc := ""; tsal := 0;
     twhen := WTree (XOp JNe (XCons one_eq_one (XCons (XBool true) XNil))); tthen := [call_complete] |}.
(* D14: a binary operator with one operand *)
Definition d14_rule : trule :=
  {| tname := "R"; tdesc := ""; tsal := 0;
     twhen := WTree (XOp JEq (XCons (XBool true) XNil)); tthen := [call_complete] |}.

Lemma d12_facts : wf_trule d12_rule = true /\ rdesc (rule_of d12_rule) <> tdesc d12_rule.
Proof. split; [vm_compute; reflexivity|vm_compute; discriminate]. Qed.

Lemma C18_statement_refuted_by_description : ~ C18_statement.
Proof.
  intros H. destruct d12_facts as [Hwf Hd]. destruct (json_rule_parses d12_rule Hwf) as [Ht Hp].
  destruct (H d12_rule _ Ht) as (g & Hg & _ & Hdesc & _). rewrite Hp in Hg. inversion Hg; subst g.
  apply Hd. exact Hdesc.
Qed.

Lemma d13_facts :
  exists text g, translate (rule_json d13_rule) = Ok text /\ parse_grl text = Ok [g] /\
    fresh_expr fact_meth [] (rwhen g) <> fresh_expr fact_meth [] (cond_tree (twhen d13_rule)).
Proof.
  eexists. eexists. split; [vm_compute; reflexivity|]. split; [vm_compute; reflexivity|].
  vm_compute. discriminate.
Qed.

Lemma C18_statement_refuted_by_not : ~ C18_statement.
Proof.
  intros H. destruct d13_facts as (text & g & Ht & Hp & Hne).
  destruct (H d13_rule text Ht) as (g' & Hg & _ & _ & _ & Hsem & _). rewrite Hp in Hg. inversion Hg; subst g'.
  apply Hne. apply Hsem.
Qed.

Lemma C18_arity_refuted : ~ C18_arity_statement.
Proof.
  intros H. specialize (H d14_rule JEq (XBool true) eq_refl eq_refl eq_refl). vm_compute in H. discriminate.
Qed.

(* ---- PARTIAL: the same statement under the decidable side condition wf_trule
   (JsonParse.v), which excludes exactly: a join operator with one operand (D14),
   a "not" with several operands one of which is an operator object (D13), and / or
   nested deeper than 1000; plain-string operands are the canonical text of a
   well-formed atom; plain-string actions end in ";".  The description is
   compared modulo the escaping the listener does not undo (D12). ---- *)
Definition C18_partial_statement : Prop :=
  forall r, wf_trule r = true ->
    exists text g, translate (rule_json r) = Ok text /\ parse_grl text = Ok [g] /\
      rname g = tname r /\ rdesc g = quote_body (tdesc r) /\ rsal g = tsal r /\
      (forall meth fx, fresh_expr meth fx (rwhen g) = fresh_expr meth fx (cond_tree (twhen r))) /\
      rthen g = map st_of (tthen r).

Lemma C18_partial_proved : C18_partial_statement.
Proof.
  intros r H. destruct (json_rule_parses r H) as [Ht Hp].
  exists (rule_text r), (rule_of r). repeat split; try assumption.
  intros meth fx. cbn [rule_of rwhen]. apply json_cond_sem.
  unfold wf_trule in H. repeat (apply andb_true_iff in H as [H ?]).
  destruct (twhen r) as [e|x]; [reflexivity|]. cbn [wf_jcond] in H2. apply andb_true_iff in H2 as [Hw _].
  apply (proj1 wfj_sem_ok x Hw).
Qed.

(* descriptions that need no escaping are stored exactly *)
Lemma C18_description_plain : forall r, wf_trule r = true -> quote_body (tdesc r) = tdesc r ->
  exists text g, translate (rule_json r) = Ok text /\ parse_grl text = Ok [g] /\ rdesc g = tdesc r.
Proof.
  intros r H E. destruct (C18_partial_proved r H) as (text & g & Ht & Hp & _ & Hd & _).
  exists text, g. rewrite Hd, E. auto.
Qed.

Example partial_side_condition_nontrivial :
  wf_trule {| tname := "Discount"; tdesc := "ten percent for big orders"; tsal := 10;
              twhen := WTree (XOp JAnd (XCons
                         (XOp JGt (XCons (XOp JMul (XCons (XPlain (AVar (VMember (VName "F") "A")))
                                                     (XCons (XOp JMinus (XCons (XOp JPlus (XCons (XObj (AVar (VMember (VName "F") "B"))) (XCons (XConstN 2) XNil)))
                                                                         (XCons (XOp JPlus (XCons (XNum 3) (XCons (XCall (HMeth (AVar (VName "F")) "GetI64") XNil) XNil))) XNil))) XNil)))
                                        (XCons (XConstN 100) XNil)))
                         (XCons (XOp JNe (XCons (XOp JEq (XCons (XPlain (AVar (VMember (VName "F") "S"))) (XCons (XConstS "say ""hi""") XNil))) XNil))
                          (XCons (XOp JOr (XCons (XObj (AVar (VMember (VName "F") "B1"))) (XCons (XConstB false) XNil))) XNil))));
              tthen := [TSet (VMember (VName "F") "Total") true (XOp JMul (XCons (XPlain (AVar (VMember (VName "F") "Total"))) (XCons (XNum 9) XNil)));
                        TCall (HFun "Retract") (XCons (XConstS "Discount") XNil);
                        TPlain (SAssign (VMember (VName "F") "N") AsAdd (EAtom (AConst (CInt 1)))) true] |} = true.
Proof. vm_compute. reflexivity. Qed.

(* ---- malformed input is rejected (what is proved of it) ---- *)
Definition known_key (k : string) : bool :=
  mem_str k ["and"; "or"; "eq"; "not"; "gt"; "gte"; "lt"; "lte"; "bor"; "band"; "plus"; "minus"; "div"; "mul"; "mod";
             "set"; "call"; "obj"; "const"]%string.

Definition C18_malformed_statement : Prop :=
  (forall r, jname r = ""%string -> translate r = Err) /\
  (forall r, jwhen r = JNull -> translate r = Err) /\
  (forall r, (forall l, jthen r <> JArr l) -> translate r = Err) /\
  (forall d, bex (JObj []) d = Err) /\
  (forall a b l d, bex (JObj (a :: b :: l)) d = Err) /\
  (forall k v d, known_key k = false -> bex (JObj [(k, v)]) d = Err) /\
  (forall o d, bex (JObj [(jop_key o, JArr [])]) d = Err) /\
  (forall o x d, is_compound o = true -> bex (JObj [(jop_key o, JArr [x])]) d = Err) /\
  (forall d, bex (JObj [("set"%string, JArr [])]) d = Err) /\
  (forall x d, bex (JObj [("set"%string, JArr [x])]) d = Err) /\
  (forall x y z l d, bex (JObj [("set"%string, JArr (x :: y :: z :: l))]) d = Err) /\
  (forall d, bex (JObj [("call"%string, JArr [])]) d = Err).

Lemma C18_malformed_proved : C18_malformed_statement.
Proof.
  repeat split.
  - intros r H. unfold translate. rewrite H. reflexivity.
  - intros r H. unfold translate. rewrite H. destruct (String.eqb (jname r) ""); reflexivity.
  - intros r H. unfold translate. destruct (String.eqb (jname r) ""); [reflexivity|].
    destruct (jwhen r); try reflexivity; destruct (jthen r); try reflexivity; exfalso; eapply H; reflexivity.
  - intros d. cbn [bex]. destruct (1024 <? d); reflexivity.
  - intros a b l d. cbn [bex]. destruct (1024 <? d); destruct a; reflexivity.
  - intros k v d H. unfold known_key in H. cbn [mem_str] in H.
    repeat (apply orb_false_iff in H as [?E H]).
    cbn [bex]. destruct (1024 <? d); [reflexivity|].
    rewrite E, E0. cbn [orb]. cbn [join_ops alookup]. rewrite E1, E2, E3, E4, E5, E6, E7, E8, E9, E10, E11, E12, E13.
    rewrite E14, E15, E16, E17. reflexivity.
  - intros o d. destruct o; cbn [bex]; destruct (1024 <? d); reflexivity.
  - intros o x d H. destruct o; try discriminate; cbn [bex]; destruct (1024 <? d); reflexivity.
  - intros d. cbn [bex]. destruct (1024 <? d); reflexivity.
  - intros x d. cbn [bex]. destruct (1024 <? d); reflexivity.
  - intros x y z l d. cbn [bex]. destruct (1024 <? d); reflexivity.
  - intros d. cbn [bex]. destruct (1024 <? d); reflexivity.
Qed.

(* string constants round-trip exactly, whatever bytes they contain *)
Definition C18_string_statement : Prop :=
  (forall s, unquote true (quote_body s) = Some s) /\
  (forall s d, 0 <= d <= 1024 -> bex (JObj [("const"%string, JStr s)]) d = Ok (quote s, true)).

Lemma C18_string_proved : C18_string_statement.
Proof.
  split; [exact unquote_quote_body|]. intros s d H. cbn [bex]. destruct (Z.ltb_spec 1024 d); [lia|reflexivity].
Qed.
