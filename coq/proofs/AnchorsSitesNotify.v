(* Site inventory anchor (notify): the three listener notifications sit in ExecuteWithContext only.
   The expected list below is what the hand-written model was written against;
   tools/go2coq regenerates SitesGen.sites_notify from /repo on every run. *)
From Grule Require Import Base SitesGen.
Open Scope string_scope.

Lemma sites_notify_ok : sites_notify = [
  ("engine/GruleEngine.ExecuteWithContext", "notifyBeginCycle", 1%nat);
  ("engine/GruleEngine.ExecuteWithContext", "notifyEvaluateRuleEntry", 1%nat);
  ("engine/GruleEngine.ExecuteWithContext", "notifyExecuteRuleEntry", 1%nat)].
Proof. reflexivity. Qed.
