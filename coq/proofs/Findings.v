(* Findings.v — the dependency hypothesis of the refinement theorem cannot be dropped:
   witnesses D3 (element read through a computed selector, written through a constant one)
   and D2 (method reading an assigned field through its receiver), run on the IMPL-MODEL.
   The same scenarios fail on the real engine (tools/harness/regress.go, known_findings.json). *)
From Grule Require Import Base Values Syntax EngineGen EngineAbs Facts Eval Fresh Engine Methods
     EngineProofs StateTrack Refinement RefineTheorems.
Open Scope Z_scope.

Definition nometh : list (string * fval) -> string -> list val -> res (option val * list (string * fval)) := fun _ _ _ => Err.
Definition nopanic : string -> list val -> bool := fun _ _ => false.
Definition nomut : string -> bool := fun _ => false.

Definition d3_rules : list rule :=
  [{| rname := "R0"%string; rdesc := "d3"%string; rsal := 0;
      rwhen := EBin OLT (EAtom (AVar (VSel (VMember (VName "F"%string) "Arr"%string) (EAtom (AVar (VMember (VName "F"%string) "I"%string))))))
                        (EAtom (AConst (CInt 3)));
      rthen := [SAssign (VSel (VMember (VName "F"%string) "Arr"%string) (EAtom (AConst (CInt 0)))) AsSet
                        (EBin OAdd (EAtom (AVar (VSel (VMember (VName "F"%string) "Arr"%string) (EAtom (AConst (CInt 0))))))
                                   (EAtom (AConst (CInt 1))))] |}].
Definition d3_facts : facts :=
  [("F"%string, FPtr (Some (FStruct [("I"%string, FV (VInt Iw 0));
                                       ("Arr"%string, FSlice [FV (VInt I64 0); FV (VInt I64 1); FV (VInt I64 2)])])))].
Definition d3_entries : list entry :=
  [{| e_key := "R0"%string; e_name := "R0"%string; e_sal := 0; e_retracted := false; e_deleted := false |}].
Definition d3_cfg : config := {| c_max := 6; c_reterr := false; c_cancel := None |}.

Definition d3_run :=
  execute estate (rule_cond (vars_rules d3_rules) nometh nopanic d3_rules) (rule_act (vars_rules d3_rules) nometh nopanic d3_rules)
          reset_all 10%nat d3_cfg (fun _ l => l) (init_estate d3_facts) d3_entries.
Definition d3_recs : list cycle_rec := Eval vm_compute in snd (fst d3_run).

Lemma d3_rules_ok : rules_ok d3_rules nomut.
Proof. intros r [<-|[]]. split; [reflexivity|]. repeat constructor. Qed.

Definition d3_pre : list cycle_rec := Eval vm_compute in firstn 3 d3_recs.
Definition d3_post : list cycle_rec := Eval vm_compute in skipn 4 d3_recs.
Definition d3_r : cycle_rec :=
  Eval vm_compute in nth 3 d3_recs {| cr_begin := 0; cr_evals := []; cr_exec := None; cr_started := false; cr_fx := []; cr_act_chk := 0 |}.
Definition d3_facts_then : facts := Eval vm_compute in facts_after d3_rules nometh d3_facts d3_pre.

(* C01 as stated in RefineTheorems.v, but without the dependency hypothesis, is false of the faithful model:
   the fourth cycle fires R0 although its condition, evaluated from scratch on the facts of that moment, is false *)
Theorem C01_without_dependency_hypothesis_refuted :
  rules_ok d3_rules nomut /\ NoDup (map e_key d3_entries) /\
  snd (fst d3_run) = d3_recs /\
  exists pre r post n k, d3_recs = (pre ++ r :: post)%list /\ cr_exec r = Some (n, k) /\ cr_started r = true /\
    when_from_scratch d3_rules nometh (facts_after d3_rules nometh d3_facts pre) k = CFalse.
Proof.
  split; [exact d3_rules_ok|]. split; [repeat constructor; simpl; tauto|].
  split; [vm_compute; reflexivity|].
  exists d3_pre, d3_r, d3_post, 4, "R0"%string.
  split; [reflexivity|]. split; [reflexivity|]. split; [reflexivity|].
  change (facts_after d3_rules nometh d3_facts d3_pre) with d3_facts_then.
  vm_compute. reflexivity.
Qed.

Definition d3_sf := Eval vm_compute in fst (fst d3_run).
Definition d3_o := Eval vm_compute in snd d3_run.
Lemma d3_run_eq : d3_run = (d3_sf, d3_recs, d3_o).
Proof. vm_compute. reflexivity. Qed.

(* Together with C01_proved (RefineTheorems.v) this shows that d3_rules does not satisfy the dependency
   hypothesis: the hypothesis is a genuine restriction on rule sets, and it is exactly the recorded
   findings D2/D3 that fall outside it. *)
